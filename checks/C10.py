"""C10 — Drain honours PDBs, do-not-disrupt and ordering until the deadline.

Closed model Drain.tla (drain pass with deadline split + tiers, eviction queue with earliest-deadline entries,
eviction outcomes, direct delete with clamped grace) checked by TLC; behaviours (TLC simulation over the archetype
alphabet + a decision-table sweep of pod mixes x TGP x clock positions around `deadline - grace` and `deadline`) are
replayed on the real Terminator.Drain / Queue.Reconcile (through the node termination controller); every eviction,
pod delete (with grace) and queue projection is judged by Termination_Trace.tla."""
import json
import vlib
from checks import termination_common as tc

NSIM = {"quick": (60, 400), "thorough": (1500, 12000)}
WEAK = {"Drain_WeakLater.cfg": "Inv_C10_Guards", "Drain_WeakTiers.cfg": "Inv_C10_Guards", "Drain_WeakGrace.cfg": "Inv_C10_Guards",
        "Drain_WeakDnd.cfg": "Inv_C10_Guards", "Drain_WeakThreshold.cfg": "Inv_C10_Guards", "Drain_WeakDrop.cfg": "Inv_C10_Guards",
        "Drain_WeakNil.cfg": "Inv_C10_Guards", "Drain_WeakSplit.cfg": "Inv_C10_Guards"}


def behaviours(run):
    return tc.generate(run, NSIM[run.tier][0], NSIM[run.tier][1], with_term_sys=run.tier == "thorough", with_drain_sys=True)


def check(run):
    run.rule = ("behaviours = TLC simulation of Drain.tla (3 pods over 10 archetypes: tier, do-not-disrupt true/duration/invalid, "
                "tolerating, static, grace period, PDB; drain passes and queue reconciles interleaved with kubelet/PDB/annotation/"
                "foreign-delete/deadline-rewrite/restart steps and clock ticks of 29-31 s) + decision-table sweep of 6 pod mixes x "
                "{no TGP, TGP} x 13 clock positions around deadline-grace and deadline x environment variants + injected eviction "
                "outcomes 404/409/429/500; each replayed on the real terminator and eviction queue; non-trivial = the real trace "
                "contains an eviction or a direct pod delete issued by Karpenter")
    thorough = run.tier == "thorough"
    # (spec/Drain_MC3.cfg - every triple of a three-tier sub-alphabet, 1.7M states - holds too; it is not part of the
    #  registered tiers because it alone takes 6 min on a quiet machine)
    models = ["Drain_MC.cfg", "Drain_MCdl.cfg"] + (["Drain_MCbig.cfg", "Drain_MCdlbig.cfg", "Drain_Live.cfg"] if thorough else [])
    tc.parallel_tlc(run, "Drain", models, WEAK, coverage=thorough, workers=6 if thorough else 4)
    behs = behaviours(run)
    files = tc.record(run, behs)
    info, total = tc.scan(files, len(behs))
    for b, k in zip(behs, info):
        run.note_case(json.dumps([b["cfg"], b["steps"]], sort_keys=True), k["evict"] + k["delete"] > 0)
    tc.validate(run, files)
    run.extra_cov["guarded_event_counts"] = dict(total)
    run.samples = [{"tag": b["tag"], "cfg": b["cfg"], "steps": b["steps"]} for b in (behs[0], behs[len(behs) // 2], behs[-1])]
    run.assumptions += ["the harness implements the eviction sub-resource with PodDisruptionBudget semantics (429 while disruptionsAllowed = 0, "
                        "UID precondition, graceful delete) and virtual deletion timestamps (deletion time = now + grace)",
                        "queue membership and deadlines are read after every reconcile (Queue.Has + reflection on Queue.items)",
                        "do-not-disrupt annotations only disappear during a drain (they are not added to a pod already handed to the queue)",
                        "only pods tolerating the disruption taint bind to the node during the drain",
                        "tier ordering is judged for the two classes the statement names (non-critical non-daemon before daemon/critical)"]


def replay(run, path):
    """Re-execute the failing behaviour on the current tree and re-validate it (behaviours are a deterministic
    function of tier and seed, so the replay file only needs to name them)."""
    tc.replay(run, path, behaviours)
