"""C18 - Scheduling simulations have no side effects.

Frame conditions.  Closed model Frame.tla: a small abstract world in which simulations interleave with real mutations;
the frame guards of FrameGuards.tla hold on the snapshots around every Simulate / Pass action and six weakenings
(simulate on the live node, sort the provider's slice in place, nominate from a simulation, relax the held pod object,
a simulation that writes, a pass that books usage) are rejected - by the guards AND by the consequences the frame
protects (the cache stays a function of the API, the provider's order is kept, nominations are justified ...).
TLC's part is thin here: the oracle on the real code is an equality.

Binding: with VERIF_FRAME=1 the disruption driver and the scheduling driver bracket every real simulation
(disruption.SimulateScheduling on chosen candidate sets - live, cancelled, timing out half-way -; every method's
GetCandidates + BuildDisruptionBudgetMapping + ComputeCommands incl. the validation re-simulation, suspended while the
environment moves during the validation wait) and every provisioning pass (Provisioner.Schedule) with Snapshot events of
the WHOLE world (harness/world/x_snapshot.go: every API object, every field of state.Cluster / StateNode by reflection,
the provider's instance types with slice order, offering order and requirement contents, the candidates and their pods).
Frame_Trace.tla evaluates G_C18_SimulationFrame / G_C18_ProvisionFrame section by section."""
import json
import os
import random
import re
import glob

import vlib
from checks import disrupt_common as dc
from checks import frame_common as fc
from checks import sched_common as sc

LEVEL = "model_checking"

N = {
    # disruption scenarios run under all 4 option combinations (preference policy x minValues policy), sched scenarios under both
    # preference policies (the rest cycling) and the full grid on `grid` of them
    "quick": dict(beh=30, beh_depth=8, rich=36, c07_explore=8, sched={"basic": 150, "interpod": 50, "reserved": 50}, grid=6, procs=4, par=4),
    # (thorough keeps ~2.5 GB of traces in .work while it runs: a Snapshot line is 7-10 kB)
    "thorough": dict(beh=400, beh_depth=12, rich=800, c07_explore=150, sched={"basic": 2500, "interpod": 800, "reserved": 800}, grid=60, procs=8, par=8),
}
WEAKENINGS = ["liveNode", "sortInPlace", "nominateInSim", "relaxHeld", "passBooksUsage", "simWrites"]


def closed_models(run):
    r = run.closed_model("Frame", "Frame_MC.cfg", workers=4, heap="3g", coverage=True, timeout=1500)
    if r.coverage_zero:
        raise vlib.InfraError("vacuous closed model Frame, actions never taken: %s" % r.coverage_zero)
    if run.tier == "thorough":        # behaviours of length 8 (504 519 states)
        cfg = open(os.path.join(run.specdir, "Frame_MC.cfg")).read().replace("MaxLen = 6", "MaxLen = 8")
        open(os.path.join(run.specdir, "Frame_MC8_run.cfg"), "w").write(cfg)
        run.closed_model("Frame", "Frame_MC8_run.cfg", workers=8, heap="6g", timeout=3000)
    rejected = []
    if run.tier == "quick":
        w = run.tlc("Frame", "Frame_WeakAll.cfg", workers=4, heap="3g", timeout=900)
        by_cons = set(re.findall(r'<<"REJ", "(\w+)">>', w.stdout))
        by_guard = set(re.findall(r'<<"REJG", "(\w+)">>', w.stdout))
        if set(WEAKENINGS) - by_cons:
            raise vlib.InfraError("spec mutations whose consequences TLC did not find (frame not load-bearing): %s" % sorted(set(WEAKENINGS) - by_cons))
        if set(WEAKENINGS) - by_guard:
            raise vlib.InfraError("spec mutations the frame guards did not notice: %s" % sorted(set(WEAKENINGS) - by_guard))
        rejected = sorted(by_cons & by_guard)
    else:
        for cfg in sorted(glob.glob(os.path.join(run.specdir, "Frame_Weak_*.cfg"))):
            w = run.tlc("Frame", os.path.basename(cfg), workers=2, heap="2g", expect_violation=True, timeout=900)
            if w.violated != "Consequences":
                raise vlib.InfraError("spec mutation %s not rejected by TLC (frame not load-bearing)" % os.path.basename(cfg))
            rejected.append(os.path.basename(cfg)[len("Frame_Weak_"):-4])
        w = run.tlc("Frame", "Frame_WeakAll.cfg", workers=4, heap="3g", timeout=900)
        by_guard = set(re.findall(r'<<"REJG", "(\w+)">>', w.stdout))
        if set(WEAKENINGS) - by_guard:
            raise vlib.InfraError("spec mutations the frame guards did not notice: %s" % sorted(set(WEAKENINGS) - by_guard))
    run.notes.append("spec mutations rejected by TLC (consequence invariant and frame guard): " + ", ".join(rejected))
    run.extra_cov["spec_mutations_rejected"] = rejected


def gen_behaviours(run, n, depth):
    cfg = open(os.path.join(run.specdir, "Frame_Gen.cfg")).read().replace("MaxLen = 8", "MaxLen = %d" % depth)
    open(os.path.join(run.specdir, "Frame_Gen_run.cfg"), "w").write(cfg)
    behs = run.generate("Frame", "Frame_Gen_run.cfg", workers=1, simulate="num=%d" % n, depth=depth + 2, heap="2g", timeout=900)
    for b in behs:
        if not isinstance(b["steps"], list):
            b["steps"] = []
    if not behs:
        raise vlib.InfraError("TLC generated no behaviours of Frame.tla")
    return behs


def disruption_scenarios(run, rng, t):
    behs = gen_behaviours(run, t["beh"], t["beh_depth"])
    scen = [fc.beh_scenario(b, i) for i, b in enumerate(behs)]
    scen += fc.decision_scenarios(rng)
    scen += [fc.rich_scenario(rng, "rich:%d:%d" % (run.seed, i)) for i in range(t["rich"])]
    from checks import C07
    ex = C07.explorer(run, t["c07_explore"])
    for s in ex:
        s["name"] = "c07" + s["name"]
    scen += ex
    scen = [v for s in scen for v in fc.option_grid(s)]
    return scen, len(behs)


def scenario_shapes(dscen, sscen):
    """What the scenarios contain of the shapes some side effects need (counted on the scenarios that are actually run)."""
    c = {"disruption_scenarios_with_nodeoverlay_gate": 0, "disruption_capacity_overlay_first_applied_in_bracket": 0, "disruption_price_overlays": 0,
         "disruption_nodes_lacking_labels": 0, "disruption_nodes_without_hostname_running_required_antiaffinity_pod": 0,
         "sched_scenarios_with_capacity_overlay": 0, "sched_scenarios_with_price_overlay": 0, "sched_nodes_without_hostname_running_required_antiaffinity_pod": 0}
    for s in dscen:
        if (s.get("options") or {}).get("nodeOverlay"):
            c["disruption_scenarios_with_nodeoverlay_gate"] += 1
            ovs = list(s.get("overlays") or [])
            steps = s["steps"]
            for i, st in enumerate(steps):
                if st["a"] == "SetOverlay":
                    ovs.append(st["overlay"])
                    # the capacity overlay is applied for the first time by whatever resolves instance types next
                    if st["overlay"].get("capacity") and i + 1 < len(steps) and steps[i + 1]["a"] in ("Simulate", "Method", "Pass"):
                        c["disruption_capacity_overlay_first_applied_in_bracket"] += 1
            c["disruption_price_overlays"] += sum(1 for o in ovs if o.get("price") or o.get("priceAdjustment"))
        for n in s["nodes"]:
            if n.get("dropLabels"):
                c["disruption_nodes_lacking_labels"] += 1
                if "hostname" in n["dropLabels"] and any(p["node"] == n["name"] and "antiAffinity" in (p.get("ext") or {}) for p in s["pods"]):
                    c["disruption_nodes_without_hostname_running_required_antiaffinity_pod"] += 1
    for s in sscen:
        ovs = s.get("overlays") or []
        c["sched_scenarios_with_capacity_overlay"] += any(o.get("capacity") for o in ovs)
        c["sched_scenarios_with_price_overlay"] += any(o.get("price") or o.get("priceAdjustment") for o in ovs)
        for n in s.get("nodes") or []:
            if n.get("noHost") and any(p.get("node") == n["name"] and p.get("anti") for p in s["pods"]):
                c["sched_nodes_without_hostname_running_required_antiaffinity_pod"] += 1
    return c


def sched_scenarios(run, rng, t):
    base = []
    for prof, n in t["sched"].items():
        base += [(prof, fc.sched_frame_variant(rng, sc.explore(rng, prof, "f-%s-%d-%d" % (prof, run.seed, i)), i)) for i in range(n)]
    out = []
    # every scenario under BOTH preference policies; minValues policy, worker count and (reserved profile) strict / fallback cycle
    for i, (prof, s) in enumerate(base):
        for j, pr in enumerate(("Respect", "Ignore")):
            o = {"preference": pr, "minValues": ("Strict", "BestEffort")[(i + j) % 2], "workers": (1, 2, 8)[(i // 2 + j) % 3]}
            if prof == "reserved":
                o["reserved"] = ("strict", "fallback")[(i // 3 + j) % 2]
            out.append(sc.with_options(s, o, pr))
    # the full grid (preference x minValues x workers, x strict / fallback for the reserved profile) on a common subset
    step = max(1, len(base) // t["grid"])
    for prof, s in base[::step][:t["grid"]]:
        for j, o in enumerate(sc.OPTION_GRID):
            for r in (("strict", "fallback") if prof == "reserved" else ("strict",)):
                out.append(sc.with_options(s, dict(o, reserved=r), "g%d%s" % (j, r[0])))
    wdir = os.path.join(vlib.ROOT, "checks", "witness")
    for f in sorted(os.listdir(wdir)):
        if f.startswith("C01-") and f.endswith(".json"):
            out.append(json.load(open(os.path.join(wdir, f))))
    return out


def record_sched(run, scenarios, tag, procs):
    import concurrent.futures as cf
    chunks = vlib.shard(scenarios, procs)
    files, sums = [], []
    run.build_drv()

    def one(i_chunk):
        i, chunk = i_chunk
        path = os.path.join(run.work, "%s-%02d.scn.ndjson" % (tag, i))
        sc.write_scenarios(path, chunk)
        return json.loads(run.drv("sched", ["-in", path, "-out", os.path.join(run.work, "traces-sched"), "-shards", max(1, len(chunk) // 250),
                                            "-prefix", "%s-%02d" % (tag, i)], timeout=3000).strip().splitlines()[-1])
    with cf.ThreadPoolExecutor(max_workers=procs) as ex:
        for out in ex.map(one, list(enumerate(chunks))):
            files += [f if os.path.isabs(f) else os.path.join(run.work, f) for f in out["files"]]
            sums += out["summaries"]
    return files, sums


def tamper_selftest(run, files):
    """Corrupting one logged field / inserting one write must make Frame_Trace report the frame (binding demonstration of
    the trace spec itself; these synthetic failures never reach the verdict)."""
    src = None
    for f in files:
        lines = open(f).read().splitlines()
        bad = {int(v.get("line", 0)) - 1 for v in run.viol if v.get("file") == f}
        for i in [i for i, x in enumerate(lines) if '"e":"Snapshot"' in x and '"phase":"post"' in x and '"call":"simulate"' in x]:
            s = i
            while '"e":"Cfg"' not in lines[s]:
                s -= 1
            e = i
            while e + 1 < len(lines) and '"e":"Cfg"' not in lines[e + 1]:
                e += 1
            if not any(s <= b <= e for b in bad):      # a trace the real code passed (the tampering is the only failure)
                src = (lines, i, s, e)
                break
        if src:
            break
    if not src:
        run.notes.append("trace-spec self-test skipped: every trace with a simulate bracket already fails a guard")
        return
    lines, i, s, e = src
    tr = [json.loads(x) for x in lines[s:e + 1]]
    k = i - s
    cases = {}

    def variant(name, f):
        t = json.loads(json.dumps(tr))
        f(t)
        cases[name] = t

    def first_node_field(ev, field):
        return next(x for x in sorted(ev["node"]) if x.endswith("|" + field))

    variant("node:hostPortUsage", lambda t: t[k]["node"][first_node_field(t[k], "hostPortUsage")].update(v="tampered"))
    variant("node:nominatedUntil", lambda t: t[k]["node"][first_node_field(t[k], "nominatedUntil")].update(v="tampered"))
    variant("catalog:order", lambda t: t[k]["catalog"]["order"].update(v=list(reversed(t[k]["catalog"]["order"]["v"]))))
    variant("api:Pod", lambda t: t[k]["api"].pop(next(x for x in t[k]["api"] if x.startswith("Pod/"))))
    variant("cache:bindings", lambda t: t[k]["cache"]["bindings"].update(v="tampered"))
    variant("write:NodeClaim", lambda t: t.insert(k, {"e": "Api", "actor": "disruption", "verb": "create", "kind": "NodeClaim", "name": "x", "sub": "-",
                                                       "err": "-", "injected": False, "gone": False, "grace": -1, "post": {"exists": False}, "seq": 0, "t": 0}))
    variant("(lenient) cache:podsSchedulingAttempted", lambda t: t[k]["cache"]["podsSchedulingAttempted"].update(v="tampered"))
    d = os.path.join(run.work, "selftest")
    os.makedirs(d, exist_ok=True)
    paths = {}
    for name, t in cases.items():
        p = os.path.join(d, "tamper-%d.ndjson" % len(paths))
        vlib.write_ndjson(p, t)
        paths[p] = name
    before = list(run.viol)
    tv, ev = run.traces_validated, run.events_validated
    viol = run.validate("Frame_Trace", "Frame_Trace.cfg", list(paths), heap="1g", par=4)
    run.viol[:] = before                                   # synthetic: never part of the verdict
    run.traces_validated, run.events_validated = tv, ev
    got = {}
    for v in viol:
        got.setdefault(paths[v["file"]], set()).add(v["sig"])
    for p, name in paths.items():
        want = set() if name.startswith("(lenient)") else {name}
        if got.get(name, set()) != want:
            raise vlib.InfraError("self-test: tampered trace %r -> Frame_Trace reported %s, expected %s" % (name, sorted(got.get(name, [])), sorted(want)))
    run.notes.append("trace-spec self-test: %d tampered traces reported exactly the tampered section, a lenient section none" % (len(paths) - 1))


def projection_selftest(run, rng):
    """The snapshot projection is not blind: the harness itself applies, one at a time, the in-memory mutations a leaky
    simulation would cause (host port / volume / pod usage on the live StateNode, marks, nominations, cached objects, the
    provider's slices, offerings and requirement sets ...) plus representation-only changes, each between two snapshots;
    Frame_Trace must report exactly the expected section:class.  Synthetic traces, never part of the verdict."""
    want_n = 4 if run.tier == "quick" else 12
    scs = []
    for _ in range(2000):
        s = sc.explore(rng, "basic", "st%d" % len(scs))
        if any(n["stage"] == "initialized" for n in s["nodes"]) and len(s["types"]) >= 2 and \
                any(p.get("owner", "").startswith("ds:") and p["node"] for p in s["pods"]):
            scs.append(s)
            if len(scs) == want_n:
                break
    if len(scs) < want_n:
        raise vlib.InfraError("projection self-test: could not draw suitable scenarios")
    path = os.path.join(run.work, "selftest.scn.ndjson")
    sc.write_scenarios(path, scs)
    out = json.loads(run.drv("frame-selftest", ["-in", path, "-out", os.path.join(run.work, "traces-selftest")]).strip().splitlines()[-1])
    files = [f if os.path.isabs(f) else os.path.join(run.work, f) for f in out["files"]]
    before = list(run.viol)
    tv, ev = run.traces_validated, run.events_validated
    viol = run.validate("Frame_Trace", "Frame_Trace.cfg", files, heap="1g", par=1)
    run.viol[:] = before
    run.traces_validated, run.events_validated = tv, ev
    name_at = {}
    for f in files:
        cur = None
        for i, line in enumerate(open(f), 1):
            if '"module":"FrameSelftest"' in line:
                cur = json.loads(line)["name"]
            name_at[(f, i)] = cur
    got = {}
    for v in viol:
        got.setdefault(name_at[(v["file"], int(v["line"]))], set()).add(v["sig"])
    applied = {}
    for e in out["expect"]:
        if not e["applied"]:
            continue
        applied[e["mutation"]] = applied.get(e["mutation"], 0) + 1
        g, w = got.get(e["name"], set()), e["want"]
        if (w and (w[0] not in g or not g <= set(w))) or (not w and g):
            raise vlib.InfraError("projection self-test: %r -> reported %s, expected %s" % (e["name"], sorted(g), w))
    missing = {e["mutation"] for e in out["expect"]} - set(applied)
    if missing:
        raise vlib.InfraError("projection self-test: mutations never applicable: %s" % sorted(missing))
    run.notes.append("projection self-test: %d harness-made mutations x %d scenarios reported exactly as expected (%d of them must not show)" % (
        len(applied), want_n, sum(1 for e in out["expect"][:len(applied)] if not e["want"])))
    run.extra_cov["projection_selftest_mutations"] = sorted(applied)


def check(run):
    t = N[run.tier]
    os.environ["VERIF_FRAME"] = "1"       # the drivers record Snapshot events only for this check
    run.rule = ("a behaviour = one cluster scenario on the disruption driver (behaviours of Frame.tla from TLC simulation mapped to "
                "Simulate / SetPod / Mark / Pass steps; every method on its C07 base cluster plain, with blockers and with churn during "
                "the validation wait, then a controller round and the method again; seeded rich clusters: 3-6 nodes, pods with host "
                "ports / CSI volumes / preferences that get relaxed / anti-affinity / spread, pending pods, random candidate sets, "
                "live / cancelled / timing-out simulations, all five methods, provisioning passes and real mutations in between; the "
                "C07 explorer clusters) or one scheduling scenario on the sched driver (C01 explorer profiles basic / interpod / "
                "reserved + the option grid + the C01 witnesses). Both drivers also run with the NodeOverlay feature gate wired as in the operator (every "
                "component behind overlay.Decorate, the real nodeoverlay controller on the undecorated provider; capacity and price overlays that exist "
                "from the start, appear, change and vanish between the bracketed calls) and with Node objects that lack well-known labels (hostname, "
                "zone, arch/os) while running pods with required anti-affinity; non-trivial = at least one judged bracket in which the real code "
                "placed a pod (on an existing node or a new NodeClaim) or issued a command")
    if os.environ.get("VERIF_FAST"):
        run.notes.append("VERIF_FAST: closed models and spec mutations skipped")
    else:
        closed_models(run)
    rng = random.Random(run.seed * 1009 + 18)
    dscen, nbeh = disruption_scenarios(run, rng, t)
    sscen = sched_scenarios(run, rng, t)
    shape = scenario_shapes(dscen, sscen)
    for k in ("disruption_capacity_overlay_first_applied_in_bracket", "sched_scenarios_with_capacity_overlay", "sched_scenarios_with_price_overlay",
              "disruption_price_overlays", "disruption_nodes_without_hostname_running_required_antiaffinity_pod",
              "sched_nodes_without_hostname_running_required_antiaffinity_pod"):
        if not shape[k]:
            raise vlib.InfraError("scenario alphabet is missing %s (vacuous for that class of side effects)" % k)
    dfiles = dc.record(run, dscen, prefix="frame", procs=t["procs"], shards=2)
    sfiles, ssums = record_sched(run, sscen, "framesched", t["procs"])
    bad = [s for s in ssums if s.get("status") != "ok"]
    if bad:
        raise vlib.InfraError("sched driver could not materialise %d scenarios, e.g. %s" % (len(bad), bad[0]))
    summ = fc.summarise(dfiles) + fc.summarise(sfiles)
    if len(summ) != len(dscen) + len(sscen):
        raise vlib.InfraError("trace count mismatch: %d traces for %d scenarios" % (len(summ), len(dscen) + len(sscen)))
    judged, allowed, window = {}, {}, {}
    placed_existing = placed_new = cmds = sims = sim_errs = 0
    for s in summ:
        if s["panics"]:
            raise vlib.InfraError("panic while running %s" % s["name"])
        nj = sum(s["judged"].values())
        run.note_case(s["name"], nj > 0 and (s["placed_existing"] + s["placed_new"] + s["cmds"]) > 0)
        for k, v in s["judged"].items():
            judged[k] = judged.get(k, 0) + v
        for k, v in s["allowed_changes"].items():
            allowed[k] = allowed.get(k, 0) + v
        for k, v in s["window_changes"].items():
            window[k] = window.get(k, 0) + v
        placed_existing += s["placed_existing"]
        placed_new += s["placed_new"]
        cmds += s["cmds"]
        sims += s["sims"]
        sim_errs += s["sim_errs"]
    for call in ("simulate", "method", "method-reserving", "pass"):
        if not judged.get(call):
            raise vlib.InfraError("no judged %s bracket was recorded (vacuous run)" % call)
    if not placed_existing:
        raise vlib.InfraError("no simulation placed a pod on an existing node (vacuous run)")
    # the projection is sensitive where change is allowed: passes nominate and book, the environment moves things in the windows
    if not allowed.get("pass:node:nominatedUntil") or not any(k.startswith("pass:cache:pods") for k in allowed):
        raise vlib.InfraError("no provisioning pass changed nominations / pod bookkeeping: the snapshots would not notice a change")
    run.validate("Frame_Trace", "Frame_Trace.cfg", dfiles + sfiles, heap="2g", par=t["par"], timeout=3000)
    tamper_selftest(run, dfiles)
    projection_selftest(run, rng)
    run.extra_cov.update({
        "option_combinations": {"disruption": "all scenarios x {Respect,Ignore} x {Strict,BestEffort}",
                                "sched": "all scenarios x {Respect,Ignore} (minValues / workers / reserved strict-fallback cycling) + full grid on a subset"},
        "scenario_shapes": shape, "nodeoverlay_reconcile_errors": sum(x.get("overlay_errs", 0) for x in summ),
        "frame_behaviours_from_tlc": nbeh, "disruption_scenarios": len(dscen), "sched_scenarios": len(sscen),
        "judged_brackets_by_call": judged, "direct_simulations": sims, "simulations_cancelled_or_timed_out_or_rejected": sim_errs,
        "commands": cmds, "pods_placed_on_existing_nodes_in_brackets": placed_existing, "pods_placed_on_new_claims_in_brackets": placed_new,
        "changes_seen_in_allowed_classes": dict(sorted(allowed.items())), "changes_seen_in_environment_windows": dict(sorted(window.items()))})
    run.samples = [{"scenario": s["name"], "judged": s["judged"], "placed_existing": s["placed_existing"], "placed_new": s["placed_new"],
                    "allowed_changes": s["allowed_changes"]} for s in (summ[0], summ[len(dscen) // 2], summ[len(dscen) - 1], summ[-1])]
    run.notes.append("TLC's part is thin for this property: on the real code the oracle is a section-by-section EQUALITY of two snapshots (plus 'no write "
                     "in between'); the closed model only adds that the frame is load-bearing (each weakening breaks a consequence invariant). What carries the "
                     "verdict is the breadth of the snapshot (self-tested) and of the bracketed real calls.")
    run.assumptions += [
        "controller-runtime fake client + harness choke point stand in for the API server; the snapshot reads the object tracker directly",
        "'observable' = every API object (canonical JSON + resourceVersion), every field of state.Cluster and of every StateNode found by "
        "reflection (a new field is covered when it appears), the harness provider's instance-type slices / offerings / requirement sets "
        "and its instance table, and the candidate objects (incl. their pods) handed to the simulation",
        "quotiented out: in-memory representation of time.Time / resource.Quantity, lock state, the order of a pod's preferred "
        "node-affinity terms (a set in Kubernetes; Karpenter sorts that slice in place on the candidates' pod copies), the order of the "
        "candidate slice a method receives; memoised allocatable groups of an instance type are forced before every snapshot",
        "every disruption scenario runs under all 4 combinations preference policy {Respect, Ignore} x minValues policy {Strict, BestEffort}; every "
        "scheduling scenario under both preference policies (minValues policy, 1/2/8 workers, reserved strict/fallback cycling) and a subset under the "
        "full grid; the pods carry content the scheduler really relaxes (required OR-terms whose first term cannot be met, unsatisfiable preferred "
        "terms, preferred pod (anti-)affinity, ScheduleAnyway spreads, PreferNoSchedule pool taints), and the long-lived pod objects - the candidates' "
        "pods and the CapacityBuffer virtual pods of the provisioner's shared cache - are sections of the snapshot (x:candidatePods, x:virtualPods); "
        "pending pods of a pass are listed afresh from the API by the pass itself, so nothing outlives it",
        "NodeOverlay: a third of the TLC behaviours, ~40% of the rich clusters and a third of the scheduling scenarios run with the feature gate on, wired as in "
        "kwok/main.go + controllers.NewControllers (cluster state, informers, provisioner, disruption controller / methods get overlay.Decorate(provider); the "
        "real nodeoverlay controller evaluates the NodeOverlay objects against the UNDECORATED provider and swaps the instance type store). The catalog "
        "section digests the harness provider's OWN instance types (Provider.Types / TypesForPool), never the decorator's copies. A side effect of APPLYING "
        "an overlay is idempotent, so it only shows in the bracket of the first application: overlays are therefore created / changed / deleted BETWEEN the "
        "bracketed calls (disruption driver: SetOverlay / DeleteOverlay steps; sched driver: the overlays appear right before the pass), and the candidate "
        "discovery of a Simulate step (which resolves every pool's instance types) is now inside the bracket of the first simulation, as it always was for "
        "methods; pods request the extended resource a capacity overlay provides, so the overlays decide placements",
        "nodes lacking well-known labels: ~30% of the rich clusters' nodes, n2 of every other TLC behaviour and ~30% of the scheduling scenarios' Node objects "
        "lack kubernetes.io/hostname (others zone, arch/os) - the NodeClaim keeps its labels -, and run a pod with REQUIRED hostname anti-affinity (for "
        "which the scheduler reads the live Node out of cluster state); StateNode.Node is digested with all its fields (labels included) in the node section",
        "HEAD behaviours examined and found representation-level (quotiented, not violations): (1) Topology.newForTopologies appends the "
        "matchLabelKeys expressions to the caller's pod LabelSelector in place on every Update - the selector of a candidate's / cached virtual pod "
        "grows by one duplicate 'key In [value]' per simulation (reproduced: 0,1,2,3 expressions over three simulations); the expressions are "
        "implied by matchLabelKeys, selection is unchanged, the objects are Karpenter's private copies; (2) isDaemonPodCompatible relaxes the daemon "
        "pod it is handed, which is a per-scheduler copy (Cluster.GetDaemonSetPod deep-copies; the mutation that removes that copy is caught as "
        "cache:daemonSetPods); (3) resources.Subtract mutates lhs only for inf.Dec-backed quantities (beyond int64 scale, e.g. an extended resource "
        "> 9.2e18); inside a bracket lhs is a deep copy or the memoised (pre-forced) allocatable computation, and the scenarios' quantities are int64-backed",
        "not judged because the statement does not list it: pod bookkeeping and the consolidation timestamp during a SIMULATION "
        "(GetPendingPods records a decision for invalid pending pods; ConsolidationState() refreshes its timestamp every 5 min), events published "
        "to the recorder, metrics, the provisioner's own change monitor; a controller round (Controller.Reconcile) is not bracketed because it ends in the real mutation",
        "informer lag not modelled; single-threaded replay (a simulation racing with an informer update is outside this check)",
    ]


def replay(run, path):
    """Re-execute the scenario of the failing trace on the current tree and re-validate."""
    os.environ["VERIF_FRAME"] = "1"
    body = json.load(open(path))
    cfg = body["trace"][0]
    if cfg.get("module") == "Disruption":
        scn = json.loads(cfg["scenarioJson"])
        files = dc.record(run, [scn], prefix="replay", shards=1, procs=1)
    else:
        scn = {k: v for k, v in cfg.items() if k not in ("e", "seq", "t")}
        files, _ = record_sched(run, [scn], "replay", 1)
    s = fc.summarise(files)[0]
    run.note_case(s["name"], sum(s["judged"].values()) > 0)
    run.validate("Frame_Trace", "Frame_Trace.cfg", files, heap="2g", par=1)
    run.samples = [{"scenario": s["name"], "judged": s["judged"], "allowed_changes": s["allowed_changes"]}]
