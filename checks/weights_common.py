"""Scenario alphabet `weights` for C19 (NodePool weight / price ordering) and the scheduler-level part of
C13 (created NodeClaim vs the scheduler's decision).  Same scenario JSON as checks/sched_common.py
(spec/SCHED_TRACE.md) - the scenarios run on the unchanged sched driver.

C19's first guard runs admissibility in the CONVERSE direction ("pool r was used => no higher-weight pool
could host the pod"), so this alphabet is restricted to what WeightsGuards.tla: FeasibleFresh models
EXACTLY (DESIGN 2.5):

  * no inter-pod constraints anywhere in the scenario; volumes with a zone topology (bound PV with one or two node-affinity terms,
    StorageClass with two allowed topologies, two volumes): FeasibleFresh asks for SOME combination of alternatives that works, and judges
    the instance-type set (minValues) per combination, as a NodeClaim commits to one; preferred node affinity with distinct weights (Karpenter schedules
    the heaviest preference as if required and relaxes it away - FeasibleFresh reads the pod the same way);
  * a pod constrains every label key at most once (node selector, ONE expression of its required term or ONE preferred term), so
    the known representation losses of Karpenter's requirement algebra (C12 findings: contradictory In sets,
    Exists+NotIn, bounded NotIn) cannot decide a verdict here; `gen` is only ever constrained by Gt / Lt / In;
  * no capacity-override offerings (limits are charged with the base capacity of a type);
  * daemonsets select nodes only through labels that are fixed per (pool, instance type) - arch / it / gen -
    or not at all, and carry at most one required term (Karpenter charges a daemonset to a type at TEMPLATE
    level; with such selectors template level and launch level coincide);
  * reserved offerings appear only in the dedicated `reserved_block` cell (FeasibleFresh counts non-reserved
    offerings only = a lower bound of what the pool can host).

Everything else of the sched alphabet is used: weights {unset, 1, 10, 10, 50} with ties, per-pool limits
(cpu / memory / nodes) with existing nodes already charged to them, taints (NoSchedule / NoExecute /
PreferNoSchedule), startup taints, pool requirements with and without minValues, per-pool catalogs, pools that
are not Ready or being deleted, stale hash annotations, minValues floors on arch / gen / zone (single-valued per type: which types survive
the truncation decides), catalogs larger than the cap in provider orders unrelated to the price order, price ties, unavailable cheap offerings, a reduced
scheduling.MaxInstanceTypes, both minValues policies, 1/2/8 evaluation workers, CreateNodeClaims."""
import copy

from checks import sched_common as sc

ZONES = sc.ZONES
WEIGHTS = [0, 0, 1, 10, 10, 10, 50]


def gen_catalog(rng):
    n = rng.choice([2, 3, 3, 4, 5, 6, 7, 8])       # often more compatible types than scheduling.MaxInstanceTypes (1-3)
    types = []
    for i in range(n):
        cpu, mem = rng.choice(sc.SIZES)
        t = {"name": "t%d" % i, "cpu": cpu, "mem": mem, "pods": rng.choice([110, 110, 110, 4, 3]),
             "labels": {"arch": rng.choice(["amd64", "amd64", "arm64"]), "os": "linux", "gen": str(rng.choice([1, 2, 3, 4]))},
             "ovCpu": rng.choice([0, 0, 100, 200]), "ovMem": rng.choice([0, 0, 256]), "offerings": []}
        # price: a coarse grid so that ties between types are frequent; per-zone spread so that the cheapest
        # COMPATIBLE offering (after a pod narrowed the zone / capacity type) reorders the types; the dearest
        # offering of a type is unrelated to its cheapest one
        base = rng.choice([20, 40, 40, 60]) * cpu // 1000
        for z in ZONES:
            if rng.random() < 0.2:
                continue
            zf = rng.choice([8, 10, 10, 12, 20])
            for ct in ("spot", "od"):
                if rng.random() < 0.15:
                    continue
                price = max(1, base * zf // 10 * (6 if ct == "spot" else 10) // 10 + rng.choice([0, 0, 0, 1, 5]))
                t["offerings"].append({"zone": z, "ct": ct, "price": price, "available": rng.random() < 0.8, "rid": "", "rcap": 0,
                                       "cpuOv": 0, "memOv": 0})
        if not t["offerings"]:
            t["offerings"].append({"zone": "a", "ct": "od", "price": base, "available": True, "rid": "", "rcap": 0, "cpuOv": 0, "memOv": 0})
        if rng.random() < 0.35:
            # the cheapest offering of the type is not available
            min(t["offerings"], key=lambda o: o["price"])["available"] = False
        if rng.random() < 0.15:
            # a very expensive offering on an otherwise cheap type (ranking by the DEAREST offering reorders)
            rng.choice(t["offerings"])["price"] = 9000
        types.append(t)
    if rng.random() < 0.3:
        # a zone-wide outage: nothing can be launched in that zone although every requirement still admits it (a pod with several
        # volume-topology alternatives must get past the alternative that names the dead zone)
        z = rng.choice(ZONES)
        for t in types:
            for o in t["offerings"]:
                if o["zone"] == z:
                    o["available"] = False
    return types


def gen_pools(rng, types):
    pools = []
    names = [t["name"] for t in types]
    for i in range(rng.choice([2, 2, 3, 3, 3, 4])):
        p = {"name": "p%d" % i, "weight": rng.choice(WEIGHTS), "reqs": [], "labels": {}, "taints": [], "startup": [],
             "limits": {"cpu": 0, "mem": 0, "nodes": -1}, "types": [], "notReady": False, "deleting": False, "hashAnn": "", "replicas": 0}
        if rng.random() < 0.35:
            p["reqs"].append({"key": "zone", "op": "In", "vals": rng.sample(ZONES, rng.choice([1, 2, 2])), "n": 0, "min": 0})
            if len(p["reqs"][-1]["vals"]) == 2 and rng.random() < 0.2:
                p["reqs"][-1]["min"] = 2
        if rng.random() < 0.3:
            p["reqs"].append({"key": "ct", "op": rng.choice(["In", "In", "NotIn"]), "vals": [rng.choice(["spot", "od"])], "n": 0, "min": 0})
        if rng.random() < 0.3 and len(names) > 1:
            sub = rng.sample(names, rng.randrange(max(1, len(names) - 2), len(names) + 1))
            p["reqs"].append({"key": "it", "op": "In", "vals": sub, "n": 0, "min": rng.choice([0, 0, 2, 2, 3])})
        elif rng.random() < 0.12:
            p["reqs"].append({"key": "it", "op": "Exists", "vals": [], "n": 0, "min": rng.choice([2, 3])})
        # minValues floors on keys OTHER than the instance type: whether k types reach the floor depends on WHICH k types survive
        # the truncation (architecture / generation are single-valued per type), not only on k
        r = rng.random()
        if r < 0.12:
            p["reqs"].append({"key": "gen", "op": rng.choice(["Gt", "Lt"]), "vals": [], "n": rng.choice([1, 2, 3]), "min": rng.choice([0, 0, 2])})
        elif r < 0.24:
            p["reqs"].append({"key": "gen", "op": "Exists", "vals": [], "n": 0, "min": rng.choice([2, 2, 3])})
        r = rng.random()
        if r < 0.12:
            p["reqs"].append({"key": "arch", "op": "In", "vals": [rng.choice(["amd64", "arm64"])], "n": 0, "min": 0})
        elif r < 0.27:
            p["reqs"].append(rng.choice([{"key": "arch", "op": "Exists", "vals": [], "n": 0, "min": 2},
                                         {"key": "arch", "op": "In", "vals": ["amd64", "arm64"], "n": 0, "min": 2}]))
        r = rng.random()
        if r < 0.2:
            p["reqs"].append({"key": "team", "op": "In", "vals": ["x", "y"], "n": 0, "min": 0})
        elif r < 0.45:
            p["labels"]["team"] = rng.choice(["x", "y"])
        elif r < 0.5:
            p["reqs"].append({"key": "team", "op": "Exists", "vals": [], "n": 0, "min": 0})
        elif r < 0.55:
            p["reqs"].append({"key": "team", "op": "NotIn", "vals": ["x"], "n": 0, "min": 0})
        if rng.random() < 0.3:
            p["taints"].append(dict(sc.TAINT, effect=rng.choice(["NoSchedule", "NoSchedule", "NoExecute"])))
        if rng.random() < 0.12:
            p["taints"].append(dict(sc.PREFER))
        if rng.random() < 0.2:
            p["startup"].append(dict(sc.STARTUP))
        if rng.random() < 0.3:
            p["limits"]["cpu"] = rng.choice([1000, 2000, 4000, 4000, 8000, 16000])
        if rng.random() < 0.12:
            p["limits"]["mem"] = rng.choice([2048, 4096, 8192, 16384])
        if rng.random() < 0.15:
            p["limits"]["nodes"] = rng.choice([0, 1, 1, 2])
        if rng.random() < 0.2 and len(types) > 1:
            p["types"] = rng.sample(names, len(types) - 1)
        if rng.random() < 0.08:
            p["notReady"] = True
        elif rng.random() < 0.06:
            p["deleting"] = True
        if rng.random() < 0.35:
            p["hashAnn"] = rng.choice(["1234567890", "42"])
        if i > 0 and rng.random() < 0.1:
            # a STATIC pool (the scheduler ignores it; the real static provisioning controller builds `replicas` NodeClaims from ONE object)
            p["replicas"] = rng.choice([2, 3, 3])
            if not p["labels"] and rng.random() < 0.7:
                p["labels"]["team"] = rng.choice(["x", "y"])
        pools.append(p)
    return pools


def gen_daemonsets(rng, types):
    out = []
    for i in range(rng.choice([0, 1, 1, 1, 2])):
        d = {"name": "ds%d" % i, "ns": "kube-system", "cpu": rng.choice([100, 200, 300]), "mem": rng.choice([64, 128, 512]),
             "sel": {}, "terms": [], "tol": [dict(sc.TOL_ALL)] if rng.random() < 0.7 else [], "ports": []}
        r = rng.random()
        if r < 0.15:
            d["terms"] = [[sc.expr("arch", "In", [rng.choice(["amd64", "arm64"])])]]
        elif r < 0.3:
            d["terms"] = [[sc.expr("it", "NotIn", [rng.choice(types)["name"]])]]
        elif r < 0.4:
            d["terms"] = [[sc.expr("gen", "Gt", n=rng.choice([1, 2, 3]))]]
        elif r < 0.45:
            d["sel"] = {"it": rng.choice(types)["name"]}
        if rng.random() < 0.25:
            d["ports"] = [{"port": rng.choice([80, 9100]), "ip": "", "proto": "TCP"}]
        out.append(d)
    if rng.random() < 0.3:
        out += twin_daemonsets(rng, types, rng.choice(["arch", "arch", "gen", "it", "zone"]) if rng.random() < 0.9 else "zone")
    return out


def twin_daemonsets(rng, types, key):
    """two daemonsets with the SAME NAME in different namespaces that select disjoint instance types (different overhead groups) and
    ask for different amounts; key `zone` leaves the exact C19 alphabet (the C19 guard is then not evaluated in that scenario)"""
    name = rng.choice(["agent", "node-agent"])
    a = {"name": name, "ns": "team-a", "cpu": rng.choice([100, 200]), "mem": 64, "sel": {}, "terms": [], "tol": [dict(sc.TOL_ALL)], "ports": []}
    b = {"name": name, "ns": "team-b", "cpu": rng.choice([300, 400, 600]), "mem": rng.choice([64, 512]), "sel": {}, "terms": [],
         "tol": [dict(sc.TOL_ALL)], "ports": []}
    if key == "arch":
        a["sel"], b["sel"] = {"arch": "amd64"}, {"arch": "arm64"}
    elif key == "zone":
        a["sel"], b["sel"] = {"zone": "a"}, {"zone": rng.choice(["b", "c"])}
    elif key == "gen":
        g = rng.choice([1, 2, 3])
        a["terms"], b["terms"] = [[sc.expr("gen", "Lt", n=g + 1)]], [[sc.expr("gen", "Gt", n=g)]]
    else:
        t = rng.choice(types)["name"]
        a["terms"], b["terms"] = [[sc.expr("it", "NotIn", [t])]], [[sc.expr("it", "In", [t])]]
    return [a, b] if rng.random() < 0.5 else [b, a]


def gen_nodes(rng, types, pools):
    """existing nodes that are charged to their pool's limits; nearly full, so the batch needs new capacity"""
    nodes, pods = [], []
    for i in range(rng.choice([0, 0, 0, 1, 1, 2])):
        pool = rng.choice(pools)
        cand = [t for t in types if not pool["types"] or t["name"] in pool["types"]]
        t = rng.choice(cand)
        o = rng.choice(t["offerings"])
        labels = {"zone": o["zone"], "ct": o["ct"], "it": t["name"], "pool": pool["name"]}
        labels.update(t["labels"])
        tv = sc.pool_value(rng, pool, "team")
        if tv:
            labels["team"] = tv
        n = {"name": "n%d" % i, "stage": rng.choice(["initialized", "initialized", "registered", "claimonly"]), "pool": pool["name"], "labels": labels,
             "taints": copy.deepcopy(pool["taints"]), "startup": [], "ephemeral": False, "alloc": sc.alloc_of(t, o),
             "cap": {"cpu": t["cpu"], "mem": t["mem"], "pods": t["pods"]}, "marked": rng.random() < 0.15, "deleting": False, "csi": []}
        nodes.append(n)
        if n["stage"] in ("initialized", "registered"):
            filler = sc.plain_pod("b%d" % i, max(100, n["alloc"]["cpu"] - rng.choice([0, 100, 300, 600])), 64)
            filler.update({"node": n["name"], "owner": "rs", "tol": [dict(sc.TOL_ALL)]})
            pods.append(filler)
    return nodes, pods


def archetypes(rng, types, pools):
    """node-level constraint archetypes; each returns the label key it constrains (None = none) so that a pod
    constrains a key at most once"""
    tn = [t["name"] for t in types]
    pn = [p["name"] for p in pools]

    def sel_zone(p): p["sel"]["zone"] = rng.choice(ZONES); return "zone"
    def term_zone(p): p["terms"] = [p["terms"][0] + [sc.expr("zone", "In", rng.sample(ZONES, rng.choice([1, 2])))]]; return "zone"
    def zone_notin(p): p["terms"] = [p["terms"][0] + [sc.expr("zone", "NotIn", [rng.choice(ZONES)])]]; return "zone"
    def notin_spot(p): p["terms"] = [p["terms"][0] + [sc.expr("ct", "NotIn", ["spot"])]]; return "ct"
    def sel_ct(p): p["sel"]["ct"] = rng.choice(["spot", "od"]); return "ct"
    def team_in(p): p["terms"] = [p["terms"][0] + [sc.expr("team", "In", [rng.choice(["x", "y"])])]]; return "team"
    def team_sel(p): p["sel"]["team"] = rng.choice(["x", "y"]); return "team"
    def team_notin(p): p["terms"] = [p["terms"][0] + [sc.expr("team", "NotIn", [rng.choice(["x", "y"])])]]; return "team"
    def team_dne(p): p["terms"] = [p["terms"][0] + [sc.expr("team", "DoesNotExist")]]; return "team"
    def team_exists(p): p["terms"] = [p["terms"][0] + [sc.expr("team", "Exists")]]; return "team"
    def gen_gt(p): p["terms"] = [p["terms"][0] + [sc.expr("gen", "Gt", n=rng.choice([1, 2, 3]))]]; return "gen"
    def gen_lt(p): p["terms"] = [p["terms"][0] + [sc.expr("gen", "Lt", n=rng.choice([2, 3, 4]))]]; return "gen"
    def gen_in(p): p["terms"] = [p["terms"][0] + [sc.expr("gen", "In", [str(rng.choice([1, 2, 3, 4]))])]]; return "gen"
    def arch_in(p): p["terms"] = [p["terms"][0] + [sc.expr("arch", "In", [rng.choice(["amd64", "arm64"])])]]; return "arch"
    def it_sel(p): p["sel"]["it"] = rng.choice(tn); return "it"
    def it_notin(p): p["terms"] = [p["terms"][0] + [sc.expr("it", "NotIn", [rng.choice(tn)])]]; return "it"
    def pool_sel(p): p["sel"]["pool"] = rng.choice(pn); return "pool"
    def pool_notin(p): p["terms"] = [p["terms"][0] + [sc.expr("pool", "NotIn", [rng.choice(pn)])]]; return "pool"
    def pref_one(p):
        # ONE preferred node-affinity term on a key the pod does not constrain otherwise; distinct weights per pod
        key = rng.choice(["zone", "zone", "ct", "it", "team", "arch"])
        vals = {"zone": [rng.choice(ZONES)], "ct": [rng.choice(["spot", "od"])], "it": [rng.choice(tn)], "team": [rng.choice(["x", "y"])],
                "arch": [rng.choice(["amd64", "arm64"])]}[key]
        p["pref"] = p["pref"] + [{"weight": 10 + 7 * len(p["pref"]) + rng.choice([0, 30]) * (len(p["pref"]) == 0), "exprs": [sc.expr(key, "In", vals)]}]
        if len({x["weight"] for x in p["pref"]}) != len(p["pref"]):
            p["pref"][-1]["weight"] = max(x["weight"] for x in p["pref"]) + 1
        return key
    def vol_b(p): p["vols"] = ["c-b"]; return "#vol"            # bound PV, zone b
    def vol_ac(p): p["vols"] = ["c-ac"]; return "#vol"          # bound PV with two node-affinity terms: zone a | zone c
    def vol_ab(p): p["vols"] = ["c-ab"]; return "#vol"          # unbound, StorageClass with two allowed topologies: zone a | zone b
    def vol_any(p): p["vols"] = [rng.choice(["c-any", "c-any2"])]; return "#vol"
    def vol_two(p): p["vols"] = rng.choice([["c-ab", "c-ac"], ["c-ac", "c-ab"], ["c-ab", "c-any"]]); return "#vol"
    def tolerate(p): p["tol"] = [dict(sc.TOL_TAINT, effect=rng.choice(["NoSchedule", "NoSchedule", "", "NoExecute"]))]; return "#tol"
    def tolerate_all(p): p["tol"] = [dict(sc.TOL_ALL)]; return "#tol"
    def port80(p): p["ports"] = [{"port": 80, "ip": "", "proto": "TCP"}]; return "#port"
    def port9100(p): p["ports"] = [{"port": 9100, "ip": "", "proto": "TCP"}]; return "#port"
    return [sel_zone, term_zone, zone_notin, notin_spot, sel_ct, team_in, team_sel, team_notin, team_dne, team_exists, gen_gt, gen_lt, gen_in,
            arch_in, it_sel, it_notin, pool_sel, pool_notin, tolerate, tolerate, tolerate_all, tolerate_all, port80, port9100, pref_one, pref_one,
            pref_one, vol_b, vol_ac, vol_ac, vol_ab, vol_ab, vol_any, vol_two]


def gen_pod(rng, name, arch, big):
    p = sc.plain_pod(name, rng.choice(sc.CPUS[3:] if big else sc.CPUS), rng.choice([64, 256, 1024, 3000]))
    p["created"] = rng.randrange(3)
    p["terms"] = [[]]
    used = set()
    for _ in range(rng.choice([0, 1, 1, 1, 2, 2, 3])):
        f = rng.choice(arch)
        probe = copy.deepcopy(p)
        key = f(probe)
        if key in used:
            continue
        used.add(key)
        p.clear()
        p.update(probe)
    if p["terms"] == [[]]:
        p["terms"] = []
    elif rng.random() < 0.12:
        # a second OR-term: Karpenter schedules with the FIRST term and drops it when nothing admits the pod
        p["terms"].append([sc.expr("zone", "In", [rng.choice(ZONES)])] if "zone" not in used else [sc.expr("arch", "In", ["amd64"])])
    return p


def explore(rng, name="w"):
    types = gen_catalog(rng)
    pools = gen_pools(rng, types)
    dss = gen_daemonsets(rng, types)
    nodes, bound = gen_nodes(rng, types, pools)
    arch = archetypes(rng, types, pools)
    big = rng.random() < 0.5
    pods = [gen_pod(rng, "w%d" % i, arch, big) for i in range(rng.choice([1, 2, 3, 3, 4, 5, 6]))]
    opts = {"preference": rng.choice(["Respect", "Ignore"]), "minValues": rng.choice(["Strict", "Strict", "BestEffort"]), "reserved": "strict",
            "workers": rng.choice([1, 2, 8]), "maxTypes": rng.choice([0, 1, 2, 2, 3]), "create": True, "deadlineAfter": 0}
    if rng.random() < 0.12:
        opts["deadlineAfter"] = rng.randrange(1, len(pods) + 1)      # the Solve deadline expires right after that many pods were placed
    scs, pvs, pvcs = sc.gen_storage(rng)
    maybe_partial_gen(rng, types, pools, dss, pods)
    return {"name": name, "options": opts, "types": types, "pools": pools, "nodes": nodes, "ds": dss, "scs": scs, "pvs": pvs, "pvcs": pvcs,
            "pods": bound + pods}


def maybe_partial_gen(rng, types, pools, dss, pods):
    """a catalog in which the `gen` label is DEFINED only on some instance types (often not on the cheapest) under a `gen` minValues floor -
    only when nothing else in the scenario reads gen (a pod / daemonset / pool bound on a label some types lack is outside the exact alphabet)"""
    import json
    if rng.random() >= 0.15 or len(types) < 3 or '"gen"' in json.dumps([pods, dss]):
        return
    if any(r["key"] == "gen" and r["op"] != "Exists" for p in pools for r in p["reqs"]):
        return
    by_price = sorted(types, key=lambda t: min(o["price"] for o in t["offerings"]))
    drop = by_price[:rng.choice([1, 2])] if rng.random() < 0.7 else rng.sample(types, rng.choice([1, 2]))
    for t in drop:
        t["labels"].pop("gen", None)
    if not any(r["key"] == "gen" for p in pools for r in p["reqs"]):
        rng.choice(pools)["reqs"].append({"key": "gen", "op": "Exists", "vals": [], "n": 0, "min": 2})


# ---------------------------------------------------------------- directed cells (always replayed)

def _off(z, ct, price, av=True, rid="", rcap=0):
    return {"zone": z, "ct": ct, "price": price, "available": av, "rid": rid, "rcap": rcap, "cpuOv": 0, "memOv": 0}


def _type(name, cpu, mem, offs, **lab):
    labels = {"arch": "amd64", "os": "linux", "gen": "2"}
    labels.update(lab)
    labels = {k: v for k, v in labels.items() if v is not None}       # gen=None: the type does not DEFINE the label
    return {"name": name, "cpu": cpu, "mem": mem, "pods": 110, "labels": labels, "ovCpu": 0, "ovMem": 0, "offerings": offs}


def _pool(name, weight, **kw):
    p = {"name": name, "weight": weight, "reqs": [], "labels": {}, "taints": [], "startup": [], "limits": {"cpu": 0, "mem": 0, "nodes": -1},
         "types": [], "notReady": False, "deleting": False, "hashAnn": "", "replicas": 0}
    p.update(kw)
    return p


def _scn(name, types, pools, pods, ds=(), nodes=(), **opts):
    o = {"preference": "Respect", "minValues": "Strict", "reserved": "strict", "workers": 1, "maxTypes": 0, "create": True, "deadlineAfter": 0}
    o.update(opts)
    scs, pvs, pvcs = sc.gen_storage(None)
    return {"name": name, "options": o, "types": types, "pools": pools, "nodes": list(nodes), "ds": list(ds), "scs": scs, "pvs": pvs, "pvcs": pvcs,
            "pods": pods}


def cells():
    """hand-made cells, one per mechanism the statement names; each is replayed with 1 / 2 / 8 workers"""
    out = []
    small = _type("s", 2000, 4096, [_off("a", "od", 100), _off("b", "od", 100)])
    large = _type("l", 8000, 16384, [_off("a", "od", 400), _off("b", "od", 400)])
    pod = lambda n, cpu=500, **kw: dict(sc.plain_pod(n, cpu, 256), **kw)
    # 1. three feasible pools, distinct weights: the heaviest wins; a tie pair below
    out.append(_scn("cell/weights", [small, large], [_pool("p0", 1), _pool("p1", 50), _pool("p2", 10), _pool("p3", 10)], [pod("w0"), pod("w1", 1900)]))
    # 2. the heaviest pool is infeasible (taint) -> the next one; pod w1 tolerates and must use the heaviest
    out.append(_scn("cell/taint-fallback", [small, large], [_pool("p0", 50, taints=[dict(sc.TAINT)]), _pool("p1", 10), _pool("p2", 0)],
                    [pod("w0"), pod("w1", 1900, tol=[dict(sc.TOL_TAINT)])]))
    # 3. limits: the heaviest pool can afford one small node only; the second pod of the batch falls back
    out.append(_scn("cell/limit-fallback", [small, large], [_pool("p0", 50, limits={"cpu": 2000, "mem": 0, "nodes": -1}), _pool("p1", 10)],
                    [pod("w0", 1900), pod("w1", 1900), pod("w2", 1900)]))
    # 3b. limits are charged with the largest type the NodeClaim CAN BECOME (the pods pin the small type), not with the largest type of the
    #     pool: three small nodes fit the heaviest pool's limit
    out.append(_scn("cell/limit-charged-with-narrowed-claim", [small, large], [_pool("p0", 50, limits={"cpu": 10000, "mem": 0, "nodes": -1}), _pool("p1", 10)],
                    [pod("w%d" % i, 1900, sel={"it": "s"}) for i in range(3)]))
    # 4. requirement fallback per pod: the heaviest pool is zone a only
    out.append(_scn("cell/zone-fallback", [small, large],
                    [_pool("p0", 10, reqs=[{"key": "zone", "op": "In", "vals": ["a"], "n": 0, "min": 0}]), _pool("p1", 1)],
                    [pod("w0", 1900, sel={"zone": "b"}), pod("w1", 1900, sel={"zone": "a"}), pod("w2", 1900)]))
    # 5. not-ready and deleting pools of the highest weight are not used and do not block
    out.append(_scn("cell/unusable", [small, large], [_pool("p0", 50, notReady=True), _pool("p1", 40, deleting=True), _pool("p2", 10), _pool("p3", 1)],
                    [pod("w0"), pod("w1", 1900)]))
    # 6. minValues (strict): the heaviest pool cannot offer 2 instance types for a large pod -> fallback; best effort: stays
    mv = [{"key": "it", "op": "In", "vals": ["s", "l"], "n": 0, "min": 2}]
    out.append(_scn("cell/minvalues-strict", [small, large], [_pool("p0", 10, reqs=mv), _pool("p1", 1)], [pod("w0", 3000), pod("w1")]))
    out.append(_scn("cell/minvalues-besteffort", [small, large], [_pool("p0", 10, reqs=mv), _pool("p1", 1)], [pod("w0", 3000), pod("w1")], minValues="BestEffort"))
    # 7. price ranking: four types of one size; cheapest overall offering unavailable / in a zone the pod excludes; dearest-offering order reversed
    c0 = _type("c0", 4000, 8192, [_off("a", "spot", 10, av=False), _off("a", "od", 90), _off("b", "od", 95)])
    c1 = _type("c1", 4000, 8192, [_off("a", "od", 50), _off("b", "od", 900)])
    c2 = _type("c2", 4000, 8192, [_off("a", "od", 60), _off("b", "od", 61)])
    c3 = _type("c3", 4000, 8192, [_off("a", "od", 70), _off("b", "od", 20), _off("c", "spot", 5)])
    for mt in (1, 2, 3):
        out.append(_scn("cell/price-max%d" % mt, [c0, c1, c2, c3], [_pool("p0", 0)], [pod("w0", 3000), pod("w1", 3000, sel={"zone": "a"}),
                                                                                          pod("w2", 3000, sel={"zone": "b"})], maxTypes=mt))
    # 8. truncation vs minValues: 2 types wanted, only 1 may be sent (strict: the claim is dropped; best effort: sent)
    mv2 = [{"key": "it", "op": "Exists", "vals": [], "n": 0, "min": 2}]
    out.append(_scn("cell/truncate-minvalues-strict", [c0, c1, c2, c3], [_pool("p0", 0, reqs=mv2)], [pod("w0", 3000)], maxTypes=1))
    out.append(_scn("cell/truncate-minvalues-besteffort", [c0, c1, c2, c3], [_pool("p0", 0, reqs=mv2)], [pod("w0", 3000)], maxTypes=1, minValues="BestEffort"))
    # 9. daemon overhead: two daemonsets (one only on large types), several pods per claim
    ds = [{"name": "ds0", "ns": "kube-system", "cpu": 200, "mem": 128, "sel": {}, "terms": [], "tol": [dict(sc.TOL_ALL)], "ports": []},
          {"name": "ds1", "ns": "kube-system", "cpu": 300, "mem": 64, "sel": {"it": "l"}, "terms": [], "tol": [dict(sc.TOL_ALL)], "ports": []}]
    out.append(_scn("cell/daemon-requests", [small, large], [_pool("p0", 0, labels={"team": "x"}, taints=[dict(sc.TAINT)], startup=[dict(sc.STARTUP)],
                                                                   hashAnn="1234567890")],
                    [pod("w%d" % i, 500, tol=[dict(sc.TOL_ALL)]) for i in range(5)], ds=ds))
    # 10. reserved deferral in the heaviest pool blocks the fallback (strict mode): r1 has capacity for one node only
    rs = _type("rs", 2000, 4096, [_off("a", "reserved", 1, rid="r1", rcap=1), _off("a", "od", 100)])
    out.append(_scn("cell/reserved-block", [rs, small], [_pool("p0", 10, types=["rs"]), _pool("p1", 1, types=["s"])],
                    [pod("w0", 1900), pod("w1", 1900)]))
    # 11. observation (not judged): the only viable required OR-term is the FIRST one and the pool carries a PreferNoSchedule taint - Karpenter
    #     drops the term before it adds the toleration, the pod stays pending (Obs_C19_Unplaced)
    out.append(_scn("cell/obs-or-term-vs-prefer-no-schedule", [small, large], [_pool("p0", 0, labels={"team": "x"}, taints=[dict(sc.PREFER)])],
                    [pod("w0", terms=[[sc.expr("team", "In", ["x"])], [sc.expr("team", "In", ["y"])]])]))
    res = []
    for s in out:
        for w in (1, 2, 8):
            res.append(sc.with_options(s, {"workers": w}, "k%d" % w))
    return res + truncation_cells() + round2_cells() + volume_cells()


def volume_cells():
    """volume-topology alternatives vs weight: the heavier pool cannot launch anything in the zone of the pod's EARLIER alternative (offering
    unavailable / no offering there) but can in a later one; bound PV with two terms (a | c), StorageClass with two topologies (a | b), two
    volumes; the lighter pool either shares the outage (the pod must still land on the heavier one) or could take the pod in the dead zone."""
    out = []
    pod = lambda n, cpu=500, **kw: dict(sc.plain_pod(n, cpu, 256), **kw)
    for dead in ("unavailable", "absent"):
        offs = lambda zs: [_off(z, "od", 100, av=not (z == "a" and dead == "unavailable")) for z in zs if not (z == "a" and dead == "absent")]
        hv = _type("hv", 4000, 8192, offs(["a", "b", "c"]))        # nothing launchable in zone a
        lt = _type("lt", 4000, 8192, [_off("a", "od", 90), _off("b", "od", 90), _off("c", "od", 90)])
        for vols in (["c-ac"], ["c-ab"], ["c-ab", "c-any"], ["c-ac", "c-any2"]):
            for shared in (True, False):
                pools = [_pool("p0", 10, types=["hv"]), _pool("p1", 1, types=["hv"] if shared else ["lt"])]
                out.append(_scn("cell/volume-alternatives/%s-%s-%s" % (dead, "+".join(vols), "shared" if shared else "lighter-has-zone-a"),
                                [hv, lt], pools, [pod("w0", 1000, vols=vols), pod("w1", 1000)]))
    return out


def round2_cells():
    """(1) same-named daemonsets in two namespaces that split the catalog into overhead groups by arch / gen / zone, the pod confined to
    the group of the dearer one, both provider orders; (2) static pools (replicas 3) with / without template labels, taints, startup taints,
    stale hash annotation, next to a dynamic pool that needs three nodes; (3) the Solve deadline expiring after k = 1..3 placements."""
    out = []
    pod = lambda n, cpu=500, **kw: dict(sc.plain_pod(n, cpu, 256), **kw)
    # (1)
    grp = {"cheap": [("A", 50), ("B", 60)], "dear": [("C", 70), ("D", 80)]}
    lab = {"cheap": dict(arch="amd64", gen="2", zone="a"), "dear": dict(arch="arm64", gen="3", zone="b")}
    for key in ("arch", "gen", "zone"):
        for order in (("cheap", "dear"), ("dear", "cheap")):
            types = [_type(n, 4000, 8192, [_off(lab[g]["zone"], "od", price)], arch=lab[g]["arch"], gen=lab[g]["gen"]) for g in order for n, price in grp[g]]
            mk = lambda ns, cpu, g: {"name": "agent", "ns": ns, "cpu": cpu, "mem": 64, "tol": [dict(sc.TOL_ALL)], "ports": [],
                                     "sel": ({key: lab[g][key]} if key != "gen" else {}),
                                     "terms": ([[sc.expr("gen", "In", [lab[g]["gen"]])]] if key == "gen" else [])}
            ds = [mk("team-a", 200, "cheap"), mk("team-b", 700, "dear")]
            confined = pod("w0", 1000, sel={key: lab["dear"][key]}) if key != "gen" else pod("w0", 1000, terms=[[sc.expr("gen", "In", ["3"])]])
            for dss in (ds, ds[::-1]):
                out.append(_scn("cell/twin-daemonsets/%s-%sfirst-%s" % (key, order[0], dss[0]["ns"]), types, [_pool("p0", 0)],
                                [confined, pod("w1", 1000), pod("w2", 3500)], ds=dss))
    # (2)
    small = _type("s", 2000, 4096, [_off("a", "od", 100), _off("b", "od", 100)])
    for nm, kw in (("labels", dict(labels={"team": "x"})),
                   ("labels-taints", dict(labels={"team": "x"}, taints=[dict(sc.TAINT)], startup=[dict(sc.STARTUP)], hashAnn="1234567890")),
                   ("bare", dict()), ("reqs", dict(reqs=[{"key": "team", "op": "In", "vals": ["x", "y"], "n": 0, "min": 0}], labels={"env": "prod"}))):
        out.append(_scn("cell/static-pool/%s" % nm, [small], [_pool("p0", 10, labels={"team": "y"}, hashAnn="42"), _pool("p1", 0, replicas=3, **kw)],
                        [pod("w%d" % i, 1500) for i in range(3)]))
    # (3)
    mid = _type("m", 4000, 8192, [_off("a", "od", 200)])
    ds0 = [{"name": "ds0", "ns": "kube-system", "cpu": 500, "mem": 128, "sel": {}, "terms": [], "tol": [dict(sc.TOL_ALL)], "ports": []}]
    for k in (1, 2, 3):
        out.append(_scn("cell/solve-deadline/own-node-k%d" % k, [mid], [_pool("p0", 0)], [pod("w%d" % i, 3000) for i in range(3)], ds=ds0, deadlineAfter=k))
        out.append(_scn("cell/solve-deadline/shared-node-k%d" % k, [mid], [_pool("p0", 0)], [pod("w%d" % i, 800) for i in range(3)], ds=ds0, deadlineAfter=k))
    return out


def truncation_cells():
    """Truncation vs minValues on keys other than the instance type: five equally sized types, one pod that fits them all, a floor of
    2 distinct values on arch / gen / zone, MaxInstanceTypes 2 and 3, both policies.  Three catalogs (the second value exists only among
    the DEAREST types / among the cheapest / interleaved) in five PROVIDER orders (cheap first, dear first, the rare value first,
    interleaved, shuffled): whether the floor survives must be decided on the list that is really sent - the cheapest ones."""
    out = []
    # (price, arch, gen, zone) per type, A cheapest .. E dearest
    catalogs = {
        "dear": [(50, "amd64", "2", "a"), (60, "amd64", "2", "a"), (70, "amd64", "2", "a"), (300, "arm64", "3", "b"), (400, "arm64", "4", "c")],
        "cheap": [(50, "amd64", "2", "a"), (60, "arm64", "3", "b"), (70, "amd64", "2", "a"), (300, "amd64", "2", "a"), (400, "amd64", "2", "a")],
        "mixed": [(50, "amd64", "2", "a"), (60, "amd64", "2", "a"), (70, "arm64", "3", "b"), (300, "amd64", "2", "a"), (400, "arm64", "4", "c")],
    }
    orders = {"cheapfirst": [0, 1, 2, 3, 4], "dearfirst": [4, 3, 2, 1, 0], "rarefirst": [3, 0, 1, 2, 4], "interleaved": [0, 3, 1, 4, 2],
              "shuffled": [1, 4, 0, 3, 2]}
    for cn, cat in catalogs.items():
        for on, order in orders.items():
            types = [_type("ABCDE"[i], 4000, 8192, [_off(cat[i][3], "od", cat[i][0])], arch=cat[i][1], gen=cat[i][2]) for i in order]
            for key in ("arch", "gen", "zone"):
                for mt in (2, 3):
                    for pol in ("Strict", "BestEffort"):
                        pool = _pool("p0", 0, reqs=[{"key": key, "op": "Exists", "vals": [], "n": 0, "min": 2}])
                        out.append(_scn("cell/truncate-floor/%s-%s-%s-max%d-%s" % (cn, on, key, mt, pol), types, [pool],
                                        [dict(sc.plain_pod("w0", 3000, 256))], maxTypes=mt, minValues=pol))
    # the floor's key is DEFINED only on some instance types (gen missing on the two cheapest / the two dearest): a type without the key
    # contributes no value, wherever it stands in the provider order or in the price order
    partial = {"cheapest-lack": [(50, None), (60, None), (70, "2"), (300, "3"), (400, "4")],
               "dearest-lack": [(50, "2"), (60, "2"), (70, "3"), (300, None), (400, None)],
               "one-value-only": [(50, None), (60, "2"), (70, None), (300, "2"), (400, None)]}
    for cn, cat in partial.items():
        for on, order in orders.items():
            types = [_type("ABCDE"[i], 4000, 8192, [_off("a", "od", cat[i][0])], gen=cat[i][1]) for i in order]
            for mt in (2, 3):
                for pol in ("Strict", "BestEffort"):
                    pool = _pool("p0", 0, reqs=[{"key": "gen", "op": "Exists", "vals": [], "n": 0, "min": 2}])
                    out.append(_scn("cell/truncate-floor/partial-%s-%s-gen-max%d-%s" % (cn, on, mt, pol), types, [pool],
                                    [dict(sc.plain_pod("w0", 3000, 256))], maxTypes=mt, minValues=pol))
    return out


# ---------------------------------------------------------------- shared pipeline of checks/C19.py and checks/c13_sched_stage.py

MAP_FIELDS = {"labels", "sel"}
OPTION_GRID = [{"minValues": mv, "maxTypes": mt, "workers": w} for mv in ("Strict", "BestEffort") for mt in (0, 1, 2) for w in (1, 2, 8)]
ALL_WEAK = ["order", "lowest", "ready", "chargeSum", "truncFirst", "rankDearest", "rankUnavailable", "truncMin", "ovhPerPod", "ovhNone",
            "staleHash", "simKeys", "noStartup", "noRelax", "truncMinOrder", "ovhByName", "hashSecond", "noFinalize", "chargeTemplate", "volShared"]
INVS = ("Inv_C19_HighestWeightFeasible", "Inv_C19_CheapestPrefix", "Inv_C13_TypesSubsetMinValues", "Inv_C13_Requests", "Inv_C13_Template")
# fidelity classes that were analysed on the unchanged tree and are NOT model gaps (see the C19 notes in the manifest)
EXPLAINED_FIDELITY = {("Fid_C19_Chosen", "chosen-pool-node-limit-exhausted-for-spec")}


def fix_maps(x, key=None):
    """TLC prints an empty function as []; scenario map fields must be JSON objects"""
    if isinstance(x, dict):
        return {k: fix_maps(v, k) for k, v in x.items()}
    if isinstance(x, list):
        if not x and key in MAP_FIELDS:
            return {}
        return [fix_maps(v) for v in x]
    return x


def run_driver(run, scenarios, tag, procs):
    """replay scenarios on the real code with `procs` driver processes; returns (trace files, summaries, hook H1 present)"""
    import concurrent.futures as cf
    import json
    import os
    import vlib
    chunks = vlib.shard(scenarios, procs)
    files, sums, hook = [], [], True
    run.build_drv()

    def one(i_chunk):
        i, chunk = i_chunk
        path = os.path.join(run.work, "%s-%02d.scn.ndjson" % (tag, i))
        sc.write_scenarios(path, chunk)
        return json.loads(run.drv("sched", ["-in", path, "-out", os.path.join(run.work, "traces"), "-shards", max(1, len(chunk) // 500),
                                            "-prefix", "%s-%02d" % (tag, i)], timeout=3000).strip().splitlines()[-1])

    with cf.ThreadPoolExecutor(max_workers=procs) as ex:
        for out in ex.map(one, list(enumerate(chunks))):
            files += out["files"]
            sums += out["summaries"]
            hook = hook and bool(out.get("hook"))
    return files, sums, hook


def replay_and_validate(run, scenarios, tag, procs, par):
    """driver + Weights_Trace.tla; returns (violations of every guard, per-trace case records, driver summaries).
    Drift_* entries (harness problems) end the check with exit 2 - unless a verdict guard failed (a verdict is never pre-empted)."""
    import json
    import vlib
    files, sums, hook = run_driver(run, scenarios, tag, procs)
    if not hook:
        raise vlib.InfraError("the tree under test does not carry hook H1 (repo-patches/hook-H1.patch): no Sched events, C19 cannot be decided")
    bad = [s for s in sums if s.get("status") != "ok"]
    if bad:
        raise vlib.InfraError("driver could not materialise %d scenarios, e.g. %s" % (len(bad), bad[0]))
    viol = run.validate("Weights_Trace", "Weights_Trace.cfg", files, par=par, timeout=3000)
    # Drift_* = only things the HARNESS can get wrong (a Created event without its Results claim).  It never pre-empts a verdict: exit 2
    # only when no verdict guard failed on these traces.  Figures computed by Karpenter (its own remaining limits) are Obs_* notes.
    drift = [v for v in viol if str(v.get("guard", "")).startswith("Drift_")]
    if drift:
        run.viol = [v for v in run.viol if not str(v.get("guard", "")).startswith("Drift_")]
        if not any(v.get("guard") in run.pmap for v in viol):
            raise vlib.InfraError("trace and scenario disagree (harness problem, no verdict): %s" % drift[:3])
        run.notes.append("harness drift beside a verdict (not judged): %s" % drift[:3])
    cases = []
    for f in files:
        cases += json.load(open(f + ".viol.json")).get("cases", [])
    return viol, cases, sums


def split_fidelity(run, viol):
    """Fid_* / Obs_* entries are the fidelity comparison of FeasibleFresh with the real code and observations outside the
    statement: reported and counted, never a verdict.  They are removed from run.viol."""
    import collections
    fid = [v for v in viol if str(v.get("guard", "")).startswith(("Fid_", "Obs_"))]
    run.viol = [v for v in run.viol if not str(v.get("guard", "")).startswith(("Fid_", "Obs_"))]
    cnt = collections.Counter((v["guard"], v["sig"]) for v in fid)
    unexplained = {k: n for k, n in cnt.items() if k[0].startswith("Fid_") and k not in EXPLAINED_FIDELITY}
    for (g, s), n in sorted(cnt.items()):
        run.notes.append("%s %s/%s x%d%s" % ("MODEL-DRIFT" if (g, s) in unexplained else "observation", g, s, n,
                                               " (UNEXPLAINED disagreement between FeasibleFresh and the code: model gap or C01 issue)" if (g, s) in unexplained else ""))
    return cnt, unexplained
