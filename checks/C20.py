"""C20 — NodePool registration health reflects the recent launch window.

Closed model Health.tla (ideal window vs the ring buffer as implemented) checked exhaustively;
TLC enumerates every action sequence up to a depth; each is replayed on the real
nodepoolhealth.State (unit level) and through the real lifecycle + registrationhealth controllers
(end-to-end, when the world harness is available); Health_Trace.tla re-derives every what-if
result, status and condition from the ideal window."""
import json
import os
import vlib

DEPTH = {"quick": 6, "thorough": 8}
E2E_DEPTH = {"quick": 5, "thorough": 7}      # exhaustive depth replayed end-to-end through the controllers
E2E_SIM = {"quick": 300, "thorough": 3000}   # deep simulated behaviours replayed end-to-end


def _wrapped(b):
    streak, wrapped = 0, False
    for a in b:
        if a in ("S", "F"):
            streak += 1
            wrapped = wrapped or streak > 4
        elif a.startswith("Hydrate"):
            streak = 1 if a == "HydrateT" else 2
        else:
            streak = 0
    return wrapped


def _e2e(run, behs, tag):
    """Replay behaviours through the real lifecycle + registrationhealth controllers (parallel driver processes)."""
    import concurrent.futures as cf
    parts = vlib.shard(behs, 8)
    files = []

    def one(i_part):
        i, part = i_part
        bp = os.path.join(run.work, "health-e2e-%s-%d.json" % (tag, i))
        json.dump(part, open(bp, "w"))
        out = json.loads(run.drv("health-e2e", ["-in", bp, "-out", os.path.join(run.work, "traces-e2e-%s-%d" % (tag, i)), "-shards", 1]))
        return out["files"]
    run.build_drv()
    with cf.ThreadPoolExecutor(max_workers=8) as ex:
        for fl in ex.map(one, list(enumerate(parts))):
            files += fl
    return files


def check(run):
    run.rule = ("TLC enumerates every sequence over {S,F,Reset,ResetNC,Restart,Hydrate} of length D from Health.tla; "
                "each is replayed on the real nodepoolhealth.State; a behaviour is non-trivial when it "
                "wraps the 4-slot window at least once (>=5 outcomes without an intervening reset/restart)")
    r = run.closed_model("Health", "Health_MC.cfg", coverage=True)
    if r.coverage_zero:
        raise vlib.InfraError("vacuous closed model, actions never taken: %s" % r.coverage_zero)
    weak = run.tlc("Health", "Health_Weak.cfg", expect_violation=True)
    if weak.violated != "Inv_C20_DryRunAgrees":
        raise vlib.InfraError("spec mutation Health_Weak.cfg not detected by TLC (invariant would be vacuous)")
    run.notes.append("spec mutation (storage-order what-if) violates Inv_C20_DryRunAgrees as expected")
    depth = DEPTH[run.tier]
    cfg = open(os.path.join(run.specdir, "Health_Gen.cfg")).read().replace("MaxLen = 6", "MaxLen = %d" % depth)
    open(os.path.join(run.specdir, "Health_Gen_run.cfg"), "w").write(cfg)
    behs = run.generate("Health", "Health_Gen_run.cfg", workers=1 if run.tier == "quick" else 4, timeout=1500)
    if not behs:
        raise vlib.InfraError("no behaviours generated")
    # seeded deep random behaviours from TLC's simulator (longer than the exhaustive depth)
    cfg2 = cfg.replace("MaxLen = %d" % depth, "MaxLen = 24").replace("SPECIFICATION Spec", "SPECIFICATION SpecDeep")
    open(os.path.join(run.specdir, "Health_Sim_run.cfg"), "w").write(cfg2)
    sim = run.generate("Health", "Health_Sim_run.cfg", workers=1, simulate="num=%d" % (300 if run.tier == "quick" else 3000),
                       depth=30, timeout=600)
    allb = behs + sim
    bpath = os.path.join(run.work, "health-behs.json")
    json.dump(allb, open(bpath, "w"))
    for b in allb:
        run.note_case(tuple(b), _wrapped(b))
    out = json.loads(run.drv("health-unit", ["-in", bpath, "-out", os.path.join(run.work, "traces"), "-shards", 8]))
    run.validate("Health_Trace", "Health_Trace.cfg", out["files"])
    # end-to-end: the same behaviours through the real controllers on the world harness
    d2 = E2E_DEPTH[run.tier]
    open(os.path.join(run.specdir, "Health_Gen_e2e.cfg"), "w").write(cfg.replace("MaxLen = %d" % depth, "MaxLen = %d" % d2))
    eb = run.generate("Health", "Health_Gen_e2e.cfg", workers=1, timeout=600)
    esim = sim[:E2E_SIM[run.tier]]
    for b in eb + esim:
        run.note_case(("e2e",) + tuple(b), _wrapped(b))
    efiles = _e2e(run, eb, "exh") + _e2e(run, esim, "sim")
    run.validate("Health_Trace", "Health_Trace.cfg", efiles)
    run.extra_cov["e2e_exhaustive_depth"] = d2
    run.extra_cov["e2e_behaviours"] = len(eb) + len(esim)
    run.samples = [{"behaviour": allb[0]}, {"behaviour": allb[len(allb) // 2]}, {"behaviour": sim[0] if sim else allb[-1]}]
    run.exhaustive = True
    run.extra_cov["exhaustive_depth"] = depth
    run.extra_cov["simulated_behaviours"] = len(sim)
    run.assumptions += ["window size 4 and threshold 0.5 as in nodepoolhealth (read from the package constants)",
                        "unit level observes State.DryRun/Status/Update/SetStatus",
                        "end-to-end level: outcomes are produced by NodeClaims registering / timing out (launch and registration "
                        "timeouts alternate) through the real nodeclaim lifecycle controller; Reset/Hydrate by the real nodepool "
                        "registrationhealth controller; the NodePool condition is read from the API store after every step"]


def replay(run, path):
    body = json.load(open(path))
    beh = [e["op"] for e in body["trace"] if e.get("e") == "Op"]
    bpath = os.path.join(run.work, "replay-beh.json")
    json.dump([beh], open(bpath, "w"))
    level = next((e.get("level") for e in body["trace"] if e.get("e") == "Cfg"), "unit")
    drv = "health-e2e" if level == "e2e" else "health-unit"
    out = json.loads(run.drv(drv, ["-in", bpath, "-out", os.path.join(run.work, "traces"), "-shards", 1]))
    run.note_case(tuple(beh))
    run.note_case(("replay",))
    run.validate("Health_Trace", "Health_Trace.cfg", out["files"])
    run.samples = [{"behaviour": beh}]
