"""C20 — NodePool registration health reflects the recent launch window.

Closed model Health.tla (ideal window vs the ring buffer as implemented) checked exhaustively;
TLC enumerates every action sequence up to a depth; each is replayed on the real
nodepoolhealth.State (unit level) and through the real lifecycle + registrationhealth controllers
(end-to-end, when the world harness is available); Health_Trace.tla re-derives every what-if
result, status and condition from the ideal window."""
import json
import os
import vlib

DEPTH = {"quick": 7, "thorough": 9}


def check(run):
    run.rule = ("TLC enumerates every sequence over {S,F,Reset,Restart,Hydrate} of length D from Health.tla; "
                "each is replayed on the real nodepoolhealth.State; a behaviour is non-trivial when it "
                "wraps the 4-slot window at least once (>=5 outcomes without an intervening reset/restart)")
    r = run.closed_model("Health", "Health_MC.cfg", coverage=True)
    if r.coverage_zero:
        raise vlib.InfraError("vacuous closed model, actions never taken: %s" % r.coverage_zero)
    weak = run.tlc("Health", "Health_Weak.cfg", expect_violation=True)
    if weak.violated != "Inv_C20_DryRunAgrees":
        raise vlib.InfraError("spec mutation Health_Weak.cfg not detected by TLC (invariant would be vacuous)")
    run.notes.append("spec mutation (storage-order what-if) violates Inv_C20_DryRunAgrees as expected")
    depth = DEPTH[run.tier]
    cfg = open(os.path.join(run.specdir, "Health_Gen.cfg")).read().replace("MaxLen = 7", "MaxLen = %d" % depth)
    open(os.path.join(run.specdir, "Health_Gen_run.cfg"), "w").write(cfg)
    behs = run.generate("Health", "Health_Gen_run.cfg", workers=1 if run.tier == "quick" else 4, timeout=1500)
    if not behs:
        raise vlib.InfraError("no behaviours generated")
    # seeded deep random behaviours from TLC's simulator (longer than the exhaustive depth)
    cfg2 = cfg.replace("MaxLen = %d" % depth, "MaxLen = 24").replace("SPECIFICATION Spec", "SPECIFICATION SpecDeep")
    open(os.path.join(run.specdir, "Health_Sim_run.cfg"), "w").write(cfg2)
    sim = run.generate("Health", "Health_Sim_run.cfg", workers=1, simulate="num=%d" % (300 if run.tier == "quick" else 3000),
                       depth=30, timeout=600)
    allb = behs + sim
    bpath = os.path.join(run.work, "health-behs.json")
    json.dump(allb, open(bpath, "w"))
    for b in allb:
        streak, wrapped = 0, False
        for a in b:
            if a in ("S", "F"):
                streak += 1
                wrapped = wrapped or streak > 4
            elif a.startswith("Hydrate"):
                streak = 1 if a == "HydrateT" else 2
            else:
                streak = 0
        run.note_case(tuple(b), wrapped)
    out = json.loads(run.drv("health-unit", ["-in", bpath, "-out", os.path.join(run.work, "traces"), "-shards", 8]))
    run.validate("Health_Trace", "Health_Trace.cfg", out["files"])
    run.samples = [{"behaviour": allb[0]}, {"behaviour": allb[len(allb) // 2]}, {"behaviour": sim[0] if sim else allb[-1]}]
    run.exhaustive = True
    run.extra_cov["exhaustive_depth"] = depth
    run.extra_cov["simulated_behaviours"] = len(sim)
    run.assumptions += ["window size 4 and threshold 0.5 as in nodepoolhealth (read from the package constants)",
                        "unit level observes State.DryRun/Status/Update/SetStatus"]


def replay(run, path):
    body = json.load(open(path))
    beh = [e["op"] for e in body["trace"] if e.get("e") == "Op"]
    bpath = os.path.join(run.work, "replay-beh.json")
    json.dump([beh], open(bpath, "w"))
    out = json.loads(run.drv("health-unit", ["-in", bpath, "-out", os.path.join(run.work, "traces"), "-shards", 1]))
    run.note_case(tuple(beh))
    run.note_case(("replay",))
    run.validate("Health_Trace", "Health_Trace.cfg", out["files"])
    run.samples = [{"behaviour": beh}]
