"""C08 (Orchestration.tla): behaviours -> scenarios of the `orch` driver (harness/drivers/disruption/orch.go).

 * translate(): a fine-grained behaviour of Orchestration.tla (one event per linearization point, environment steps and a
   Restart between any two of them) -> driver steps: the events of one controller invocation become ONE driver step whose
   fault plan (`faults`), mid-invocation environment steps (`at`: run right before the addressed API call) and crash point
   (`cut` + Restart) reproduce the interleaving.
 * systematic(): canonical command paths (1-2 candidates x 0-2 replacements x every order of replacement
   initialisation / disappearance / stall x timeout) -> a fault-free run with reads logged enumerates every API call of
   every controller step -> one behaviour per call with a transient fault, a persistent fault and a crash at that call,
   plus a Restart between any two steps.
"""
import collections
import copy
import json
import os

import vlib
from checks import disrupt_common as dc

TICKS = (301, 450, 600)     # one logical tick of the model (retry window T = 1 unit = 600 s: timed out iff >= 2 ticks)
NODES = ("n1", "n2", "n3")
ENV = {"Tick", "ReplInit", "ReplVanish", "CandVanish"}
OPENERS = {"Begin": "StartCmd", "QBegin": "QueueRec", "CleanBegin": "Cleanup"}
ACTOR = {"StartCmd": "disruption", "QueueRec": "disruption.queue", "Cleanup": "disruption", "Round": "disruption"}


def claim(n):
    return "nc-" + n


def cluster(extra_pods=True):
    """Three candidate nodes n1..n3 and a control node z in one dynamic pool; every node runs one small pod."""
    pools = [dc.pool("p")]
    nodes = [dc.node(n, "p", "medium") for n in NODES] + [dc.node("z", "p", "medium")]
    pods = [dc.pod("p-" + n["name"], n["name"]) for n in nodes] if extra_pods else []
    return pools, nodes, pods


def scenario(name, osteps, tags=None, log_reads=False, nodes_mut=None):
    pools, nodes, pods = cluster()
    if nodes_mut:
        nodes_mut(pools, nodes, pods)
    sc = dc.scenario(name, pools, nodes, pods, [], [], tags or {})
    sc["osteps"] = osteps
    if log_reads:
        sc["logReads"] = True
    return sc


# ---------------------------------------------------------------------------------------------- model behaviour -> steps
def _calls(e, inv, world):
    """API calls of one model event inside invocation `inv`: (the call environment hooks attach to, candidate fault specs).
    world: which nodes carry the taint / the condition so far (a patch is only issued when something changes)."""
    a, n, actor = e["a"], e["x"], ACTOR[inv["kind"]]
    if a in ("Taint", "Untaint", "CleanTaint"):
        first = {"actor": actor, "verb": "get", "kind": "Node", "name": n, "sub": "", "nth": 1}
        flt = [{"actor": actor, "verb": "get", "kind": "Node", "name": n, "sub": "", "nth": 0, "err": "Server"}]
        if (a == "Taint") != (n in world["tainted"]) and n not in world["gone"]:
            flt.append({"actor": actor, "verb": "patch", "kind": "Node", "name": n, "sub": "", "nth": 0, "err": "Server"})
        return first, flt
    if a in ("SetReason", "ClearReason", "CleanReason"):
        first = {"actor": actor, "verb": "get", "kind": "NodeClaim", "name": claim(n), "sub": "", "nth": 1}
        flt = [{"actor": actor, "verb": "get", "kind": "NodeClaim", "name": claim(n), "sub": "", "nth": 0, "err": "Server"}]
        if (a == "SetReason" or n in world["reason"]) and n not in world["gone"]:
            flt.append({"actor": actor, "verb": "patch", "kind": "NodeClaim", "name": claim(n), "sub": "status", "nth": 0, "err": "Server"})
        return first, flt
    if a == "CreateRepl":
        inv["creates"] += 1
        first = {"actor": actor, "verb": "create", "kind": "NodeClaim", "sub": "", "nth": inv["creates"]}
        return first, [dict(first, err="Server")]
    if a == "Observe":
        inv["observes"] += 1
        first = {"actor": actor, "verb": "get", "kind": "NodeClaim", "sub": "", "nth": inv["observes"]}
        return first, [dict(first, err="Server")]
    if a == "DeleteCand":
        first = {"actor": actor, "verb": "delete", "kind": "NodeClaim", "name": claim(n), "sub": "", "nth": 1}
        return first, [dict(first, nth=0, err="Server")]
    return None, None


def translate(beh, rng):
    """Fine-grained model behaviour -> driver steps (see module doc)."""
    cands, need, h = beh["cands"], beh["need"], beh["h"]
    if not isinstance(h, list):
        h = []
    steps, inv = [], None
    world = {"tainted": set(), "reason": set(), "gone": set()}
    order = collections.defaultdict(dict)    # command -> model replacement index -> arrival order of its successful create

    def env_step(e):
        if e["a"] == "Tick":
            return {"a": "Tick", "d": rng.choice(TICKS)}
        if e["a"] == "CandVanish":
            return {"a": "CandVanish", "node": e["x"]}
        return {"a": e["a"], "cmd": e["k"], "i": order[e["k"]].get(e["x"], 9)}

    def close():
        nonlocal inv
        if inv is not None:
            steps.append(inv["step"])
            steps.extend(inv["pending"])
            inv = None

    for e in h:
        a = e["a"]
        if a in ENV:
            if a == "CandVanish":     # a vanished node is only ever read (NotFound, ignored): no patch to fail
                world["gone"].add(e["x"])
                world["tainted"].discard(e["x"])
                world["reason"].discard(e["x"])
            (inv["pending"] if inv is not None else steps).append(env_step(e))
        elif a == "Restart":
            if inv is not None:   # crash inside the invocation: no call after the last one it made takes effect
                if inv["last"] is None:
                    inv["step"]["cut"] = {"sub": "*", "nth": 1, "when": "before"}
                else:
                    inv["step"]["cut"] = dict(inv["last"], when="after")
                close()
            steps.append({"a": "Restart"})
        elif a == "Build":
            close()
            steps.append({"a": "BuildCmd", "cmd": e["k"], "nodes": list(cands[e["k"]]), "nrepl": need[e["k"]]})
        elif a in OPENERS:
            close()
            st = {"a": OPENERS[a]}
            if a != "CleanBegin":
                st["cmd"] = e["k"]
            inv = {"kind": OPENERS[a], "step": st, "pending": [], "last": None, "creates": 0, "observes": 0}
        elif inv is not None:
            if e["f"] == "skip":
                continue
            first, faults = _calls(e, inv, world)
            if first is None:
                # in-memory step (EndMark, Mark, Enqueue, EndObserve, EndDelete, Complete ...): no call to attach pending
                # environment steps to; clock ticks (which only such a step can observe, e.g. the deferred timeout check)
                # are moved in front of the last call the invocation made, the rest waits for the next call
                ticks = [p for p in inv["pending"] if p["a"] == "Tick"]
                if ticks and inv["last"] is not None:
                    inv["step"].setdefault("at", []).append(dict(inv["last"], steps=ticks))
                    inv["pending"] = [p for p in inv["pending"] if p["a"] != "Tick"]
                continue
            if e["f"] == "ok":
                if a == "Taint":
                    world["tainted"].add(e["x"])
                elif a in ("Untaint", "CleanTaint"):
                    world["tainted"].discard(e["x"])
                elif a == "SetReason":
                    world["reason"].add(e["x"])
                elif a in ("ClearReason", "CleanReason"):
                    world["reason"].discard(e["x"])
                elif a == "CreateRepl":
                    order[e["k"]][e["x"]] = len(order[e["k"]])
            if inv["pending"]:
                inv["step"].setdefault("at", []).append(dict(first, steps=inv["pending"]))
                inv["pending"] = []
            if e["f"] == "fail":
                inv["step"].setdefault("faults", []).append(rng.choice(faults))
            inv["last"] = {k: v for k, v in first.items()}
    close()
    steps.append({"a": "Quiescent"})
    return steps


def select(behs, per_class, rng):
    """Stratified sample: behaviours are classified by final model state and by the faults / crash points / environment
    events they contain; at most per_class of each class."""
    classes = collections.defaultdict(list)
    for b in behs:
        h = b["h"] if isinstance(b["h"], list) else []
        ev = set()
        prev = "-"
        for e in h:
            if e["f"] == "fail":
                ev.add(e["a"] + "!")
            elif e["a"] == "Restart":
                ev.add("Restart@" + prev)
            elif e["a"] == "CandVanish":
                ev.add("CandVanish@" + prev)
            elif e["a"] in ("ReplVanish", "DeleteCand", "Complete", "CleanBegin"):
                ev.add(e["a"])
            if e["a"] not in ENV:
                prev = e["a"]
        key = (tuple(sorted(b["pc"].items())), tuple(sorted(ev)), tuple(sorted((k, len(v)) for k, v in b["cands"].items())))
        classes[key].append(b)
    out = []
    for key in sorted(classes, key=repr):
        bs = classes[key]
        out += rng.sample(bs, min(per_class, len(bs)))
    return out, len(classes)


# ---------------------------------------------------------------------------------------------- systematic paths
def mut_big_pods(pools, nodes, pods):
    """Pods too large to move onto the other nodes: SimulateScheduling asks for a replacement."""
    for p in pods:
        p["cpu"] = 3000


def mut_static_pool(pools, nodes, pods):
    pools[0].update(static=True, replicas=3)


def cand_vanish_paths():
    """A candidate (any position of the candidate list; Node and NodeClaim, only the Node, only the NodeClaim; seen or not
    yet seen by the informers) disappears while the command is in flight, before each way the command can end: rollback
    because a replacement disappeared, rollback by timeout, success."""
    P = {"a": "QueueRec", "cmd": "A"}
    Q = {"a": "Quiescent"}
    out = []
    ends = {"vanish": [{"a": "ReplVanish", "cmd": "A", "i": 0}, dict(P)],
            "timeout": [{"a": "ReplLaunch", "cmd": "A", "i": 0}, {"a": "Tick", "d": 601}, dict(P)],
            "success": [{"a": "ReplInit", "cmd": "A", "i": 0}, dict(P)]}
    for nc in (2, 3):
        start = [{"a": "BuildCmd", "cmd": "A", "nodes": list(NODES[:nc]), "nrepl": 1}, {"a": "StartCmd", "cmd": "A"}, dict(P)]
        for pos in range(nc):
            for what in ("both", "node", "claim"):
                for end, tail in ends.items():
                    if what != "both" and (nc == 2 or end == "success"):
                        continue
                    cv = {"a": "CandVanish", "node": NODES[pos], "value": what}
                    out.append(("cv%d-%s-%s-%s" % (nc, NODES[pos], what, end), start + [cv] + copy.deepcopy(tail) + [Q]))
            # the informers have not seen it yet when the rollback runs
            out.append(("cv%d-%s-lag-vanish" % (nc, NODES[pos]), start + [{"a": "CandVanish", "node": NODES[pos], "lag": True}]
                        + [{"a": "ReplVanish", "cmd": "A", "i": 0}, dict(P, lag=True), Q]))
        # two candidates lost, then rollback; candidate lost before the first pass
        out.append(("cv%d-two-lost-vanish" % nc, start + [{"a": "CandVanish", "node": "n1"}, {"a": "CandVanish", "node": "n2"}]
                    + copy.deepcopy(ends["vanish"]) + [Q]))
    # three candidates without loss (paths of the other families have at most two)
    s3 = [{"a": "BuildCmd", "cmd": "A", "nodes": list(NODES), "nrepl": 2}, {"a": "StartCmd", "cmd": "A"}, dict(P)]
    out.append(("c3-r2-init", s3 + [{"a": "ReplInit", "cmd": "A", "i": 0}, dict(P), {"a": "ReplInit", "cmd": "A", "i": 1}, dict(P), Q]))
    out.append(("c3-r2-init-vanish", s3 + [{"a": "ReplInit", "cmd": "A", "i": 0}, dict(P), {"a": "ReplVanish", "cmd": "A", "i": 1}, dict(P), Q]))
    out.append(("c3-r2-stall", s3 + [{"a": "ReplLaunch", "cmd": "A", "i": 0}, {"a": "Tick", "d": 601}, dict(P), Q]))
    out.append(("c3-r0", [{"a": "BuildCmd", "cmd": "A", "nodes": list(NODES), "nrepl": 0}, {"a": "StartCmd", "cmd": "A"}, dict(P), Q]))
    return out


def rollback_paths():
    """A failure verdict (timeout / vanished replacement), then MORE queue passes and the late initialisation of the stalled
    replacement.  The variants put a one-shot and a persistent fault on every call of the rolling-back pass; names start with
    "rb-": the quick tier replays all fault variants of their rollback calls (is_rollback_variant)."""
    P = {"a": "QueueRec", "cmd": "A"}
    Q = {"a": "Quiescent"}
    late = {"a": "Tick", "d": 601}
    out = []
    for nc in (1, 2):
        st = [{"a": "BuildCmd", "cmd": "A", "nodes": list(NODES[:nc]), "nrepl": 1}, {"a": "StartCmd", "cmd": "A"}, dict(P)]
        I0 = {"a": "ReplInit", "cmd": "A", "i": 0}
        out.append(("rb-c%d-timeout-late-init" % nc, st + [{"a": "ReplLaunch", "cmd": "A", "i": 0}, late, dict(P), dict(I0), dict(P), dict(P), Q]))
        out.append(("rb-c%d-timeout-tick-late-init" % nc, st + [late, dict(P), {"a": "Tick", "d": 1}, dict(I0), dict(P), {"a": "Tick", "d": 1}, dict(P), Q]))
        out.append(("rb-c%d-vanish-more-passes" % nc, st + [{"a": "ReplVanish", "cmd": "A", "i": 0}, dict(P), dict(P), {"a": "Tick", "d": 1}, dict(P), Q]))
        st2 = [{"a": "BuildCmd", "cmd": "A", "nodes": list(NODES[:nc]), "nrepl": 2}, {"a": "StartCmd", "cmd": "A"}, dict(P)]
        out.append(("rb-c%d-r2-timeout-late-init" % nc, st2 + [dict(I0), dict(P), late, dict(P), {"a": "ReplInit", "cmd": "A", "i": 1}, dict(P),
                                                              dict(P), Q]))
        out.append(("rb-c%d-r2-vanish-late-init" % nc, st2 + [{"a": "ReplVanish", "cmd": "A", "i": 0}, dict(P), dict(I0, i=1), dict(P), dict(P), Q]))
    return out


def is_rollback_variant(name):
    """Variant of an rb- path with a fault on a call of the rollback (candidate Node / NodeClaim reads and patches)."""
    import re
    return name.startswith("rb-") and (":once:" in name or name.endswith(":always")) and \
        re.search(r":(get|patch)\.Node\.|:patch\.NodeClaim\.|:get\.NodeClaim\.nc-", name) is not None


def extra_paths():
    """Paths on other clusters / through other real components: (name, steps, cluster mutation)."""
    P = {"a": "QueueRec", "cmd": "A"}
    Q = {"a": "Quiescent"}
    L = {"a": "ReplInit", "cmd": "A", "i": 0, "via": "lifecycle"}
    out = []
    # replacements computed by the real SimulateScheduling (what Drift / consolidation build)
    sim = [{"a": "BuildCmd", "cmd": "A", "nodes": ["n1"], "mode": "simulate"}, {"a": "StartCmd", "cmd": "A"}, dict(P)]
    out.append(("sim-lifecycle", sim + [dict(L), dict(P), Q], mut_big_pods))
    out.append(("sim-late", sim + [{"a": "Tick", "d": 601}, dict(L), dict(P), Q], mut_big_pods))
    out.append(("sim-ice", sim + [{"a": "ReplVanish", "cmd": "A", "i": 0, "via": "lifecycle"}, dict(P), Q], mut_big_pods))
    # static pool: the replacement is a bare template (what StaticDrift builds), pending-disruption bookkeeping
    st = [{"a": "BuildCmd", "cmd": "A", "nodes": ["n1"], "nrepl": 1, "method": "staticdrift"}, {"a": "StartCmd", "cmd": "A"}, dict(P)]
    out.append(("static-lifecycle", st + [dict(L), dict(P), Q], mut_static_pool))
    out.append(("static-late", st + [{"a": "Tick", "d": 601}, dict(L), dict(P), Q], mut_static_pool))
    out.append(("static-vanish", st + [{"a": "ReplVanish", "cmd": "A", "i": 0}, dict(P), Q], mut_static_pool))
    out.append(("static-stall", st + [{"a": "ReplLaunch", "cmd": "A", "i": 0}, {"a": "Tick", "d": 601}, dict(P), Q], mut_static_pool))
    # a left-over taint on another node: the stale cleanup has work to do while a command is in flight / a pass runs
    def mut_stale(pools, nodes, pods):
        for n in nodes:
            if n["name"] == "n2":
                n["tainted"] = True
    one = [{"a": "BuildCmd", "cmd": "A", "nodes": ["n1"], "nrepl": 1}, {"a": "StartCmd", "cmd": "A"}]
    out.append(("stale-taint-pass-cleanup", one + [{"a": "ReplInit", "cmd": "A", "i": 0}, dict(P), {"a": "Cleanup"}, Q], mut_stale))
    out.append(("stale-taint-cleanup-pass", one + [{"a": "ReplInit", "cmd": "A", "i": 0}, {"a": "Cleanup"}, dict(P), Q], mut_stale))
    out.append(("stale-taint-waiting", one + [dict(P), {"a": "Cleanup"}, Q, {"a": "ReplVanish", "cmd": "A", "i": 0}, dict(P), {"a": "Cleanup"}, Q], mut_stale))
    # the provider has no capacity: the real lifecycle controller deletes the replacement
    two = [{"a": "BuildCmd", "cmd": "A", "nodes": ["n1", "n2"], "nrepl": 2}, {"a": "StartCmd", "cmd": "A"}, dict(P)]
    out.append(("c2-r2-init-ice", two + [dict(L), dict(P), {"a": "ReplVanish", "cmd": "A", "i": 1, "via": "lifecycle"}, dict(P), Q], None))
    out.append(("c2-r2-ice-init", two + [{"a": "ReplVanish", "cmd": "A", "i": 0, "via": "lifecycle"}, dict(L, i=1), dict(P), Q], None))
    return out


def base_paths():
    """Canonical paths: (name, steps). Pass = one Queue.Reconcile of command A."""
    P = {"a": "QueueRec", "cmd": "A"}
    paths = []

    def start(nc, nr, mode="template"):
        return [{"a": "BuildCmd", "cmd": "A", "nodes": list(NODES[:nc]), "nrepl": nr, "mode": mode}, {"a": "StartCmd", "cmd": "A"}, dict(P)]

    def ev(kind, i, via="env"):
        st = {"a": kind, "cmd": "A", "i": i}
        if via != "env":
            st["via"] = via
        return st
    late = {"a": "Tick", "d": 601}
    for nc in (1, 2):
        paths.append(("c%d-r0" % nc, start(nc, 0) + [{"a": "Quiescent"}]))
        paths.append(("c%d-r0-sim" % nc, start(nc, 0, "simulate") + [ev("ReplInit", 0), dict(P), {"a": "Quiescent"}]))
        # one replacement: ready early / through the real lifecycle controller / late / gone / never
        paths.append(("c%d-r1-init" % nc, start(nc, 1) + [ev("ReplInit", 0), dict(P), {"a": "Quiescent"}]))
        paths.append(("c%d-r1-lifecycle" % nc, start(nc, 1) + [ev("ReplInit", 0, "lifecycle"), dict(P), {"a": "Quiescent"}]))
        paths.append(("c%d-r1-launch-stall" % nc, start(nc, 1) + [ev("ReplLaunch", 0), dict(P), late, dict(P), {"a": "Quiescent"}]))
        paths.append(("c%d-r1-late" % nc, start(nc, 1) + [late, ev("ReplInit", 0), dict(P), {"a": "Quiescent"}]))
        paths.append(("c%d-r1-edge" % nc, start(nc, 1) + [{"a": "Tick", "d": 600}, ev("ReplInit", 0), dict(P), {"a": "Quiescent"}]))
        paths.append(("c%d-r1-vanish" % nc, start(nc, 1) + [ev("ReplVanish", 0), dict(P), {"a": "Quiescent"}]))
        paths.append(("c%d-r1-init-vanish" % nc, start(nc, 1) + [ev("ReplInit", 0), ev("ReplVanish", 0), dict(P), {"a": "Quiescent"}]))
        # two replacements: every order of {init, vanish, stall} x {init, vanish, stall}
        for f0 in ("init", "vanish", "stall"):
            for f1 in ("init", "vanish", "stall"):
                for order in ((0, 1), (1, 0)):
                    fate = {0: f0, 1: f1}
                    mid = []
                    for i in order:
                        if fate[i] == "init":
                            mid += [ev("ReplInit", i), dict(P)]
                        elif fate[i] == "vanish":
                            mid += [ev("ReplVanish", i), dict(P)]
                    if "stall" in (f0, f1):
                        mid += [late, dict(P)]
                    if (f0, f1) == ("stall", "stall") and order == (1, 0):
                        continue
                    paths.append(("c%d-r2-%s-%s-%d%d" % (nc, f0, f1, order[0], order[1]), start(nc, 2) + mid + [{"a": "Quiescent"}]))
        # informer lag: the replacement is gone from the API but the cluster state still knows it for one pass
        paths.append(("c%d-r1-vanish-lag" % nc, start(nc, 1) + [dict(ev("ReplVanish", 0), lag=True), dict(P, lag=True), dict(P), {"a": "Quiescent"}]))
        paths.append(("c%d-r2-init-lag" % nc, start(nc, 2) + [dict(ev("ReplInit", 0), lag=True), ev("ReplInit", 1), dict(P, lag=True), dict(P),
                                                            {"a": "Quiescent"}]))
        # latched: the first replacement was seen Initialized, disappears, then the second one becomes ready
        paths.append(("c%d-r2-latched-vanish" % nc, start(nc, 2) + [ev("ReplInit", 0), dict(P), ev("ReplVanish", 0), ev("ReplInit", 1), dict(P),
                                                                 {"a": "Quiescent"}]))
        # both ready only after the window
        paths.append(("c%d-r2-late" % nc, start(nc, 2) + [ev("ReplInit", 0), dict(P), late, ev("ReplInit", 1), dict(P), {"a": "Quiescent"}]))
    return paths


def two_command_paths():
    """Two commands: overlapping candidates (stale second command), disjoint candidates, a second action after the first ended."""
    P = lambda c: {"a": "QueueRec", "cmd": c}
    B = lambda c, ns, r: {"a": "BuildCmd", "cmd": c, "nodes": ns, "nrepl": r}
    S = lambda c: {"a": "StartCmd", "cmd": c}
    I = lambda c, i: {"a": "ReplInit", "cmd": c, "i": i}
    Q = {"a": "Quiescent"}
    out = []
    for ca, cb in ((["n1"], ["n1"]), (["n1"], ["n1", "n2"]), (["n2"], ["n1", "n2"]), (["n1", "n2"], ["n2"]), (["n1"], ["n2"])):
        tag = "%s-%s" % ("".join(ca), "".join(cb))
        for ra, rb in ((1, 1), (0, 1), (1, 0)):
            out.append(("two-stale-%s-%d%d" % (tag, ra, rb), [B("A", ca, ra), B("B", cb, rb), S("A"), S("B"), P("A"), P("B"), I("A", 0), I("B", 0),
                                                              P("A"), P("B"), Q]))
            out.append(("two-stale-late-%s-%d%d" % (tag, ra, rb), [B("A", ca, ra), B("B", cb, rb), S("A"), P("A"), {"a": "Tick", "d": 601}, S("B"),
                                                                   P("A"), P("B"), I("B", 0), P("B"), Q]))
        # the first command keeps waiting for its replacement while the second one runs (and, in the variants, fails)
        out.append(("two-waiting-" + tag, [B("A", ca, 1), S("A"), P("A"), B("B", cb, 1), S("B"), P("B"), Q, I("B", 0), P("B"), Q]))
        # the second command is computed after the first one ended (failed / succeeded / was lost in a restart)
        out.append(("two-after-fail-" + tag, [B("A", ca, 1), S("A"), {"a": "ReplVanish", "cmd": "A", "i": 0}, P("A"), B("B", cb, 1), S("B"), I("B", 0),
                                              P("B"), Q]))
        out.append(("two-after-restart-" + tag, [B("A", ca, 1), S("A"), {"a": "Restart"}, {"a": "Cleanup"}, B("B", cb, 1), S("B"), I("B", 0),
                                                 P("B"), Q]))
    return out


def round_paths():
    """Commands computed and started by the real disruption controller (drift with a replacement, emptiness delete)."""
    out = []

    def drifted(pools, nodes, pods):
        nodes[:] = [dc.node("n1", "p", "medium", drifted=True, driftedAt=500)]
        pods[:] = [dc.pod("p-n1", "n1", cpu=1500)]

    def empty(pools, nodes, pods):
        pods[:] = [p for p in pods if p["node"] != "n1"]
    P = {"a": "QueueRec"}
    Q = {"a": "Quiescent"}
    R1 = lambda a, **kw: dict({"a": a, "cmd": "R1", "i": 0}, **kw)
    out.append(("round-drift-init", [{"a": "Round"}, dict(P), R1("ReplInit"), dict(P), Q], drifted))
    out.append(("round-drift-lifecycle", [{"a": "Round"}, dict(P), R1("ReplInit", via="lifecycle"), dict(P), Q], drifted))
    out.append(("round-drift-late", [{"a": "Round"}, dict(P), {"a": "Tick", "d": 601}, R1("ReplInit"), dict(P), Q], drifted))
    out.append(("round-drift-vanish", [{"a": "Round"}, dict(P), R1("ReplVanish"), dict(P), Q, {"a": "Round"}, dict(P), Q], drifted))
    out.append(("round-drift-stall", [{"a": "Round"}, dict(P), R1("ReplLaunch"), {"a": "Tick", "d": 601}, dict(P), Q], drifted))
    out.append(("round-drift-restart", [{"a": "Round"}, dict(P), {"a": "Restart"}, R1("ReplInit"), {"a": "Round"}, dict(P), Q], drifted))
    out.append(("round-empty", [{"a": "Round"}, dict(P), Q], empty))
    out.append(("round-empty-twice", [{"a": "Round"}, {"a": "Round"}, dict(P), Q], empty))
    return out


STEP_KINDS = ("StartCmd", "QueueRec", "Cleanup", "Round")
CTRL = {"disruption.start": "StartCmd", "disruption.queue": "QueueRec", "disruption.cleanup": "Cleanup", "disruption": "Round"}
STATIC_NAMES = {"n1", "n2", "n3", "z", "nc-n1", "nc-n2", "nc-n3", "nc-z", "p"}


def enumerate_calls(trace_file):
    """Per trace: for each top-level controller step (in order) the API calls it made: [(stepIdx, kind, [call...])]; a call
    = dict(actor, verb, kind, name, sub, nth) addressed by occurrence among the calls the same matcher selects."""
    out = {}
    cur = None
    for line in open(trace_file):
        ev = json.loads(line)
        e = ev["e"]
        if e == "Cfg":
            cur = {"steps": [], "open": None, "q": False}
            out[ev["name"]] = cur
        elif e == "Note" and ev.get("what") == "quiescent-begin":
            cur["q"] = True       # the passes / cleanups a Quiescent step runs are not steps of the path
        elif e == "Quiescent":
            cur["q"] = False
        elif e == "Begin" and ev["controller"] in CTRL and not cur["q"] and cur["open"] is None:
            cur["open"] = {"kind": CTRL[ev["controller"]], "calls": [], "seen": collections.Counter()}
        elif e == "End" and ev["controller"] in CTRL and cur["open"] is not None and CTRL[ev["controller"]] == cur["open"]["kind"]:
            cur["steps"].append(cur["open"])
            cur["open"] = None
        elif e == "OSkip" and ev["a"] in STEP_KINDS and not cur["q"] and cur["open"] is None:
            cur["steps"].append({"kind": ev["a"], "calls": []})    # the step did nothing (e.g. the command already left the queue)
        elif e in ("Api", "Read") and cur["open"] is not None and ev["actor"] in ("disruption", "disruption.queue"):
            name = ev["name"] if ev["name"] in STATIC_NAMES else ""
            sub = "" if ev.get("sub", "-") == "-" else ev["sub"]
            key = (ev["actor"], ev["verb"], ev["kind"], name, sub)
            cur["open"]["seen"][key] += 1
            cur["open"]["calls"].append({"actor": ev["actor"], "verb": ev["verb"], "kind": ev["kind"], "name": name, "sub": sub,
                                         "nth": cur["open"]["seen"][key]})
    return {k: [(s["kind"], s["calls"]) for s in v["steps"]] for k, v in out.items()}



def variants(name, steps, calls_per_step, rng, tier):
    """Fault / crash / restart variants of one base path. calls_per_step: enumerate_calls() of its fault-free run."""
    out = []
    idx = [i for i, st in enumerate(steps) if st["a"] in STEP_KINDS]
    # a QueueRec without cmd may stand for zero or several passes: variants only where the step count lines up
    if len(idx) != len(calls_per_step) or any(steps[i]["a"] != k for i, (k, _) in zip(idx, calls_per_step)):
        return out, False
    for pos, (i, (kind, calls)) in enumerate(zip(idx, calls_per_step)):
        seen_persist = set()
        for c in calls:
            if c["verb"] == "list":
                errs = ["Server"]
            elif c["verb"] == "get":
                errs = ["Server", "NotFound"]
            elif c["verb"] == "patch":       # writes go to the API server: NotFound for an existing object would be a lie
                errs = ["Server", "Conflict"]
            elif c["verb"] == "delete":
                errs = ["Server", "TooManyRequests"]
            else:
                errs = ["Server"]
            if tier == "quick":
                errs = [rng.choice(errs)]
            tag = "%s.%s.%s%s#%d" % (c["verb"], c["kind"], c["name"] or "*", "/" + c["sub"] if c["sub"] else "", c["nth"])
            for err in errs:   # (i) one failing call (absorbed by the client's retry where there is one)
                st2 = copy.deepcopy(steps)
                st2[i]["faults"] = [dict(c, err=err)]
                out.append(("%s|s%d:%s:once:%s" % (name, pos, tag, err), st2))
            pk = (c["verb"], c["kind"], c["name"], c["sub"])
            if pk not in seen_persist and c["verb"] != "list":   # (ii) the call keeps failing (beyond the retries)
                seen_persist.add(pk)
                st2 = copy.deepcopy(steps)
                st2[i]["faults"] = [dict(c, nth=0, err="Server")]
                out.append(("%s|s%d:%s:always" % (name, pos, tag), st2))
            for when in ("before", "after"):   # (iii) crash at the call: nothing after it takes effect, then a new process
                st2 = copy.deepcopy(steps)
                st2[i]["cut"] = dict(c, when=when)
                st2.insert(i + 1, {"a": "Restart"})
                out.append(("%s|s%d:%s:crash-%s" % (name, pos, tag, when), st2))
    # (iv) overlapping invocations: the next controller step runs entirely between two calls of this one (a queue pass of
    # one command while another command starts, the stale cleanup while a pass runs, two passes ...)
    for pos, (i, (kind, calls)) in enumerate(zip(idx, calls_per_step)):
        j = i + 1
        if j >= len(steps) or steps[j]["a"] not in STEP_KINDS:
            continue
        a, b = steps[i], steps[j]
        if a["a"] == "StartCmd" and b["a"] == "StartCmd":
            continue          # both run in the disruption controller's goroutine
        if a.get("cmd") and a.get("cmd") == b.get("cmd") and "StartCmd" in (a["a"], b["a"]):
            continue          # a command is enqueued by the last step of its StartCommand: its pass cannot overlap it
        for c in calls:
            tag = "%s.%s.%s%s#%d" % (c["verb"], c["kind"], c["name"] or "*", "/" + c["sub"] if c["sub"] else "", c["nth"])
            st2 = copy.deepcopy(steps)
            inner = st2.pop(j)
            st2[i]["at"] = [dict(c, steps=[inner])]
            out.append(("%s|s%d:%s:overlap-%s" % (name, pos, tag, inner["a"]), st2))
    for i in range(1, len(steps)):   # a restart between any two steps
        if steps[i]["a"] == "Quiescent" and i == len(steps) - 1 and steps[i - 1]["a"] == "Restart":
            continue
        st2 = copy.deepcopy(steps)
        st2.insert(i, {"a": "Restart"})
        out.append(("%s|restart@%d" % (name, i), st2))
        st3 = copy.deepcopy(st2)     # ... followed by the stale cleanup before anything else happens
        st3.insert(i + 1, {"a": "Cleanup"})
        out.append(("%s|restart+cleanup@%d" % (name, i), st3))
    return out, True


# ---------------------------------------------------------------------------------------------- running and summarising
def record(run, scenarios, prefix="orch", shards=1, procs=8):
    import concurrent.futures as cf
    procs = max(1, min(procs, len(scenarios)))
    run.build_drv()
    chunks = [scenarios[i::procs] for i in range(procs)]

    def one(i):
        spath = os.path.join(run.work, "%s-scenarios-%02d.json" % (prefix, i))
        json.dump(chunks[i], open(spath, "w"))
        out = json.loads(run.drv("orch", ["-in", spath, "-out", os.path.join(run.work, "traces-" + prefix), "-shards", shards,
                                          "-prefix", "%s-%02d" % (prefix, i)], timeout=3000))
        if out["traces"] != len(chunks[i]):
            raise vlib.InfraError("driver recorded %d traces for %d scenarios" % (out["traces"], len(chunks[i])))
        return out["files"]
    files = []
    with cf.ThreadPoolExecutor(max_workers=procs) as ex:
        for fs in ex.map(one, range(procs)):
            files += [f if os.path.isabs(f) else os.path.join(run.work, f) for f in fs]
    return files


def summarise(files):
    """Per trace: what happened that the guards look at (non-triviality, model comparison)."""
    out = {}
    for f in files:
        cur = None
        for line in open(f):
            ev = json.loads(line)
            e = ev["e"]
            if e == "Cfg":
                cur = {"name": ev["name"], "tags": ev["tags"], "file": f, "deletes": 0, "failed": 0, "startFailed": 0, "started": 0,
                       "succeeded": 0, "restarts": 0, "quiescent": 0, "injected": 0, "cuts": 0, "panics": 0, "skips": 0,
                       "cmd": {}, "deleting": {}, "q": False, "hooks": 0, "repl": {}, "vanished": set(), "qcmd": None,
                       "latched_vanish_delete": 0}
                out[ev["name"]] = cur
            elif e == "Note" and ev.get("what") == "quiescent-begin":
                cur["q"] = True
            elif e == "Api":
                if ev.get("injected"):
                    cur["injected"] += 1
                if ev["err"] == "-" and ev["kind"] == "NodeClaim" and ev.get("gone"):
                    cur["vanished"].add(ev["name"])
                if ev["actor"] == "disruption.queue" and ev["verb"] == "delete" and ev["kind"] == "NodeClaim" and ev["err"] == "-":
                    cur["deletes"] += 1
                    if cur["vanished"] & set(cur["repl"].get(cur["qcmd"], [])):
                        cur["latched_vanish_delete"] += 1   # observation, not judged: a latched replacement had disappeared
                    if not cur["q"]:
                        cur["deleting"][ev["name"]] = True
            elif e == "Read" and ev.get("injected"):
                cur["injected"] += 1
            elif e == "Env" and ev["kind"] == "NodeClaim" and not ev["post"].get("exists"):
                cur["vanished"].add(ev["name"])
            elif e == "Begin" and ev["controller"] == "disruption.queue":
                cur["qcmd"] = ev["object"]
            elif e == "OCmd" and ev.get("repl"):
                cur["repl"][ev["cmd"]] = list(ev["repl"])
            elif e == "End" and ev["controller"] in CTRL:
                if ev.get("panic"):
                    cur["panics"] += 1
                if ev["controller"] == "disruption.start":
                    cur["repl"][ev["object"]] = [r for r in ev.get("repl", []) if r != "-"]
                    cur["started" if ev["started"] else "startFailed"] += 1
                    if not cur["q"]:
                        cur["cmd"][ev["object"]] = "queued" if ev["started"] else "startFailed"
                elif ev["controller"] == "disruption.queue":
                    if ev["outcome"] in ("failed", "succeeded"):
                        cur[ev["outcome"]] += 1
                    if not cur["q"] and ev["outcome"] != "waiting":
                        cur["cmd"][ev["object"]] = ev["outcome"]
            elif e == "Restart":
                cur["restarts"] += 1
                if not cur["q"]:
                    for k, v in list(cur["cmd"].items()):
                        if v == "queued":
                            cur["cmd"][k] = "lost"
            elif e == "Quiescent":
                cur["quiescent"] += 1
            elif e == "OCut":
                cur["cuts"] += 1
            elif e == "OSkip":
                cur["skips"] += 1
    return out


def nontrivial(s):
    """The real trace reached a guarded event: a candidate delete, a failed / refused / lost action followed by a
    quiescent check, or a second command judged against one in progress."""
    return bool(s["deletes"] or s["failed"] or s["startFailed"] or (s["restarts"] and s["started"]) or s["started"] > 1)


MODEL_PC = {"startFailed": {"startFailed", "refused"}, "queued": {"queued", "rec", "del"}, "succeeded": {"succeeded"},
            "failed": {"failed", "rb"}, "lost": {"lost"}}


def model_drift(beh, s):
    """Where the real run ended differently from what the model expected (diagnostic only)."""
    out = []
    for k, pc in beh["pc"].items():
        real = s["cmd"].get(k)
        if pc in ("mark", "create", "markdel", "enq", "rec", "del", "rb", "lost"):
            continue      # history truncated inside an invocation / lost in a restart: the real step ran to its end
        if pc in ("none", "idle"):
            if real is not None:
                out.append("%s: model %s, real %s" % (k, pc, real))
            continue
        if real is None or pc not in MODEL_PC.get(real, set()):
            out.append("%s: model %s, real %s" % (k, pc, real))
    if any(pc in ("rec", "del", "rb") for pc in beh["pc"].values()):
        return out
    for n, d in beh["deleted"].items():
        if bool(d) != bool(s["deleting"].get(claim(n))):
            out.append("%s: model deleted=%s, real %s" % (n, d, bool(s["deleting"].get(claim(n)))))
    return out
