"""C15 - Drift is reported for drift-relevant changes and never self-inflicted.

Closed model Drift.tla (hash axioms over the edit alphabet, hash-version migration, NodeClaim label
production + launch choice, drift decision) checked by TLC, every Drift_Weak_*.cfg rejected.
Binding: (a) the reflection walker applies every edit of the alphabet (field path x kind, derived from
v1.NodePoolSpec by reflection) to a real NodePool and records Hash() before/after; (b),(c) behaviours
simulated by TLC from Drift.tla plus systematic sweeps (a NodeClaim per launch option of generated
pools, then pool edits / version bumps / restarts) run through the real provisioner, lifecycle, hash
and nodeclaim-disruption controllers; Drift_Trace.tla re-derives every Drifted verdict."""
import collections
import json
import os
import random

import vlib
from checks import drift_common as dc

NSIM = {"quick": 120, "thorough": 1500}
MC = {"quick": "Drift_MC.cfg", "thorough": "Drift_MC_thorough.cfg"}


def _atoms(stdout):
    for line in stdout.splitlines():
        if line.startswith('<<"ATOMS", '):
            return json.loads(json.loads(line[len('<<"ATOMS", '):-2]))
    raise vlib.InfraError("Drift.tla did not print its atom table")


def _closed_model(run):
    import concurrent.futures as cf
    workers = 4 if run.tier == "quick" else 8
    with cf.ThreadPoolExecutor(max_workers=1) as ex:    # the spec mutations run beside the exhaustive check
        fut = ex.submit(dc.tlc_parallel, run, ["Drift_Weak_%s.cfg" % w for w in sorted(dc.WEAK)], 5, 2)
        r = run.closed_model("Drift", MC[run.tier], workers=workers, coverage=True, timeout=3000, heap="6g")
        if r.coverage_zero:
            raise vlib.InfraError("vacuous closed model, actions never taken: %s" % sorted(set(r.coverage_zero)))
        if run.tier == "thorough":
            r2 = run.closed_model("Drift", "Drift_MC2.cfg", workers=workers, coverage=False, timeout=3000, heap="6g")
        res = fut.result()
    for w, expect in sorted(dc.WEAK.items()):
        violated, distinct, wall = res["Drift_Weak_%s.cfg" % w]
        if violated not in expect:
            raise vlib.InfraError("spec mutation Drift_Weak_%s.cfg not rejected by TLC as expected (got %s, want one of %s)"
                                  % (w, violated, sorted(expect)))
        run.notes.append("spec mutation %s rejected: %s (%d states, %.0fs)" % (w, violated, distinct, wall))
    return r


def check(run):
    rng = random.Random(run.seed)
    run.rule = ("(a) one evaluation per edit of the reflection-derived alphabet (field path of v1.NodePoolSpec x edit kind x base object) "
                "on the real NodePool.Hash(), non-trivial unless the path lies outside template and documented fields; "
                "(b),(c) one evaluation per behaviour replayed on the real provisioner / lifecycle / hash / nodeclaim-disruption "
                "controllers (TLC simulations of Drift.tla + systematic sweeps creating one NodeClaim per provider launch option), "
                "non-trivial when the real trace contains a drift reconcile of a launched NodeClaim (a judged verdict)")
    if os.environ.get("VERIF_C15_SKIP_MODEL"):    # development shortcut for code-mutation runs; never used by the registered commands
        run.notes.append("closed model skipped (VERIF_C15_SKIP_MODEL)")
    else:
        _closed_model(run)

    # ---- (a) hash axioms on the real Hash()
    out = json.loads(run.drv("drift-hash", ["-out", os.path.join(run.work, "traces-hash"), "-shuffles", 20 if run.tier == "quick" else 200]))
    hash_files = out["files"]
    kinds = collections.Counter()
    for f in hash_files:
        for line in open(f):
            ev = json.loads(line)
            if ev["e"] == "Call":
                run.note_case(("hash", ev["base"], ev["path"], ev["kind"], ev["detail"]), ev["cls"] != "outside")
                kinds[ev["cls"] + "/" + ev["kind"]] += 1
    need = {"template/" + k for k in ("set", "setzero", "change", "clear", "append", "remove", "reorder")} | \
           {"documented/" + k for k in ("set", "change", "clear", "append", "remove", "reorder")}
    if need - set(kinds):
        raise vlib.InfraError("edit alphabet incomplete, never exercised: %s" % sorted(need - set(kinds)))
    for must in ("template.spec.taints", "template.spec.startupTaints", "template.metadata.labels", "template.spec.requirements",
                 "disruption.budgets", "limits", "weight"):
        if must not in out["paths"]:
            raise vlib.InfraError("reflection walk did not reach %s" % must)
    run.extra_cov["hash_edit_alphabet"] = dict(kinds)
    run.extra_cov["hash_paths"] = out["paths"]

    # ---- (b),(c) behaviours
    g = run.tlc("Drift", "Drift_Gen.cfg", workers=1, simulate="num=%d" % NSIM[run.tier], depth=24, timeout=1500, collect_beh=True)
    if g.violated or g.error:
        raise vlib.InfraError("behaviour generation Drift/Drift_Gen.cfg failed: %s" % (g.violated or g.error))
    atoms = _atoms(g.stdout)
    hs = g.printed
    if not hs:
        raise vlib.InfraError("TLC generated no Drift behaviours")
    seen, sims = set(), []
    for h in hs:
        k = json.dumps(h, sort_keys=True)
        if k not in seen:
            seen.add(k)
            sims.append(dc.from_model(h, atoms, rng))
    behs = sims + dc.systematic(run.tier, rng)
    files = dc.record(run, behs, "drift-world", procs=8 if run.tier == "quick" else 16)
    info = dc.scan(files)
    if len(info) != len(behs):
        raise vlib.InfraError("driver produced %d traces for %d behaviours" % (len(info), len(behs)))
    stats = collections.Counter()
    for t in info:
        run.note_case(("world", t["beh"]), t["drift"] > 0)
        stats["drift_reconciles_judged"] += t["drift"]
        stats["hash_reconciles"] += t["hash"]
        stats["claims_launched"] += t["launched"]
        stats["traces_with_drifted_claim"] += 1 if t["drifted"] else 0
        stats["claims_created"] += t["created"]
        stats["creates_refused"] += t["create_failed"]      # e.g. minValues on a custom key: the scheduler opens nothing
    if stats["drift_reconciles_judged"] < 200 or stats["traces_with_drifted_claim"] < 20 or stats["creates_refused"] * 4 > stats["claims_created"]:
        raise vlib.InfraError("behaviours too shallow: %s" % dict(stats))
    late = sum(t["late_drifted"] for t in info)
    if late:
        run.notes.append("observation (not judged, schedules are outside the quantifier): in %d stale-annotation behaviours a NodeClaim created from an "
                         "edited pool BEFORE the hash controller refreshed the pool's annotation was reported NodePoolDrifted by the first drift "
                         "reconcile and cleared by the one after the hash reconcile" % late)
    run.extra_cov["world"] = dict(stats)
    run.extra_cov["behaviours"] = {"tlc_simulated": len(sims), "systematic": len(behs) - len(sims)}
    import time
    t0 = time.time()
    run.validate("Drift_Trace", "Drift_Trace.cfg", hash_files + files, par=8, timeout=1800)
    run.notes.append("trace validation %.1fs" % (time.time() - t0))
    run.samples = [{"tag": b["tag"], "scn": b["scn"], "steps": b["steps"][:12]} for b in (behs[0], behs[len(sims)], behs[-1])]
    run.assumptions += [
        "the documented non-drifting fields are .spec.disruption.*, .spec.limits, .spec.weight and .spec.template.spec.requirements; every other "
        "field below .spec.template is expected to change the hash whenever an edit changes the object's JSON",
        "the provider labels a launched NodeClaim with the single-valued requirements of the chosen instance type and offering; pools constrain "
        "only well-known keys the catalog defines (zone, capacity type, instance type, arch, os) and two custom keys",
        "NoSelfDrift and TemplateChangeReported are judged only by drift reconciles that see current pool annotations (the hash controller has "
        "reconciled since the last pool edit): the property quantifies over inputs and configurations, not over controller schedules",
        "hash annotations of an earlier release are modelled as version v2 with a different hash string per template",
        "controller-runtime fake client + harness choke point stand in for the API server",
    ]


def replay(run, path):
    body = json.load(open(path))
    cfg = next((e for e in body.get("trace", []) if e.get("e") == "Cfg"), None)
    if not cfg:
        raise vlib.InfraError("replay file %s carries no Cfg line" % path)
    if cfg.get("part") == "hash":
        out = json.loads(run.drv("drift-hash", ["-out", os.path.join(run.work, "traces-hash")]))
        files = out["files"]
        run.note_case("replay-hash")
    else:
        beh = json.loads(cfg["behJson"])
        # label values chosen by Requirement.Any() are random: repeat the behaviour so that a probabilistic witness re-appears
        files = dc.record(run, [beh] * 8, "replay", procs=4)
        run.note_case(json.dumps(beh, sort_keys=True))
        run.samples = [{"tag": beh.get("tag"), "steps": beh.get("steps")}]
    run.note_case("replay")
    run.validate("Drift_Trace", "Drift_Trace.cfg", files, par=4)
