"""C05 mapping / round level: scenarios of BudgetRounds.tla -> generated TLA constants, TLC simulation ->
driver behaviours."""
import json
import os

import vlib

HR = 3600


def bd(kind, val, reasons=(), cron="-", dur=-1, mal="-", txt="-"):
    return {"cron": cron, "hits": [], "dur": dur, "kind": kind, "val": val, "reasons": list(reasons),
            "rstate": "set" if reasons else "nil", "mal": mal, "txt": txt}


# Scenarios: pools with budget lists, nodes (pool, kind, initial phase), the instants the clock may jump to.
# Instants are seconds after the horizon start (midnight UTC, `day` days after the scenario epoch).
SCENARIOS = {
    # the configuration the closed model is checked with (BudgetRounds.tla MC_*): hourly window [3h, 3h+10m)
    "S1": {
        "pools": {"pa": [bd("pct", 50), bd("count", 0, ("Empty",), cron="0 * * * *", dur=600),
                         bd("count", 1, ("Drifted",))],
                  "pb": [bd("count", 1)]},
        "poolOf": ["pa", "pa", "pa", "pb"], "kindOf": ["empty", "empty", "drifted", "empty"],
        "initPhase": ["init", "init", "init", "absent"],
        "t0": 3 * HR - 40, "maxT": 3 * HR + 660, "marks": [3 * HR - 10, 3 * HR + 580, 3 * HR + 595, 3 * HR + 640], "day": 0,
    },
    # percentages whose ceiling moves with the pool size, a malformed entry (admitted by the CRD pattern), five nodes
    "S2": {
        "pools": {"pa": [bd("pct", 34)],
                  "pb": [bd("count", 5, cron="61 * * * *", dur=600, mal="cron", txt="61 * * * *"), bd("count", 3)]},
        "poolOf": ["pa", "pa", "pa", "pb", "pb"], "kindOf": ["empty", "empty", "empty", "empty", "drifted"],
        "initPhase": ["init", "init", "registered", "init", "claim"],
        "t0": 100, "maxT": 400, "marks": [200], "day": 58,
    },
    # no budgets at all (nothing restricts), a reason-specific count next to 100%, overlapping windows of a 0,20 schedule
    "S3": {
        "pools": {"pa": [],
                  "pb": [bd("pct", 100), bd("count", 2, ("Drifted", "Empty")),
                         bd("pct", 26, ("Empty",), cron="0,20 * * * *", dur=1800)]},
        "poolOf": ["pa", "pa", "pb", "pb", "pb", "pb"], "kindOf": ["empty", "drifted", "empty", "empty", "empty", "drifted"],
        "initPhase": ["init", "init", "init", "init", "init", "registered"],
        "t0": 5 * HR + 50 * 60 - 20, "maxT": 5 * HR + 50 * 60 + 60, "marks": [5 * HR + 50 * 60 - 8, 5 * HR + 50 * 60 + 30], "day": 789,
    },
    # underutilized nodes (one small replicated pod each): multi-/single-node consolidation, reason Underutilized
    "S4": {
        "pools": {"pa": [bd("count", 2, ("Underutilized",)), bd("pct", 100)], "pb": [bd("pct", 50)]},
        "poolOf": ["pa", "pa", "pa", "pa", "pb", "pb"], "kindOf": ["under"] * 6, "initPhase": ["init"] * 6,
        "t0": 100, "maxT": 700, "marks": [200, 400], "day": 0,
    },
    # a static pool (replicas 3) whose nodes drifted: static drift starts several single-node commands per round
    "S5": {
        "pools": {"ps": [bd("count", 2, ("Drifted",)), bd("pct", 100)], "pa": [bd("pct", 50)]},
        "replicas": {"ps": 3},
        "poolOf": ["ps", "ps", "ps", "pa", "pa"], "kindOf": ["sdrifted", "sdrifted", "sdrifted", "empty", "drifted"],
        "initPhase": ["init"] * 5,
        "t0": 100, "maxT": 700, "marks": [200, 400], "day": 0,
    },
}


def tla_str(s):
    return '"' + s.replace("\\", "\\\\").replace('"', '\\"') + '"'


def tla_seq(xs, f=str):
    return "<<" + ", ".join(f(x) for x in xs) + ">>"


def tla_budget(b):
    return ("[cron |-> %s, hits |-> %s, dur |-> %d, kind |-> %s, val |-> %d, reasons |-> %s, rstate |-> %s, mal |-> %s, txt |-> %s]"
            % (tla_str(b["cron"]), tla_seq(b["hits"]), b["dur"], tla_str(b["kind"]), b["val"], tla_seq(b["reasons"], tla_str),
               tla_str(b["rstate"]), tla_str(b["mal"]), tla_str(b["txt"])))


def with_hits(run, sc):
    """Fill the hit sets of scheduled budgets from the cron library (driver budgets-hits)."""
    crons = sorted({b["cron"] for bs in sc["pools"].values() for b in bs if b["cron"] != "-" and b["mal"] == "-"})
    if not crons:
        return sc
    horizon = sc["maxT"] + 7200
    hits = json.loads(run.drv("budgets-hits", ["-crons", "|".join(crons), "-day", sc["day"], "-horizon", horizon]))
    sc = json.loads(json.dumps(sc))
    for bs in sc["pools"].values():
        for b in bs:
            if b["cron"] in hits and b["mal"] == "-":
                b["hits"] = hits[b["cron"]]
    return sc


def write_scenario_module(run, name, sc, env_all, max_len, max_rounds, variant="ok"):
    """spec/BudgetRounds_<name>.tla + .cfg in the run's scratch copy; returns (module, cfg)."""
    mod = "BudgetRounds_" + name
    pools = sorted(sc["pools"])
    n = len(sc["poolOf"])
    bof = " @@ ".join("(%s :> %s)" % (tla_str(p), tla_seq(sc["pools"][p], tla_budget)) for p in pools)
    all_env = '{"Launch", "Register", "Initialize", "NotReady", "Ready", "DeleteClaim", "DeleteNode", "Terminate", "Gone"}'
    few_env = '{"NotReady", "Ready", "DeleteClaim", "Gone"}'
    txt = "\n".join([
        "---- MODULE %s ----" % mod, "EXTENDS BudgetRounds",
        "S_N == %d" % n,
        "S_PoolOf == " + tla_seq(sc["poolOf"], tla_str),
        "S_KindOf == " + tla_seq(sc["kindOf"], tla_str),
        "S_InitPhase == " + tla_seq(sc["initPhase"], tla_str),
        "S_Pools == {" + ", ".join(tla_str(p) for p in pools) + "}",
        "S_BudgetsOf == " + bof,
        "S_Marks == {" + ", ".join(str(m) for m in sc["marks"]) + "}",
        "S_T0 == %d" % sc["t0"], "S_MaxT == %d" % sc["maxT"],
        "S_EnvOf == [i \\in 1..S_N |-> %s]" % (all_env if env_all else few_env),
        "===="])
    open(os.path.join(run.specdir, mod + ".tla"), "w").write(txt + "\n")
    cfg = "\n".join([
        'CONSTANTS Rounding = "up"  WindowEnd = "open"  EmptyReasons = "all"  Variant = "%s"  MaxLen = %d  MaxRounds = %d'
        % (variant, max_len, max_rounds),
        "CONSTANTS N <- S_N  PoolOf <- S_PoolOf  KindOf <- S_KindOf  InitPhase <- S_InitPhase  Pools <- S_Pools",
        "          BudgetsOf <- S_BudgetsOf  Marks <- S_Marks  T0 <- S_T0  MaxT <- S_MaxT  EnvOf <- S_EnvOf",
        "SPECIFICATION GenSpec", "INVARIANTS GenPrint Inv_C05_StartWithinBudget"])
    open(os.path.join(run.specdir, mod + ".cfg"), "w").write(cfg + "\n")
    return mod, mod + ".cfg"


def driver_scenario(sc):
    return {"pools": sc["pools"], "replicas": sc.get("replicas", {}), "poolOf": sc["poolOf"], "kindOf": sc["kindOf"],
            "initPhase": sc["initPhase"], "t0": sc["t0"], "day": sc["day"]}


def simulate(run, name, sc, num, depth, env_all, max_rounds=6):
    """TLC simulation of the round model for one scenario -> list of distinct histories."""
    mod, cfg = write_scenario_module(run, name + ("a" if env_all else "r"), sc, env_all, depth, max_rounds)
    hs = run.generate(mod, cfg, workers=1, simulate="num=%d" % num, depth=depth + 4, timeout=900, heap="2g")
    # TLC's simulator evaluates the printing invariant on every candidate successor of the last step, so
    # each simulation yields several siblings differing in their final step only: keep one per prefix
    seen, out = set(), []
    for h in hs:
        k = json.dumps(h[:-1], sort_keys=True)
        if k not in seen:
            seen.add(k)
            out.append(h)
    return out


def mapping_behaviours(sc, hs, tag):
    behs = []
    for h in hs:
        steps = [{"a": e["a"], "i": e["i"], "to": e["to"], "sel": e["sel"], "during": []} for e in h]
        behs.append({"scenario": driver_scenario(sc), "steps": steps, "tag": tag})
    return behs


def round_behaviours(sc, hs, tag):
    """Round level: the model's controller steps become `Round` stimuli for the real controller; environment
    steps between a Round and its EndRound are injected while the real command waits for validation; the
    model's own selection (Start) is dropped - the real controller decides."""
    behs = []
    for h in hs:
        steps, cur = [], None
        for e in h:
            a = e["a"]
            if a == "Round":
                cur = {"a": "Round", "i": 0, "to": 0, "sel": [], "during": []}
                steps.append(cur)
                if not e["during"]:
                    cur = None
            elif a == "EndRound":
                cur = None
            elif a == "Start":
                continue
            elif a in ("Complete", "Fail"):
                steps.append({"a": "Queue", "i": e["i"], "to": 0, "sel": [], "during": []})
            else:
                st = {"a": a, "i": e["i"], "to": e["to"], "sel": [], "during": []}
                if cur is not None:
                    cur["during"].append(st)
                else:
                    steps.append(st)
        behs.append({"scenario": driver_scenario(sc), "steps": steps, "tag": tag})
    return behs


ENV_ACTIONS = ["NotReady", "Ready", "DeleteClaim", "DeleteNode", "Terminate", "Gone", "Launch", "Register", "Initialize"]


def _st(a, i=0, to=0, during=None):
    return {"a": a, "i": i, "to": to, "sel": [], "during": during or []}


def systematic_rounds(sc, tag, actions=None, marks=None):
    """Hand-placed stimuli around the real controller's rounds: consecutive rounds with every command left in flight,
    each environment action on each node before a round and during its validation wait, rounds at every clock mark
    (a window opening / closing between compute and validation), queue completions between rounds."""
    n = len(sc["poolOf"])
    behs = []
    actions = ENV_ACTIONS if actions is None else actions
    marks = sc["marks"] if marks is None else marks

    def add(steps, t):
        behs.append({"scenario": driver_scenario(sc), "steps": steps, "tag": "%s:%s" % (tag, t)})
    add([_st("Round")] * 5, "inflight")
    add([_st("Round"), _st("Queue", 1), _st("Round"), _st("Queue", 2), _st("Round"), _st("Round")], "queue")
    for m in marks:
        add([_st("Tick", to=m), _st("Round"), _st("Round"), _st("Round")], "mark%d" % m)
        add([_st("Round"), _st("Tick", to=m), _st("Round"), _st("Round")], "round-mark%d" % m)
    for i in range(1, n + 1):
        for a in actions:
            pre = []
            if a in ("Terminate", "Gone"):
                pre = [_st("DeleteClaim", i)]
            if a == "Ready":
                pre = [_st("NotReady", i)]
            if a == "Register":
                pre = [_st("Launch", i)]
            if a == "Initialize":
                pre = [_st("Launch", i), _st("Register", i)]
            add(pre + [_st(a, i), _st("Round"), _st("Round"), _st("Round")], "before:%s%d" % (a, i))
            add(pre + [_st("Round", during=[_st(a, i)]), _st("Round"), _st("Round")], "during:%s%d" % (a, i))
            for m in marks[:2]:
                add(pre + [_st("Tick", to=m), _st("Round", during=[_st(a, i)]), _st("Round")], "mark%d-during:%s%d" % (m, a, i))
    return behs
