"""C14 — A NodeClaim launches one instance and its lifecycle moves forward."""
import json
import vlib
from checks import lifecycle_common as lc

NSIM = {"quick": 600, "thorough": 12000}
GUARDS = ("G_C14_", "Inv_C14_")


def check(run):
    run.rule = ("behaviours = TLC simulation of Lifecycle.tla (random deep interleavings of reconciles with a failing call, "
                "stale informer copies, restarts, node/taint/readiness events, clock ticks) + systematic placement of every "
                "fault kind at every reconcile of the canonical launch/timeout paths (single faults; pairs sampled in quick, "
                "all in thorough); each is replayed on the real lifecycle controller; non-trivial = the real trace contains "
                "a provider Create or a condition becoming True (a guarded event of C14)")
    r = run.closed_model("Lifecycle", "Lifecycle_MC.cfg", workers=8, coverage=(run.tier == "thorough"))
    weak = run.tlc("Lifecycle", "Lifecycle_WeakCache.cfg", expect_violation=True)
    if weak.violated != "Inv_C14_CreateOnce":
        raise vlib.InfraError("spec mutation Lifecycle_WeakCache.cfg not rejected by TLC")
    run.notes.append("spec mutation (launch cache not consulted) violates Inv_C14_CreateOnce as expected")
    behs = lc.generate(run, NSIM[run.tier])
    files = lc.record(run, behs)
    # non-triviality is measured on the real traces
    import collections
    guarded = collections.Counter()
    i = -1
    keys = []
    for f in files:
        for line in open(f):
            ev = json.loads(line)
            if ev["e"] == "Cfg":
                keys.append([False, 0])
            elif ev["e"] == "Prov" and ev["call"] == "Create":
                keys[-1][0] = True
                guarded["ProvCreate:" + ev["err"]] += 1
            elif ev["e"] == "Api" and ev.get("injected"):
                guarded["injected:%s/%s/%s" % (ev["verb"], ev["kind"], ev["sub"])] += 1
    for b, k in zip(behs, keys):
        run.note_case(json.dumps(b["steps"], sort_keys=True), k[0])
    run.validate("Lifecycle_Trace", "Lifecycle_Trace.cfg", files)
    run.extra_cov["guarded_event_counts"] = dict(guarded)
    run.samples = [{"tag": b["tag"], "steps": b["steps"]} for b in (behs[0], behs[len(behs) // 2], behs[-1])]
    run.assumptions += ["controller-runtime fake client + harness choke point stand in for the API server",
                        "stale reads = the object as of the last up-to-date reconcile (informer versions never go backwards)",
                        "'at most once' is per controller process (Restart resets the count), as the statement says"]


def replay(run, path):
    """Re-execute the behaviour embedded in the failing trace's Cfg line on the current tree and re-validate."""
    body = json.load(open(path))
    cfg = next((e for e in body.get("trace", []) if e.get("e") == "Cfg"), None)
    if not cfg or "behJson" not in cfg:
        raise vlib.InfraError("replay file %s carries no behaviour" % path)
    beh = json.loads(cfg["behJson"])
    files = lc.record(run, [beh], prefix="replay")
    run.note_case("replay")
    run.note_case(json.dumps(beh, sort_keys=True))
    run.validate("Lifecycle_Trace", "Lifecycle_Trace.cfg", files)
    run.samples = [{"steps": beh.get("steps")}]
