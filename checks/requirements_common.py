"""Shared pipeline of C12 (label-requirement algebra) and C13 stage 1 (serialisation, Any, ToNodeClaim).

closed model Requirements.tla checked by TLC (the same run prints every chain = the case list)
 -> every Requirements_Weak*.cfg must be rejected
 -> cases (+ seeded explorer chains over a larger universe, + multi-key compatibility cases) replayed on the real
    scheduling.Requirement(s) / NodeClaimTemplate by the `requirements-replay` driver
 -> Requirements_Trace.tla re-derives every recorded answer from the Kubernetes semantics."""
import concurrent.futures as cf
import glob
import json
import os
import random
import re
import subprocess
import time

import vlib

KEYS = {"custom": "verif.example/k", "custom2": "verif.example/k2", "custom3": "verif.example/k3",
        "wk": "topology.kubernetes.io/zone", "wk2": "topology.kubernetes.io/region",
        "alias": "failure-domain.beta.kubernetes.io/zone"}
# every deprecated alias -> stable key pair of the spec's AliasTable, rotated per chunk of cases
ALIASES = [("topology.kubernetes.io/zone", "failure-domain.beta.kubernetes.io/zone"),
           ("topology.kubernetes.io/region", "failure-domain.beta.kubernetes.io/region"),
           ("kubernetes.io/arch", "beta.kubernetes.io/arch"),
           ("kubernetes.io/os", "beta.kubernetes.io/os"),
           ("node.kubernetes.io/instance-type", "beta.kubernetes.io/instance-type")]
# wk2 = a second, distinct well-known key (always written with its stable spelling)
KEYSETS = [dict(KEYS, wk=w, alias=a, wk2=ALIASES[(i + 1) % len(ALIASES)][0]) for i, (w, a) in enumerate(ALIASES)]
# value normalisation as a cloud provider registers it at init (v1.NormalizedLabelValues): both sources and both targets
# are argument spellings of both universes, "a" -> "2" turns a non-integer into an integer, untranslated values remain.
# Registered for three of the five aliased well-known keys and for one plain key; the other keys have no translation.
VMAP = [{"from": "01", "to": "1"}, {"from": "a", "to": "2"}]
VKEYS = ["topology.kubernetes.io/zone", "kubernetes.io/arch", "node.kubernetes.io/instance-type", "verif.example/k2"]
REPS = 24      # repetitions of every multi-key call (Go map iteration order is random)
BOUND_OPS = ("Gt", "Lt", "Gte", "Lte")


# ---------------------------------------------------------------------------------------------- TLC side
def closed_model_and_cases(run):
    """Exhaustive check of the closed model; the same run prints the universe and every chain."""
    cfg = "Requirements_MC.cfg" if run.tier == "quick" else "Requirements_MC3.cfg"
    r = run.tlc("Requirements", cfg, workers=(4 if run.tier == "quick" else 8), heap="4g", timeout=1500, collect_beh=True,
                coverage=True)
    run.states += r.distinct
    run.transitions += r.generated
    run.models.append({"module": "Requirements", "cfg": cfg, "distinct": r.distinct, "generated": r.generated,
                       "depth": r.depth, "wall_s": round(r.wall, 1), "violated": r.violated})
    if not r.ok:
        raise vlib.InfraError("closed model Requirements/%s does not satisfy its invariants (%s)" % (cfg, r.violated or r.error))
    if r.coverage_zero:
        raise vlib.InfraError("vacuous closed model, actions never taken: %s" % r.coverage_zero)
    uni = None
    for line in r.stdout.splitlines():
        if line.startswith('<<"UNI", '):
            uni = json.loads(json.loads(line[len('<<"UNI", '):-2]))
    if not uni or not r.printed:
        raise vlib.InfraError("closed-model run printed no universe / no cases")
    chains = r.printed
    if run.tier == "thorough":
        # pairs and singles over the full alphabet (extras, minValues) come from the pairs config as well
        r2 = run.tlc("Requirements", "Requirements_MC.cfg", workers=4, heap="4g", timeout=900, collect_beh=True)
        run.states += r2.distinct
        run.transitions += r2.generated
        run.models.append({"module": "Requirements", "cfg": "Requirements_MC.cfg", "distinct": r2.distinct,
                           "generated": r2.generated, "depth": r2.depth, "wall_s": round(r2.wall, 1), "violated": r2.violated})
        if not r2.ok:
            raise vlib.InfraError("closed model Requirements/Requirements_MC.cfg violated %s" % (r2.violated or r2.error))
        seen = {json.dumps(c, sort_keys=True) for c in chains}
        chains += [c for c in r2.printed if json.dumps(c, sort_keys=True) not in seen]
    if len(chains) != len({json.dumps(c, sort_keys=True) for c in chains}):
        raise vlib.InfraError("duplicate chains printed by TLC")
    universe = sorted(uni, key=lambda v: (not v["i"], v["n"], v["s"]))
    return universe, chains


def weak_configs(run):
    """Every spec mutation must be rejected by TLC (vacuity guard).  Run in parallel, own metadirs."""
    cfgs = sorted(os.path.basename(p) for p in glob.glob(os.path.join(run.specdir, "Requirements_Weak*.cfg")))
    if len(cfgs) < 5:
        raise vlib.InfraError("Requirements_Weak*.cfg missing")

    def one(cfg):
        meta = os.path.join(run.work, "wmeta-" + cfg)
        outp = os.path.join(run.work, "tlc-" + cfg + ".out")
        cmd = ["java", "-XX:+UseParallelGC", "-Xmx1g", "-Xss64m", "-cp", vlib.TLA_CP, "tlc2.TLC", "-metadir", meta,
               "-config", cfg, "-workers", "1", "-deadlock", "Requirements.tla"]
        e = dict(os.environ)
        e.pop("JAVA_TOOL_OPTIONS", None)
        t = time.time()
        with open(outp, "w") as out:
            try:
                subprocess.run(cmd, cwd=run.specdir, env=e, stdout=out, stderr=subprocess.STDOUT, timeout=600)
            except subprocess.TimeoutExpired:
                raise vlib.InfraError("TLC timeout on " + cfg)
        txt = open(outp, errors="replace").read()
        m = re.search(r"Invariant (\S+) is violated", txt)
        exp = re.search(r"expected: (\w+)", open(os.path.join(run.specdir, cfg)).read())
        return cfg, (m.group(1) if m else None), (exp.group(1) if exp else None), time.time() - t

    with cf.ThreadPoolExecutor(max_workers=4) as ex:
        res = list(ex.map(one, cfgs))
    for cfg, got, exp, wall in res:
        if got is None or not got.startswith("Inv_"):
            raise vlib.InfraError("spec mutation %s not rejected by TLC (the laws would be vacuous)" % cfg)
        if exp and got != exp:
            raise vlib.InfraError("spec mutation %s rejected by %s, expected %s" % (cfg, got, exp))
    run.notes.append("spec mutations rejected by TLC: " + ", ".join("%s->%s" % (c.replace("Requirements_Weak", "").replace(".cfg", ""), g)
                                                                      for c, g, _, _ in res))
    run.extra_cov["spec_mutations_rejected"] = len(res)


# ---------------------------------------------------------------------------------------------- cases
def atom_from_tlc(a):
    return {"op": a["op"], "vals": sorted(a["S"]), "b": a["b"], "mv": a["mv"], "ka": "c"}


def cases_from_chains(chains, seed):
    """TLC enumerates the chains; the key kind / alias spelling (orthogonal to the algebra) rotate deterministically.
    kk = wk exercises both values of `allow` (option given / not given); custom keys check that the option is inert."""
    cases = []
    for idx, ch in enumerate(chains):
        atoms = [atom_from_tlc(a) for a in ch]
        # bound operands must keep their integer reading under the value translation (scenario sanity)
        for a in atoms:
            assert not (a["op"] in BOUND_OPS and a["vals"][0] == "a")
        kk = ("custom", "custom2")[(idx + seed) % 6] if (idx + seed) % 6 < 2 else "wk"
        if kk == "wk":
            for j, a in enumerate(atoms):
                if (idx // 6 + j + seed) % 3 == 0:
                    a["ka"] = "a"
        cases.append({"id": idx, "kk": kk, "atoms": atoms})
    return cases


# explorer: a larger universe; spellings are *formatted* from integers here, never parsed
EXP_INTS = [-3, -1, 0, 1, 2, 3, 5, 8, 10]
EXP_NONCANON = [("01", 1), ("+1", 1), ("007", 7), ("-0", 0), ("00", 0), ("-03", -3)]
EXP_NONINT = ["a", "b", "1a", "1.5", ""]
EXP_LO, EXP_HI = -4, 11     # effective thresholds of bound operands -3..10 (Gt b -> b+1, Lt b -> b-1)


def explorer_universe():
    uni = [{"s": str(n), "i": True, "n": n} for n in EXP_INTS]
    uni += [{"s": s, "i": True, "n": n} for s, n in EXP_NONCANON]
    uni += [{"s": s, "i": False, "n": 0} for s in EXP_NONINT]
    args = [v["s"] for v in uni]
    fresh = [{"s": "zz-fresh", "i": False, "n": 0}]
    for n in range(EXP_LO - 1, EXP_HI + 2):
        fresh.append({"s": ("0000%d" % n) if n >= 0 else ("-0000%d" % -n), "i": True, "n": n})
    for v in fresh:
        assert v["s"] not in args
    return uni + fresh, uni


def explorer_cases(rnd, n_chains, n_multi, id0):
    universe, argvals = explorer_universe()
    ints = [v for v in argvals if v["i"]]

    def atom():
        k = rnd.random()
        mv = rnd.choice([0, 0, 0, 1, 2, 3])
        if k < 0.22:
            return {"op": "In", "vals": sorted(v["s"] for v in rnd.sample(argvals, rnd.randint(1, 5))), "b": 0, "mv": mv, "ka": "c"}
        if k < 0.47:
            return {"op": "NotIn", "vals": sorted(v["s"] for v in rnd.sample(argvals, rnd.randint(1, 4))), "b": 0, "mv": mv, "ka": "c"}
        if k < 0.55:
            return {"op": "Exists", "vals": [], "b": 0, "mv": mv, "ka": "c"}
        if k < 0.60:
            return {"op": "DoesNotExist", "vals": [], "b": 0, "mv": mv, "ka": "c"}
        v = rnd.choice([x for x in ints if -3 <= x["n"] <= 10])
        return {"op": rnd.choice(BOUND_OPS), "vals": [v["s"]], "b": v["n"], "mv": mv, "ka": "c"}

    cases = []
    for i in range(n_chains):
        kk = rnd.choice(["wk", "wk", "wk", "custom", "custom2"])
        atoms = [atom() for _ in range(rnd.randint(3, 6))]
        if kk == "wk":
            for a in atoms:
                if rnd.random() < 0.3:
                    a["ka"] = "a"
        cases.append({"id": id0 + i, "kk": kk, "atoms": atoms})
    multi = []
    for i in range(n_multi):
        def side():
            out = []
            for kk in rnd.sample(["custom", "custom2", "custom3", "wk", "wk2"], rnd.randint(1, 4)):
                atoms = [atom() for _ in range(rnd.randint(1, 3))]
                if kk == "wk":
                    for a in atoms:
                        if rnd.random() < 0.3:
                            a["ka"] = "a"
                out.append({"kk": kk, "atoms": atoms})
            return out
        multi.append({"id": id0 + n_chains + i, "A": side() if rnd.random() < 0.9 else [], "B": side()})
    return universe, cases, multi


# systematic multi-key cases: every ordered combination of per-key verdict classes over two and three keys
def _A(op, vals=(), b=0, ka="c"):
    return {"op": op, "vals": list(vals), "b": b, "mv": 0, "ka": ka}


# class -> realisations (left atoms, right atoms); None = the key is undefined on that side
KEY_CLASSES = {
    "overlap": [([_A("In", ["1"])], [_A("In", ["1", "2"])]), ([_A("NotIn", ["1"])], [_A("Exists")]),
                ([_A("Gt", ["0"], 0)], [_A("Lt", ["2"], 2)]), ([_A("In", ["1"])], [_A("NotIn", ["2"])]),
                ([_A("NotIn", ["1"])], [_A("NotIn", ["2"])]), ([_A("Exists")], [_A("In", ["a"])])],
    "disjoint": [([_A("In", ["1"])], [_A("In", ["2"])]), ([_A("Gt", ["1"], 1)], [_A("Lt", ["1"], 1)]),
                 ([_A("In", ["1"])], [_A("NotIn", ["1"])]), ([_A("Exists")], [_A("DoesNotExist")]),
                 ([_A("In", ["a"])], [_A("Gt", ["2"], 2)]), ([_A("DoesNotExist")], [_A("In", ["1"])])],
    "excused": [([_A("DoesNotExist")], [_A("NotIn", ["1"])]), ([_A("NotIn", ["1"])], [_A("DoesNotExist")]),
                ([_A("DoesNotExist")], [_A("DoesNotExist")])],
    "undef-left": [(None, [_A("In", ["1"])]), (None, [_A("NotIn", ["1"])]), (None, [_A("DoesNotExist")]),
                   (None, [_A("Exists")]), (None, [_A("Gt", ["0"], 0)])],
    "undef-right": [([_A("In", ["1"])], None), ([_A("NotIn", ["1"])], None), ([_A("DoesNotExist")], None),
                    ([_A("Lt", ["2"], 2)], None)],
}
KEY_KINDS = ["custom", "custom2", "custom3", "wk", "wk2"]


def systematic_multi(seed, id0, rounds):
    """All ordered pairs and triples of classes (25 + 125 combinations); `rounds` rotations of the realisation of each
    class and of the key kinds carrying them.  No key carries more than one atom per side, so none of these cases falls
    into a known-finding class."""
    import copy
    import itertools
    out = []
    classes = list(KEY_CLASSES)
    n = 0
    for size in (2, 3):
        for combo in itertools.product(classes, repeat=size):
            for r in range(rounds):
                kinds = KEY_KINDS[(n + seed) % 5:] + KEY_KINDS[:(n + seed) % 5]
                if (n // 5 + seed) % 2:
                    kinds = kinds[::-1]
                A, B = [], []
                for pos, cls in enumerate(combo):
                    reals = KEY_CLASSES[cls]
                    la, ra = copy.deepcopy(reals[(n + r * 7 + pos * 3 + seed) % len(reals)])
                    kk = kinds[pos]
                    if kk == "wk" and (n + pos) % 2:
                        for a in (la or []) + (ra or []):
                            a["ka"] = "a"
                    if la is not None:
                        A.append({"kk": kk, "atoms": la})
                    if ra is not None:
                        B.append({"kk": kk, "atoms": ra})
                out.append({"id": id0 + n, "A": A, "B": B, "classes": list(combo)})
                n += 1
    return out


# ---------------------------------------------------------------------------------------------- replay + validation
def record(run, prefix, universe, cases, multi, shards, keysets=None, vmap=None, vkeys=None):
    inp = {"universe": universe, "keys": KEYS, "keysets": keysets or KEYSETS, "cases": cases, "multi": multi, "anyDraws": 8,
           "chunk": 50, "vmap": VMAP if vkeys is None else vmap, "vkeys": VKEYS if vkeys is None else vkeys, "reps": REPS}
    ipath = os.path.join(run.work, prefix + "-cases.json")
    json.dump(inp, open(ipath, "w"))
    out = json.loads(run.drv("requirements-replay", ["-in", ipath, "-out", os.path.join(run.work, "traces"),
                                                      "-prefix", prefix, "-shards", shards],
                             env={"GODEBUG": "randseednop=0"}, timeout=1500))
    return out["files"]


def validate(run, files, par):
    viol = run.validate("Requirements_Trace", "Requirements_Trace.cfg", files, timeout=1500, heap="3g", par=par)
    counts = {}
    for f in files:
        res = json.load(open(f + ".viol.json"))
        for k, v in (res.get("counts") or {}).items():
            counts[k] = counts.get(k, 0) + v
    bad = [v for v in viol if v.get("guard") == "X_Scenario"]
    if bad:
        raise vlib.InfraError("scenario error (not a verdict): %s at %s line %s" % (bad[0].get("sig"), bad[0].get("file"), bad[0].get("line")))
    run.extra_cov["guard_failure_counts"] = counts
    return viol


def pipeline(run, note):
    """The whole pipeline; `note(run, ev)` is the property-specific non-triviality bookkeeping per recorded event."""
    t0 = time.time()
    universe, chains = closed_model_and_cases(run)
    t1 = time.time()
    weak_configs(run)
    t2 = time.time()
    cases = cases_from_chains(chains, run.seed)
    shards = 8 if run.tier == "quick" else 24
    run.build_drv()
    t3 = time.time()
    smulti = systematic_multi(run.seed, id0=10 ** 6, rounds=(4 if run.tier == "quick" else 12))
    files = record(run, "tlc", universe, cases, [{k: m[k] for k in ("id", "A", "B")} for m in smulti], shards)
    rnd = random.Random(1000 + run.seed)
    nch, nmu = (4000, 3000) if run.tier == "quick" else (60000, 40000)
    xuni, xcases, xmulti = explorer_cases(rnd, nch, nmu, id0=len(cases))
    files += record(run, "exp", xuni, xcases, xmulti, shards)
    t4 = time.time()
    par = 8
    validate(run, files, par)
    t5 = time.time()
    run.notes.append("stage wall times: closed model+generation %.0fs, spec mutations %.0fs, build %.0fs, replay on real code %.0fs, "
                     "trace validation %.0fs" % (t1 - t0, t2 - t1, t3 - t2, t4 - t3, t5 - t4))
    for f in files:
        for line in open(f):
            if '"e":"Cfg"' in line[:40] or line.startswith('{"alias"'):
                continue
            ev = json.loads(line)
            if ev.get("e") in ("Case", "Multi", "CasePanic"):
                note(run, ev)
    run.exhaustive = True
    run.extra_cov["exhaustive_adds_per_key"] = 2 if run.tier == "quick" else 3
    run.extra_cov["tlc_enumerated_chains"] = len(cases)
    run.extra_cov["explorer_chains"] = len(xcases)
    run.extra_cov["explorer_multikey_cases"] = len(xmulti)
    run.extra_cov["systematic_multikey_cases"] = len(smulti)
    run.extra_cov["multikey_repetitions_per_call"] = REPS
    run.extra_cov["value_normalisation"] = {"map": VMAP, "keys": VKEYS}
    run.extra_cov["universe_closed_model"] = [v["s"] for v in universe]
    run.extra_cov["universe_explorer_size"] = len(xuni)
    run.samples = [{"case": cases[0]}, {"case": cases[len(cases) // 2]}, {"case": xcases[0]}, {"multi": xmulti[0]}]
    run.assumptions += [
        "value universes are witness complete for the enumerated atoms (ASSUMEd in the closed model, guarded per case in the trace spec)",
        "the integer reading of a value the code *returns* (Any, serialised bounds) is taken with strconv.ParseInt (Kubernetes' own reader) and clamped to +-10^6",
        "operands near math.MaxInt (the Gt MaxInt special case) are outside the model: TLC's Json integers are 32 bit",
        "pod-contributed atoms reach ToNodeClaim only through the scheduler's gate Requirements.Compatible(pod, AllowUndefinedWellKnownLabels); pods carry core operators only (In/NotIn non-empty, Exists, DoesNotExist, Gt/Lt with any integer)",
        "In / NotIn with an empty value list (rejected by Kubernetes itself) are checked for their value sets only, not for their treatment of an absent label",
    ]


def replay_case(run, path):
    body = json.load(open(path))
    cfgl = [e for e in body["trace"] if e.get("e") == "Cfg"][0]
    ev = body["failing_event"]
    cases, multi = [], []
    if ev["e"] == "Multi":
        multi = [{"id": ev["id"], "A": ev["A"], "B": ev["B"]}]
    else:
        cases = [{"id": ev["id"], "kk": ev["kk"], "atoms": ev["atoms"]}]
    ks = dict(KEYS, custom=cfgl["custom"], custom2=cfgl["custom2"], custom3=cfgl["custom3"], wk=cfgl["wk"], wk2=cfgl["wk2"],
              alias=cfgl["alias"])
    files = record(run, "replay", cfgl["universe"], cases, multi, 1, keysets=[ks], vmap=cfgl["vmap"], vkeys=cfgl["vkeys"])
    run.note_case(("replay", ev["id"]))
    validate(run, files, 1)
    run.samples = [{"case": (cases or multi)[0]}]
