"""C07 — Disruption never targets protected or ineligible nodes.

Closed models: Disruption.tla (one decision about one node: blockers before the round, compute, churn during the
validation wait, validate; guard = G_C07_Eligible, a conjunction with one named conjunct per blocker) and
DisruptionCond.tla (the Consolidatable condition vs. consolidateAfter and pod events).  TLC enumerates the whole
blocker x method table; every cell becomes a cluster in which the cell's node x is otherwise the best candidate of the
method, next to an unblocked control; the real method (GetCandidates + ComputeCommands incl. the 15 s validation) and
one real Controller.Reconcile round run on it; Disruption_Trace.tla evaluates G_C07_Eligible on every candidate of
every command at the instant it was issued and G_C07_Consolidatable on every write that turns Consolidatable True."""
import collections
import glob
import json
import os
import random

import vlib
from checks import disrupt_common as dc

NMEM = {"quick": 60, "thorough": 1500}
NCOND = {"quick": 120, "thorough": 3000}
NEXPLORE = {"quick": 60, "thorough": 4000}


def closed_models(run):
    r = run.closed_model("Disruption", "Disruption_MC.cfg", workers=4, heap="3g", coverage=True)
    if r.coverage_zero:
        raise vlib.InfraError("vacuous closed model Disruption, actions never taken: %s" % r.coverage_zero)
    r = run.closed_model("DisruptionMem", "DisruptionMem_MC.cfg", workers=1, heap="3g", coverage=True)
    if r.coverage_zero:
        raise vlib.InfraError("vacuous closed model DisruptionMem, actions never taken: %s" % r.coverage_zero)
    r = run.closed_model("DisruptionCond", "DisruptionCond_MC.cfg", workers=1, heap="3g", coverage=True)  # 1 worker: BFS order fixes the VIEW representatives
    if r.coverage_zero:
        raise vlib.InfraError("vacuous closed model DisruptionCond, actions never taken: %s" % r.coverage_zero)
    rejected = []
    if run.tier == "quick":
        # one TLC run per model tries every weakening (Weak = "*"); the individual Disruption_Weak_*.cfg are run in thorough
        import re
        for mod, cfg, prefix in (("Disruption", "Disruption_WeakAll.cfg", ""), ("DisruptionCond", "DisruptionCond_WeakAll.cfg", "cond:"),
                                 ("DisruptionMem", "DisruptionMem_WeakAll.cfg", "mem:")):
            w = run.tlc(mod, cfg, workers=4, heap="3g")
            seen = set(re.findall(r'<<"REJ", "(\w+)">>', w.stdout))
            want = {os.path.basename(c)[len(mod + "_Weak_"):-4] for c in glob.glob(os.path.join(run.specdir, mod + "_Weak_*.cfg"))}
            if not want or want - seen:
                raise vlib.InfraError("spec mutations not rejected by TLC (conjunct not load-bearing): %s" % sorted(want - seen))
            rejected += [prefix + x for x in sorted(want)]
    else:
        for cfg in sorted(glob.glob(os.path.join(run.specdir, "Disruption_Weak_*.cfg"))):
            w = run.tlc("Disruption", os.path.basename(cfg), workers=2, heap="2g", expect_violation=True)
            if w.violated != "Inv_C07_NeverProtected":
                raise vlib.InfraError("spec mutation %s not rejected by TLC (conjunct not load-bearing)" % os.path.basename(cfg))
            rejected.append(os.path.basename(cfg)[len("Disruption_Weak_"):-4])
        for cfg in sorted(glob.glob(os.path.join(run.specdir, "DisruptionMem_Weak_*.cfg"))):
            w = run.tlc("DisruptionMem", os.path.basename(cfg), workers=1, heap="2g", expect_violation=True)
            if w.violated != "Inv_C07_MemNeverProtected":
                raise vlib.InfraError("spec mutation %s not rejected by TLC" % os.path.basename(cfg))
            rejected.append("mem:" + os.path.basename(cfg)[len("DisruptionMem_Weak_"):-4])
        for cfg in sorted(glob.glob(os.path.join(run.specdir, "DisruptionCond_Weak_*.cfg"))):
            w = run.tlc("DisruptionCond", os.path.basename(cfg), workers=2, heap="2g", expect_violation=True)
            if w.violated not in ("Inv_C07_ConsolidatableJustified", "Inv_C07_DecisionJustified"):
                raise vlib.InfraError("spec mutation %s not rejected by TLC" % os.path.basename(cfg))
            rejected.append("cond:" + os.path.basename(cfg)[len("DisruptionCond_Weak_"):-4])
    run.notes.append("spec mutations rejected by TLC: " + ", ".join(rejected))
    run.extra_cov["spec_mutations_rejected"] = rejected


def gen_cells(run):
    """TLC enumerates the table: every terminal state of Disruption.tla is one cell."""
    cfg = open(os.path.join(run.specdir, "Disruption_Gen.cfg")).read()
    if run.tier == "thorough":
        cfg = cfg.replace('PairMode = "tgp"', 'PairMode = "all"')
    open(os.path.join(run.specdir, "Disruption_Gen_run.cfg"), "w").write(cfg)
    cells = run.generate("Disruption", "Disruption_Gen_run.cfg", workers=1, heap="3g", timeout=900)
    if not cells:
        raise vlib.InfraError("TLC generated no table cells")
    for c in cells:   # ToJson prints an empty sequence as an empty object/array
        for k in ("pre", "churn"):
            if not isinstance(c[k], list):
                c[k] = []
    cells.sort(key=lambda c: (c["m"], len(c["pre"]) + len(c["churn"]), c["pre"], c["churn"]))
    return cells


def gen_cond(run):
    """Behaviours of DisruptionCond.tla: TLC simulation + the systematic tours (checks/disrupt_common.cond_tours)."""
    cfg = open(os.path.join(run.specdir, "DisruptionCond_Gen.cfg")).read().replace("MaxLen = 6", "MaxLen = 11")
    open(os.path.join(run.specdir, "DisruptionCond_Gen_run.cfg"), "w").write(cfg)
    behs = run.generate("DisruptionCond", "DisruptionCond_Gen_run.cfg", workers=1, simulate="num=%d" % NCOND[run.tier],
                        depth=13, heap="2g", timeout=600)
    for b in behs:
        if not isinstance(b["steps"], list):
            b["steps"] = []
    return behs + dc.cond_tours()


# controls that must NOT block (timing just expired, malformed annotation, terminal pod, PDB that does not apply...): if the
# code nevertheless protects the node it is over-protective, which the statement allows -> MODEL-DRIFT note, not an error
LENIENCY_CONTROLS = {"nominatedExpired", "nodeDndFalse", "podDndDurExpired", "podDndInvalid", "podDndTerminal", "podDndTerminating", "pdbOk", "pdbZeroNilSel",
                     "pdbZeroWaived", "pdbZeroTolerating", "pdbZeroOtherNs", "consolidatableEdge"}
EXPLORE_BLOCKERS = ["unmanaged", "uninitialized", "nodeGone", "marked", "claimDeleting", "instanceTerminating", "nominated",
                    "nominatedEdge", "nominatedExpired", "nodeDnd", "podDndTrue", "podDndDur", "podDndDurEdge", "podDndDurExpired",
                    "podDndNoStart", "podDndInvalid", "podDndTerminal", "podDndTerminating", "dsPodDnd", "pdbZero", "pdbOk", "pdbMulti",
                    "pdbZeroAll", "pdbZeroNilSel",
                    "pdbZeroTolerating", "notConsolidatable", "consolidatableEdge", "consolidatableFalse", "buffer", "notDrifted",
                    "tgp", "costMixedNeg", "costMixedPrio", "costAllNonPos"]


def gen_mem(run):
    """Behaviours of DisruptionMem.tla: TLC simulation (nomination windows 20 s and, in thorough, 10 s / 30 s) + the
    systematic interval tours for every method."""
    behs = []
    windows = (20,) if run.tier == "quick" else (20, 10, 30)
    for w in windows:
        cfg = open(os.path.join(run.specdir, "DisruptionMem_Gen.cfg")).read().replace("W = 20", "W = %d" % w).replace("U = 5", "U = %d" % (w // 4))
        name = "DisruptionMem_Gen_run%d.cfg" % w
        open(os.path.join(run.specdir, name), "w").write(cfg)
        got = run.generate("DisruptionMem", name, workers=1, simulate="num=%d" % (NMEM[run.tier] // len(windows)), depth=14,
                           heap="2g", timeout=600)
        for b in got:
            if not isinstance(b["steps"], list):
                b["steps"] = []
            if dc.mem_expect(b) != bool(b["issued"]):
                raise vlib.InfraError("DisruptionMem: TLC and the orchestrator disagree on behaviour %r" % b)
        behs += got
    behs += dc.mem_tours((20, 10) if run.tier == "quick" else (20, 10, 30, 12))
    return behs


def explorer(run, n):
    """Seeded larger clusters (beyond TLC's one-node scope): 3-6 nodes in two pools, each node with 0-2 random
    blockers of distinct groups on itself / its first pod; every method in random order, then two controller rounds."""
    rng = random.Random(run.seed * 7919 + 17)
    out = []
    for i in range(n):
        static = rng.random() < 0.25
        pools = [dc.pool("pa", static=static, replicas=3, policy=rng.choice(["WhenEmpty", "WhenEmptyOrUnderutilized", "WhenEmptyOrUnderutilized"]),
                         ca=rng.choice([-1, 0, dc.CA, dc.CA])),
                 dc.pool("pb", policy="WhenEmptyOrUnderutilized", ca=rng.choice([0, dc.CA]))]
        nodes, pods, pdbs = [], [], []
        for j in range(rng.randint(3, 6)):
            nm = "n%d" % j
            pl = rng.choice(["pa", "pa", "pb"])
            nodes.append(dc.node(nm, pl, rng.choice(["small", "medium", "large"]), zone=rng.choice(["zone-a", "zone-b"]),
                                 ct=rng.choice(["on-demand", "on-demand", "spot"]), drifted=rng.random() < 0.5,
                                 driftedAt=rng.choice([-1, 400, 700])))
            r = rng.random()
            if r < 0.35:
                pass                                            # empty node
            elif r < 0.55:
                pods.append(dc.pod("p%d-0" % j, nm, deletionCost=dc.ZERO_COST))   # "empty" by eviction cost
            else:
                for q in range(rng.randint(1, 2)):
                    pods.append(dc.pod("p%d-%d" % (j, q), nm, cpu=rng.choice([200, 500, 900]),
                                       owner=rng.choice(["replicaset", "replicaset", "statefulset", "daemonset"]),
                                       deletionCost=rng.choice(["", "", "", dc.ZERO_COST, dc.COST_ZERO_EDGE, dc.COST_TINY_POS, "100", dc.COST_LARGE]),
                                       **rng.choice([{}, {}, {}, dict(priority=dc.PRIO_MIN, hasPriority=True),
                                                     dict(priority=1000000, hasPriority=True), dict(priority=-40000000, hasPriority=True)])))
            groups = set()
            for b in rng.sample(EXPLORE_BLOCKERS, rng.choice([0, 0, 1, 1, 2])):
                if dc.GROUPS[b] in groups:
                    continue
                groups.add(dc.GROUPS[b])
                dc.apply_blocker(b, pools, nodes, pods, pdbs, rng, xname=nm, pxname="p%d-0" % j, xpname=pl)
        steps = [{"a": "Method", "method": m} for m in rng.sample(dc.METHODS, 5)] + [{"a": "Round"}, {"a": "Round"}]
        out.append(dc.scenario("explore:%d:%d" % (run.seed, i), pools, nodes, pods, pdbs, steps, {"kind": "explore", "idx": i}))
    return out


def fault_scenarios(run, rng):
    """Cells with a pod-level blocker on x, run with read faults at the choke point: whatever fails to be read, x stays
    protected (a candidate whose pods / PDBs / pool could not be read must not be treated as unblocked)."""
    plans = [[{"verb": "list", "kind": "Pod", "nth": 0, "err": "Server"}]]
    plans += [[{"verb": "list", "kind": "Pod", "nth": k, "err": "Server"}] for k in (1, 2, 3, 4)]
    plans += [[{"verb": "list", "kind": "PodDisruptionBudget", "nth": k, "err": e}] for k in (1, 2, 3) for e in ("Server", "NotFound")]
    plans += [[{"verb": "list", "kind": "NodePool", "nth": k, "err": "Server"}] for k in (1, 2, 3)]
    out = []
    for m in dc.METHODS:
        for b in ("podDndTrue", "pdbZero", "pdbMulti", "dsPodDnd"):
            ps = plans if run.tier == "thorough" else rng.sample(plans, 3)
            for i, plan in enumerate(ps):
                sc = dc.cell_scenario({"m": m, "pre": [b], "churn": [], "issued": False}, rng, with_round=False)
                sc["steps"] = [{"a": "Method", "method": m, "faults": plan}, {"a": "Round", "faults": plan}]
                sc["name"] = "fault:%s:%s:%s-%s-%d" % (m, b, plan[0]["kind"], plan[0]["err"], plan[0]["nth"])
                sc["tags"] = dict(sc["tags"], kind="fault")
                out.append(sc)
    return out


def check(run):
    run.rule = ("TLC enumerates the blocker x method table of Disruption.tla (5 methods x 42 blockers/controls, singles and "
                "pairs with the terminationGracePeriod modifier in quick, all pairs in thorough, plus one churn blocker "
                "during the validation wait); each cell is a cluster where node x is the method's best candidate next to an "
                "unblocked control; the real method (incl. validation) and one real controller round run on it. "
                "Behaviours of DisruptionMem.tla (repeated nominations / mark-unmark sequences at different instants, the decision "
                "placed in every interval, protections arriving during the validation wait; TLC simulation + interval tours, all "
                "methods, nomination windows 20/10 s (+30/12 s in thorough)). Behaviours of DisruptionCond.tla (TLC simulation + threshold tours) drive the real podevents / "
                "nodeclaim-disruption controllers. Seeded explorer: larger random clusters, all methods + two rounds. "
                "non-trivial = the real trace contains a command (guarded event) or a Consolidatable=True write")
    if os.environ.get("VERIF_FAST"):     # development loop only (mutation runs): skip the closed-model part
        run.notes.append("VERIF_FAST: closed models and spec mutations skipped")
    else:
        closed_models(run)
    rng = random.Random(run.seed)
    cells = gen_cells(run)
    scen = [dc.cell_scenario(c, rng, again=(run.tier == "thorough")) for c in cells]
    if run.tier == "thorough":   # the same table with a DaemonSet / StatefulSet pod carrying the pod-level blockers
        scen += [dc.cell_scenario(c, rng, again=True, variant=1) for c in cells]
    conds = gen_cond(run)
    # every behaviour ends in a decision of Emptiness (variant A) or single-node consolidation (variant B): the simulated
    # ones alternate in quick, the tours (and everything in thorough) run in both variants
    nsim = len(conds) - len(dc.cond_tours())
    for i, b in enumerate(conds):
        both = run.tier == "thorough" or i >= nsim
        for v in (("A", "B") if both else ("AB"[i % 2],)):
            scen.append(dc.cond_scenario(b, i, v))
    mems = gen_mem(run)
    scen += [dc.mem_scenario(b, i) for i, b in enumerate(mems)]
    faults = fault_scenarios(run, rng)
    scen += faults
    scen += explorer(run, NEXPLORE[run.tier])
    files = dc.record(run, scen, procs=4 if run.tier == "quick" else 8, shards=2)
    summ = dc.summarise(files)
    if len(summ) != len(scen):
        raise vlib.InfraError("trace count mismatch")
    by_name = {s["name"]: s for s in summ}
    # ---- binding is not vacuous: where the model issues the command on x, the real method must disrupt x
    gaps, drift, lively, guarded = [], [], 0, collections.Counter()
    for sc in scen:
        s = by_name[sc["name"]]
        tags = sc["tags"]
        ncmd = len(s["cmds"]) + len(s["qcmds"])
        run.note_case(sc["name"], ncmd > 0 or s["ctrue_writes"] > 0)
        for c in s["cmds"] + s["qcmds"]:
            guarded[c["method"]] += len(c["names"])
        panics = [e for e in s["errors"] if e["panic"]]
        if panics:
            raise vlib.InfraError("panic while running %s: %s" % (sc["name"], panics[0]))
        if tags["kind"] == "mem":
            hit = any("x" in c["names"] for c in s["cmds"] if c["method"] == tags["method"])
            if tags["issued"] and not hit:
                gaps.append(sc["name"] + "[" + tags["beh"] + "]")
            continue
        if tags["kind"] != "cell":
            continue
        mine = [c for c in s["cmds"] if c["method"] == tags["method"]]
        hit = any("x" in c["names"] or "nc-x" in c["names"] for c in mine)
        if tags["issued"] and not hit:
            lenient = set((tags["pre"] + "+" + tags["churn"]).split("+")) & LENIENCY_CONTROLS
            (drift if lenient else gaps).append(sc["name"])
        if not tags["issued"] and any(c["names"] for c in mine):
            lively += 1
    if drift:
        # the code protects a node the statement (and the model) would let go: over-protective, never a violation
        msg = "MODEL-DRIFT: code stricter than the model in %d leniency-control cells (not a violation): %s" % (len(drift), drift[:8])
        run.notes.append(msg)
        print(msg)
    run.extra_cov["model_drift_cells"] = drift
    run.validate("Disruption_Trace", "Disruption_Trace.cfg", files, heap="2g", par=4 if run.tier == "quick" else 8)
    if gaps:
        msg = ("binding gap: the model issues a command on x but the real method did not disrupt x in %d cells "
               "(vacuous cells, model and code must be reconciled): %s" % (len(gaps), gaps[:12]))
        fresh = [v for v in run.viol if run.pmap.get(v.get("guard")) == run.pid and vlib.match_known(run.known, run.pid, v) is None]
        if not fresh:
            raise vlib.InfraError(msg)
        run.notes.append(msg)   # a real-code violation was found as well: that verdict stands
    ncell = len(cells)
    nissued = sum(1 for c in cells if c["issued"])
    run.extra_cov.update({"table_cells": ncell, "cells_model_issues": nissued, "cells_blocked_with_live_control": lively,
                          "cond_behaviours": len(conds), "memory_protection_behaviours": len(mems), "read_fault_scenarios": len(faults), "explorer_scenarios": NEXPLORE[run.tier],
                          "guarded_candidates_by_method": dict(guarded),
                          "consolidatable_true_writes": sum(s["ctrue_writes"] for s in summ)})
    run.exhaustive = True
    run.samples = [{"scenario": scen[i]["name"], "tags": scen[i]["tags"], "commands": by_name[scen[i]["name"]]["cmds"],
                    "round": by_name[scen[i]["name"]]["qcmds"]} for i in (0, len(cells) // 3, len(cells) // 2, len(cells) - 1)]
    run.assumptions += ["controller-runtime fake client + harness choke point stand in for the API server",
                        "cluster state is hydrated by the real informer controllers before each decision (no informer lag)",
                        "in-memory protections (nomination, marks, buffer placements) are set through the real state.Cluster methods "
                        "and tracked as ghost state from the driver's Env events",
                        "a command is judged at the instant it is issued (after the 15 s validation for graceful methods)"]


def replay(run, path):
    """Re-execute the scenario of the failing trace (embedded in its Cfg line) on the current tree and re-validate."""
    body = json.load(open(path))
    sc = json.loads(body["trace"][0]["scenarioJson"])
    files = dc.record(run, [sc], prefix="replay", shards=1, procs=1)
    s = dc.summarise(files)[0]
    run.note_case(sc["name"], bool(s["cmds"] or s["qcmds"] or s["ctrue_writes"]))
    run.note_case("replay", True)
    run.validate("Disruption_Trace", "Disruption_Trace.cfg", files, heap="2g", par=1)
    run.samples = [{"scenario": sc["name"], "commands": s["cmds"], "round": s["qcmds"]}]
