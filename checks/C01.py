"""C01 - Simulated placements are feasible on every launch option.

Closed model Scheduling.tla (one scheduling pass as "any sequence of guarded placements" over a small
scenario scope; the narrowing mechanism must imply the end-state oracle of SchedulingGuards.tla) is
checked exhaustively by TLC and every Scheduling_Weak*.cfg spec mutation must be rejected.  TLC then
ENUMERATES the scenario space (Scheduling_Gen.cfg); each scenario - plus seeded explorer scenarios
over the wider alphabets of checks/sched_common.py - is materialised by harness/drivers/sched as API
objects + provider catalog, state.Cluster is hydrated through the real informer controllers and the
real Provisioner.Schedule (NewScheduler, Solve, TruncateInstanceTypes) runs under both preference
policies, both minValues policies and 1/2/8 candidate-evaluation workers.  Scheduling_Trace.tla judges
every placement of the recorded Results with the C01 guards (Kubernetes filter semantics, independent
of CanAdd)."""
import concurrent.futures as cf
import json
import os
import random

from checks import sched_common as sc
import vlib

MAP_FIELDS = {"labels", "sel"}

SCOPE = {
    # closed-model scope (exhaustive), generator scope, number of TLC scenarios replayed, explorer batches per profile
    "quick": dict(mc="NPods = 2  PodArchs = {2,4,5,9,11,12,13}  Catalogs = {4,5}  PoolSets = {3,5}  Existings = {4,5}  Daemons = {2,3}",
                  # quick samples from a scope without the sub-case ids (catalog 1/3, existing 1/2); thorough enumerates everything
                  gen="NPods = 2  PodArchs = {1,2,3,4,5,6,7,8,9,10,11,12,13}  Catalogs = {2,4,5,6}  PoolSets = {1,2,3,4,5}  Existings = {0,3,4,5}  Daemons = {0,1,2,3}",
                  replay=600, explore={"basic": 500, "interpod": 150, "reserved": 150}, mc_workers=None),
    # (measured: the full 24 960-scenario scope has 475 656 states / 13 min on 16 shared cores; pool set 1 and existing state 2 are
    #  sub-cases of pool set 2 / existing state 3, dropping them keeps the closed model at ~60 %)
    "thorough": dict(mc="NPods = 2  PodArchs = {1,2,3,4,5,6,7,8,9,10,11,12,13}  Catalogs = {2,3,4,5}  PoolSets = {2,3,4,5}  Existings = {0,4,5}  Daemons = {0,2,3}",
                     gen="NPods = 2  PodArchs = {1,2,3,4,5,6,7,8,9,10,11,12,13}  Catalogs = {2,3,4,5,6}  PoolSets = {1,2,3,4,5}  Existings = {0,1,2,3,4,5}  Daemons = {0,1,2,3}",
                     mc3="NPods = 3  PodArchs = {2,4,9,11,13}  Catalogs = {2,5}  PoolSets = {3,5}  Existings = {5}  Daemons = {1,3}",
                     gen3="NPods = 3  PodArchs = {2,4,5,8,9,11,12,13}  Catalogs = {2,5}  PoolSets = {1,3,5}  Existings = {4,5}  Daemons = {1,3}",
                     replay=None, explore={"basic": 4000, "interpod": 1000, "reserved": 1000}, mc_workers=None),
}
WEAK = {"Avail": "Inv_C01_EveryLaunchOptionHostsItsPods", "Overhead": None, "Ports": "Inv_C01_EveryLaunchOptionHostsItsPods",
        "KeepTerm": "Inv_C01_RequiredTermNeverDropped", "Override": "Inv_C01_EveryLaunchOptionHostsItsPods", "OverrideOverhead": "Inv_C01_EveryLaunchOptionHostsItsPods",
        "Refilter": "Inv_C01_EveryLaunchOptionHostsItsPods", "InitTaints": "Inv_C01_NoOvercommit"}
FLAGS = "W_Avail = TRUE  W_Overhead = TRUE  W_Ports = TRUE  W_KeepTerm = TRUE  W_Override = TRUE  W_Refilter = TRUE  W_InitTaints = TRUE"


def fix_maps(x, key=None):
    """TLC prints an empty function as []; scenario map fields must be JSON objects"""
    if isinstance(x, dict):
        return {k: fix_maps(v, k) for k, v in x.items()}
    if isinstance(x, list):
        if not x and key in MAP_FIELDS:
            return {}
        return [fix_maps(v) for v in x]
    return x


def write_cfg(run, name, consts, spec, invs):
    p = os.path.join(run.specdir, name)
    with open(p, "w") as f:
        f.write("CONSTANTS %s\nCONSTANTS %s\nSPECIFICATION %s\nINVARIANTS %s\n" % (consts, FLAGS, spec, " ".join(invs)))
    return name


def run_driver(run, scenarios, tag, procs):
    """replay scenarios on the real code with `procs` driver processes; returns (trace files, summaries)"""
    chunks = vlib.shard(scenarios, procs)
    files, sums = [], []
    run.build_drv()

    def one(i_chunk):
        i, chunk = i_chunk
        path = os.path.join(run.work, "%s-%02d.scn.ndjson" % (tag, i))
        sc.write_scenarios(path, chunk)
        out = json.loads(run.drv("sched", ["-in", path, "-out", os.path.join(run.work, "traces"), "-shards", max(1, len(chunk) // 400),
                                           "-prefix", "%s-%02d" % (tag, i)], timeout=3000).strip().splitlines()[-1])
        return out

    with cf.ThreadPoolExecutor(max_workers=procs) as ex:
        for out in ex.map(one, list(enumerate(chunks))):
            files += out["files"]
            sums += out["summaries"]
            run.extra_cov["hook_h1_events"] = bool(out.get("hook"))
    return files, sums


def check(run):
    tier = SCOPE[run.tier]
    rng = random.Random(run.seed)
    dev = os.environ.get("VERIF_DEV")           # developers on the shared machine: fewer workers
    procs = 4 if dev else min(12, vlib.NCPU)
    run.rule = ("a behaviour = one scenario (catalog x pools x existing nodes x daemonsets x storage x pod batch x options) run "
                "through the real Provisioner.Schedule; it is non-trivial when Karpenter placed at least one pod on an existing "
                "node or a new NodeClaim (only then a C01 guard is evaluated)")
    # 1. closed model, vacuity (VERIF_SKIP_MODEL=1: developer aid for mutation runs, never used by registered commands)
    skip_model = bool(os.environ.get("VERIF_SKIP_MODEL"))
    write_cfg(run, "Scheduling_MC_run.cfg", tier["mc"] if not skip_model else
              "NPods = 1  PodArchs = {1}  Catalogs = {1}  PoolSets = {1}  Existings = {0}  Daemons = {0}", "Spec",
              ["Inv_C01_NoOvercommit", "Inv_C01_EveryLaunchOptionHostsItsPods", "Inv_C01_RequiredTermNeverDropped"])
    run.closed_model("Scheduling", "Scheduling_MC_run.cfg", workers=4 if dev else None, heap="4g" if dev else "8g", timeout=2400)
    if tier.get("mc3") and not skip_model:
        write_cfg(run, "Scheduling_MC3_run.cfg", tier["mc3"], "Spec",
                  ["Inv_C01_NoOvercommit", "Inv_C01_EveryLaunchOptionHostsItsPods", "Inv_C01_RequiredTermNeverDropped"])
        run.closed_model("Scheduling", "Scheduling_MC3_run.cfg", workers=4 if dev else None, heap="4g" if dev else "8g", timeout=2400)
    write_cfg(run, "Scheduling_Cov_run.cfg", "NPods = 2  PodArchs = {2,4,7,9,11}  Catalogs = {2}  PoolSets = {3}  Existings = {3}  Daemons = {3}",
              "Spec", ["Inv_C01_NoOvercommit", "Inv_C01_EveryLaunchOptionHostsItsPods", "Inv_C01_RequiredTermNeverDropped"])
    r = run.tlc("Scheduling", "Scheduling_Cov_run.cfg", workers=2, coverage=True, timeout=900)
    if not r.ok:
        raise vlib.InfraError("coverage run of the closed model failed: %s" % (r.violated or r.error))
    if r.coverage_zero:
        raise vlib.InfraError("vacuous closed model, actions never taken: %s" % r.coverage_zero)
    for w, inv in ({} if skip_model else WEAK).items():
        wr = run.tlc("Scheduling", "Scheduling_Weak%s.cfg" % w, workers=2, expect_violation=True, timeout=600)
        if not wr.violated or (inv and wr.violated != inv):
            raise vlib.InfraError("spec mutation Scheduling_Weak%s.cfg not rejected by TLC (got %s)" % (w, wr.violated or wr.error))
    if not skip_model:
        run.notes.append("spec mutations rejected: " + ", ".join(sorted(WEAK)))
        # every degree of candidate-evaluation parallelism: the lowest-index selection of parallelizeUntil is schedule-independent
        run.closed_model("ParallelMin", "ParallelMin_MC.cfg", workers=2, timeout=600)
        pw = run.tlc("ParallelMin", "ParallelMin_Weak.cfg", workers=2, expect_violation=True, timeout=600)
        if pw.violated != "Inv_SelectionIsLowest":
            raise vlib.InfraError("spec mutation ParallelMin_Weak.cfg not rejected by TLC")
    # 2. TLC-enumerated scenarios
    write_cfg(run, "Scheduling_Gen_run.cfg", tier["gen"], "GenSpec", ["GenPrint"])
    enum = [fix_maps(s) for s in run.generate("Scheduling", "Scheduling_Gen_run.cfg", workers=2, timeout=1800, heap="4g")]
    if tier.get("gen3"):
        write_cfg(run, "Scheduling_Gen3_run.cfg", tier["gen3"], "GenSpec", ["GenPrint"])
        enum += [fix_maps(s) for s in run.generate("Scheduling", "Scheduling_Gen3_run.cfg", workers=2, timeout=1800, heap="4g")]
    if not enum:
        raise vlib.InfraError("TLC generated no scenarios")
    total_enum = len(enum)
    if tier["replay"] and tier["replay"] < len(enum):
        enum = rng.sample(enum, tier["replay"])
    else:
        run.exhaustive = True
    rng.shuffle(enum)
    scenarios = [sc.with_options(s, sc.OPTION_GRID[i % len(sc.OPTION_GRID)], "o%d" % (i % len(sc.OPTION_GRID))) for i, s in enumerate(enum)]
    # every option variant on a common subset (both preference policies x both minValues policies x 1/2/8 workers)
    for s in enum[:25 if run.tier == "quick" else 150]:
        scenarios += [sc.with_options(s, o, "g%d" % j) for j, o in enumerate(sc.OPTION_GRID)]
    # witnesses of the listed known findings (always replayed, so the KNOWN-FINDING lines do not depend on the seed)
    wdir = os.path.join(vlib.ROOT, "checks", "witness")
    for f in sorted(os.listdir(wdir)):
        if f.startswith("C01-") and f.endswith(".json"):
            scenarios.append(json.load(open(os.path.join(wdir, f))))
    # 3. seeded explorer over the wider alphabets
    for prof, n in tier["explore"].items():
        scenarios += [sc.explore(rng, prof, "x-%s-%d-%d" % (prof, run.seed, i)) for i in range(n)]
    files, sums = run_driver(run, scenarios, "c01", procs)
    bad = [s for s in sums if s.get("status") != "ok"]
    if bad:
        raise vlib.InfraError("driver could not materialise %d scenarios, e.g. %s" % (len(bad), bad[0]))
    for s in sums:
        run.note_case(s["name"], (s.get("onNew", 0) + s.get("onExisting", 0)) > 0)
    # 4. trace validation
    viol = run.validate("Scheduling_Trace", "Scheduling_Trace.cfg", files, par=4 if dev else None, timeout=3000)
    drift = [v for v in viol if str(v.get("guard", "")).startswith("Drift_")]
    if drift:
        raise vlib.InfraError("the hydrated cluster state differs from the scenario (harness problem, no verdict): %s" % drift[:3])
    run.samples = [{"scenario": scenarios[0]["name"], "summary": sums[0]}, {"scenario": scenarios[-1]["name"], "summary": sums[-1]}]
    run.extra_cov.update({
        "tlc_enumerated_scenarios": total_enum, "tlc_scenarios_replayed": len(enum), "explorer_scenarios": sum(tier["explore"].values()),
        "pods_on_new_claims": sum(s.get("onNew", 0) for s in sums), "pods_on_existing_nodes": sum(s.get("onExisting", 0) for s in sums),
        "new_claims": sum(s.get("claims", 0) for s in sums), "pod_errors": sum(s.get("errors", 0) for s in sums),
        "panics": sum(1 for s in sums if s.get("panic"))})
    run.assumptions += [
        "labels of a launched node: each key takes the value the instance type / offering fixes, else any value the NodeClaim's "
        "requirement admits (custom keys are resolved by Karpenter itself, so only DoesNotExist leaves them missing)",
        "expected daemonset overhead = daemonsets whose required constraints hold on every such labelling (lower bound of what must be counted)",
        "existing nodes: startup / known-ephemeral taints of a not yet initialized managed node are expected to disappear",
        "single scheduling pass; API/provider faults are not part of C01's quantifier",
    ]


def replay(run, path):
    body = json.load(open(path))
    cfg = [e for e in body.get("trace", []) if e.get("e") == "Cfg"]
    if not cfg:
        raise vlib.InfraError("replay file has no Cfg line")
    scn = {k: v for k, v in cfg[0].items() if k not in ("e", "seq", "t")}
    files, sums = run_driver(run, [scn], "replay", 1)
    run.note_case(scn.get("name", "replay"))
    run.validate("Scheduling_Trace", "Scheduling_Trace.cfg", files)
    run.samples = [{"scenario": scn.get("name"), "summary": sums[0]}]
