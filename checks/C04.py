"""C04 - New capacity is opened only when existing capacity cannot admit the pod.

Closed model MultiPass.tla: provisioning passes interleaved with the life of the NodeClaims they create (every launch
choice, every lifecycle stage at which the next pass runs, daemonset pods starting, pods binding, nodes marked / deleted,
new pods arriving); TLC checks that what cluster state presents of an in-flight node (the mechanism) implies the statement
(no needless open, in-flight nodes count with the allocatable they were launched as, idempotent re-runs, the Synced gate,
marked nodes are no capacity) and rejects 8 spec mutations + 2 pinned-tree semantics.  TLC-generated behaviours are replayed
by harness/drivers/multipass on the REAL Provisioner.Reconcile, nodeclaim lifecycle controller and informer controllers;
MultiPass_Trace.tla judges every `open` / `commit` decision (hook H1) and every pass against the ground truth assembled from
the API and the provider's instance table (checks/multipass_common.py)."""
from checks import multipass_common as mp


def check(run):
    run.rule = ("a behaviour = a scenario (catalog x limits x daemonset x pod batch x later pod) x a TLC-generated history of provisioning "
                "passes, launch choices and node lifecycle steps, replayed on the real provisioner / lifecycle / informer controllers; it is "
                "non-trivial when at least two passes ran and a NodeClaim had been launched in between (in-flight capacity is in play)")
    mp.pipeline(run, "C04")


def replay(run, path):
    mp.replay(run, path)
