"""Shared by C14 / C16 (liveness) / C20 (end-to-end): behaviours of Lifecycle.tla -> driver steps."""
import itertools
import json
import os
import random

import vlib

UNIT = 300  # one logical clock unit of Lifecycle.tla = the launch timeout (300 s); RT = 3 units = 900 s

FAULTS = ["finPatch", "provICE", "provNCNR", "provErr", "nodePatchReg", "nodePatchInit", "mainPatch", "statusPatch",
          "poolPatch", "deleteFail"]


def rec_step(f, stale=0, main_nth=None, init_nth=None, err="Server"):
    st = {"a": "Rec", "stale": stale, "faults": [], "prov": "ok"}
    if f == "finPatch":
        st["faults"] = [{"verb": "patch", "kind": "NodeClaim", "sub": "-", "nth": 1, "err": "Conflict" if err == "Conflict" else err}]
    elif f in ("provICE", "provNCNR", "provErr"):
        st["prov"] = {"provICE": "ICE", "provNCNR": "NCNR", "provErr": "err"}[f]
    elif f == "nodePatchReg":
        st["faults"] = [{"verb": "patch", "kind": "Node", "sub": "-", "nth": 1, "err": err}]
    elif f == "nodePatchInit":
        st["faults"] = [{"verb": "patch", "kind": "Node", "sub": "-", "nth": init_nth or 1, "err": err}]
    elif f == "mainPatch":
        st["faults"] = [{"verb": "patch", "kind": "NodeClaim", "sub": "-", "nth": main_nth or 1, "err": err}]
    elif f == "statusPatch":
        st["faults"] = [{"verb": "patch", "kind": "NodeClaim", "sub": "status", "nth": 1, "err": err}]
    elif f == "poolPatch":
        st["faults"] = [{"verb": "patch", "kind": "NodePool", "sub": "status", "nth": 1, "err": "Conflict"}]
    elif f == "deleteFail":
        st["faults"] = [{"verb": "delete", "kind": "NodeClaim", "sub": "-", "nth": 1, "err": err}]
    return st


def from_model(h, rng):
    """Translate a history of Lifecycle.tla into driver steps."""
    steps = []
    for e in h:
        a = e["a"]
        if a == "Rec":
            steps.append(rec_step(e["f"], e.get("stale", 0), e.get("mainNth"), e.get("initNth"),
                                  err=rng.choice(["Server", "Conflict", "Server"])))
        elif a == "NodeAppears":
            steps.append({"a": "NodeAppears", "unreg": e["unreg"], "startup": e["startup"], "eph": e["eph"],
                          "ready": e["ready"], "res": e["res"]})
        elif a == "RemoveStartup":
            steps.append({"a": "RemoveTaint", "which": "startup"})
        elif a == "RemoveEph":
            steps.append({"a": "RemoveTaint", "which": "eph"})
        elif a == "Ready":
            steps.append({"a": "Ready", "ready": True})
        elif a == "NotReady":
            steps.append({"a": "Ready", "ready": False})
        elif a == "ReportRes":
            steps.append({"a": "ReportRes"})
        elif a == "Tick":
            steps.append({"a": "Tick", "d": rng.choice([UNIT, UNIT, UNIT - 2, UNIT + 1])})
        elif a == "Restart":
            steps.append({"a": "Restart"})
        elif a == "ClaimGone":
            steps.append({"a": "ClaimGone"})
        else:
            raise vlib.InfraError("unknown model action %r" % a)
    return steps


def happy_path(cfg):
    """Canonical launch -> register -> initialize path (positions of Rec steps are fault sites)."""
    return [
        {"a": "Rec"}, {"a": "Rec"},
        {"a": "NodeAppears", "unreg": True, "startup": cfg["startupTaint"], "eph": True, "ready": False, "res": False},
        {"a": "Rec"},
        {"a": "RemoveTaint", "which": "startup"}, {"a": "Rec"},
        {"a": "Ready", "ready": True}, {"a": "RemoveTaint", "which": "eph"}, {"a": "Rec"},
        {"a": "ReportRes"}, {"a": "Rec"}, {"a": "Rec"},
    ]


def timeout_path(kind):
    if kind == "launch":   # provider keeps failing until the launch timeout
        return [{"a": "Rec", "prov": "err"}, {"a": "Tick", "d": 150}, {"a": "Rec", "prov": "err"}, {"a": "Tick", "d": 148},
                {"a": "Rec", "prov": "err"}, {"a": "Tick", "d": 2}, {"a": "Rec", "prov": "err"}, {"a": "Rec"}]
    return [{"a": "Rec"}, {"a": "Rec"}, {"a": "Tick", "d": 450}, {"a": "Rec"}, {"a": "Tick", "d": 445}, {"a": "Rec"},
            {"a": "Tick", "d": 5}, {"a": "Rec"}, {"a": "Rec"}]


def with_fault(path, positions_faults, stale_at=()):
    """Copy of path where the i-th Rec (0-based) gets fault f."""
    out, k = [], 0
    for st in path:
        st = dict(st)
        if st["a"] == "Rec":
            f = positions_faults.get(k)
            if f:
                base = rec_step(f, 1 if k in stale_at else 0, main_nth=1, init_nth=1)
                if st.get("prov") and base["prov"] == "ok":
                    base["prov"] = st["prov"]
                # the finalizer patch is the first NodeClaim main patch of the very first reconcile
                if f == "mainPatch" and k == 0:
                    base["faults"][0]["nth"] = 2
                st = base
            elif k in stale_at:
                st["stale"] = 1
            k += 1
        out.append(st)
    return out


def systematic(tier, rng):
    behs = []
    # the claim is deleted before its finalizer landed while the informer copy lags
    for cfg in ({"startupTaint": True, "extRes": True, "taintVariant": 0},):
        behs.append({"cfg": cfg, "steps": [{"a": "ClaimGone"}, {"a": "Rec", "stale": 1}, {"a": "Rec", "stale": 1}], "tag": "gone:0"})
        for err in ("Server", "Conflict", "NotFound"):
            behs.append({"cfg": cfg, "steps": [rec_step("finPatch", err=err), {"a": "ClaimGone"}, {"a": "Rec", "stale": 1}],
                         "tag": "gone:1:" + err})
            behs.append({"cfg": cfg, "steps": [rec_step("finPatch", err=err), {"a": "Rec"}, {"a": "Rec"}], "tag": "fin:" + err})
    for cfg in ({"startupTaint": True, "extRes": True, "taintVariant": 0}, {"startupTaint": False, "extRes": False, "taintVariant": 0},
                {"startupTaint": True, "extRes": False, "taintVariant": 1, "wrapCapErr": True},
                {"startupTaint": True, "extRes": True, "taintVariant": 2, "noSyncTaints": True}):
        hp = happy_path(cfg)
        nrec = sum(1 for s in hp if s["a"] == "Rec")
        behs.append({"cfg": cfg, "steps": hp, "tag": "happy"})
        for i in range(nrec):
            for f in FAULTS:
                for stale in ((), (i + 1,)):
                    behs.append({"cfg": cfg, "steps": with_fault(hp, {i: f}, stale) + [{"a": "Rec"}, {"a": "Rec"}],
                                 "tag": "single:%d:%s:%s" % (i, f, "stale" if stale else "fresh")})
        # restart right after each reconcile, then carry on
        for i in range(nrec):
            steps, k = [], 0
            for st in hp:
                steps.append(st)
                if st["a"] == "Rec":
                    if k == i:
                        steps.append({"a": "Restart"})
                    k += 1
            behs.append({"cfg": cfg, "steps": steps, "tag": "restart:%d" % i})
        pairs = list(itertools.combinations(range(nrec), 2))
        if tier == "quick":
            pairs = rng.sample(pairs, 6)
        for i, j in pairs:
            fs = FAULTS if tier != "quick" else rng.sample(FAULTS, 4)
            for f in fs:
                for g in fs:
                    behs.append({"cfg": cfg, "steps": with_fault(hp, {i: f, j: g}) + [{"a": "Rec"}, {"a": "Rec"}],
                                 "tag": "pair:%d:%s:%d:%s" % (i, f, j, g)})
        for kind in ("launch", "registration"):
            tp = timeout_path(kind)
            behs.append({"cfg": cfg, "steps": tp, "tag": "timeout:" + kind})
            n2 = sum(1 for s in tp if s["a"] == "Rec")
            for i in range(n2):
                for f in ("poolPatch", "deleteFail", "statusPatch", "mainPatch"):
                    behs.append({"cfg": cfg, "steps": with_fault(tp, {i: f}) + [{"a": "Rec"}],
                                 "tag": "timeout:%s:%d:%s" % (kind, i, f)})
    return behs


def generate(run, nsim):
    """TLC simulation of the closed model + systematic fault placement; returns list of behaviours."""
    rng = random.Random(run.seed)
    hs = run.generate("Lifecycle", "Lifecycle_Gen.cfg", workers=1, simulate="num=%d" % nsim, depth=20, timeout=900)
    if not hs:
        raise vlib.InfraError("TLC generated no Lifecycle behaviours")
    behs = [{"cfg": {"startupTaint": True, "extRes": True, "taintVariant": rng.choice([0, 0, 1, 2]),
                     "noSyncTaints": rng.random() < 0.25, "wrapCapErr": rng.random() < 0.5}, "steps": from_model(h, rng),
             "tag": "tlc-sim"} for h in hs]
    behs += systematic(run.tier, rng)
    return behs


def record(run, behs, prefix="lifecycle"):
    bpath = os.path.join(run.work, prefix + "-behs.json")
    json.dump(behs, open(bpath, "w"))
    out = json.loads(run.drv("lifecycle", ["-in", bpath, "-out", os.path.join(run.work, "traces-" + prefix), "-shards", vlib.NCPU]))
    return out["files"]
