"""C05 — Disruption budgets are never exceeded.

(i)   arithmetic: Budgets.tla enumerates the case space (window edges, rounding, reason lists, budget lists,
      malformed and under-determined entries); every case is replayed on the real
      NodePool.GetAllowedDisruptionsByReason / MustGetAllowedDisruptions / Budget.IsActive / GetAllowedDisruptions
      with the harness clock; Budgets_Trace.tla re-derives every result from BudgetGuards.tla.
(ii)  mapping: behaviours of BudgetRounds.tla (TLC simulation) replayed on a world whose state.Cluster is hydrated
      by the real informer controllers; disruption.BuildDisruptionBudgetMapping observed after every step.
(iii) rounds: the real disruption.Controller.Reconcile and orchestration Queue run the rounds on those clusters
      (emptiness, drift, static drift, single-/multi-node consolidation), commands left in flight, environment steps injected
      during the 15 s validation wait; every command that starts is judged by G_C05_StartWithinBudget."""
import collections
import concurrent.futures as cf
import json
import os
import threading

import vlib
from checks import budgets_common as bc

WEAK = {
    "Budgets_WeakClosed.cfg": "Inv_C05_HalfOpen",
    "Budgets_WeakStartExcl.cfg": "Inv_C05_HalfOpen",
    "Budgets_WeakFloor.cfg": "Inv_C05_Ceil",
    "Budgets_WeakEmptyNone.cfg": "Inv_C05_EmptyListsNone",
    "Budgets_Pct_WeakFloor.cfg": "Inv_C05_Ceil",
}
WEAK_ROUNDS = ["BudgetRounds_Weak_nodecrement.cfg", "BudgetRounds_Weak_norevalidate.cfg", "BudgetRounds_Weak_ignorenotready.cfg"]
PAR = {"quick": 8, "thorough": 8}
FILES = []      # trace files of all levels; validated together at the end (one TLC process per file)
LOCK = threading.Lock()
MAXINT = 2147483647

# concrete placements of the abstract horizon (see harness/drivers/budgets/unit.go: Variant):
# 2030-01-01 (epoch), 2030-02-28 -> crossing into March, 2031-12-31 -> year end, 2032-02-29 (leap day)
V0 = {"day": 0, "frac": 0, "zone": 0}
VARIANTS = {
    "quick": {"*": [V0], "W": [V0, {"day": 58, "frac": 999, "zone": 19800}],
              "N": [V0, {"day": 789, "frac": 500, "zone": -28800}]},
    "thorough": {"*": [V0, {"day": 58, "frac": 999, "zone": 19800}],
                 "W": [V0, {"day": 58, "frac": 999, "zone": 19800}, {"day": 729, "frac": 500, "zone": -28800},
                       {"day": 789, "frac": 1, "zone": 50400}],
                 "N": [V0, {"day": 789, "frac": 500, "zone": -28800}]},
}

# thorough tier: calendar-dependent schedules; their hit sets are taken from the cron library for each placement
# (name, day offset of the horizon start, schedules): Fri 2030-01-04 .. Tue (a weekend), Wed 2030-01-30 .. (month end),
# Fri 2032-02-27 .. (leap day)
X_HORIZON = 4 * 86400
X_DURS = [1800, 8 * 3600, 24 * 3600, 36 * 3600]
X_PLACEMENTS = [
    ("weekend", 3, ["0 9 * * 1-5", "30 23 * * *", "@daily", "0 */6 * * 6,0"]),
    ("monthend", 29, ["0 0 1 * *", "0 12 31 * *", "@weekly", "15 3 * * 5"]),
    ("leapday", 787, ["0 0 29 2 *", "0 0 1 3 *", "@monthly", "59 23 28 2 *"]),
]

# which malformed / under-determined inputs of the case space the CRD schema would reject
# (pkg/apis/crds/karpenter.sh_nodepools.yaml: nodes pattern ^((100|[0-9]{1,2})%|[0-9]+)$, schedule pattern
#  ^(@(annually|yearly|monthly|weekly|daily|midnight|hourly))|((.+)\s(.+)\s(.+)\s(.+)\s(.+))$, duration pattern,
#  CEL rule has(schedule) == has(duration); reasons: enum items, maxItems 50, NO minItems)
CRD_NOTES = [
    "schedule '61 * * * *', '0 0 * * 8', 'CRON_TZ=Asia/Tokyo 0 * * * *': ADMITTED by the CRD pattern (five blank-separated "
    "fields), rejected by the cron parser -> reach the function in production; fail closed (guarded)",
    "schedule '* * * *', 'hourly': rejected by the CRD pattern (guarded anyway: fail closed)",
    "nodes 'abc', '', '1.5', '5 %', '%', '10 ': rejected by the CRD pattern (guarded anyway: fail closed)",
    "duration without schedule / schedule without duration: rejected by the CRD CEL rule; the former fails closed "
    "(guarded), the latter is never active (under-determined by the statement: accepted as 'empty window' or 'malformed')",
    "schedule '0 0 31 2 *', '0 0 30 2 *' (parses, never fires): ADMITTED by the CRD; the look-back treats the library's "
    "zero time as a past hit -> budget permanently active (restrictive side; accepted as a reading, reported here)",
    "reasons: [] : ADMITTED by the CRD (no minItems), decodes to an empty non-nil slice (guarded: must apply to every reason; "
    "known finding F-C05-1).  The controller-runtime fake client re-encodes typed objects (omitempty) so the empty list "
    "cannot be stored in the harness world: the finding is exhibited at the unit level only, on a NodePool decoded from "
    "its JSON manifest exactly as a client of a real API server decodes it",
    "nodes '-1', '-5%', '+5', '101%', '200%', '010': rejected by the CRD pattern except '010'; not guarded (the statement's "
    "'malformed' is taken as 'unparsable'); what the function returns is listed under unit_observations",
]


# ---------------------------------------------------------------------------------------------- (i) unit level
def replay_unit(run, cases, tag, variants):
    cpath = os.path.join(run.work, "budget-cases-%s.json" % tag)
    json.dump(cases, open(cpath, "w"))
    out = json.loads(run.drv("budgets-unit", ["-in", cpath, "-out", os.path.join(run.work, "traces-" + tag),
                                              "-shards", 8, "-variants", json.dumps(variants)]))
    if out["hit_mismatch"]:
        raise vlib.InfraError("the model's abstract schedules disagree with the cron library's hit sets "
                              "(model configuration error, not a verdict): %s" % out["hit_mismatch"])
    fams = collections.Counter()
    keys = {}
    for f in out["files"]:
        cur = None
        for line in open(f):
            ev = json.loads(line)
            if ev["e"] == "Cfg":
                cur = ev["case"]
                keys[cur] = False
            elif ev["e"] == "Call":
                fams[ev["fam"]] += 1
                # non-trivial: the real code's answer restricts the pool, or a schedule window was evaluated
                if ev["must"] < MAXINT or any(b["cron"] != "-" for b in ev["budgets"]):
                    keys[cur] = True
    with LOCK:
        for i in range(len(cases)):
            run.note_case((tag, i), keys.get(i, False))
    FILES.extend(out["files"])
    run.extra_cov["unit_cases"] = run.extra_cov.get("unit_cases", 0) + len(cases)
    byfam = run.extra_cov.setdefault("unit_calls_by_family", {})
    for k, v in fams.items():
        byfam[k] = byfam.get(k, 0) + v
    run.extra_cov["unit_observations"] = out["observations"]


def unit_level(run, cases, pct_cases):
    if not cases or not pct_cases:
        raise vlib.InfraError("TLC generated no Budgets cases")
    replay_unit(run, cases, "unit", VARIANTS[run.tier])
    # the percentage grid: one pure call per case, a single placement
    replay_unit(run, pct_cases, "unit-pct", {"*": [V0]})
    boundary = sum(1 for c in pct_cases if (c["budgets"][0]["val"] * c["n"]) % 100 in (0, 1, 99))
    run.extra_cov["percentage_grid"] = {"percentages": "0..100", "pool_sizes": sorted({c["n"] for c in pct_cases}),
                                        "cases": len(pct_cases), "rounding_boundary_cases(pct*n mod 100 in {0,1,99})": boundary}
    run.samples += [cases[0], cases[len(cases) // 2], pct_cases[len(pct_cases) // 3]]
    if run.tier == "thorough":
        for name, day, crons in X_PLACEMENTS:
            unit_calendar(run, name, day, crons)


def unit_calendar(run, name, day, crons):
    """Calendar-dependent schedules: the model's Schedules constant is the cron library's hit sets at this placement."""
    hits = json.loads(run.drv("budgets-hits", ["-crons", "|".join(crons), "-day", day, "-horizon", X_HORIZON]))
    mod = "Budgets_X" + name
    sched = " @@ ".join("(%s :> {%s})" % (bc.tla_str(c), ", ".join(str(h) for h in hits[c])) for c in crons)
    txt = "\n".join([
        "---- MODULE %s ----" % mod, "EXTENDS Budgets",
        "X_Horizon == %d" % X_HORIZON,
        "X_Schedules == " + sched,
        "X_Durations == {%s}" % ", ".join(str(d) for d in X_DURS),
        "X_ListAlphabet == <<Always(\"count\", 2, <<>>, \"nil\"), Win(%s, %d, \"count\", 0, <<>>, \"nil\"), "
        "Win(%s, %d, \"pct\", 50, <<\"Drifted\">>, \"set\")>>" % (bc.tla_str(crons[0]), X_DURS[1], bc.tla_str(crons[1]), X_DURS[0]),
        "X_ListInstants == {%d, %d, %d}" % (X_HORIZON // 2, X_HORIZON // 2 + 1800, X_HORIZON - 3600),
        "===="])
    open(os.path.join(run.specdir, mod + ".tla"), "w").write(txt + "\n")
    cfg = "\n".join([
        'CONSTANTS Rounding = "up"  WindowEnd = "open"  EmptyReasons = "all"',
        "CONSTANTS Horizon <- X_Horizon  Schedules <- X_Schedules  Durations <- X_Durations",
        "          Percents = {50}  Counts = {0}  Sizes = {10}  Reasons <- MC_Reasons",
        "          ListAlphabet <- X_ListAlphabet  ListInstants <- X_ListInstants",
        "          BadCrons = {}  BadNodes = {}  NoHitCrons = {}  PctSizes = {}",
        "SPECIFICATION CaseSpec", "INVARIANTS GenPrint Inv_C05_HalfOpen Inv_C05_UpperBound Inv_C05_Attained"])
    open(os.path.join(run.specdir, mod + ".cfg"), "w").write(cfg + "\n")
    cases = [c for c in run.generate(mod, mod + ".cfg", workers=1, timeout=900) if c["fam"] in ("W", "L")]
    if not any(c["fam"] == "W" for c in cases):
        raise vlib.InfraError("calendar placement %s produced no window case" % name)
    replay_unit(run, cases, "unit-" + name,
                {"*": [{"day": day, "frac": 0, "zone": 0}, {"day": day, "frac": 750, "zone": -12600}]})
    run.extra_cov.setdefault("calendar_placements", {})[name] = {"day": day, "schedules": crons, "cases": len(cases)}


# ---------------------------------------------------------------------------------------------- (ii) mapping level
NSIM_MAP = {"quick": [("S1", 60, True), ("S2", 40, False)],
            "thorough": [("S1", 600, True), ("S1", 300, False), ("S2", 400, True), ("S2", 300, False),
                         ("S3", 400, True), ("S3", 300, False), ("S4", 200, True), ("S5", 200, True)]}
DEPTH = 14


def simulate_all(run, pool, want_map, want_rounds):
    """All TLC simulations of the round model, concurrently. Returns (mapping behaviours, round behaviours)."""
    scs = {}
    for name in sorted({n for n, _, _ in (NSIM_MAP[run.tier] if want_map else []) + (NSIM_R[run.tier] if want_rounds else [])}):
        scs[name] = bc.with_hits(run, bc.SCENARIOS[name])
    mf = [(name, pool.submit(bc.simulate, run, name, scs[name], num, DEPTH, env_all))
          for name, num, env_all in (NSIM_MAP[run.tier] if want_map else [])]
    rf = [(name, systematic, pool.submit(bc.simulate, run, name + "x", scs[name], num, 20, False, 8))
          for name, num, systematic in (NSIM_R[run.tier] if want_rounds else [])]
    mbehs, rbehs = [], []
    for name, f in mf:
        mbehs += bc.mapping_behaviours(scs[name], f.result(), name)
    for name, systematic, f in rf:
        sc = scs[name]
        rbehs += bc.round_behaviours(sc, f.result(), name + ":tlc-sim")
        # quick tier: the secondary scenarios get the two environment actions that shrink a budget during the wait
        rbehs += bc.systematic_rounds(sc, name) if systematic else bc.systematic_rounds(sc, name, ["NotReady", "DeleteClaim"], [])
    return mbehs, rbehs


def mapping_level(run, behs):
    bpath = os.path.join(run.work, "budget-map-behs.json")
    json.dump(behs, open(bpath, "w"))
    out = json.loads(run.drv("budgets-map", ["-in", bpath, "-out", os.path.join(run.work, "traces-map"), "-shards", 8]))
    nontriv, nmaps, subtracting = {}, 0, 0
    for f in out["files"]:
        cur = None
        for line in open(f):
            ev = json.loads(line)
            if ev["e"] == "Cfg":
                cur = ev["beh"]
                nontriv[cur] = False
            elif ev["e"] == "Call" and ev["fn"] == "Map":
                nmaps += 1
                for p in ev["pools"]:
                    dis = [x for x in ev["nodes"] if x["pool"] == p["pool"] and x["managed"] and x["initialized"]
                           and (not x["ready"] or x["marked"] or x["deleting"])]
                    if p["res"] < MAXINT and dis:
                        nontriv[cur] = True
                        subtracting += 1
    with LOCK:
        for i in range(len(behs)):
            run.note_case(("map", i), nontriv.get(i, False))
    FILES.extend(out["files"])
    run.extra_cov["mapping_behaviours"] = len(behs)
    run.extra_cov["mapping_observations"] = nmaps
    run.extra_cov["mapping_pool_results_with_subtraction"] = subtracting
    run.extra_cov["mapping_steps_skipped"] = out["skipped"]
    run.samples.append({"mapping_behaviour": [(s["a"], s["i"] or s["to"] or s["sel"]) for s in behs[0]["steps"]],
                        "scenario": behs[0]["tag"]})


# ---------------------------------------------------------------------------------------------- (iii) round level
NSIM_R = {"quick": [("S1", 50, True), ("S4", 20, False), ("S5", 12, False)],
          "thorough": [("S1", 500, True), ("S2", 300, True), ("S3", 300, True), ("S4", 200, True), ("S5", 200, True)]}


def rounds_level(run, behs):
    bpath = os.path.join(run.work, "budget-round-behs.json")
    json.dump(behs, open(bpath, "w"))
    out = json.loads(run.drv("budgets-rounds", ["-in", bpath, "-out", os.path.join(run.work, "traces-rounds"), "-shards", 8]))
    starts = collections.Counter()
    multi, errors, during = 0, 0, 0
    has_start = {}
    for f in out["files"]:
        cur = None
        for line in open(f):
            ev = json.loads(line)
            if ev["e"] == "Cfg":
                cur = ev["beh"]
                has_start[cur] = False
            elif ev["e"] == "Start":
                has_start[cur] = True
                starts["%s/%s" % (ev["method"].split(".")[-1], ev["reason"])] += 1
                if len(ev["sel"]) > 1:
                    multi += 1
            elif ev["e"] == "End" and ev["err"] != "-":
                errors += 1
            elif ev["e"] == "Step" and ev["during"] and ev["applied"]:
                during += 1
    with LOCK:
        for i in range(len(behs)):
            run.note_case(("round", i), has_start.get(i, False))
    FILES.extend(out["files"])
    run.extra_cov["round_behaviours"] = len(behs)
    run.extra_cov["round_behaviours_with_a_start"] = sum(1 for v in has_start.values() if v)
    run.extra_cov["commands_started_by_method_reason"] = dict(starts)
    run.extra_cov["multi_node_commands"] = multi
    run.extra_cov["env_steps_injected_during_validation_wait"] = during
    run.extra_cov["reconciles_returning_error"] = errors
    if not starts:
        raise vlib.InfraError("no disruption command was ever started by the real controller: the round level is vacuous")
    run.samples.append({"round_behaviour": [(s["a"], s["i"] or s["to"], [d["a"] + str(d["i"]) for d in s["during"]])
                                            for s in behs[0]["steps"]], "scenario": behs[0]["tag"]})


# ---------------------------------------------------------------------------------------------- the check
def never_taken(r):
    """Actions with count 0 in TLC's FINAL coverage report (with -coverage 1 TLC also prints interim reports every
    minute of a long run, in which actions not yet reached show 0)."""
    import re
    txt = r.stdout
    k = txt.rfind("The coverage statistics at")
    if k >= 0:
        txt = txt[k:]
    return [m.group(1) for m in re.finditer(r"^<(\w+) line \d+, col \d+ to line \d+, col \d+ of module \w+>: \d+:(\d+)$", txt, re.M)
            if int(m.group(2)) == 0 and m.group(1) != "Init"]


def account(run, module, cfg, r, must_hold=True):
    """What Run.closed_model records, for a TLC result obtained on a worker thread."""
    run.states += r.distinct
    run.transitions += r.generated
    run.models.append({"module": module, "cfg": cfg, "distinct": r.distinct, "generated": r.generated,
                       "depth": r.depth, "wall_s": round(r.wall, 1), "violated": r.violated})
    if must_hold and not r.ok:
        raise vlib.InfraError("closed model %s/%s does not satisfy its invariants (%s)" % (module, cfg, r.violated))


def closed_model_jobs(run, pool, only):
    """Submit every TLC job on the closed models (they are independent); returns a function that collects them."""
    thorough = run.tier == "thorough"
    futs = {}
    if only in ("", "unit"):
        futs["mc"] = pool.submit(run.tlc, "Budgets", "Budgets_MC.cfg", workers=4, heap="4g", coverage=True)
        futs["pct"] = pool.submit(run.tlc, "Budgets", "Budgets_Pct_MC.cfg", workers=2, heap="2g", coverage=True)
        for cfg in WEAK:
            futs[cfg] = pool.submit(run.tlc, "Budgets", cfg, workers=1, heap="2g", expect_violation=True)
    if only in ("", "map", "rounds"):
        # rounds: every Start within budget in every interleaving (quick: 2 rounds; thorough: 3 rounds, with coverage)
        cfg = open(os.path.join(run.specdir, "BudgetRounds_MC.cfg")).read()
        if not thorough:
            cfg = cfg.replace("MaxRounds = 3", "MaxRounds = 2")
        open(os.path.join(run.specdir, "BudgetRounds_MC_run.cfg"), "w").write(cfg)
        futs["rounds"] = pool.submit(run.tlc, "BudgetRounds", "BudgetRounds_MC_run.cfg", workers=8 if thorough else 6, heap="4g",
                                     coverage=thorough, timeout=1500)
        for wcfg in WEAK_ROUNDS:
            futs[wcfg] = pool.submit(run.tlc, "BudgetRounds", wcfg, workers=1, heap="2g", expect_violation=True)
        if thorough:
            futs["rounds2"] = pool.submit(run.tlc, "BudgetRounds", "BudgetRounds_MC2.cfg", workers=8, heap="4g", timeout=1500)
            # beyond the exhaustive bound: every environment action on every node, 5 rounds - random deep behaviours of the
            # closed model checked against the same invariants (a failure here is a model problem: exit 2)
            big = cfg.replace("EnvOf <- MC_EnvOf", "EnvOf <- MC_EnvAll").replace("MaxRounds = 3", "MaxRounds = 5")
            open(os.path.join(run.specdir, "BudgetRounds_MCbig_run.cfg"), "w").write(big)
            futs["big"] = pool.submit(run.tlc, "BudgetRounds", "BudgetRounds_MCbig_run.cfg", workers=4, heap="3g",
                                      simulate="num=4000", depth=50, timeout=900)

    def collect():
        if "mc" in futs:
            for key, cfg in (("mc", "Budgets_MC.cfg"), ("pct", "Budgets_Pct_MC.cfg")):
                r = futs[key].result()
                account(run, "Budgets", cfg, r)
                if never_taken(r):
                    raise vlib.InfraError("vacuous closed model %s, actions never taken: %s" % (cfg, never_taken(r)))
            for cfg, inv in WEAK.items():
                weak = futs[cfg].result()
                if weak.violated != inv:
                    raise vlib.InfraError("spec mutation %s not rejected by TLC with %s (got %s)" % (cfg, inv, weak.violated))
            run.notes.append("spec mutations rejected by TLC: " + ", ".join("%s -> %s" % kv for kv in WEAK.items()))
        if "rounds" in futs:
            r = futs["rounds"].result()
            account(run, "BudgetRounds", "BudgetRounds_MC_run.cfg", r)
            if never_taken(r):
                raise vlib.InfraError("vacuous round model, actions never taken: %s" % never_taken(r))
            for wcfg in WEAK_ROUNDS:
                weak = futs[wcfg].result()
                if weak.violated != "Inv_C05_StartWithinBudget":
                    raise vlib.InfraError("spec mutation %s not rejected by TLC (got %s)" % (wcfg, weak.violated))
            run.notes.append("round-model mutations rejected by TLC with Inv_C05_StartWithinBudget: " + ", ".join(WEAK_ROUNDS))
        if "rounds2" in futs:
            account(run, "BudgetRounds", "BudgetRounds_MC2.cfg", futs["rounds2"].result())
            r = futs["big"].result()
            if not r.ok:
                raise vlib.InfraError("round model (all environment actions, simulation) violates %s" % r.violated)
            run.models.append({"module": "BudgetRounds", "cfg": "MC with every environment action on every node, 5 rounds "
                               "(simulation, 4000 behaviours of depth 50)", "generated": r.generated, "violated": r.violated,
                               "wall_s": round(r.wall, 1)})
    return collect


def check(run):
    run.rule = ("(i) TLC enumerates the whole case space of Budgets.tla (W window edges h-1s,h,h+d-1s,h+d,h+d+1s x schedules x "
                "durations; V values x pool sizes 0..12; P EVERY percentage 0..100 x pool sizes 0..30 and the sizes that make "
                "pct*n/100 integral or nearly so, up to 21474835; R reason lists absent/empty/each/several; L lists of 2-3 budgets "
                "with overlapping windows; M malformed entries; N under-determined entries); each case is replayed on the real "
                "functions (window families at several concrete placements: date, sub-second offset, clock zone). (ii) TLC "
                "simulations of BudgetRounds.tla (environment: launch/register/initialize/readiness/deletions/termination/clock; "
                "queue marks) are replayed on a world whose cluster state is fed by the real informer controllers and "
                "BuildDisruptionBudgetMapping is observed after every step for every reason. (iii) the same clusters with the real "
                "disruption controller running the rounds (TLC-simulated stimuli + systematic placement of every environment "
                "action before a round / during its validation wait / around every window edge). Non-trivial = (i) the answer "
                "restricts the pool or a window is evaluated, (ii) a bounded result with not-ready/marked/deleting nodes to "
                "subtract, (iii) the real controller started at least one command")
    only = os.environ.get("C05_ONLY", "")
    del FILES[:]
    # independent TLC jobs, the harness build and the drivers run concurrently (Run.tlc / Run.drv are thread-safe)
    with cf.ThreadPoolExecutor(max_workers=24) as pool:
        build = pool.submit(run.build_drv)
        collect = closed_model_jobs(run, pool, only)
        gen = pct = None
        if only in ("", "unit"):
            gen = pool.submit(run.generate, "Budgets", "Budgets_Gen.cfg", workers=1, timeout=900)
            pct = pool.submit(run.generate, "Budgets", "Budgets_PctGen.cfg", workers=1, timeout=900)
        build.result()
        mbehs, rbehs = simulate_all(run, pool, only in ("", "map"), only in ("", "rounds"))
        levels = []
        if gen is not None:
            levels.append(pool.submit(unit_level, run, gen.result(), pct.result()))
        if only in ("", "map"):
            levels.append(pool.submit(mapping_level, run, mbehs))
        if only in ("", "rounds"):
            levels.append(pool.submit(rounds_level, run, rbehs))
        for f in levels:
            f.result()
        collect()
    run.validate("Budgets_Trace", "Budgets_Trace.cfg", sorted(FILES), par=PAR[run.tier])
    run.exhaustive = only == ""
    run.extra_cov["exhaustive_scope"] = ("the case space of Budgets.tla (part i, including the full percentage grid) is enumerated "
                                         "completely; mapping and round levels are sampled")
    run.extra_cov["crd_schema_notes"] = CRD_NOTES
    run.extra_cov["integer_range_note"] = (
        "TLC integers and the Json module are 32-bit: the grid's largest pool size is 21474835 (100*n+99 must not overflow) and "
        "results up to 2147483647 are representable; counts beyond 2^31-1 (nodes: \"2147483648\" is admitted by the CRD pattern "
        "[0-9]+ and wraps negative in intstr.FromInt -> the pool is closed) cannot be judged by the trace spec and are listed "
        "under unit_observations only")
    run.assumptions += [
        "robfig/cron is trusted: hit sets are obtained by stepping the library's Next from a fixed start; the model's abstract "
        "schedules are cross-checked against them (a disagreement is exit 2)",
        "NodePools are decoded from JSON manifests with encoding/json, as a client of the API server does; CRD validation is "
        "not in the loop (crd_schema_notes says which inputs it would reject)",
        "time is whole seconds in the model; sub-second clock readings are exercised by the concrete placements",
        "mapping/round level: the informer is fully caught up after every environment step (staleness of the cluster cache is "
        "C11's subject); 'initialized' = the NodeClaim's Initialized condition with a registered Node; 'being deleted' = the "
        "NodeClaim has a deletion timestamp (a Node-only deletion and InstanceTerminating nodes are accepted under either "
        "reading, BudgetGuards!MapReadings); which nodes are 'already selected' is the spec's own ghost accumulated from the "
        "logged Start/Fail/Gone steps",
        "round level: a command's start is observed as the new entry of Queue.GetCommands() after Reconcile together with the "
        "taint / DisruptionReason patches at the choke point; the instant of its last budget computation is the controller's "
        "last NodePool list; replacement NodeClaims never initialize (no lifecycle controller in this driver)",
    ]


def replay(run, path):
    body = json.load(open(path))
    ev = body.get("failing_event") or {}
    if ev.get("fn") != "Allowed":
        raise vlib.InfraError("replay supports unit-level (Call/Allowed) witnesses; re-run `bin/check C05` with VERIF_SEED=%s "
                              "for others (failing trace embedded in %s)" % (body.get("seed"), path))
    case = {"fam": ev["fam"], "budgets": ev["budgets"], "now": ev["now"], "n": ev["n"], "reason": ev["reason"]}
    cpath = os.path.join(run.work, "replay-case.json")
    json.dump([case], open(cpath, "w"))
    v = {"day": ev["day"], "frac": ev["frac"], "zone": ev["zone"]}
    out = json.loads(run.drv("budgets-unit", ["-in", cpath, "-out", os.path.join(run.work, "traces"), "-shards", 1,
                                              "-variants", json.dumps({"*": [v]})]))
    run.note_case(("replay",))
    run.validate("Budgets_Trace", "Budgets_Trace.cfg", out["files"])
    run.samples = [case]
