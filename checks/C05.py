"""C05 — Disruption budgets are never exceeded.

(i)  arithmetic: Budgets.tla enumerates the case space (window edges, rounding, reason lists, budget
     lists, malformed and under-determined entries); every case is replayed on the real
     NodePool.GetAllowedDisruptionsByReason / MustGetAllowedDisruptions / Budget.IsActive /
     Budget.GetAllowedDisruptions with the harness clock; Budgets_Trace.tla re-derives every result.
(ii) mapping / rounds: see checks/budgets_common.py (added below when present)."""
import collections
import json
import os

import vlib
from checks import budgets_common as bc

WEAK = {
    "Budgets_WeakClosed.cfg": "Inv_C05_HalfOpen",
    "Budgets_WeakStartExcl.cfg": "Inv_C05_HalfOpen",
    "Budgets_WeakFloor.cfg": "Inv_C05_Ceil",
    "Budgets_WeakEmptyNone.cfg": "Inv_C05_EmptyListsNone",
}

# concrete placements of the abstract horizon (see harness/drivers/budgets/unit.go: Variant):
# 2030-01-01 (epoch), 2030-02-28 -> crossing into March, 2031-12-31 -> year end, 2032-02-29 (leap day)
V0 = {"day": 0, "frac": 0, "zone": 0}
VARIANTS = {
    "quick": {"*": [V0], "W": [V0, {"day": 58, "frac": 999, "zone": 19800}],
              "N": [V0, {"day": 789, "frac": 500, "zone": -28800}]},
    "thorough": {"*": [V0, {"day": 58, "frac": 999, "zone": 19800}],
                 "W": [V0, {"day": 58, "frac": 999, "zone": 19800}, {"day": 729, "frac": 500, "zone": -28800},
                       {"day": 789, "frac": 1, "zone": 50400}],
                 "N": [V0, {"day": 789, "frac": 500, "zone": -28800}]},
}

# which malformed / under-determined inputs of the case space the CRD schema would reject
# (pkg/apis/crds/karpenter.sh_nodepools.yaml: nodes pattern ^((100|[0-9]{1,2})%|[0-9]+)$, schedule pattern
#  ^(@(annually|yearly|monthly|weekly|daily|midnight|hourly))|((.+)\s(.+)\s(.+)\s(.+)\s(.+))$, duration pattern,
#  CEL rule has(schedule) == has(duration); reasons: enum items, maxItems 50, NO minItems)
CRD_NOTES = [
    "schedule '61 * * * *', '0 0 * * 8', 'CRON_TZ=Asia/Tokyo 0 * * * *': ADMITTED by the CRD pattern (five blank-separated "
    "fields), rejected by the cron parser -> reach the function in production; fail closed (guarded)",
    "schedule '* * * *', 'hourly': rejected by the CRD pattern (guarded anyway: fail closed)",
    "nodes 'abc', '', '1.5', '5 %', '%', '10 ': rejected by the CRD pattern (guarded anyway: fail closed)",
    "duration without schedule / schedule without duration: rejected by the CRD CEL rule; the former fails closed "
    "(guarded), the latter is never active (under-determined by the statement: accepted as 'empty window' or 'malformed')",
    "schedule '0 0 31 2 *', '0 0 30 2 *' (parses, never fires): ADMITTED by the CRD; the look-back treats the library's "
    "zero time as a past hit -> budget permanently active (restrictive side; accepted as a reading, reported here)",
    "reasons: [] : ADMITTED by the CRD (no minItems), decodes to an empty non-nil slice (guarded: must apply to every reason)",
    "nodes '-1', '-5%', '+5', '101%', '200%', '010': rejected by the CRD pattern except '010'; not guarded (the statement's "
    "'malformed' is taken as 'unparsable'); what the function returns is listed under unit_observations",
]


def load_cases(printed):
    if not printed:
        raise vlib.InfraError("TLC generated no Budgets cases")
    return printed


def unit_level(run, cfg="Budgets_Gen.cfg", tag="unit"):
    cases = load_cases(run.generate("Budgets", cfg, workers=1, timeout=900))
    cpath = os.path.join(run.work, "budget-cases-%s.json" % tag)
    json.dump(cases, open(cpath, "w"))
    out = json.loads(run.drv("budgets-unit", ["-in", cpath, "-out", os.path.join(run.work, "traces-" + tag),
                                              "-shards", 8, "-variants", json.dumps(VARIANTS[run.tier])]))
    if out["hit_mismatch"]:
        raise vlib.InfraError("the model's abstract schedules disagree with the cron library's hit sets "
                              "(model configuration error, not a verdict): %s" % out["hit_mismatch"])
    fams = collections.Counter()
    bounded = 0
    keys = {}
    for f in out["files"]:
        cur = None
        for line in open(f):
            ev = json.loads(line)
            if ev["e"] == "Cfg":
                cur = ev["case"]
                keys[cur] = False
            elif ev["e"] == "Call":
                fams[ev["fam"]] += 1
                # non-trivial: the real code's answer restricts the pool, or a schedule window was evaluated
                if ev["must"] < 2147483647 or any(b["cron"] != "-" for b in ev["budgets"]):
                    keys[cur] = True
                    bounded += 1
    for i, c in enumerate(cases):
        run.note_case((tag, i), keys.get(i, False))
    run.validate("Budgets_Trace", "Budgets_Trace.cfg", out["files"], par=4)
    run.extra_cov.setdefault("unit_cases", 0)
    run.extra_cov["unit_cases"] += len(cases)
    run.extra_cov.setdefault("unit_calls_by_family", {})
    for k, v in fams.items():
        run.extra_cov["unit_calls_by_family"][k] = run.extra_cov["unit_calls_by_family"].get(k, 0) + v
    run.extra_cov["unit_observations"] = out["observations"]
    return cases


NSIM = {"quick": {"S1": 60, "S2": 40}, "thorough": {"S1": 600, "S2": 400, "S3": 400}}
DEPTH = 14


def mapping_level(run):
    """Behaviours of BudgetRounds.tla (TLC simulation) replayed on a world whose cluster state is hydrated by the real
    informer controllers; BuildDisruptionBudgetMapping is observed after every step for every reason."""
    behs = []
    for name, num in NSIM[run.tier].items():
        sc = bc.with_hits(run, bc.SCENARIOS[name])
        hs = bc.simulate(run, name, sc, num, DEPTH, env_all=True) + bc.simulate(run, name, sc, num, DEPTH, env_all=False)
        behs += bc.mapping_behaviours(sc, hs, name)
    bpath = os.path.join(run.work, "budget-map-behs.json")
    json.dump(behs, open(bpath, "w"))
    out = json.loads(run.drv("budgets-map", ["-in", bpath, "-out", os.path.join(run.work, "traces-map"), "-shards", 8]))
    nontriv = {}
    nmaps = 0
    subtracting = 0
    for f in out["files"]:
        cur = None
        for line in open(f):
            ev = json.loads(line)
            if ev["e"] == "Cfg":
                cur = ev["beh"]
                nontriv[cur] = False
            elif ev["e"] == "Call" and ev["fn"] == "Map":
                nmaps += 1
                for p in ev["pools"]:
                    dis = [x for x in ev["nodes"] if x["pool"] == p["pool"] and x["managed"] and x["initialized"]
                           and (not x["ready"] or x["marked"] or x["deleting"])]
                    if p["res"] < 2147483647 and dis:
                        nontriv[cur] = True
                        subtracting += 1
    for i, b in enumerate(behs):
        run.note_case(("map", i), nontriv.get(i, False))
    run.validate("Budgets_Trace", "Budgets_Trace.cfg", out["files"], par=4)
    run.extra_cov["mapping_behaviours"] = len(behs)
    run.extra_cov["mapping_observations"] = nmaps
    run.extra_cov["mapping_observations_with_subtraction"] = subtracting
    run.extra_cov["mapping_steps_skipped"] = out["skipped"]
    return behs


NSIM_R = {"quick": {"S1": 60, "S2": 30}, "thorough": {"S1": 500, "S2": 300, "S3": 300}}


def rounds_level(run):
    """Part (ii): the real disruption.Controller.Reconcile runs the rounds (emptiness / drift on the generated clusters),
    commands are left in flight or completed by the real orchestration queue; every command that starts is judged."""
    behs = []
    for name, num in NSIM_R[run.tier].items():
        sc = bc.with_hits(run, bc.SCENARIOS[name])
        hs = bc.simulate(run, name + "x", sc, num, 20, env_all=False, max_rounds=8)
        behs += bc.round_behaviours(sc, hs, name + ":tlc-sim")
        behs += bc.systematic_rounds(sc, name)
    bpath = os.path.join(run.work, "budget-round-behs.json")
    json.dump(behs, open(bpath, "w"))
    out = json.loads(run.drv("budgets-rounds", ["-in", bpath, "-out", os.path.join(run.work, "traces-rounds"), "-shards", 8]))
    starts = collections.Counter()
    multi = 0
    has_start = {}
    errors = 0
    for f in out["files"]:
        cur = None
        for line in open(f):
            ev = json.loads(line)
            if ev["e"] == "Cfg":
                cur = ev["beh"]
                has_start[cur] = False
            elif ev["e"] == "Start":
                has_start[cur] = True
                starts["%s/%s" % (ev["method"].split(".")[-1], ev["reason"])] += 1
                if len(ev["sel"]) > 1:
                    multi += 1
            elif ev["e"] == "End" and ev["err"] != "-":
                errors += 1
    for i, b in enumerate(behs):
        run.note_case(("round", i), has_start.get(i, False))
    run.validate("Budgets_Trace", "Budgets_Trace.cfg", out["files"], par=4)
    run.extra_cov["round_behaviours"] = len(behs)
    run.extra_cov["round_behaviours_with_a_start"] = sum(1 for v in has_start.values() if v)
    run.extra_cov["commands_started_by_method_reason"] = dict(starts)
    run.extra_cov["multi_node_commands"] = multi
    run.extra_cov["reconciles_returning_error"] = errors
    if not starts:
        raise vlib.InfraError("no disruption command was ever started by the real controller: the round level is vacuous")
    return behs


def check(run):
    run.rule = ("(i) TLC enumerates the whole case space of Budgets.tla (families W window edges h-1s,h,h+d-1s,h+d,h+d+1s x "
                "schedules x durations; V values x pool sizes 0..12; R reason lists absent/empty/each/several; L lists of 2-3 "
                "budgets with overlapping windows; M malformed entries; N under-determined entries); each case is replayed on the "
                "real functions at several concrete placements (date, sub-second offset, clock zone); non-trivial = the real "
                "answer restricts the pool or a schedule window is evaluated")
    r = run.closed_model("Budgets", "Budgets_MC.cfg", workers=4, heap="4g", coverage=True)
    if r.coverage_zero:
        raise vlib.InfraError("vacuous closed model, actions never taken: %s" % r.coverage_zero)
    for cfg, inv in WEAK.items():
        weak = run.tlc("Budgets", cfg, workers=2, heap="2g", expect_violation=True)
        if weak.violated != inv:
            raise vlib.InfraError("spec mutation %s not rejected by TLC with %s (got %s)" % (cfg, inv, weak.violated))
    run.notes.append("spec mutations rejected by TLC: " + ", ".join("%s -> %s" % kv for kv in WEAK.items()))
    only = os.environ.get("C05_ONLY", "")
    if only in ("", "unit"):
        cases = unit_level(run)
        run.samples = [cases[0], cases[len(cases) // 2], cases[-1]]
    if only in ("", "rounds"):
        rb = rounds_level(run)
        run.samples.append({"round_behaviour": rb[0]["steps"], "scenario": rb[0]["tag"]})
    if only in ("", "map"):
        behs = mapping_level(run)
        run.samples.append({"mapping_behaviour": behs[0]["steps"], "scenario": behs[0]["tag"]})
    run.exhaustive = True
    run.extra_cov["crd_schema_notes"] = CRD_NOTES
    run.assumptions += [
        "robfig/cron is trusted: hit sets are obtained by stepping the library's Next from a fixed start; the model's abstract "
        "schedules are cross-checked against them (a disagreement is exit 2)",
        "NodePools are decoded from JSON manifests with encoding/json, as a client of the API server does; CRD validation is "
        "not in the loop (crd_schema_notes says which inputs it would reject)",
        "time is whole seconds in the model; sub-second clock readings are exercised by the concrete placements",
    ]


def replay(run, path):
    body = json.load(open(path))
    ev = body.get("failing_event") or {}
    if ev.get("fn") != "Allowed":
        raise vlib.InfraError("replay supports unit-level (Call/Allowed) witnesses; re-run `bin/check C05` with VERIF_SEED=%s "
                              "for others (failing trace embedded in %s)" % (body.get("seed"), path))
    case = {"fam": ev["fam"], "budgets": ev["budgets"], "now": ev["now"], "n": ev["n"], "reason": ev["reason"]}
    cpath = os.path.join(run.work, "replay-case.json")
    json.dump([case], open(cpath, "w"))
    v = {"day": ev["day"], "frac": ev["frac"], "zone": ev["zone"]}
    out = json.loads(run.drv("budgets-unit", ["-in", cpath, "-out", os.path.join(run.work, "traces"), "-shards", 1,
                                              "-variants", json.dumps({"*": [v]})]))
    run.note_case(("replay",))
    run.validate("Budgets_Trace", "Budgets_Trace.cfg", out["files"])
    run.samples = [case]
