"""C02 - Inter-pod constraints hold in the simulated end state.

Closed model Topology.tla (one scheduling pass over 2 zones x <=4 hostnames as "any sequence of guarded
placements": every dequeue / requeue order, every target, every narrowing of a NodeClaim's zone set;
the four C02 guards of TopologyGuards.tla are the enabling conditions) is checked exhaustively by TLC
against the independently written end-state semantics (for EVERY resolution of the undetermined
NodeClaim zones: anti-affinity in both directions, affinity with legitimate self-start, exact skew of
uniform spread constraints) and every Topology_Weak*.cfg spec mutation must be rejected.  TLC then
ENUMERATES the scenario space of the model (Topology_Gen); each scenario is submitted in several
dequeue orders (induced through request sizes - the queue sorts by cpu / memory / creation time) and,
together with seeded explorer scenarios (constraint-heavy batches, pre-bound pod distributions, node /
domain layouts: checks/sched_common.py profile `topo`), replayed by harness/drivers/sched on the real
Provisioner.Schedule.  Topology_Trace.tla evaluates G_C02_Affinity / G_C02_Spread at every H1 commit
(admission time, against the spec's own counts) and G_C02_Anti / G_C02_AntiInverse on the final
Results; a second pass (Mode "end") judges the same traces with the order-free end-state forms only
(Inv_C02_EndState: what the check can say without hook H1).

Quick tier: two themed 3-pod scopes of the closed model chosen by the seed (seeds 0..4 cover all ten) + a small 2-pod scope, the
unguarded forms check, coverage and all Weak configs run as background TLC jobs while the scenarios are enumerated, replayed and
validated (both validation passes side by side); the wide scopes belong to the thorough tier."""
import concurrent.futures as cf
import itertools
import json
import os
import random

from checks import sched_common as sc
from checks import C01 as c01
import vlib

MAP_FIELDS = {"labels", "sel", "nsSel"}
ALL_ARCHS = "{" + ",".join(str(i) for i in range(1, 39)) + "}"
ALL_LAYOUTS = "{" + ",".join(str(i) for i in range(0, 15)) + "}"
FLAGS = ("W_AllDomains = TRUE  W_Inverse = TRUE  W_Certain = TRUE  W_Bootstrap = TRUE  W_Slack = 0  W_Exclude = TRUE  "
         "W_MatchKeys = TRUE  W_MinDomains = TRUE  W_Policies = TRUE  W_Guard = TRUE")
INVS = ["Inv_C02_EndState", "Inv_C02_Admission", "Inv_C02_Forms"]
# themed 3-pod scopes of the closed model (each 10-40 thousand states): the quick tier checks TWO of them, chosen by the seed, the
# thorough tier all of them (plus the wide scopes below)
THEMES = [
    "NPods = 3  Archs = {1,3,4,6}  Layouts = {0,1,2}  MaxClaims = 2",            # anti-affinity / affinity core
    "NPods = 3  Archs = {7,9,11,18}  Layouts = {0,3}  MaxClaims = 2",            # spread core
    "NPods = 3  Archs = {25,26,27}  Layouts = {0,10,11}  MaxClaims = 2",         # one hostname anti-affinity term, carriers with different labels
    "NPods = 3  Archs = {27,28,29,31}  Layouts = {0,12}  MaxClaims = 2",         # the same for zone terms / a shared affinity term
    "NPods = 3  Archs = {1,7,10,24}  Layouts = {0,3}  MaxClaims = 2",            # hostname spread, minDomains = number of zones
    "NPods = 3  Archs = {12,13,14,22}  Layouts = {6,7}  MaxClaims = 2",          # node inclusion policies, matchLabelKeys
    "NPods = 3  Archs = {15,16,17,23}  Layouts = {1,8}  MaxClaims = 2",          # namespaces / namespaceSelector
    "NPods = 3  Archs = {7,18,30,32}  Layouts = {3,13}  MaxClaims = 2",          # constraints carried by pods they do not select
    "NPods = 3  Archs = {7,33,34,35}  Layouts = {0,14}  MaxClaims = 2",          # spread pods with different required OR-terms
    "NPods = 3  Archs = {7,11,33,36}  Layouts = {3,14}  MaxClaims = 2",          # ... under both nodeAffinityPolicy values
    "NPods = 3  Archs = {7,24,37,38}  Layouts = {0,14}  MaxClaims = 2",          # minDomains with node-affinity-restricted pods
]
SHARED_GEN = "NPods = 2  Archs = {25,26,27,28,29,30,31,32,7}  Layouts = {0,10,11,12,13}  MaxClaims = 2"
MIND_GEN = "NPods = 3  Archs = {24,37,38}  Layouts = {0,14}  MaxClaims = 2"      # minDomains with node-affinity-restricted pods (always replayed)
ORTERM_GEN = "NPods = 3  Archs = {7,33,34,35,36}  Layouts = {0,3,14}  MaxClaims = 2"
SCOPE = {
    # mc: exhaustive closed-model scopes (+ THEMES); gen: scenario enumeration scopes (sample size, None = all; orders "one" random / "all");
    # explore: explorer scenarios per profile
    "quick": dict(mc=["NPods = 2  Archs = {2,5,8,19,20,21}  Layouts = {1,4,5,9}  MaxClaims = 2"], themes=2,
                  gen=[(SHARED_GEN, None, "all"), (MIND_GEN, None, "all"), (ORTERM_GEN, 60, "all"),
                       ("NPods = 2  Archs = %s  Layouts = %s  MaxClaims = 2" % (ALL_ARCHS, ALL_LAYOUTS), 450, "one"),
                       ("NPods = 3  Archs = {1,3,4,5,6,7,9,10,11,14,18,20,25,26,28,29}  Layouts = {0,1,2,3,4,6,10,12}  MaxClaims = 2", 200, "one")],
                  explore={"topo": 700, "interpod": 100}),
    # a-e: every archetype takes part in a 3-pod scope; b: all pairs x all layouts; c: four pods; f: a third NodeClaim
    "thorough": dict(mc=["NPods = 3  Archs = {1,3,4,5,6,7,9,10,11,24}  Layouts = {0,1,2,3}  MaxClaims = 2",
                         "NPods = 2  Archs = %s  Layouts = %s  MaxClaims = 2" % (ALL_ARCHS, ALL_LAYOUTS),
                         "NPods = 4  Archs = {3,6,7}  Layouts = {0,3}  MaxClaims = 2",
                         "NPods = 3  Archs = {8,12,13,14,18,22,24}  Layouts = {5,6,7}  MaxClaims = 2",
                         "NPods = 3  Archs = {2,15,16,17,19,20,21,23}  Layouts = {1,8,9}  MaxClaims = 2",
                         "NPods = 2  Archs = {2,3,6,7,10,26,28}  Layouts = {0,3,10}  MaxClaims = 3",
                         "NPods = 3  Archs = {25,26,27,28,29,30,31}  Layouts = {0,10,11,12,13}  MaxClaims = 2"], themes=len(THEMES),
                     gen=[("NPods = 2  Archs = %s  Layouts = %s  MaxClaims = 2" % (ALL_ARCHS, ALL_LAYOUTS), None, "all"),
                          ("NPods = 3  Archs = %s  Layouts = %s  MaxClaims = 2" % (ALL_ARCHS, ALL_LAYOUTS), 9000, "all"),
                          ("NPods = 3  Archs = {25,26,27,28,29,30,31,32,7,18}  Layouts = {0,10,11,12,13}  MaxClaims = 2", None, "all"),
                          (ORTERM_GEN, None, "all"), (MIND_GEN, None, "all"),
                          ("NPods = 4  Archs = {1,3,4,5,6,7,9,10,11,14,18,20,26,28}  Layouts = {0,1,2,3,4,6,10}  MaxClaims = 2", 1500, "all")],
                     explore={"topo": 12000, "interpod": 2000}),
}
# spec mutation -> invariant TLC must report
WEAK = {"AllDomains": "Inv_C02_EndState", "Inverse": "Inv_C02_EndState", "Certain": "Inv_C02_EndState", "Bootstrap": "Inv_C02_EndState",
        "Slack": "Inv_C02_EndState", "Exclude": "Inv_C02_EndState", "MatchKeys": "Inv_C02_EndState", "MinDomains": "Inv_C02_EndState",
        "Policies": "Inv_C02_Admission"}


def fix_maps(x, key=None):
    """TLC prints an empty function as []; scenario map fields must be JSON objects"""
    if isinstance(x, dict):
        return {k: fix_maps(v, k) for k, v in x.items()}
    if isinstance(x, list):
        if not x and key in MAP_FIELDS:
            return {}
        return [fix_maps(v) for v in x]
    return x


def write_cfg(run, name, consts, spec, invs):
    with open(os.path.join(run.specdir, name), "w") as f:
        f.write("CONSTANTS %s\nCONSTANTS %s\nSPECIFICATION %s\nINVARIANTS %s\n" % (consts, FLAGS, spec, " ".join(invs)))
    return name


def batch_indices(s):
    """indices of the pods the pass schedules: pending pods and the pods of marked / deleting nodes"""
    out_nodes = {n["name"] for n in s.get("nodes", []) if n.get("marked") or n.get("deleting")}
    return [i for i, p in enumerate(s["pods"]) if p["node"] == "" or p["node"] in out_nodes]


def with_order(s, perm, suffix):
    """the same scenario with the batch submitted in dequeue order `perm` (the queue pops the largest cpu request first)"""
    t = json.loads(json.dumps(s))
    idx = batch_indices(t)
    for rank, j in enumerate(perm):
        t["pods"][idx[j]]["cpu"] = 300 + 50 * (len(perm) - rank)
    t["name"] = "%s/%s" % (s["name"], suffix)
    return t


def orders_of(s, mode, rng):
    n = len(batch_indices(s))
    perms = list(itertools.permutations(range(n)))
    if mode == "all" or len(perms) <= 1:
        return perms
    return [rng.choice(perms)]


def interpod(s):
    """does the scenario involve any inter-pod constraint at all?"""
    return any(p.get("aff") or p.get("anti") or any(x.get("when") == "DoNotSchedule" for x in p.get("spread", [])) for p in s["pods"])


_CFG_LINES = {}


def trace_of(path, line):
    """index of the trace (Cfg .. End) of a trace file that contains `line`"""
    import bisect
    if path not in _CFG_LINES:
        _CFG_LINES[path] = [i + 1 for i, x in enumerate(open(path)) if '"e":"Cfg"' in x]
    return bisect.bisect_right(_CFG_LINES[path], int(line))


def tlc_weak(run, w):
    """run one spec mutation (own TLC process and metadir, so that they can run side by side); returns the violated invariant"""
    import re
    import subprocess
    out = os.path.join(run.work, "tlc-weak-%s.out" % w)
    cmd = ["java", "-XX:+UseParallelGC", "-Xmx2g", "-Xss64m", "-cp", vlib.TLA_CP, "tlc2.TLC", "-metadir", os.path.join(run.work, "meta-weak-" + w),
           "-config", "Topology_Weak%s.cfg" % w, "-workers", "2", "-deadlock", "Topology.tla"]
    env = dict(os.environ)
    env.pop("JAVA_TOOL_OPTIONS", None)
    try:
        with open(out, "w") as f:
            subprocess.run(cmd, cwd=run.specdir, env=env, stdout=f, stderr=subprocess.STDOUT, timeout=900)
    except subprocess.TimeoutExpired:
        raise vlib.InfraError("TLC timeout on Topology_Weak%s.cfg" % w)
    txt = open(out, errors="replace").read()
    m = re.search(r"Invariant (\S+) is violated", txt)
    if m:
        return m.group(1)
    m = re.search(r"Error: (.*)", txt)
    return "no violation" + (" (%s)" % m.group(1) if m else "")


def write_known(run):
    """the deviations the classification may grant = exactly the C02 findings still listed as `known`"""
    ids = sorted(k["id"] for k in run.known if k.get("property") == "C02" and k.get("status") == "known")
    with open(os.path.join(run.specdir, "TopologyKnown.tla"), "w") as f:
        f.write("--------------------------- MODULE TopologyKnown ---------------------------\n"
                "KnownCauses == {%s}\n=============================================================================\n"
                % ", ".join('"%s"' % i for i in ids))


def judge(run, files, par=None):
    """trace validation: admission-time guards (hook H1) + anti-affinity on Results, then the order-free end-state forms alone"""
    write_known(run)
    hooked = bool(run.extra_cov.get("hook_h1_events"))
    twins = {}
    for f in files:         # the second pass reads hard links of the same traces (run.validate writes <trace>.viol.json next to its input)
        t = f[:-len(".ndjson")] + ".end.ndjson" if f.endswith(".ndjson") else f + ".end"
        if os.path.exists(t):
            os.remove(t)
        os.link(f, t)
        twins[t] = f
    t0, e0 = run.traces_validated, run.events_validated
    with cf.ThreadPoolExecutor(max_workers=2) as vx:
        f1 = vx.submit(run.validate, "Topology_Trace", "Topology_Trace.cfg", files, par=par, timeout=3000)
        f2 = vx.submit(run.validate, "Topology_Trace", "Topology_TraceEnd.cfg", sorted(twins), par=par, timeout=3000)
        viol, viol_end = f1.result(), f2.result()
    for v in viol_end:
        v["file"] = twins.get(v["file"], v["file"])
    run.traces_validated, run.events_validated = t0 + (run.traces_validated - t0) // 2, e0 + (run.events_validated - e0) // 2
    notes = [v for v in viol if str(v.get("guard", "")).startswith("Note_")]
    judged = [v for v in viol if v not in notes]
    if hooked:
        # with the hook every pass was already judged at admission time, with narrow signatures; the order-free forms are weaker, so each of
        # their failures must fall into a trace the admission-time guards failed on too - one that does not is reported on its own
        failed = {(v["file"], trace_of(v["file"], v["line"])) for v in judged}
        unexplained = [v for v in viol_end if (v["file"], trace_of(v["file"], v["line"])) not in failed]
        run.notes.append("end-state forms (no hook needed): %d failures, %d of them in passes the admission-time guards did not fail on"
                         % (len(viol_end), len(unexplained)))
        run.viol = judged + unexplained
    else:
        run.viol = judged + viol_end
        run.notes.append("tree without hook H1: only the end-state forms were evaluated")
    drift = [v for v in notes if v.get("guard") == "Note_C02_Counts"]
    nokey = [v for v in notes if v.get("guard") == "Note_C02_TargetLacksKey"]
    if drift:
        run.notes.append("MODEL-DRIFT (no verdict): in %d admissions the code's own count of the target domain lay outside the spec's "
                         "[certain, possible] interval" % len(drift))
    if nokey:
        run.notes.append("OBSERVATION outside the statement (no verdict): %d admissions of a pod with a required affinity term / DoNotSchedule "
                         "constraint to a node that does not carry the topology key (the pod is in no domain; kube-scheduler would refuse the node)"
                         % len(nokey))
    return judged, viol_end, drift, hooked


OPTS = [{"preference": pr, "workers": w} for pr in ("Respect", "Ignore") for w in (1, 2, 8)]


def check(run):
    tier = SCOPE[run.tier]
    rng = random.Random(run.seed)
    dev = os.environ.get("VERIF_DEV")
    procs = 4 if dev else min(12, vlib.NCPU)
    run.rule = ("a behaviour = one scenario (existing nodes x pre-bound pods x batch of inter-pod constrained pods x dequeue order x "
                "options) run through the real Provisioner.Schedule; it is non-trivial when the scenario carries a required (anti)affinity "
                "term or a DoNotSchedule spread constraint and Karpenter placed at least one pod (only then a C02 guard has something to say)")
    skip_model = bool(os.environ.get("VERIF_SKIP_MODEL"))       # developer aid for mutation runs, never used by registered commands
    # 1. closed model: invariants, coverage, the unguarded forms check, spec mutations - independent TLC jobs that run in the background
    #    while the scenarios are generated, replayed and validated (collected at the end; run.tlc is thread-safe)
    pool = cf.ThreadPoolExecutor(max_workers=3 if dev else 6)
    builder = cf.ThreadPoolExecutor(max_workers=1)
    built = builder.submit(run.build_drv)       # the harness is built while TLC enumerates the scenarios
    jobs = []
    if not skip_model:
        themes = [THEMES[(run.seed * tier["themes"] + k) % len(THEMES)] for k in range(tier["themes"])]
        tw = 2 if dev else max(2, vlib.NCPU // 4)
        for i, consts in enumerate(themes + tier["mc"]):
            write_cfg(run, "Topology_MC_run%d.cfg" % i, consts, "Spec", INVS)
            jobs.append(pool.submit(run.closed_model, "Topology", "Topology_MC_run%d.cfg" % i, workers=tw, heap="4g", timeout=6000))
        jobs.append(pool.submit(run.closed_model, "Topology", "Topology_Free.cfg", workers=2, heap="3g", timeout=1800))
        write_cfg(run, "Topology_Cov_run.cfg", "NPods = 2  Archs = {3,6,7}  Layouts = {3}  MaxClaims = 2", "Spec", INVS)

        def coverage():
            r = run.tlc("Topology", "Topology_Cov_run.cfg", workers=2, coverage=True, timeout=900, heap="2g")
            if not r.ok:
                raise vlib.InfraError("coverage run of the closed model failed: %s" % (r.violated or r.error))
            if r.coverage_zero:
                raise vlib.InfraError("vacuous closed model, actions never taken: %s" % r.coverage_zero)

        def weak(w):
            got = tlc_weak(run, w)
            if got != WEAK[w]:
                raise vlib.InfraError("spec mutation Topology_Weak%s.cfg not rejected by TLC as expected (got %s)" % (w, got))
        jobs.append(pool.submit(coverage))
        jobs += [pool.submit(weak, w) for w in sorted(WEAK)]
    # 2. TLC-enumerated scenarios x dequeue orders x options
    scenarios, total_enum, replayed = [], 0, 0
    exhaustive = True
    gens = tier["gen"] if not skip_model else tier["gen"][:4]
    for i, (consts, _, _) in enumerate(gens):
        write_cfg(run, "Topology_Gen_run%d.cfg" % i, consts, "GenSpec", ["GenPrint"])
    with cf.ThreadPoolExecutor(max_workers=len(gens)) as gx:
        enums = list(gx.map(lambda i: [fix_maps(s) for s in run.generate("Topology", "Topology_Gen_run%d.cfg" % i, workers=2, timeout=1800, heap="3g")],
                            range(len(gens))))
    for (consts, sample, orders), enum in zip(gens, enums):
        if not enum:
            raise vlib.InfraError("TLC generated no scenarios")
        total_enum += len(enum)
        if sample and sample < len(enum):
            enum = rng.sample(enum, sample)
            exhaustive = False
        if orders != "all":
            exhaustive = False
        replayed += len(enum)
        for s in enum:
            for perm in orders_of(s, orders, rng):
                o = OPTS[len(scenarios) % len(OPTS)]
                scenarios.append(sc.with_options(with_order(s, perm, "q" + "".join(map(str, perm))), o, "o%d" % (len(scenarios) % len(OPTS))))
    run.exhaustive = exhaustive
    n_enum = len(scenarios)
    # witnesses of the listed known findings (always replayed, so the KNOWN-FINDING lines do not depend on the seed)
    wdir = os.path.join(vlib.ROOT, "checks", "witness")
    for f in sorted(os.listdir(wdir)):
        if f.startswith("C02-") and f.endswith(".json"):
            scenarios.append(json.load(open(os.path.join(wdir, f))))
    # 3. seeded explorer
    for prof, n in tier["explore"].items():
        scenarios += [sc.explore(rng, prof, "x-%s-%d-%d" % (prof, run.seed, i)) for i in range(n)]
    built.result()
    builder.shutdown()
    files, sums = c01.run_driver(run, scenarios, "c02", procs)
    bad = [s for s in sums if s.get("status") != "ok"]
    if bad:
        raise vlib.InfraError("driver could not materialise %d scenarios, e.g. %s" % (len(bad), bad[0]))
    by_name = {s["name"]: s for s in scenarios}
    for s in sums:
        scn = by_name.get(s["name"])
        run.note_case(s["name"], bool(scn) and interpod(scn) and (s.get("onNew", 0) + s.get("onExisting", 0)) > 0)
    # 4. trace validation
    judged, viol_end, notes, hooked = judge(run, files, 4 if dev else None)
    for j in jobs:
        j.result()          # a failed closed-model / vacuity job is an infrastructure error (raised here)
    pool.shutdown()
    if not skip_model:
        run.notes.append("spec mutations rejected: " + ", ".join(sorted(WEAK)))
    run.samples = [{"scenario": scenarios[0]["name"], "summary": sums[0]}, {"scenario": scenarios[-1]["name"], "summary": sums[-1]}]
    run.extra_cov.update({
        "tlc_enumerated_scenarios": total_enum, "tlc_scenarios_replayed": replayed, "tlc_scenario_order_variants": n_enum,
        "explorer_scenarios": sum(tier["explore"].values()),
        "pods_on_new_claims": sum(s.get("onNew", 0) for s in sums), "pods_on_existing_nodes": sum(s.get("onExisting", 0) for s in sums),
        "new_claims": sum(s.get("claims", 0) for s in sums), "pod_errors": sum(s.get("errors", 0) for s in sums),
        "admission_time_guards": hooked, "guard_failures_admission_mode": len(judged),
        "guard_failures_end_state_mode": len(viol_end),
        "model_drift_notes_code_counts_outside_spec_interval": len(notes)})
    run.assumptions += [
        "the topology domain of a new NodeClaim for key k is the set of values its logged requirement admits (hostname: its own unique id)",
        "spread: the domain universe of a constraint is the code's own (hook H1) united with the spec's lower bound (domains of eligible "
        "existing nodes and of counted pods); counts are the spec's own - running pods + earlier carriers of the same constraint on the count "
        "side, every possibly matching pod on the minimum side",
        "rescheduled (batch), terminating and terminal pods do not count where they were; pods whose node no longer exists do not count",
        "single scheduling pass; API/provider faults are not part of C02's quantifier",
    ]


def replay(run, path):
    body = json.load(open(path))
    cfg = [e for e in body.get("trace", []) if e.get("e") == "Cfg"]
    if not cfg:
        raise vlib.InfraError("replay file has no Cfg line")
    scn = {k: v for k, v in cfg[0].items() if k not in ("e", "seq", "t")}
    files, sums = c01.run_driver(run, [scn], "replay", 1)
    run.note_case(scn.get("name", "replay"))
    judge(run, files)
    run.samples = [{"scenario": scn.get("name"), "summary": sums[0]}]
