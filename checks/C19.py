"""C19 - NodePool weight and price ordering are honoured.

Closed model Weights.tla: three NodePools with weights from {unset, 1, 10, 10} (ties, every tie order), one feature each
(taints, limits, requirements, minValues, not Ready, ...), a catalog whose price order depends on zone / capacity type /
availability, 2-3 pods; the MECHANISM (weight order, relaxation ladder, per-template filter, lowest admissible index, limits
charged with the largest capacity, OrderByPrice + Truncate + minValues, FinalizeScheduling, ToNodeClaim) must imply the ORACLE
of WeightsGuards.tla at every commitment; 20 spec mutations must be rejected; ParallelMin.tla covers the parallel selection.
TLC then ENUMERATES scenarios (Weights_Gen.cfg); they - plus hand-made cells and seeded explorer scenarios of the `weights`
alphabet (checks/weights_common.py: the sub-alphabet for which FeasibleFresh is exact) - run through the real
Provisioner.Schedule + CreateNodeClaims with 1 / 2 / 8 evaluation workers, both minValues policies and a reduced
scheduling.MaxInstanceTypes.  Weights_Trace.tla judges every `open` (hook H1), every pod that ends without a home, every
truncated option list and every created NodeClaim."""
import os
import random
import re

from checks import sched_common as sc
from checks import weights_common as wc
import vlib

SCOPE = {
    "quick": dict(mc=["Weights_MC.cfg"], gen="Weights_Gen.cfg", replay=500, explore=1000, grid=12, each_weak=False),
    # thorough, sized for <= 20 min on a 16-core machine at load ~50 (about 18 CPU-minutes): four exhaustive scopes of ~20-55k states each
    # instead of one of 415k; ~20k traces = 10k TLC-enumerated scenarios drawn STRATIFIED over (weight vector x feature vector) + option grid
    # + cells + 8k explorer scenarios; the multi-mutation run names every rejected rule, so the per-rule configs (Weights_Weak_<rule>.cfg,
    # kept for reference / manual use) are not run again
    "thorough": dict(mc=["Weights_MC.cfg", "Weights_MC_T1.cfg", "Weights_MC_T2.cfg", "Weights_MC_T2b.cfg", "Weights_MC_T3.cfg"], gen="Weights_Gen_T.cfg",
                     replay=10000, explore=8000, grid=60, each_weak=False),
}


def account(run, module, cfg, r):
    """book a closed-model run (what Run.closed_model does, for jobs started through Run.tlc in a thread)"""
    run.states += r.distinct
    run.transitions += r.generated
    run.models.append({"module": module, "cfg": cfg, "distinct": r.distinct, "generated": r.generated, "depth": r.depth,
                       "wall_s": round(r.wall, 1), "violated": r.violated})
    if not r.ok:
        raise vlib.InfraError("closed model %s/%s does not satisfy its invariants (%s); model and code must be reconciled before this "
                              "check can be trusted" % (module, cfg, r.violated or r.error))


def start_model_jobs(run, tier, dev, ex):
    """the closed-model stage as independent TLC jobs (Run.tlc is thread-safe); returns the futures for finish_model_jobs"""
    big = 4 if dev else (8 if run.tier == "quick" else 4)

    mcs = [(cfg, ex.submit(run.tlc, "Weights", cfg, workers=big, heap="4g", timeout=5400)) for cfg in tier["mc"]]   # side by side

    def mc_chain():
        return [(cfg, f.result()) for cfg, f in mcs]

    def weak_each():
        return [(x, run.tlc("Weights", "Weights_Weak_%s.cfg" % x, workers=2, expect_violation=True, timeout=1800, heap="4g")) for x in wc.ALL_WEAK]

    return {
        "mc": ex.submit(mc_chain),
        "cov": ex.submit(run.tlc, "Weights", "Weights_Cov.cfg", workers=2, coverage=True, timeout=1800),
        "weak": ex.submit(run.tlc, "Weights", "Weights_WeakAll.cfg", workers=4, timeout=3600, heap="4g"),
        "each": ex.submit(weak_each) if tier["each_weak"] else None,
        "pmin": ex.submit(run.tlc, "ParallelMin", "ParallelMin_MC.cfg", workers=1, timeout=900),
        "pweak": ex.submit(run.tlc, "ParallelMin", "ParallelMin_Weak.cfg", workers=1, expect_violation=True, timeout=900),
    }


def finish_model_jobs(run, jobs):
    for cfg, r in jobs["mc"].result():
        account(run, "Weights", cfg, r)
    # vacuity 1: every action taken, and TLC reaches a fallback to a lighter pool, a real truncation and a failed pod
    r = jobs["cov"].result()
    if not r.ok:
        raise vlib.InfraError("coverage run of the closed model failed: %s" % (r.violated or r.error))
    final = r.stdout.split("The coverage statistics at")[-1]      # a slow run also prints interim reports (levels not reached yet)
    zero = [m.group(1) for m in re.finditer(r"^<(\w+ line \d+[^>]*)>: (\d+):0$", final, re.M)]
    acts = re.findall(r"^<(?:NextCov|Emit) line [^>]*>: \d+:\d+$", final, re.M)
    if zero or len(acts) < 5:
        raise vlib.InfraError("vacuous closed model: actions never taken %s (%d action lines)" % (zero, len(acts)))
    reach = set(re.findall(r'<<"REACH", "(\w+)">>', r.stdout))
    if reach != {"fallback", "truncation", "failure"}:
        raise vlib.InfraError("vacuous closed model: TLC did not reach %s" % ({"fallback", "truncation", "failure"} - reach))
    # vacuity 2: every spec mutation is rejected (one run for all; thorough: also one run per Weights_Weak_*.cfg)
    wr = jobs["weak"].result()
    seen = {}
    for rule, guard in re.findall(r'<<"REJ", "(\w+)", "(\w+)">>', wr.stdout):
        seen.setdefault(rule, set()).add(guard)
    missing = [x for x in wc.ALL_WEAK if x not in seen]
    if missing or not wr.ok:
        raise vlib.InfraError("spec mutations not rejected by TLC: %s" % (missing or wr.error))
    run.notes.append("spec mutations rejected: " + ", ".join("%s->%s" % (k, "/".join(sorted(v))) for k, v in sorted(seen.items())))
    if jobs["each"]:
        for x, one in jobs["each"].result():
            if not one.violated or one.violated not in wc.INVS:
                raise vlib.InfraError("spec mutation Weights_Weak_%s.cfg not rejected by TLC (got %s)" % (x, one.violated or one.error))
    # every degree of parallel template evaluation: the lowest-index selection is schedule-independent
    account(run, "ParallelMin", "ParallelMin_MC.cfg", jobs["pmin"].result())
    if jobs["pweak"].result().violated != "Inv_SelectionIsLowest":
        raise vlib.InfraError("spec mutation ParallelMin_Weak.cfg not rejected by TLC")


def scenarios_for(run, tier, rng, gen):
    if gen.violated or gen.error:
        raise vlib.InfraError("scenario generation %s failed: %s" % (tier["gen"], gen.violated or gen.error))
    enum = [wc.fix_maps(s) for s in gen.printed]
    if not enum:
        raise vlib.InfraError("TLC generated no scenarios")
    total = len(enum)
    if tier["replay"] and tier["replay"] < len(enum) and run.tier == "quick":
        enum = rng.sample(enum, tier["replay"])
    elif tier["replay"] and tier["replay"] < len(enum):
        # stratified over (weight vector, feature vector) = the 2nd and 3rd component of the scenario name: every stratum keeps its share
        strata = {}
        for sc_ in enum:
            strata.setdefault(tuple(sc_["name"].split("-")[1:3]), []).append(sc_)
        per = max(1, tier["replay"] // len(strata))
        enum = [x for k in sorted(strata) for x in rng.sample(strata[k], min(per, len(strata[k])))]
    else:
        run.exhaustive = True
    rng.shuffle(enum)
    out = [sc.with_options(s, wc.OPTION_GRID[i % len(wc.OPTION_GRID)], "o%d" % (i % len(wc.OPTION_GRID))) for i, s in enumerate(enum)]
    # every option variant (both policies x MaxInstanceTypes default / 1 / 2 x 1 / 2 / 8 workers) on a common subset
    for s in enum[:tier["grid"]]:
        out += [sc.with_options(s, o, "g%d" % j) for j, o in enumerate(wc.OPTION_GRID)]
    out += wc.cells()
    out += [sc.explore(rng, "weights", "x-weights-%d-%d" % (run.seed, i)) for i in range(tier["explore"])]
    return out, total, len(enum)


def judge(run, viol, cases, sums):
    cnt, unexplained = wc.split_fidelity(run, viol)
    for c in cases:
        run.note_case(c["name"], c["guarded"] + c["failed"] + c["truncated"] > 0)
    tot = {k: sum(c[k] for c in cases) for k in ("opens", "guarded", "fallbacks", "failed", "prefixes", "truncated", "created")}
    run.extra_cov.update({
        "opens_judged": tot["opens"], "opens_with_a_heavier_pool": tot["guarded"], "opens_with_a_heavier_usable_pool": tot["fallbacks"],
        "unplaced_pods_judged": tot["failed"], "option_lists_judged": tot["prefixes"], "option_lists_really_truncated": tot["truncated"],
        "created_nodeclaims_judged": tot["created"], "new_claims": sum(s.get("claims", 0) for s in sums),
        "panics": sum(1 for s in sums if s.get("panic")),
        "fidelity_disagreements": {"%s/%s" % k: n for k, n in cnt.items()},
        "fidelity_unexplained": sum(unexplained.values())})
    return tot


def check(run):
    tier = SCOPE[run.tier]
    rng = random.Random(run.seed)
    dev = os.environ.get("VERIF_DEV")
    procs, par = (4, 4) if dev else (min(12, vlib.NCPU), None)
    run.rule = ("a behaviour = one scenario (weighted pools x catalog x daemonsets x existing nodes x pod batch x options) run through the real "
                "Provisioner.Schedule + CreateNodeClaims; it is non-trivial when a C19 guard met a real decision: a pod opened a node while a "
                "heavier pool existed, a pod of the exact alphabet ended without a home, or an option list was really truncated")
    import concurrent.futures as cf
    # independent TLC jobs, the harness build, the drivers and the trace validation run concurrently (Run.tlc is thread-safe)
    with cf.ThreadPoolExecutor(max_workers=16) as ex:
        f_build = ex.submit(run.build_drv)
        f_gen = ex.submit(run.tlc, "Weights", tier["gen"], workers=2, timeout=3600, heap="4g", collect_beh=True)
        jobs = None if os.environ.get("VERIF_SKIP_MODEL") else start_model_jobs(run, tier, dev, ex)   # skip: developer aid for mutation runs
        scenarios, total, replayed = scenarios_for(run, tier, rng, f_gen.result())
        f_build.result()
        viol, cases, sums = wc.replay_and_validate(run, scenarios, "c19", procs, par)
        if jobs:
            finish_model_jobs(run, jobs)
    tot = judge(run, viol, cases, sums)
    mine = [v for v in run.viol if run.pmap.get(v.get("guard", "")) == run.pid]
    if not mine and (tot["guarded"] == 0 or tot["truncated"] == 0):      # a verdict is never masked by the vacuity test
        raise vlib.InfraError("vacuous run: no guarded open / no truncated option list among %d traces" % len(cases))
    run.samples = [{"scenario": scenarios[0]["name"], "summary": sums[0]}, {"scenario": scenarios[-1]["name"], "summary": sums[-1]}]
    run.extra_cov.update({"tlc_enumerated_scenarios": total, "tlc_scenarios_replayed": replayed, "explorer_scenarios": tier["explore"],
                          "cells": len(wc.cells())})
    run.assumptions += [
        "FeasibleFresh is exact only on the `weights` alphabet (no inter-pod constraints, volumes, preferences, capacity overrides; daemonsets "
        "selected by per-type labels; a pod constrains a key once); outside it G_C19_HighestWeightFeasible is not evaluated",
        "the pod is judged in the form Karpenter schedules it at that moment (first required term in force, PreferNoSchedule blocking until the "
        "pod was relaxed) - weaker than the Kubernetes reading, never stronger",
        "reserved offerings do not count towards a pool's ability to host (lower bound); a deferral in a heavier pool therefore blocks the fallback",
        "remaining limits are the spec's own account (existing nodes not on their way out + the largest capacity of every NodeClaim opened "
        "earlier in the pass, one node each)",
        "the NodePool hash the NodeClaim must carry is Hash() of the pool stored in the API when the NodeClaim was created (computed by the driver)",
    ]


def replay(run, path):
    import json
    body = json.load(open(path))
    cfg = [e for e in body.get("trace", []) if e.get("e") == "Cfg"]
    if not cfg:
        raise vlib.InfraError("replay file has no Cfg line")
    scn = {k: v for k, v in cfg[0].items() if k not in ("e", "seq", "t")}
    viol, cases, sums = wc.replay_and_validate(run, [scn], "replay", 1, 1)
    judge(run, viol, cases, sums)
    run.samples = [{"scenario": scn.get("name"), "summary": sums[0]}]
