"""Scenario alphabet of the reservation half of C17 (capacity reservations inside one scheduling pass).

`explore_resv(rng, name)` draws one scenario (JSON of spec/SCHED_TRACE.md) for harness/drivers/sched:
catalogs whose reserved offerings carry 1-3 reservation ids of capacity 0..3 - shared across instance
types, zones and (through the common catalog) NodePools, some unavailable -, 1-3 weighted pools that
admit reserved / on-demand / spot capacity, and pod batches whose sizes and node-level constraints make
NodeClaims narrow (zone / instance type / capacity type), fill up and open further claims, so that
reservations are reserved, released and re-acquired in the orders real bin-packing produces.  Most
scenarios stay inside the "simple" sub-alphabet of ReservationGuards.tla (no daemonsets, taints, limits,
minValues, capacity overrides), for which the converse guards are exact; the rest come from the wider
`reserved` profile of sched_common (daemonsets, existing nodes, taints, limits, volumes, overrides).
"""
import copy
import re

from checks import sched_common as sc

ZONES = ["a", "b", "c"]


def off(zone, ct, price, available=True, rid="", rcap=0):
    return {"zone": zone, "ct": ct, "price": price, "available": available, "rid": rid, "rcap": rcap, "cpuOv": 0, "memOv": 0}


def gen_catalog(rng):
    ids = ["r%d" % (i + 1) for i in range(rng.choice([1, 2, 2, 2, 3]))]
    caps = {i: rng.choice([0, 1, 1, 1, 2, 2, 3]) for i in ids}
    types = []
    for i in range(rng.choice([1, 2, 2, 3, 3, 4])):
        cpu, mem = rng.choice(sc.SIZES[:3])
        t = {"name": "t%d" % i, "cpu": cpu, "mem": mem, "pods": rng.choice([110, 110, 110, 3, 2]),
             "labels": {"arch": rng.choice(["amd64", "amd64", "amd64", "arm64"]), "os": "linux"},
             "ovCpu": rng.choice([0, 100]), "ovMem": 0, "offerings": []}
        base = 50 * cpu // 1000
        for z in ZONES:
            if rng.random() < 0.3:
                continue
            if rng.random() < 0.85:
                t["offerings"].append(off(z, "od", base + rng.randrange(5), rng.random() < 0.85))
            if rng.random() < 0.3:
                t["offerings"].append(off(z, "spot", base * 6 // 10 + rng.randrange(5), rng.random() < 0.8))
        if rng.random() < 0.8:
            for _ in range(rng.choice([1, 1, 2, 3])):
                z, rid = rng.choice(ZONES), rng.choice(ids)
                if any(o["zone"] == z and o["rid"] == rid for o in t["offerings"]):
                    continue
                t["offerings"].append(off(z, "reserved", 1, rng.random() < 0.88, rid, caps[rid]))
        if not t["offerings"]:
            t["offerings"].append(off("a", "od", base))
        types.append(t)
    if not any(o["ct"] == "reserved" for t in types for o in t["offerings"]):
        rid = ids[0]
        types[0]["offerings"].append(off(rng.choice(ZONES), "reserved", 1, True, rid, caps[rid]))
    return types


def gen_pools(rng, types):
    n = rng.choice([1, 1, 2, 2, 2, 3])
    weights = rng.sample([100, 50, 10, 1], n) if rng.random() < 0.8 else [rng.choice([0, 10])] * n
    pools = []
    for i in range(n):
        p = {"name": "p%d" % i, "weight": weights[i], "reqs": [], "labels": {}, "taints": [], "startup": [],
             "limits": {"cpu": 0, "mem": 0, "nodes": -1}, "types": []}
        r = rng.random()
        if r < 0.55:
            cts = rng.choice([["reserved", "od"], ["reserved", "od", "spot"], ["od"], ["reserved"], ["od", "spot"]])
            p["reqs"].append({"key": "ct", "op": "In", "vals": cts, "n": 0, "min": 0})
        elif r < 0.65:
            p["reqs"].append({"key": "ct", "op": "NotIn", "vals": [rng.choice(["spot", "reserved"])], "n": 0, "min": 0})
        if rng.random() < 0.3:
            p["reqs"].append({"key": "zone", "op": "In", "vals": rng.sample(ZONES, rng.choice([1, 2])), "n": 0, "min": 0})
        if rng.random() < 0.15 and len(types) > 1:
            p["reqs"].append({"key": "it", "op": "In", "vals": rng.sample([t["name"] for t in types], len(types) - 1), "n": 0, "min": 0})
        if rng.random() < 0.15 and len(types) > 1:
            p["types"] = rng.sample([t["name"] for t in types], len(types) - 1)
        pools.append(p)
    return pools


def gen_pods(rng, types):
    tn = [t["name"] for t in types]
    small = min(t["cpu"] - t["ovCpu"] for t in types)
    # sizes relative to the smallest type: a half, a third, nearly all of it, more than it
    sizes = [small // 2, small // 2, small // 3, small - 50, small * 9 // 10, min(small + 300, 3500), 300, 400]

    def sel_zone(p): p["sel"]["zone"] = rng.choice(ZONES)
    def sel_it(p): p["sel"]["it"] = rng.choice(tn)
    def ct_od(p): p["terms"] = [[sc.expr("ct", "In", ["od"])]]
    def ct_not_reserved(p): p["terms"] = [[sc.expr("ct", "NotIn", ["reserved"])]]
    def ct_reserved(p): p["terms"] = [[sc.expr("ct", "In", ["reserved"])]]
    def ct_not_spot(p): p["terms"] = [[sc.expr("ct", "NotIn", ["spot"])]]
    def zone_ab(p): p["terms"] = [[sc.expr("zone", "In", rng.sample(ZONES, 2))]]
    def zone_it(p): p["terms"] = [[sc.expr("zone", "In", [rng.choice(ZONES)]), sc.expr("it", "In", rng.sample(tn, max(1, len(tn) - 1)))]]
    def arch(p): p["sel"]["arch"] = rng.choice(["amd64", "arm64"])
    # outside the simple sub-alphabet
    def pref_zone(p): p["pref"] = [{"weight": rng.choice([1, 50]), "exprs": [sc.expr("zone", "In", [rng.choice(ZONES)])]}]
    def pref_ct(p): p["pref"] = [{"weight": 10, "exprs": [sc.expr("ct", "In", [rng.choice(["od", "reserved"])])]}]
    def two_terms(p): p["terms"] = [[sc.expr("zone", "In", [rng.choice(ZONES)])], [sc.expr("zone", "In", [rng.choice(ZONES)])]]
    def sel_rid(p): p["sel"]["rid"] = rng.choice(["r1", "r2"])
    def spread_zone(p):     # zonal spread: every commitment narrows the claim to one zone (releases the reservations of the other zones)
        p["labels"]["app"] = "s"
        p["spread"] = [{"key": "zone", "maxSkew": 1, "minDomains": 0, "when": "DoNotSchedule", "sel": {"app": "s"}, "affPol": "", "taintPol": "", "matchKeys": []}]
    def anti_host(p):       # one pod per node: many claims compete for the same reservations
        p["labels"]["app"] = "x"
        p["anti"] = [{"key": "host", "sel": {"app": "x"}, "ns": [], "nsAll": False, "weight": 0}]
    simple = [sel_zone, sel_zone, sel_it, ct_od, ct_not_reserved, ct_reserved, ct_not_spot, zone_ab, zone_it, arch]
    other = [pref_zone, pref_zone, pref_ct, two_terms, sel_rid, spread_zone, spread_zone, anti_host, anti_host]
    pods = []
    for i in range(rng.choice([2, 3, 3, 4, 4, 5, 6, 8])):
        p = sc.plain_pod("w%d" % i, max(50, rng.choice(sizes)), rng.choice([64, 256, 1024]))
        p["created"] = rng.randrange(3)
        r = rng.random()
        if r < 0.45:
            rng.choice(simple)(p)
        elif r < 0.55:
            rng.choice(simple)(p)
            rng.choice(simple)(p)
        elif r < 0.68:
            rng.choice(other)(p)
        pods.append(p)
    return pods


def explore_resv(rng, name="r"):
    if rng.random() < 0.25:
        return explore_contention(rng, name)
    if rng.random() < 0.2:
        s = sc.explore(rng, "reserved", name)           # wider alphabet: daemonsets, nodes, taints, limits, volumes, overrides
        s["options"]["reserved"] = rng.choice(["strict", "strict", "fallback"])
        return s
    types = gen_catalog(rng)
    pools = gen_pools(rng, types)
    opts = {"preference": rng.choice(["Respect", "Respect", "Ignore"]), "minValues": "Strict",
            "reserved": rng.choice(["strict", "strict", "fallback"]), "workers": rng.choice([1, 2, 8]), "maxTypes": 0, "create": False}
    return {"name": name, "options": opts, "types": types, "pools": pools, "nodes": [], "ds": [], "scs": [], "pvs": [], "pvcs": [],
            "pods": gen_pods(rng, types)}


def explore_contention(rng, name="rc"):
    """Contention for ONE reservation shared by several instance types: a first, largest, unconstrained pod opens a NodeClaim that is
    superposed over the big types and so holds the shared id through SEVERAL offerings (plus a second id in another zone); small pods
    with a zone selector narrow that claim away from the shared id (release); pods that are too big to share a node each open a claim
    of their own and compete for the shared id (deferred and retried in strict mode).  Stays inside the simple sub-alphabet."""
    c1, c2 = rng.choice([1, 1, 1, 2]), rng.choice([0, 1, 1, 2])
    big = rng.choice([2, 2, 3])
    types = []
    if rng.random() < 0.5:
        types.append({"name": "t0", "cpu": 2000, "mem": 8192, "pods": 110, "labels": {"arch": "amd64", "os": "linux"}, "ovCpu": 0, "ovMem": 0,
                      "offerings": [off("a", "od", 100), off("b", "od", 100)] + ([off("a", "reserved", 1, True, "r1", c1)] if rng.random() < 0.5 else [])})
    for i in range(big):
        offs = [off("a", "od", 200 + i), off("b", "od", 200 + i), off("a", "reserved", 1, rng.random() < 0.95, "r1", c1)]
        if i == 0 or rng.random() < 0.4:
            offs.append(off("b", "reserved", 1, True, "r2", c2))
        if rng.random() < 0.2:
            offs.append(off("c", "od", 210))
        types.append({"name": "t%d" % (i + 1), "cpu": 4000, "mem": 16384, "pods": 110, "labels": {"arch": "amd64", "os": "linux"}, "ovCpu": 0,
                      "ovMem": 0, "offerings": offs})
    pools = [{"name": "p0", "weight": 10, "reqs": [], "labels": {}, "taints": [], "startup": [], "limits": {"cpu": 0, "mem": 0, "nodes": -1}, "types": []}]
    if rng.random() < 0.3:
        pools.append(dict(copy.deepcopy(pools[0]), name="p1", weight=1, reqs=[{"key": "ct", "op": "In", "vals": ["od"], "n": 0, "min": 0}]))
    pods = [sc.plain_pod("w0", rng.choice([2200, 2300, 2500]), 256)]
    for i in range(rng.choice([1, 1, 2])):          # narrowing pods (they fit next to w0)
        p = sc.plain_pod("n%d" % i, rng.choice([200, 300, 400]), 128)
        r = rng.random()
        if r < 0.7:
            p["sel"]["zone"] = "b"
        elif r < 0.85:
            p["terms"] = [[sc.expr("zone", "NotIn", ["a"])]]
        else:
            p["terms"] = [[sc.expr("ct", "In", ["od"])]]
        pods.append(p)
    for i in range(c1 + rng.choice([1, 1, 2])):     # contenders: one node each, all want zone a
        p = sc.plain_pod("c%d" % i, rng.choice([2100, 2150]), 256)
        p["sel"]["zone"] = "a"
        pods.append(p)
    for i in range(rng.choice([0, 0, 1, 2])):
        pods.append(sc.plain_pod("x%d" % i, rng.choice([300, 900, 1500]), 128))
    opts = {"preference": "Respect", "minValues": "Strict", "reserved": rng.choice(["strict", "strict", "fallback"]), "workers": rng.choice([1, 2, 8]),
            "maxTypes": 0, "create": False}
    return {"name": name, "options": opts, "types": types, "pools": pools, "nodes": [], "ds": [], "scs": [], "pvs": [], "pvcs": [], "pods": pods}


def with_workers(s, w):
    s = copy.deepcopy(s)
    s["options"]["workers"] = w
    s["name"] = "%s/w%d" % (s["name"], w)
    return s


COV_RE = re.compile(r"^<(\w+) line (\d+), col \d+ to line \d+, col \d+ of module (\w+)(?: \((\d+) \d+ \d+ \d+\))?>: (\d+):(\d+)$", re.M)


def coverage_zero(stdout):
    """actions (also the anonymous disjuncts of Next, named by their line) that TLC never took"""
    out = []
    for m in COV_RE.finditer(stdout):
        if m.group(1) != "Init" and int(m.group(6)) == 0:
            out.append("%s@%s" % (m.group(1), m.group(4) or m.group(2)))
    return out


if __name__ == "__main__":
    import json
    import random
    import sys
    r = random.Random(int(sys.argv[1]) if len(sys.argv) > 1 else 0)
    for i in range(int(sys.argv[2]) if len(sys.argv) > 2 else 10):
        print(json.dumps(explore_resv(r, "r%d" % i), separators=(",", ":")))
