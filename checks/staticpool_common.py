"""C03, static (replica-based) NodePools: StaticPool.tla / StaticPoolUnit.tla bound to the real code.

Stage layout (checks/C03.py runs the stages in order; the dynamic-limits stage is appended there later):
  1. closed models: the struct on its own (StaticPoolUnit) and the whole protocol (StaticPool: provisioning,
     deprovisioning, static drift -> StartCommand -> queue, informer, GC, environment) in the semantics the statement
     needs (CodeMode = "fixed") must satisfy every invariant and, under weak fairness, `settles at spec.replicas`;
     the pinned tree's semantics (CodeMode = "code", the *_Weak*.cfg spec mutations) must be rejected by TLC - each
     rejection prints its history, which is replayed on the real controllers below;
  2. binding level 1: TLC enumerates every NodePoolState call sequence up to a depth (+ deep random ones); each is
     replayed on the real state.NodePoolState; StaticPool_Trace.tla re-derives every result;
  3. binding level 2: histories of StaticPool.tla at API-call granularity (the Weak counterexamples + TLC simulation)
     run on the real static provisioning / deprovisioning / disruption(StaticDrift)+queue controllers and the NodeClaim
     informer, goroutines gated at the API choke point; StaticPoolCtl_Trace.tla checks cap / no crash / settles.
"""
import collections
import json
import os
import re

import vlib

UNIT_DEPTH = {"quick": 3, "thorough": 4}
UNIT_SIM = {"quick": 1500, "thorough": 6000}
CTL_SIM = {"quick": 150, "thorough": 1000}

# closed-model runs: (cfg, liveness?)
MC = {
    "quick": [("StaticPool_MC.cfg", False), ("StaticPool_Live.cfg", True), ("StaticPool_MCDrift.cfg", False),
              ("StaticPool_LiveDrift.cfg", True)],
    "thorough": [("StaticPool_MCFull.cfg", False), ("StaticPool_LiveFull.cfg", True), ("StaticPool_MCDriftFull.cfg", False),
                 ("StaticPool_LiveDriftFull.cfg", True), ("StaticPool_MCDriftCall.cfg", False),
                 ("StaticPool_LiveDriftCall.cfg", True), ("StaticPool_MCBig.cfg", False)],
}
# spec mutations (the pinned tree's semantics) that TLC must reject: cfg -> (expected violated property, replay level)
WEAK = [
    ("StaticPool_WeakCrash.cfg", "Cex_NoCrash", "ctrl"),
    ("StaticPool_WeakCap.cfg", "Cex_StaticCap", "ctrl"),
    ("StaticPool_WeakLeak.cfg", "Cex_ReservedExact", "ctrl"),
    ("StaticPool_WeakGhost.cfg", "Cex_NoGhost", "ctrl"),
    ("StaticPool_WeakRelaunch.cfg", "Cex_StaticCap", "window"),   # scheduling point inside cluster.UpdateNodeClaim
    ("StaticPool_WeakLive.cfg", "temporal", None),
]
UNIT_WEAK = [("StaticPoolUnit_WeakCode.cfg", "Inv_C03_NoCrash"), ("StaticPoolUnit_WeakCode2.cfg", "Inv_C03_CountsMatchSets"),
             ("StaticPoolUnit_WeakCode3.cfg", "Inv_C03_ReservedKept")]
# actions that exist only in one grain / mode; every action must be taken in at least one closed-model run
ALL_ACTIONS = None


def cfg_consts(run, cfg):
    txt = open(os.path.join(run.specdir, cfg)).read()
    out = {}
    for k in ("N", "Pre", "Limit", "Replicas0", "Budget"):
        m = re.search(r"\b%s = (\d+)" % k, txt)
        out[k] = int(m.group(1))
    return out


def ctl_cfg(run, cfg, probe=True):
    c = cfg_consts(run, cfg)
    return {"pre": c["Pre"], "limit": c["Limit"], "replicas0": c["Replicas0"], "budget": c["Budget"], "probe": probe}


def _violated(r):
    """vlib's parser knows 'Invariant X is violated'; this TLC prints 'Temporal property X was violated'."""
    if r.violated:
        return r.violated
    if re.search(r"Temporal propert(y \S+ was|ies were) violated", r.stdout):
        return "temporal"
    return None


def closed_models(run):
    """All closed-model runs of the stage; independent TLC processes run side by side (staggered starts: Run.tlc
    numbers its scratch directories at call time)."""
    import concurrent.futures as cf
    import time
    cov_seen, cov_zero = set(), set()
    w = 3 if run.tier == "quick" else 4

    def note_cov(r):
        for cm in re.finditer(r"^<(\w+) line \d+, col \d+ to line \d+, col \d+ of module StaticPool>: (\d+):(\d+)$", r.stdout, re.M):
            (cov_seen if int(cm.group(3)) > 0 else cov_zero).add(cm.group(1))

    jobs = [("unit-mc", lambda: run.closed_model("StaticPoolUnit", "StaticPoolUnit_MC.cfg", workers=1))]
    for cfg, want in UNIT_WEAK:
        jobs.append(("weak:" + cfg, lambda cfg=cfg: run.tlc("StaticPoolUnit", cfg, workers=1, expect_violation=True)))
    for cfg, live in MC[run.tier]:
        jobs.append(("mc:" + cfg, lambda cfg=cfg, live=live: run.closed_model("StaticPool", cfg, workers=w, coverage=not live,
                                                                              timeout=3000, heap="4g")))
    for cfg, want, level in WEAK:
        jobs.append(("weak:" + cfg, lambda cfg=cfg, want=want: run.tlc("StaticPool", cfg, workers=2, expect_violation=True,
                                                                       collect_beh=True, coverage=(want != "temporal"), timeout=900)))
    res = {}
    with cf.ThreadPoolExecutor(max_workers=5 if run.tier == "quick" else 4) as ex:
        futs = {}
        for name, fn in jobs:
            futs[name] = ex.submit(fn)
            time.sleep(0.4)
        for name, f in futs.items():
            res[name] = f.result()
    for cfg, want in UNIT_WEAK:
        if _violated(res["weak:" + cfg]) != want:
            raise vlib.InfraError("spec mutation %s not rejected by TLC (got %s)" % (cfg, _violated(res["weak:" + cfg])))
    for cfg, live in MC[run.tier]:
        if not live:
            note_cov(res["mc:" + cfg])
    cex = []
    for cfg, want, level in WEAK:
        wk = res["weak:" + cfg]
        if _violated(wk) != want:
            raise vlib.InfraError("spec mutation %s (pinned tree's semantics) not rejected by TLC as expected "
                                  "(wanted %s, got %s)" % (cfg, want, _violated(wk)))
        note_cov(wk)
        if want != "temporal":
            if not wk.printed:
                raise vlib.InfraError("%s: TLC printed no counterexample history" % cfg)
            cex.append((cfg, level, wk.printed[0]))
    run.notes.append("pinned-tree semantics rejected by TLC: " + ", ".join("%s->%s" % (c, v) for c, v, _ in WEAK))
    never = sorted(a for a in cov_zero - cov_seen if a not in ("Init",))
    if never:
        raise vlib.InfraError("vacuous closed model, actions never taken in any configuration: %s" % never)
    run.extra_cov["actions_covered"] = sorted(cov_seen)
    return cex


# ---------------------------------------------------------------------------------------------- level 1
def level1(run):
    depth = UNIT_DEPTH[run.tier]
    cfg = open(os.path.join(run.specdir, "StaticPoolUnit_Gen.cfg")).read()
    cfg = re.sub(r"MaxLen = \d+", "MaxLen = %d" % depth, cfg)
    open(os.path.join(run.specdir, "StaticPoolUnit_Gen_run.cfg"), "w").write(cfg)
    behs = run.generate("StaticPoolUnit", "StaticPoolUnit_Gen_run.cfg", workers=1 if run.tier == "quick" else 4, timeout=1500)
    cfg2 = re.sub(r"MaxLen = \d+", "MaxLen = 14", cfg)
    open(os.path.join(run.specdir, "StaticPoolUnit_Sim_run.cfg"), "w").write(cfg2)
    sim = run.generate("StaticPoolUnit", "StaticPoolUnit_Sim_run.cfg", workers=1, simulate="num=%d" % UNIT_SIM[run.tier],
                       depth=20, timeout=900)
    if not behs or not sim:
        raise vlib.InfraError("no NodePoolState call sequences generated")
    sim = sim[:UNIT_SIM[run.tier]]      # TLC's simulator restarts after every depth-bounded run and yields more than asked
    allb = behs + sim
    for b in allb:
        ms = [c["m"] for c in b]
        # non-trivial: the sequence reaches a guarded situation (a release, or a cleanup that empties the pool)
        run.note_case(("unit", json.dumps(b, sort_keys=True)), "Release" in ms or "Cleanup" in ms)
    bpath = os.path.join(run.work, "staticpool-unit-behs.json")
    json.dump(allb, open(bpath, "w"))
    out = json.loads(run.drv("staticpool-unit", ["-in", bpath, "-out", os.path.join(run.work, "traces-unit"), "-shards", 8]))
    run.validate("StaticPool_Trace", "StaticPool_Trace.cfg", out["files"], par=8 if run.tier == "thorough" else 4)
    run.extra_cov["unit_exhaustive_depth"] = depth
    run.extra_cov["unit_sequences"] = len(behs)
    run.extra_cov["unit_simulated"] = len(sim)
    run.samples.append({"level": "unit", "behaviour": allb[len(allb) // 3]})
    run.samples.append({"level": "unit", "behaviour": sim[0]})


# ---------------------------------------------------------------------------------------------- level 2
def window_steps(h):
    """A history at method-call granularity whose informer delivery of a provider-id change (I_Deliver what=relaunch ..
    I_Update) has a provisioning count+reserve inside -> driver steps: the real controllers are gated at API calls only,
    so create/seed/release are one step, and the delivery opens the window through the clock read inside
    cluster.UpdateNodeClaim."""
    out = []
    for e in h:
        a = e["a"]
        if a in ("W_Seed", "W_Release", "I_Update"):
            continue
        if a == "W_Create":
            out.append({"a": "W_Get", "w": e["w"]})
            out.append(e)
        elif a == "I_Deliver" and e.get("what") == "relaunch":
            out.append(dict(e, what="relaunch-window"))
        elif a == "Launch":
            out.append(dict(e, what="claim-event-first"))
        else:
            out.append(e)
    return out


def level2(run, cex):
    behs = []
    for cfg, level, h in cex:
        if level == "ctrl":
            behs.append({"cfg": ctl_cfg(run, cfg, probe=True), "steps": h, "tag": "tlc-cex:" + cfg[len("StaticPool_"):-4]})
        elif level == "window":
            behs.append({"cfg": ctl_cfg(run, cfg, probe=False), "steps": window_steps(h), "tag": "tlc-cex:" + cfg[len("StaticPool_"):-4]})
    n = CTL_SIM[run.tier]
    hs = run.generate("StaticPool", "StaticPool_Gen.cfg", workers=1, simulate="num=%d" % n, depth=60, timeout=1500)
    if not hs:
        raise vlib.InfraError("TLC simulated no StaticPool behaviours")
    gcfg = ctl_cfg(run, "StaticPool_Gen.cfg", probe=True)
    behs += [{"cfg": gcfg, "steps": h, "tag": "tlc-sim"} for h in hs[:n]]
    return behs


def record_ctl(run, behs, prefix="ctl"):
    bpath = os.path.join(run.work, "staticpool-%s-behs.json" % prefix)
    json.dump(behs, open(bpath, "w"))
    out = json.loads(run.drv("staticpool-ctrl", ["-in", bpath, "-out", os.path.join(run.work, "traces-" + prefix),
                                                 "-shards", 8], timeout=2400))
    return out["files"]


def analyse_ctl(run, behs, files):
    """Non-triviality on the real traces: a Karpenter NodeClaim create/delete happened and some foreign step ran
    while an API call of a reconcile was held at the gate."""
    stats = collections.Counter()
    per = []
    for f in sorted(files):
        for line in open(f):
            ev = json.loads(line)
            e = ev["e"]
            if e == "Cfg":
                per.append({"kwrite": False, "inter": False, "tag": ev.get("tag")})
            elif e == "Api" and ev["kind"] == "NodeClaim" and ev["actor"] != "env" and ev["verb"] in ("create", "delete"):
                per[-1]["kwrite"] = True
                stats["%s:%s:%s" % (ev["actor"], ev["verb"], ev["err"])] += 1
            elif e == "Mem" and ev.get("held", 0) > 0 and ev.get("after") in (
                    "I_Deliver", "Finalize", "Delete", "Scale", "Launch", "Drift", "GC", "Q_Delete", "Q_Fail", "P_Count", "D_Count", "X_Begin"):
                per[-1]["inter"] = True
                stats["interleaved:" + ev["after"]] += 1
            elif e == "Panic":
                stats["panic:" + ev["fn"]] += 1
            elif e == "Skip":
                stats["skip:%s:%s" % (ev["a"], ev["why"])] += 1
            elif e == "Quiesce":
                stats["quiesce:%s:%s" % (ev["tag"], "converged" if ev["converged"] else "not-converged")] += 1
            elif e == "EndTrace" and ev.get("timeouts"):
                stats["wait-timeouts"] += ev["timeouts"]
    if len(per) != len(behs):
        raise vlib.InfraError("recorded %d traces for %d behaviours" % (len(per), len(behs)))
    for b, p in zip(behs, per):
        run.note_case(("ctrl", json.dumps(b["steps"], sort_keys=True)), p["kwrite"] and p["inter"])
    run.extra_cov["ctrl_event_counts"] = dict(stats)


def stage_static(run):
    run.rule = ("level 1: TLC enumerates every NodePoolState call sequence up to depth D (+ deep random ones) over "
                "{Reserve, Release, Update(active|deleting), MarkActive/Deleting/Pending, Cleanup} x 2 claims; non-trivial = "
                "contains a Release or Cleanup.  level 2: histories of StaticPool.tla at API-call granularity (TLC's "
                "counterexamples for the pinned tree's semantics + TLC simulation with user deletes, scaling, drift, failing "
                "creates / taint patches, queue timeouts) replayed on the real controllers with goroutines gated at the API "
                "choke point, followed by a settle phase and a scale-to-limit probe; non-trivial = a Karpenter NodeClaim "
                "create/delete happened and a foreign step ran while a reconcile was held between two API calls")
    cex = closed_models(run)
    level1(run)
    behs = level2(run, cex)
    files = record_ctl(run, behs)
    analyse_ctl(run, behs, files)
    run.validate("StaticPoolCtl_Trace", "StaticPoolCtl_Trace.cfg", files, par=8 if run.tier == "thorough" else 4)
    run.samples.append({"level": "ctrl", "tag": behs[0]["tag"], "steps": behs[0]["steps"]})
    run.samples.append({"level": "ctrl", "tag": behs[-1]["tag"], "steps": behs[-1]["steps"]})
    run.exhaustive = True
    run.assumptions += [
        "C03 static half only: the dynamic-limits half (scheduler remainingResources / subtractMax / Synced gate) is a later stage",
        "one static NodePool; launch / registration / initialization and finalization of NodeClaims are environment steps "
        "(the lifecycle and termination controllers are other modules' subjects); every NodeClaim carries the termination finalizer",
        "controller-runtime's fake client + the harness choke point stand in for the API server; a panic in a ParallelizeUntil "
        "worker is recorded through utilruntime.PanicHandlers with ReallyCrash off (in production it terminates the process)",
        "'settles' is checked as bounded progress: environment quiet, all controllers + informer + queue run sequentially "
        "until a round writes nothing; traces that do not reach such a fix-point within 12 rounds are not judged",
        "a controller restart (in-memory state lost, HasSynced gate) is not part of the explored behaviours",
    ]


def replay(run, path):
    body = json.load(open(path))
    tr = body["trace"]
    cfg = tr[0]
    if cfg.get("level") == "unit":
        beh = [{"m": e["m"], "n": e["n"], "limit": e["limit"], "k": e["k"], "mfd": e["mfd"]} for e in tr if e["e"] == "Call"]
        bpath = os.path.join(run.work, "replay-unit.json")
        json.dump([beh], open(bpath, "w"))
        out = json.loads(run.drv("staticpool-unit", ["-in", bpath, "-out", os.path.join(run.work, "traces-unit"), "-shards", 1]))
        run.note_case(("replay-unit", json.dumps(beh)))
        run.validate("StaticPool_Trace", "StaticPool_Trace.cfg", out["files"])
        run.samples = [{"level": "unit", "behaviour": beh}]
        return
    steps = []
    for e in tr:
        if e["e"] != "Step":
            continue
        st = {"a": e["a"], "n": e["n"], "c": e["c"], "r": e["r"], "what": e["what"], "timeout": e["timeout"]}
        if e["ok"] != "-":
            st["ok"] = e["ok"] == "true"
        if e["wk"] != "-":
            st["w"] = [e["wk"], e["wi"]]
        steps.append(st)
    beh = {"cfg": {"pre": cfg["pre"], "limit": cfg["limit"], "replicas0": cfg["replicas0"], "budget": cfg.get("budget", 1),
                   "probe": True}, "steps": steps,
           "tag": "replay:" + str(cfg.get("tag"))}
    files = record_ctl(run, [beh], prefix="replay")
    analyse_ctl(run, [beh], files)
    run.validate("StaticPoolCtl_Trace", "StaticPoolCtl_Trace.cfg", files)
    run.samples = [{"level": "ctrl", "steps": steps}]
