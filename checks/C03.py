"""C03 - NodePool limits and static node caps are never exceeded.

The check is a sequence of stages; each stage adds closed-model runs, behaviours replayed on the real code and
validated traces to the same Run.  Stage `static` (StaticPool.tla, this file + checks/staticpool_common.py) covers the
replica-based half of the statement; the dynamic-limits half (scheduler remainingResources / subtractMax / Synced gate,
MultiPass.tla on the multi-pass provisioning driver, checks/multipass_common.py) is the stage `dynamic`."""
import json
import os

from checks import multipass_common as mp
from checks import staticpool_common as sp


def check(run):
    only = os.environ.get("VERIF_STAGE")      # developer aid (e.g. VERIF_STAGE=dynamic), never used by registered commands
    for stage in STAGES:
        if not only or stage.__name__ == "stage_" + only:
            stage(run)


def replay(run, path):
    if json.load(open(path)).get("guard") in mp.GUARDS:      # a violation found by the dynamic-limits stage
        mp.replay(run, path)
    else:
        sp.replay(run, path)


STAGES = [sp.stage_static, mp.stage_dynamic]
