"""C03 - NodePool limits and static node caps are never exceeded.

The check is a sequence of stages; each stage adds closed-model runs, behaviours replayed on the real code and
validated traces to the same Run.  Stage `static` (StaticPool.tla, this file + checks/staticpool_common.py) covers the
replica-based half of the statement; the dynamic-limits half (scheduler remainingResources / subtractMax / Synced gate,
MultiPass.tla on the multi-pass provisioning driver, checks/multipass_common.py) is the stage `dynamic`."""
import json
import os

from checks import multipass_common as mp
from checks import staticpool_common as sp


def check(run):
    only = os.environ.get("VERIF_STAGE")      # developer aid (e.g. VERIF_STAGE=dynamic), never used by registered commands
    todo = [st for st in STAGES if not only or st.__name__ == "stage_" + only]
    run.build_drv()                            # one harness build, then the stages side by side
    import concurrent.futures as cf
    with cf.ThreadPoolExecutor(max_workers=len(todo)) as ex:
        for f in [ex.submit(st, run) for st in todo]:
            f.result()


def replay(run, path):
    if json.load(open(path)).get("guard") in mp.GUARDS:      # a violation found by the dynamic-limits stage
        mp.replay(run, path)
    else:
        sp.replay(run, path)


STAGES = [sp.stage_static, mp.stage_dynamic]
