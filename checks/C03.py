"""C03 - NodePool limits and static node caps are never exceeded.

The check is a sequence of stages; each stage adds closed-model runs, behaviours replayed on the real code and
validated traces to the same Run.  Stage `static` (StaticPool.tla, this file + checks/staticpool_common.py) covers the
replica-based half of the statement; the dynamic-limits half (scheduler remainingResources / subtractMax / Synced gate,
Scheduling.tla on the scheduling driver) is appended to STAGES by its builder."""
from checks import staticpool_common as sp


def check(run):
    for stage in STAGES:
        stage(run)


def replay(run, path):
    sp.replay(run, path)


STAGES = [sp.stage_static]
