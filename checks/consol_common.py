"""C06 — scenario construction for the consolidation methods (driver: harness/drivers/disruption with
options.project = "c06", schema spec/DISRUPT_TRACE.md).

  * grid_scenario(g)      a scenario of Consolidation.tla's grid (TLC output) -> a cluster for the real code
  * directed(rng)         churn during the 15 s validation wait (late pods, a destination that fills up / is marked,
                          offerings that become unavailable), benign and breaking variants
  * explore(rng, n, ...)  seeded larger clusters: 4-24 instance types (spot-to-spot needs 15 cheaper options), 2-3
                          zones, unavailable and overlay-priced offerings, pools with zone / capacity-type / minValues
                          requirements and the three consolidation policies, pods with node selectors, tainted
                          destinations, zero-cost pods, 1-6 nodes
Prices are multiples of 1/8 $ (PRICE_UNIT/1000) so that every price and every sum of prices is exact in binary floating
point: the oracle compares exact integers and must not trip over 0.1 + 0.2 > 0.3."""
import copy
import json

import vlib
from checks import disrupt_common as dc

PRICE_UNIT = 125          # 1/1000 $: prices are k * 0.125
ZONES = {"za": "zone-a", "zb": "zone-b"}
OPTS = {"project": "c06"}


def offering(zone, ct, price_units, available=True, rid="", rcap=0):
    o = {"zone": zone, "ct": ct, "price": int(price_units * PRICE_UNIT), "available": bool(available)}
    if rid:
        o.update(rid=rid, rcap=rcap)
    return o


def itype(name, cpu, offerings, mem=None):
    return {"name": name, "cpu": cpu, "memMi": mem or cpu * 2, "offerings": offerings}


def options(s2s=False, **kw):
    o = dict(OPTS, spotToSpot=bool(s2s))
    o.update(kw)
    return o


def scenario(name, catalog, pools, nodes, pods, steps, tags, s2s=False, pdbs=None, daemonsets=None, **optkw):
    sc = dc.scenario(name, pools, nodes, pods, pdbs or [], steps, tags, options=options(s2s, **optkw))
    sc["catalog"] = catalog
    if daemonsets:
        sc["daemonsets"] = daemonsets
    return sc


def with_daemonset(nodes, pods, name="agent", cpu=300, sel=None):
    """A DaemonSet whose pod already runs on every node that exists (and will run on the replacement)."""
    ds = {"name": name, "cpu": cpu, "memMi": 32}
    if sel:
        ds["sel"] = sel
    for n in nodes:
        if n.get("stage", "initialized") != "launched" and not n.get("nodeGone"):
            pods.append(dc.pod("%s-%s" % (name, n["name"]), n["name"], cpu=cpu, owner="daemonset", ds=name, memMi=32))
    return ds


# ------------------------------------------------------------------ the model's grid
def grid_catalog(g):
    """base[i] = {spot, od} price units; zmod = per capacity type what zone zb looks like; unav[i] = which zone-za offerings
    of type i are out of capacity; resv = a capacity reservation on one type in zone za (available or exhausted)."""
    cat = []
    unav = g.get("unav") or [{"spot": False, "od": False} for _ in g["base"]]
    resv = g.get("resv") or {"state": "none"}
    for i, b in enumerate(g["base"]):
        offs = []
        for ct, key in (("spot", "spot"), ("on-demand", "od")):
            offs.append(offering("zone-a", ct, b[key], available=not unav[i][key]))
            zm = g["zmod"][key]
            if zm == "same":
                offs.append(offering("zone-b", ct, b[key]))
            elif zm == "dear":
                offs.append(offering("zone-b", ct, b[key] + 2))     # overlay-priced: dearer in zb
            elif zm == "unavail":
                offs.append(offering("zone-b", ct, b[key], available=False))
            elif zm != "none":
                raise vlib.InfraError("unknown zone modifier %r" % zm)
        if resv["state"] != "none" and resv["t"] == i + 1:
            ok = resv["state"] == "avail"
            offs.append(offering("zone-a", "reserved", resv["price"], available=ok, rid="res-%d" % (i + 1), rcap=1 if ok else 0))
        cat.append(itype("t%d" % (i + 1), 2000 * 2 ** i, offs))
    return cat


def grid_scenario(g, idx, tier="quick"):
    cat = grid_catalog(g)
    # the capacity types the pool allows (always those of its own nodes, so that nothing is drifted)
    cts = list(g.get("poolCts") or ["reserved", "spot", "on-demand"])
    cts += [c["ct"] for c in g["cands"] if c["ct"] not in cts]
    reqs = [] if len(set(cts)) == 3 else [{"key": "karpenter.sh/capacity-type", "op": "In", "values": sorted(set(cts))}]
    pools = [dc.pool("pa", requirements=reqs), dc.pool("pr")]
    nodes, pods = [], []
    for i, c in enumerate(g["cands"]):
        nm = "c%d" % (i + 1)
        nodes.append(dc.node(nm, "pa", "t%d" % c["t"], zone=ZONES[c["z"]], ct=c["ct"]))
        kw = {}
        if c["needOd"]:
            kw["sel"] = {"ct": "on-demand"}
        if not c["costly"]:
            kw["deletionCost"] = dc.ZERO_COST
        pods.append(dc.pod("p%d" % (i + 1), nm, cpu=c["pod"], **kw))
    if g["rest"] >= 0:
        # the remaining node: on-demand t2-sized room; its own pod is protected, so it is a destination, never a candidate
        nodes.append(dc.node("r", "pr", "t2", zone="zone-a", ct="on-demand"))
        pods.append(dc.pod("fill", "r", cpu=4000 - g["rest"], dnd="true"))
    ncand = len(g["cands"])
    steps = []
    if ncand >= 2:
        steps.append({"a": "Method", "method": "multi"})
    steps += [{"a": "Method", "method": "single"}, {"a": "Method", "method": "emptiness"}, {"a": "Round"}]
    tags = {"kind": "grid", "idx": idx, "ncand": ncand, "flag": bool(g["flag"]), "focus": g.get("focus", "price")}
    return scenario("grid:%s:%d" % (tags["focus"], idx), cat, pools, nodes, pods, steps, tags, s2s=g["flag"])


# ------------------------------------------------------------------ directed churn scenarios
def default_catalog(spread=False):
    """t1..t3 (2/4/8 cpu); on-demand 2/4/8 units, spot 1/2/4 units; zone-b spot is dearer when spread."""
    cat = []
    for i in range(3):
        od, sp = 2 * 2 ** i, 2 ** i
        cat.append(itype("t%d" % (i + 1), 2000 * 2 ** i, [
            offering("zone-a", "on-demand", od), offering("zone-b", "on-demand", od),
            offering("zone-a", "spot", sp), offering("zone-b", "spot", sp + (1 if spread else 0))]))
    return cat


def directed(rng):
    out = []

    def add(name, nodes, pods, during, method="single", expect=None, cat=None, s2s=False, pools=None):
        steps = [{"a": "Method", "method": method, "during": during}, {"a": "Round", "during": copy.deepcopy(during)}]
        out.append(scenario("churn:" + name, cat or default_catalog(), pools or [dc.pool("pa"), dc.pool("pr")], nodes, pods, steps,
                            {"kind": "churn", "case": name, "expect": expect or "-"}, s2s=s2s))

    def late(cpu, node="c1", name="late", **kw):
        return {"a": "SetPod", "pod": dc.pod(name, node, cpu=cpu, **kw)}

    # A: a pod lands on the removed node while the replace command waits
    for cpu, exp in ((300, "valid"), (1500, "reject"), (3000, "reject"), (7000, "reject")):
        out_nodes = [dc.node("c1", "pa", "t3")]
        out_pods = [dc.pod("p1", "c1", cpu=1500)]
        add("late-pod-%d" % cpu, out_nodes, out_pods, [late(cpu)], expect=exp)
    # A': the same with a remaining node that can take the late pod (delete stays valid / replacement stays valid)
    for cpu, free, exp in ((500, 1000, "valid"), (900, 1000, "reject"), (500, 3000, "valid")):
        nodes = [dc.node("c1", "pa", "t3"), dc.node("r", "pr", "t2")]
        pods = [dc.pod("p1", "c1", cpu=500), dc.pod("fill", "r", cpu=4000 - free, dnd="true")]
        add("late-pod-delete-%d-%d" % (cpu, free), nodes, pods, [late(cpu)], expect=exp)
    # B: the destination fills up / is marked / tainted / deleted while the delete command waits
    for what in ("fill", "mark", "delete", "fill-small"):
        nodes = [dc.node("c1", "pa", "t3"), dc.node("r", "pr", "t2")]
        pods = [dc.pod("p1", "c1", cpu=800), dc.pod("fill", "r", cpu=3000, dnd="true")]
        during = {"fill": [late(900, node="r", name="squat", dnd="true")],
                  "fill-small": [late(100, node="r", name="squat", dnd="true")],
                  "mark": [{"a": "Mark", "node": "r"}],
                  "delete": [{"a": "DeleteClaim", "node": "r"}]}[what]
        add("dest-" + what, nodes, pods, during, expect="valid" if what == "fill-small" else "reject")
    # B': multi-node: two removed nodes, one replacement; a late pod on the second one
    for cpu in (200, 1800, 3900):
        nodes = [dc.node("c1", "pa", "t2"), dc.node("c2", "pa", "t2")]
        pods = [dc.pod("p1", "c1", cpu=900), dc.pod("p2", "c2", cpu=900)]
        add("multi-late-%d" % cpu, nodes, pods, [late(cpu, node="c2")], method="multi")
    # C: offerings of the chosen options become unavailable while the command waits
    for typ, ct in (("t1", "spot"), ("t1", "on-demand"), ("t2", "spot")):
        nodes = [dc.node("c1", "pa", "t3")]
        pods = [dc.pod("p1", "c1", cpu=1500)]
        during = [{"a": "SetOffering", "type": typ, "zone": z, "ct": ct, "price": -1, "available": False} for z in ("zone-a", "zone-b")]
        add("ice-%s-%s" % (typ, ct), nodes, pods, during)
    # G: a pod with a positive eviction cost lands on an "empty" node while the emptiness command waits
    for kind in ("costly", "zero-cost", "daemon"):
        nodes = [dc.node("c1", "pa", "t2"), dc.node("c2", "pa", "t2")]
        pods = [dc.pod("z1", "c1", cpu=300, deletionCost=dc.ZERO_COST)]
        kw = {"costly": {}, "zero-cost": {"deletionCost": dc.ZERO_COST}, "daemon": {"owner": "daemonset"}}[kind]
        add("empty-" + kind, nodes, pods, [late(400, node="c2", **kw)], method="emptiness", expect="valid" if kind != "costly" else "partial")
    # E: the only room is on a node that is not initialized yet / a pod of the removed node cannot be scheduled anywhere
    for stage in ("registered", "initialized"):
        nodes = [dc.node("c1", "pa", "t3"), dc.node("r", "pr", "t3", stage=stage)]
        pods = [dc.pod("p1", "c1", cpu=800)]
        out.append(scenario("dest-stage:" + stage, default_catalog(), [dc.pool("pa"), dc.pool("pr", ca=-1)], nodes, pods,
                            [{"a": "Method", "method": "single"}, {"a": "Method", "method": "multi"}, {"a": "Round"}],
                            {"kind": "directed", "case": "dest-" + stage}))
    for sel in ({"zone": "zone-x"}, {"it": "t9"}, {"ct": "reserved"}):
        nodes = [dc.node("c1", "pa", "t3"), dc.node("c2", "pa", "t2")]
        pods = [dc.pod("p1", "c1", cpu=800), dc.pod("stuck", "c1", cpu=300, sel=sel), dc.pod("p2", "c2", cpu=500)]
        out.append(scenario("stuck-pod:" + "-".join(sel.values()), default_catalog(), [dc.pool("pa")], nodes, pods,
                            [{"a": "Method", "method": "single"}, {"a": "Method", "method": "multi"}, {"a": "Round"}],
                            {"kind": "directed", "case": "stuck-pod"}))
    # F: capacity reservations: the replacement is pinned to reserved capacity (precedence reserved > spot > on-demand)
    for rprice, rcap, avail in ((0, 1, True), (1, 2, True), (9, 1, True), (0, 1, False)):
        cat = default_catalog(spread=True)
        cat[0]["offerings"].append(offering("zone-a", "reserved", rprice, available=avail, rid="res-a", rcap=rcap))
        cat[1]["offerings"].append(offering("zone-b", "reserved", rprice + 1, available=avail, rid="res-b", rcap=rcap))
        for ct in ("on-demand", "spot"):
            nodes = [dc.node("c1", "pa", "t3", ct=ct), dc.node("c2", "pa", "t3", ct=ct)]
            pods = [dc.pod("p1", "c1", cpu=900), dc.pod("p2", "c2", cpu=900)]
            out.append(scenario("reserved:%d:%d:%s:%s" % (rprice, rcap, avail, ct), cat, [dc.pool("pa")], nodes, pods,
                                [{"a": "Method", "method": "multi"}, {"a": "Method", "method": "single"}, {"a": "Round"}],
                                {"kind": "directed", "case": "reserved"}, s2s=True))
    # H: the price table changes while the command waits (F-C06-2: validation re-simulates scheduling but never re-prices)
    def reprice(types, ct, units):
        return [{"a": "SetOffering", "type": t, "zone": z, "ct": ct, "price": units * PRICE_UNIT, "available": True}
                for t in types for z in ("zone-a", "zone-b")]
    for name, during in (("options-dearer", reprice(("t1", "t2", "t3"), "spot", 20)),        # every option now above the node's price
                         ("node-cheaper", reprice(("t3",), "on-demand", 1)),                # the removed node's own offering drops to the cheapest
                         ("options-cheaper", reprice(("t1", "t2"), "spot", 0)),              # benign: the options got cheaper still
                         ("other-type-dearer", reprice(("t3",), "spot", 30))):               # t3 spot was an option; now far dearer
        nodes = [dc.node("c1", "pa", "t3")]
        pods = [dc.pod("p1", "c1", cpu=1500)]
        add("reprice-" + name, nodes, pods, during)
    # I: the pods of the removed node cannot share one replacement (two zones / two capacity types): never m -> 2
    for sel_a, sel_b in (({"zone": "zone-a"}, {"zone": "zone-b"}), ({"ct": "spot"}, {"ct": "on-demand"})):
        nodes = [dc.node("c1", "pa", "t3"), dc.node("c2", "pa", "t3", zone="zone-b")]
        pods = [dc.pod("pa1", "c1", cpu=600, sel=sel_a), dc.pod("pb1", "c1", cpu=600, sel=sel_b),
                dc.pod("pa2", "c2", cpu=600, sel=sel_a), dc.pod("pb2", "c2", cpu=600, sel=sel_b)]
        out.append(scenario("split-pods:" + "-".join(sel_a.values()), default_catalog(), [dc.pool("pa")], nodes, pods,
                            [{"a": "Method", "method": "multi"}, {"a": "Method", "method": "single"}, {"a": "Round"}],
                            {"kind": "directed", "case": "split-pods"}))
    # J: the pool admits spot and on-demand but no spot offering is available: the price filter falls through to the
    # on-demand prices, the request is then pinned to spot (observation Obs_C06_UnlaunchableReplacement, not judged)
    for mode in ("unavailable", "absent"):
        cat = default_catalog()
        for t in cat:
            if mode == "absent":
                t["offerings"] = [o for o in t["offerings"] if o["ct"] != "spot"]
            else:
                for o in t["offerings"]:
                    if o["ct"] == "spot":
                        o["available"] = False
        nodes = [dc.node("c1", "pa", "t3")]
        pods = [dc.pod("p1", "c1", cpu=1500)]
        out.append(scenario("no-spot:" + mode, cat, [dc.pool("pa")], nodes, pods,
                            [{"a": "Method", "method": "single"}, {"a": "Round"}],
                            {"kind": "directed", "case": "no-spot-" + mode}))
    # K: daemon overhead: the replacement must hold the pods AND the DaemonSet pod that will run there (tight fits)
    for podcpu, dscpu in ((1500, 400), (1700, 400), (1900, 200), (3500, 600), (900, 1200)):
        nodes = [dc.node("c1", "pa", "t3")]
        pods = [dc.pod("p1", "c1", cpu=podcpu)]
        ds = with_daemonset(nodes, pods, cpu=dscpu)
        out.append(scenario("daemon:%d+%d" % (podcpu, dscpu), default_catalog(), [dc.pool("pa")], nodes, pods,
                            [{"a": "Method", "method": "single"}, {"a": "Round"}],
                            {"kind": "directed", "case": "daemon-overhead"}, daemonsets=[ds]))
    for free in (300, 700):      # ... and the remaining node already runs its DaemonSet pod: no second reservation there
        nodes = [dc.node("c1", "pa", "t3"), dc.node("r", "pr", "t2")]
        pods = [dc.pod("p1", "c1", cpu=600), dc.pod("fill", "r", cpu=4000 - 400 - free, dnd="true")]
        ds = with_daemonset(nodes, pods, cpu=400)
        out.append(scenario("daemon-dest:%d" % free, default_catalog(), [dc.pool("pa"), dc.pool("pr")], nodes, pods,
                            [{"a": "Method", "method": "single"}, {"a": "Round"}],
                            {"kind": "directed", "case": "daemon-dest"}, daemonsets=[ds]))
    # L: cheap-but-UNAVAILABLE offerings of a capacity type that precedes the one that would really launch (an exhausted
    # reservation, ICE'd spot) next to available on-demand, on the removed node's own type and on other types, under pools that
    # allow each subset of capacity types: the worst-case launch price is over AVAILABLE offerings only
    subsets = {"r+od": ["reserved", "on-demand"], "s+od": ["spot", "on-demand"], "r+s+od": None, "r+s": ["reserved", "spot"],
               "od": ["on-demand"]}
    for pname, cts in subsets.items():
        for shape in ("own-type", "other-type", "both", "spot-dear"):
            cat = []
            for i in range(3):
                od = 2 * 2 ** i
                offs = [offering("zone-a", "on-demand", od), offering("zone-b", "on-demand", od)]
                if shape == "spot-dear":      # overlay-priced: the available spot offerings are NOT cheaper than on-demand
                    offs += [offering("zone-a", "spot", od + 1), offering("zone-b", "spot", od)]
                else:                         # spot exists but is out of capacity everywhere
                    offs += [offering("zone-a", "spot", 1, available=False), offering("zone-b", "spot", 1, available=False)]
                cat.append(itype("t%d" % (i + 1), 2000 * 2 ** i, offs))
            # exhausted reservations (price 0): on the removed node's own type t2 and / or on the larger type t3
            if shape in ("own-type", "both", "spot-dear"):
                cat[1]["offerings"].append(offering("zone-a", "reserved", 0, available=False, rid="res-own", rcap=0))
            if shape in ("other-type", "both"):
                cat[2]["offerings"].append(offering("zone-a", "reserved", 0, available=False, rid="res-big", rcap=0))
            reqs = [{"key": "karpenter.sh/capacity-type", "op": "In", "values": cts}] if cts else []
            # c1: on-demand t2 whose pods need more than a t1; c2 + c3: two on-demand t2 whose pods together need a t3
            nodes = [dc.node("c1", "pa", "t2")]
            pods = [dc.pod("p1", "c1", cpu=2500)]
            out.append(scenario("unavail:%s:%s:single" % (pname, shape), cat, [dc.pool("pa", requirements=reqs)], nodes, pods,
                                [{"a": "Method", "method": "single"}, {"a": "Round"}], {"kind": "directed", "case": "unavailable-precedence"}))
            nodes = [dc.node("c2", "pa", "t2"), dc.node("c3", "pa", "t2", zone="zone-b")]
            pods = [dc.pod("p2", "c2", cpu=2500), dc.pod("p3", "c3", cpu=2500)]
            out.append(scenario("unavail:%s:%s:multi" % (pname, shape), cat, [dc.pool("pa", requirements=reqs)], nodes, pods,
                                [{"a": "Method", "method": "multi"}, {"a": "Method", "method": "single"}, {"a": "Round"}],
                                {"kind": "directed", "case": "unavailable-precedence"}))
    # M: an earlier command is still in flight: a draining node (marked for deletion / deleting) whose pod is being rescheduled
    # onto an UNINITIALIZED in-flight replacement with spare room, next to the node under test; the draining node's pod may rely
    # on that replacement, the pods of the node under test may not - whichever of the two the simulation places first
    for drain in ("marked", "deleting"):
        for stage in ("registered", "launched"):
            for pd_cpu, p1_cpu in ((1500, 500), (500, 1500), (900, 900)):
                for ncand in (1, 2):
                    nodes = [dc.node("c1", "pa", "t2"), dc.node("d", "pr", "t2", **{drain: True}),
                             dc.node("u", "pr", "t3", stage=stage, createdAt=900)]
                    pods = [dc.pod("p1", "c1", cpu=p1_cpu), dc.pod("pd", "d", cpu=pd_cpu)]
                    if ncand == 2:
                        nodes.append(dc.node("c2", "pa", "t2"))
                        pods += [dc.pod("p2", "c2", cpu=p1_cpu + 2300)]     # c2 is nearly full: no room for p1 there
                    steps = [{"a": "Method", "method": "single"}, {"a": "Method", "method": "multi"}, {"a": "Round"}]
                    out.append(scenario("inflight:%s:%s:%d-%d:%d" % (drain, stage, pd_cpu, p1_cpu, ncand), default_catalog(),
                                        [dc.pool("pa"), dc.pool("pr", ca=-1)], nodes, pods, steps,
                                        {"kind": "directed", "case": "command-in-flight"}))
    # D: the pod on the removed node disappears while the command waits (witness mentions a pod that is gone)
    nodes = [dc.node("c1", "pa", "t3")]
    pods = [dc.pod("p1", "c1", cpu=1500), dc.pod("p1b", "c1", cpu=300)]
    add("pod-gone", nodes, pods, [{"a": "DeletePod", "pod": {"name": "p1b", "ns": "default"}}])
    return out


# ------------------------------------------------------------------ seeded explorer
def rand_catalog(rng, ntypes, nzones, profile):
    """profile: ladder (prices grow with size, spot below on-demand) | flat (many equal prices) | wild (overlay-priced:
    any order, zero prices, spot above on-demand)."""
    zones = ["zone-a", "zone-b", "zone-c"][:nzones]
    # how often an offering of a capacity type is out of capacity: mostly rare, sometimes a capacity type is largely gone
    icy = {ct: rng.choice([0.12, 0.12, 0.12, 0.5, 0.9]) for ct in ("on-demand", "spot")}
    cat = []
    for i in range(ntypes):
        cpu = rng.choice([2000, 4000, 4000, 8000, 16000]) if ntypes > 6 else 2000 * 2 ** min(i, 3)
        offs = []
        if profile == "ladder":
            od = max(1, cpu // 1000 + rng.randint(-1, 2))
            sp = max(1, od // 2 + rng.randint(-1, 1))
        elif profile == "flat":
            od = rng.choice([2, 3, 3, 4])
            sp = rng.choice([1, 2, 2, 3])
        else:
            od = rng.choice([0, 1, 2, 3, 5, 8, 13])
            sp = rng.choice([0, 1, 2, 3, 5, 8])
        for z in zones:
            for ct, base in (("on-demand", od), ("spot", sp)):
                r = rng.random()
                if r < 0.08:
                    continue                                       # not offered
                delta = rng.choice([0, 0, 0, 1, 2, -1]) if profile != "ladder" or rng.random() < 0.3 else 0
                offs.append(offering(z, ct, max(0, base + delta), available=rng.random() > icy[ct]))
        if not offs:
            offs.append(offering(zones[0], "on-demand", od))
        if rng.random() < 0.15:                                    # a capacity reservation (usually prepaid: price 0), often exhausted
            ok = rng.random() < 0.5
            offs.append(offering(rng.choice(zones), "reserved", rng.choice([0, 0, 1, od]), available=ok, rid="res-%02d" % i,
                                 rcap=rng.randint(1, 2) if ok else 0))
        cat.append(itype("x%02d" % i, cpu, offs))
    return cat, zones


def explore(rng, n, tag="explore"):
    out = []
    for k in range(n):
        big = rng.random() < 0.45                    # catalogs large enough for single-node spot-to-spot
        ntypes = rng.randint(16, 24) if big else rng.randint(3, 8)
        profile = rng.choice(["ladder", "ladder", "flat", "wild"])
        cat, zones = rand_catalog(rng, ntypes, rng.randint(2, 3), profile)
        s2s = rng.random() < 0.6
        policy = rng.choice(["WhenEmptyOrUnderutilized", "WhenEmptyOrUnderutilized", "WhenEmptyOrUnderutilized", "Balanced", "WhenEmpty"])
        reqs = []
        r = rng.random()
        if r < 0.45:      # every subset of capacity types a pool may allow
            reqs.append({"key": "karpenter.sh/capacity-type", "op": "In",
                         "values": rng.choice([["on-demand"], ["spot"], ["reserved", "on-demand"], ["spot", "on-demand"], ["reserved", "spot"]])})
        if rng.random() < 0.2:
            reqs.append({"key": "topology.kubernetes.io/zone", "op": "In", "values": rng.sample(zones, rng.randint(1, len(zones)))})
        if rng.random() < 0.25:
            reqs.append({"key": "node.kubernetes.io/instance-type", "op": "Exists", "values": [],
                         "minValues": rng.choice([2, 3, 5, 18]) if big else rng.choice([2, 3])})
        pools = [dc.pool("pa", policy=policy, requirements=reqs), dc.pool("pr")]
        two_pools = rng.random() < 0.25
        if two_pools:    # a second pool of candidates: other zone / capacity-type restrictions, a weight
            reqs_b = []
            if rng.random() < 0.5:
                reqs_b.append({"key": "karpenter.sh/capacity-type", "op": "In", "values": [rng.choice(["on-demand", "spot"])]})
            if rng.random() < 0.4:
                reqs_b.append({"key": "topology.kubernetes.io/zone", "op": "In", "values": [rng.choice(zones)]})
            pools.append(dc.pool("pb", policy=rng.choice(["WhenEmptyOrUnderutilized", "Balanced"]), requirements=reqs_b,
                                 weight=rng.choice([0, 5, 50])))
        nodes, pods = [], []
        nn = rng.randint(1, 5)
        spotty = rng.random() < 0.5
        for j in range(nn):
            t = rng.choice(cat)
            o = rng.choice(t["offerings"])
            ct = o["ct"]
            want = "spot" if spotty else next((r["values"][0] for r in reqs if r["key"] == "karpenter.sh/capacity-type"), None)
            if want:
                sp = [x for x in t["offerings"] if x["ct"] == want]
                if sp:
                    o = rng.choice(sp)
                    ct = want
            nm = "n%d" % j
            nodes.append(dc.node(nm, "pb" if two_pools and rng.random() < 0.4 else "pa", t["name"], zone=o["zone"], ct=ct))
            room = t["cpu"]
            r = rng.random()
            npods = 0 if r < 0.12 else rng.randint(1, 3)
            for q in range(npods):
                cpu = rng.choice([100, 300, 500, 900, 1500, 2500])
                if cpu > room:
                    continue
                room -= cpu
                kw = {}
                x = rng.random()
                if x < 0.12:
                    kw["sel"] = {"ct": rng.choice(["on-demand", "spot"])}
                elif x < 0.22:
                    kw["sel"] = {"zone": rng.choice(zones)}
                if rng.random() < 0.12:
                    kw["deletionCost"] = dc.ZERO_COST
                if rng.random() < 0.08:
                    kw["owner"] = rng.choice(["daemonset", "statefulset"])
                if rng.random() < 0.15:
                    kw["tol"] = [{"key": "dedicated", "op": "Exists", "value": "", "effect": ""}]
                pods.append(dc.pod("p%d-%d" % (j, q), nm, cpu=cpu, **kw))
        # remaining nodes (destinations that are not candidates): protected pod, sometimes tainted / nearly full
        for j in range(rng.randint(0, 2)):
            t = rng.choice(cat)
            o = rng.choice(t["offerings"])
            nm = "r%d" % j
            kw = {}
            if rng.random() < 0.25:
                kw["taints"] = [{"key": "dedicated", "value": "x", "effect": rng.choice(["NoSchedule", "PreferNoSchedule"])}]
            nodes.append(dc.node(nm, "pr", t["name"], zone=o["zone"], ct=o["ct"], **kw))
            free = rng.choice([0, 300, 1000, t["cpu"] // 2])
            pods.append(dc.pod("fill%d" % j, nm, cpu=max(100, t["cpu"] - free), dnd="true"))
        # other traffic that competes for the same room: pending pods, pods of a node that is already on its way out,
        # a node that has not initialized yet
        for j in range(rng.choice([0, 0, 0, 1, 2])):
            pods.append(dc.pod("pend%d" % j, "", cpu=rng.choice([200, 800, 1500])))
        inflight = rng.random() < 0.12     # an earlier command in flight: a draining node AND its uninitialized replacement
        if inflight or rng.random() < 0.1:
            t = rng.choice(cat)
            o = rng.choice(t["offerings"])
            nodes.append(dc.node("gone", "pr", t["name"], zone=o["zone"], ct=o["ct"], **rng.choice([{"marked": True}, {"deleting": True}])))
            pods.append(dc.pod("pg", "gone", cpu=rng.choice([300, 1200, 2000])))
        if inflight or rng.random() < 0.1:
            t = rng.choice(cat)
            o = rng.choice(t["offerings"])
            nodes.append(dc.node("fresh", "pr", t["name"], zone=o["zone"], ct=o["ct"], stage=rng.choice(["registered", "launched"])))
        # PodDisruptionBudgets: most allow a disruption (the pod is owed a home), a few block their node altogether (C07)
        pdbs = []
        for j, pp in enumerate([x for x in pods if x["owner"] == "replicaset" and x["node"].startswith("n")]):
            if rng.random() < 0.12:
                pdbs.append(dc.pdb("pdb%d" % j, dict(pp["labels"]), allowed=rng.choice([1, 1, 2, 0])))
        daemonsets = []
        if rng.random() < 0.3:
            daemonsets.append(with_daemonset(nodes, pods, cpu=rng.choice([100, 300, 600])))
        methods = ["multi", "single", "emptiness"]
        rng.shuffle(methods)
        steps = [{"a": "Method", "method": m} for m in methods] + [{"a": "Round"}]
        if rng.random() < 0.3:
            steps.append({"a": "Round"})
        tags = {"kind": tag, "idx": k, "profile": profile, "ntypes": ntypes, "flag": s2s, "policy": policy}
        out.append(scenario("%s:%d" % (tag, k), cat, pools, nodes, pods, steps, tags, s2s=s2s, daemonsets=daemonsets, pdbs=pdbs,
                            minValuesPolicy=rng.choice(["", "", "BestEffort"])))
    return out


def float_witness():
    """F-C06-1: three $0.10 nodes and a $0.30 type: 0.1 + 0.1 + 0.1 = 0.30000000000000004 in float64, so the equally
    priced type passes the strict price filter.  Always replayed (the KNOWN-FINDING line must not depend on the seed);
    the second scenario is the control with exactly representable prices (0.125 / 0.375), where nothing is replaced."""
    out = []
    for name, p1, p2, p3 in (("inexact", 100, 150, 300), ("exact", 125, 187, 375)):
        def off(p):
            return [{"zone": "zone-a", "ct": "on-demand", "price": p, "available": True}]
        cat = [itype("t1", 2000, off(p1)), itype("t2", 4000, off(p2)), itype("t3", 8000, off(p3))]
        pools = [dc.pool("pa", requirements=[{"key": "karpenter.sh/capacity-type", "op": "In", "values": ["on-demand"]}])]
        nodes = [dc.node("c%d" % i, "pa", "t1") for i in (1, 2, 3)]
        pods = [dc.pod("p%d" % i, "c%d" % i, cpu=1500) for i in (1, 2, 3)]
        out.append(scenario("float:" + name, cat, pools, nodes, pods, [{"a": "Method", "method": "multi"}, {"a": "Round"}],
                            {"kind": "directed", "case": "float-" + name}))
    return out


def s2s_multi_directed():
    """Always replayed: 2-3 all-spot nodes whose pods need ONE replacement node that a cheaper spot type can be, with the
    SpotToSpotConsolidation gate off and on, under multi- and single-node consolidation and a controller round: with the gate
    off neither method may replace spot by spot (multi-node has no 15-option rule, the gate is all that holds it back)."""
    out = []
    for ncand in (2, 3):
        for flag in (False, True):
            for spread in (False, True):
                # spot t3 nodes (4 units each); with ALL of them removed their pods fit one t2 (spot: 2 units), a different type
                cat = default_catalog(spread=spread)
                nodes = [dc.node("c%d" % i, "pa", "t3", ct="spot", zone="zone-a") for i in range(1, ncand + 1)]
                pods = [dc.pod("p%d" % i, "c%d" % i, cpu=1300 if ncand == 3 else 1900) for i in range(1, ncand + 1)]
                steps = [{"a": "Method", "method": "multi"}, {"a": "Method", "method": "single"}, {"a": "Round"}]
                out.append(scenario("s2s-multi:%d:%s:%s" % (ncand, flag, spread), cat, [dc.pool("pa")], nodes, pods, steps,
                                    {"kind": "s2s-multi", "ncand": ncand, "flag": flag}, s2s=flag))
    return out


def s2s_directed(rng):
    """Single-node spot-to-spot around the 15-option threshold: a spot node and k strictly cheaper spot types
    (k = 13..17, and 17 with minValues 16 / 20)."""
    out = []
    for k, mv in ((13, 0), (14, 0), (15, 0), (16, 0), (17, 0), (17, 16), (20, 18), (15, 15)):
        for flag in (True, False):
            cat = [itype("big", 8000, [offering("zone-a", "spot", 40), offering("zone-a", "on-demand", 80)])]
            for i in range(k):
                cat.append(itype("s%02d" % i, 4000, [offering("zone-a", "spot", 10 + i), offering("zone-b", "spot", 10 + i),
                                                     offering("zone-a", "on-demand", 60 + i)]))
            cat.append(itype("same", 4000, [offering("zone-a", "spot", 40), offering("zone-a", "on-demand", 90)]))   # not cheaper
            reqs = []
            if mv:
                reqs.append({"key": "node.kubernetes.io/instance-type", "op": "Exists", "values": [], "minValues": mv})
            pools = [dc.pool("pa", requirements=reqs)]
            nodes = [dc.node("c1", "pa", "big", zone="zone-a", ct="spot")]
            pods = [dc.pod("p1", "c1", cpu=1500)]
            steps = [{"a": "Method", "method": "single"}, {"a": "Round"}]
            out.append(scenario("s2s:%d:%d:%s" % (k, mv, flag), cat, pools, nodes, pods, steps,
                                {"kind": "s2s", "k": k, "minValues": mv, "flag": flag}, s2s=flag))
    return out


# ------------------------------------------------------------------ summarising C06 traces
def summarise(files):
    """Per trace: judged commands with the facts the vacuity accounting needs."""
    out = []
    for f in files:
        cur = None
        for line in open(f):
            ev = json.loads(line)
            e = ev["e"]
            if e == "Cfg":
                cur = {"name": ev["name"], "tags": ev["tags"], "cmds": [], "errors": [], "file": f}
                out.append(cur)
            elif e in ("Cmd", "QCmd") and ev["method"] in ("single", "multi", "emptiness") and "sg" in ev:
                cts = sorted({c["ct"] for c in ev["candidates"]})
                rep = ev["replacements"]
                ctreq = None
                if rep:
                    ctreq = next((r for r in rep[0]["reqs"] if r["key"] == "karpenter.sh/capacity-type"), None)
                cur["cmds"].append({
                    "e": e, "method": ev["method"], "decision": ev["decision"], "names": ev["names"], "t": ev["t"],
                    "ncand": len(ev["candidates"]), "cand_cts": cts, "nrepl": len(rep),
                    "nopts": len(rep[0]["its"]) if rep else 0,
                    "opts": [i["name"] for i in rep[0]["its"]][:20] if rep else [],
                    "repl_ct": sorted(k for k, v in ctreq["has"].items() if v) if ctreq else [],
                    "placed_existing": sum(len(x["pods"]) for x in ev["existing"]),
                    "placed_new": len(rep[0]["pods"]) if rep else 0,
                    "cand_types": sorted({c["type"] for c in ev["candidates"]})})
            elif e == "End" and (ev.get("panic") or (ev.get("err", "-") != "-" and ev.get("controller", "").startswith("disruption"))):
                cur["errors"].append({"controller": ev["controller"], "object": ev["object"], "err": ev["err"], "panic": ev.get("panic", False)})
    return out
