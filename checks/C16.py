"""C16 — Forceful reapers act only on their documented trigger.

Closed model Reapers.tla (expiration, garbage collection, liveness, node repair as reconciles made of fallible
reads (each with an error kind) + decision; millisecond clock with ticks to sub-second offsets around every pending
deadline; instance / node / condition / pool population (incl. terminating nodes) environment) checked exhaustively by TLC in several scenario configurations; each mechanism
mutation (Reapers_Weak*.cfg) must be rejected.  Behaviours = TLC simulation of the model + systematic
threshold / fault / 20 %-grid placement, replayed on the real expiration, garbagecollection, node.health and
lifecycle(liveness) controllers on the world harness; Reapers_Trace.tla evaluates the acting reaper's guard at
every delete.  The lifecycle driver's timeout behaviours (Lifecycle_Trace.tla, G_C16_Liveness) run next to it."""
import json
import random

import vlib
from checks import lifecycle_common as lc
from checks import reapers_common as rc

NSIM = {"quick": 150, "thorough": 1500}
PER_PREFIX = {"quick": 4, "thorough": 6}
MC = ["Reapers_MC.cfg", "Reapers_MCLive.cfg", "Reapers_MCGrid.cfg", "Reapers_MCCluster.cfg"]
MC_BIG = ["Reapers_MCDeep.cfg", "Reapers_MCLiveDeep.cfg", "Reapers_MCGrid2.cfg", "Reapers_MCFull.cfg"]     # thorough tier only


def lifecycle_liveness_behaviours(run, rng):
    """behaviours of the lifecycle driver that reach the liveness delete: both timeout paths, (a) a reconcile at every
    second from T-6s to T+2s (the first one that deletes must not be early: T-1s / T / T+1s are all visited whatever the
    controller's own Sleep(1s) calls did to the clock), (b) the canonical timeout paths with every fault of the
    liveness step at every reconcile."""
    behs = []
    for cfg in ({"startupTaint": True, "extRes": True}, {"startupTaint": False, "extRes": False}):
        for kind, T in (("launch", 300), ("registration", 900)):
            rec = {"a": "Rec", "prov": "err"} if kind == "launch" else {"a": "Rec"}
            for half in (T // 2, T // 3):
                steps = [dict(rec), dict(rec), {"a": "Tick", "d": half}, dict(rec), {"a": "Tick", "d": T - half - 8}]
                for _ in range(11):
                    steps += [dict(rec), {"a": "Tick", "d": 1}]
                steps.append(dict(rec))
                behs.append({"cfg": cfg, "steps": steps, "tag": "c16-sweep:%s:%d" % (kind, half)})
            tp = lc.timeout_path(kind)
            behs.append({"cfg": cfg, "steps": tp, "tag": "timeout:" + kind})
            n2 = sum(1 for s in tp if s["a"] == "Rec")
            for i in range(n2):
                for f in ("poolPatch", "deleteFail", "statusPatch", "mainPatch"):
                    behs.append({"cfg": cfg, "steps": lc.with_fault(tp, {i: f}) + [{"a": "Rec"}], "tag": "timeout:%s:%d:%s" % (kind, i, f)})
        # (c) registered in time but never initialized (startup / ephemeral taint kept, node NotReady, extended resource never
        #     reported): the real controller registers the node itself; reconciles around 900 s after that and much later
        for ready in (False, True):
            steps = [{"a": "Rec"}, {"a": "Rec"},
                     {"a": "NodeAppears", "unreg": True, "startup": True, "eph": True, "ready": ready, "res": False},
                     {"a": "Rec"}, {"a": "Rec"}, {"a": "Tick", "d": 290}, {"a": "Rec"}, {"a": "Tick", "d": 12}, {"a": "Rec"},
                     {"a": "Tick", "d": 585}]
            for _ in range(16):
                steps += [{"a": "Rec"}, {"a": "Tick", "d": 1}]
            steps += [{"a": "Rec"}, {"a": "Tick", "d": 7200}, {"a": "Rec"}, {"a": "Restart"}, {"a": "Rec"}]
            behs.append({"cfg": cfg, "steps": steps, "tag": "c16-uninitialized:ready=%s" % ready})
    return behs


def check(run):
    rng = random.Random(run.seed)
    run.rule = ("behaviours = TLC simulation of Reapers.tla (random interleavings of expiration / garbage-collection / "
                "liveness / node-repair reconciles with one failing read (generic or NotFound-typed error) or write, a millisecond "
                "clock ticking to T-1000/-501/-500/-1/0/+1/+500 ms of every pending deadline, instance vanishing, node NotReady/Ready/gone, unhealthy conditions appearing/clearing, "
                "other pool nodes turning unhealthy / lingering as terminating objects, user deletes, restarts) + systematic "
                "placement: expiration x {Never,0,45s,600s} x sub-second clock offsets x delete faults/stale copies; garbage collection x {registered, "
                "instance listed/gone, node Ready/NotReady/Unknown/absent/duplicate} x a failure at each read; node repair x "
                "pool sizes 1..11 x unhealthy counts around ceil(20%) (some already terminating) x pool/standalone x sub-second "
                "toleration offsets x read faults of each kind, multi-wave repair histories; "
                "liveness x both timeouts x offsets x faults, registered-but-uninitialized claims kept for hours (node NotReady / "
                "startup or ephemeral taint / extended resource missing), repair-policy lists with several statuses of one "
                "condition type in both orders, one environment step between the GC pass's listing reads (reapers world and "
                "the lifecycle driver). Each is replayed on "
                "the real controllers; non-trivial = the real trace contains an effective NodeClaim delete by a reaper "
                "(a guarded event of C16)")
    # ---- closed model: invariants, vacuity
    if run.tier == "quick":
        rc.closed_models(run, MC, workers=2, timeout=600)
    else:
        # big configurations without coverage (it slows TLC several times); coverage on the small ones, whose union
        # takes every action
        rc.closed_models(run, MC_BIG, workers=4, timeout=3000, par=3)
        zero = rc.closed_models(run, MC, workers=2, coverage=True, timeout=1200)
        if zero:
            raise vlib.InfraError("vacuous closed model, actions never taken in any configuration: %s" % zero)
        run.notes.append("coverage: every action of Reapers.tla is taken in at least one closed-model configuration")
    weak = sorted(rc.WEAK)
    if run.tier == "quick":       # one mutation per reaper, rotating with the seed
        rng2 = random.Random(run.seed)
        weak = [rng2.choice([w for w in weak if rc.WEAK[w] == inv]) for inv in sorted(set(rc.WEAK.values()))]
    rc.weak_configs(run, weak)

    # ---- behaviours on the real code: reapers world
    sim, nprinted = rc.simulate(run, NSIM[run.tier], PER_PREFIX[run.tier], rng)
    behs = sim + rc.systematic(run.tier, rng)
    files = rc.record(run, behs)
    per, counts = rc.account(files, vlib.NCPU)
    if len(per) != len(behs):
        raise vlib.InfraError("driver recorded %d traces for %d behaviours" % (len(per), len(behs)))
    for i, b in enumerate(behs):
        run.note_case("reapers:" + json.dumps(b["steps"], sort_keys=True), bool(per[i]["deletes"]))
    run.validate("Reapers_Trace", "Reapers_Trace.cfg", files, par=8)
    drift, examples = rc.model_drift(behs, per)
    run.extra_cov["model_vs_code_per_reconcile"] = drift
    bad = {k: v for k, v in drift.items() if not k.endswith((":agree", ":agree-delete"))}
    if bad:
        run.notes.append("MODEL-DRIFT (diagnostic, never a verdict): %s; e.g. %s" % (bad, examples[:2]))

    # ---- liveness through the lifecycle driver (G_C16_Liveness in Lifecycle_Trace.tla)
    lbehs = lifecycle_liveness_behaviours(run, rng)
    lfiles = lc.record(run, lbehs, prefix="lifecycle-c16")
    ldel = 0
    ltraces = []
    for f in lfiles:
        for line in open(f):
            ev = json.loads(line)
            if ev["e"] == "Cfg":
                ltraces.append(False)
            elif ev["e"] == "Api" and ev["verb"] == "delete" and ev["kind"] == "NodeClaim" and ev["actor"] == "nodeclaim.lifecycle" \
                    and ev["err"] == "-":
                ltraces[-1] = True
                ldel += 1
    for i, b in enumerate(lbehs):
        run.note_case("lifecycle:" + b["tag"] + json.dumps(b["steps"], sort_keys=True), None)
    run.nontrivial |= {"lifecycle-trace-%d" % i for i, t in enumerate(ltraces) if t}
    run.validate("Lifecycle_Trace", "Lifecycle_Trace.cfg", lfiles, par=4)
    counts["delete:liveness(lifecycle driver)"] = ldel

    for actor in ("expiration", "gc", "repair", "liveness"):
        if not counts.get("delete:" + actor):
            raise vlib.InfraError("vacuous run: no behaviour reached a delete by %s" % actor)
    run.extra_cov["guarded_event_counts"] = dict(counts)
    run.extra_cov["behaviours"] = {"tlc_sim_printed": nprinted, "tlc_sim_used": len(sim), "systematic": len(behs) - len(sim),
                                   "lifecycle_driver": len(lbehs)}
    panics = [k for k in counts if k.startswith("panic:")]
    if panics:
        run.notes.append("controller panics recorded (not judged by C16): %s" % panics)
    pick = [b for b in behs if b["tag"].startswith(("gc:True:gone:True:lookup", "repair:pool:n6:u2:+0:none", "exp:plain:ea45:c7:-1"))]
    run.samples = [{"tag": b["tag"], "steps": b["steps"]} for b in (pick[:3] or behs[:3])] + [{"tag": sim[0]["tag"], "steps": sim[0]["steps"]}]
    run.assumptions += [
        "controller-runtime fake client + harness choke point stand in for the API server; the harness provider's List returns every instance that is not gone",
        "each reconcile is handed the stored object (or, for 'stale' steps, the copy it was handed last time)",
        "instants are milliseconds; stamps stored on objects (creation, condition transitions) are whole seconds as the API serialises them, and objects are created / conditions flipped by the environment at whole seconds unless stated",
        "the pool's nodes = Nodes carrying the claim's karpenter.sh/nodepool label; a standalone claim is judged against every Node of the cluster",
        "two or more Nodes with the claim's provider id (documented by Karpenter as an invalid, deliberately ignored state) are accepted by the garbage-collection guard",
        "only effective deletes (object present and not already deleting, call succeeded) are judged",
        "garbage collection: 'the provider no longer lists its instance' = absent from the listing the pass read successfully AND absent from the provider's instance table at the instant of the delete (instances never come back in the harness provider); one environment step may be scheduled between the pass's two listing reads",
        "the lifecycle controller runs in the reapers world with a clock whose Sleep returns at once (its 1 s read-your-writes wait does not move scenario time)",
    ]


def replay(run, path):
    """Re-execute the behaviour embedded in the failing trace (Cfg.beh) on the current tree and re-validate it."""
    body = json.load(open(path))
    cfg = (body.get("trace") or [{}])[0]
    if cfg.get("module") != "Reapers" or "beh" not in cfg:
        raise vlib.InfraError("this replay holds a lifecycle-driver trace: re-run `bin/check C16` with VERIF_SEED=%s; the failing "
                              "trace is embedded in %s" % (body.get("seed"), path))
    beh = json.loads(cfg["beh"])
    files = rc.record(run, [beh], prefix="replay")
    per, counts = rc.account(files, vlib.NCPU)
    run.note_case("replay:" + json.dumps(beh["steps"], sort_keys=True), bool(per[0]["deletes"]))
    run.validate("Reapers_Trace", "Reapers_Trace.cfg", files, par=1)
    run.rule = "replay of one recorded behaviour on the current tree"
    run.samples = [{"tag": beh.get("tag"), "steps": beh["steps"]}]
    run.extra_cov["guarded_event_counts"] = dict(counts)
