"""C18 helpers: scenarios for the disruption driver in which simulations place pods with host ports, volumes,
preferences, anti-affinity and spread constraints on EXISTING nodes (that is where a simulation working on live objects
leaves traces), the mapping from behaviours of Frame.tla to driver steps, and trace summarisation."""
import copy
import json

from checks import disrupt_common as dc

METHODS = dc.METHODS


def catalog(order=("large", "small", "medium")):
    """world.DefaultCatalog() (small 2 cpu $0.100, medium 4 cpu $0.200, large 8 cpu $0.400; on-demand and spot in two zones), but NOT
    in price order and with the offerings not in price order either: a sort-in-place of the provider's slices shows."""
    spec = {"small": (2000, 4096, 100), "medium": (4000, 8192, 200), "large": (8000, 16384, 400)}
    out = []
    for name in order:
        cpu, mem, price = spec[name]
        out.append({"name": name, "cpu": cpu, "memMi": mem, "offerings": [
            {"zone": "zone-b", "ct": "on-demand", "price": price, "available": True},
            {"zone": "zone-a", "ct": "spot", "price": price * 6 // 10, "available": True},
            {"zone": "zone-a", "ct": "on-demand", "price": price, "available": True},
            {"zone": "zone-b", "ct": "spot", "price": price * 7 // 10, "available": True}]})
    return out


# ------------------------------------------------------------------ base cluster of Frame.tla's behaviours
def frame_base():
    """n1, n2, n3: medium nodes (4 cpu) in one pool; p1 on n1 and p2 on n2 share a host port (they can never share a node),
    p1 prefers zone-b (a preference Karpenter relaxes when n1 is the candidate) and mounts a CSI volume; p3 is pending."""
    pools = [dc.pool("fp")]
    nodes = [dc.node("n1", "fp", "medium", zone="zone-a"), dc.node("n2", "fp", "medium", zone="zone-a"),
             dc.node("n3", "fp", "medium", zone="zone-b")]
    # every pod carries something the scheduler RELAXES when the pod does not fit at first: p1 several required OR-terms of which
    # the first can never be met, and a preference for a zone that does not exist; p2 preferred pod anti-affinity and a spread with
    # matchLabelKeys; p3 a ScheduleAnyway spread and preferred pod affinity
    pods = [dc.pod("p1", "n1", cpu=1500, ext={"hostPort": "8080", "preferZone": "zone-c", "pvc": "vol-p1", "requireZones": "zone-x|zone-a|zone-b"}),
            dc.pod("p2", "n2", cpu=1500, ext={"hostPort": "8080", "prefAntiAffinity": "p1", "spreadKeys": "p2"}),
            dc.pod("p3", "", cpu=1500, ext={"pvc": "vol-p3", "spreadZone": "p3", "prefAffinity": "p1"})]
    return pools, nodes, pods


def beh_scenario(beh, idx):
    """A behaviour of Frame.tla (TLC simulation of the closed model) -> steps of the disruption driver."""
    pools, nodes, pods = frame_base()
    if idx % 2 == 1:      # p2 also REQUIRES hostname anti-affinity against p1 (implied by their shared host port: nothing else changes)
        pods[1]["ext"]["antiAffinity"] = "p1"
    if idx % 3 == 1:      # p3 needs an extended resource only a capacity NodeOverlay provides
        pods[2]["ext"]["widgets"] = "1"
    by = {p["name"]: p for p in pods}
    steps = []
    for st in beh["steps"]:
        a = st["a"]
        if a == "Simulate":
            s = {"a": "Simulate", "value": st["cset"]}
            if st["k"] == 0:
                s["method"] = "cancelled"
            elif st["k"] < 3:
                s.update(method="deadline", d=st["k"])
            steps.append(s)
        elif a == "Bind":
            p = copy.deepcopy(by[st["pod"]])
            p["node"] = st["node"]
            by[st["pod"]] = p
            steps.append({"a": "SetPod", "pod": p})
        elif a == "Unbind":
            # the pod is evicted and its replacement is pending
            p = copy.deepcopy(by[st["pod"]])
            p["node"] = ""
            by[st["pod"]] = p
            steps.append({"a": "DeletePod", "pod": {"name": p["name"], "ns": "default"}})
            steps.append({"a": "SetPod", "pod": p})
        elif a in ("Mark", "Unmark"):
            steps.append({"a": a, "node": st["node"]})
        elif a == "Expire":
            steps.append({"a": "Tick", "d": 25})
        elif a == "NewDecision":
            steps.append({"a": "Method", "method": "multi"})
        elif a == "Pass":
            steps.append({"a": "Pass"})
        elif a == "Create":
            steps.append({"a": "Tick", "d": 1})     # (NodeClaim creation itself is outside both frames)
        else:
            raise ValueError("unknown Frame.tla step %r" % st)
    opts = {}
    overlays = []
    if idx % 2 == 1:
        # n2 (which runs p2, see above) lacks the hostname label - the kubelet has not set it yet -: the simulation resolves the
        # domains of a bound pod with required anti-affinity from the LIVE node
        nodes[1]["dropLabels"] = ["hostname"] if idx % 4 == 1 else ["hostname", "arch"]
    if idx % 3 == 1:
        # NodeOverlay feature gate: a price overlay from the start, a capacity overlay appearing (then changing) in the middle -
        # its first application falls into whatever simulation / pass comes next
        opts["nodeOverlay"] = True
        overlays = [overlay("ov-price", [("karpenter.sh/capacity-type", "In", ["spot"])], priceAdjustment="-10%", weight=5)]
        cap = overlay("ov-cap", [("karpenter.sh/nodepool", "In", ["fp"])], capacity={"example.com/widgets": "8"})
        steps.insert(len(steps) // 3, {"a": "SetOverlay", "overlay": cap})
        steps.insert(2 * len(steps) // 3, {"a": "SetOverlay", "overlay": dict(cap, capacity={"example.com/widgets": "16", "example.com/gadgets": "2"})})
    if idx % 3 == 2:      # CapacityBuffer virtual pods: long-lived pod objects in a cache shared by every pass and simulation
        steps.insert(0, buffer_step("buf", 2, {"requireZones": "zone-x|zone-b|zone-a", "preferZone": "zone-c", "spreadZone": "buf"}))
        opts["capacityBuffer"] = True
    sc = dc.scenario("beh:%d" % idx, pools, nodes, pods, [], steps, {"kind": "beh", "idx": idx}, options=opts)
    sc["catalog"] = catalog()
    if overlays:
        sc["overlays"] = overlays
    return sc


def overlay(name, reqs, weight=0, price="", priceAdjustment="", capacity=None):
    """A NodeOverlay of the disruption driver (requirements as (key, op, values))."""
    o = {"name": name, "requirements": [{"key": k, "op": op, "values": list(v)} for k, op, v in reqs]}
    if weight:
        o["weight"] = weight
    if price:
        o["price"] = price
    if priceAdjustment:
        o["priceAdjustment"] = priceAdjustment
    if capacity:
        o["capacity"] = dict(capacity)
    return o


def random_overlay(rng, name, pools=("pa", "pb")):
    sel = rng.choice([[("karpenter.sh/nodepool", "In", [rng.choice(pools)])], [("node.kubernetes.io/instance-type", "In", [rng.choice(["small", "medium", "large"])])],
                      [("topology.kubernetes.io/zone", "In", [rng.choice(["zone-a", "zone-b"])])], [("karpenter.sh/capacity-type", "In", [rng.choice(["spot", "on-demand"])])],
                      [("node.kubernetes.io/instance-type", "NotIn", ["small"]), ("karpenter.sh/nodepool", "In", [rng.choice(pools)])], []])
    kind = rng.choice(["cap", "cap", "price", "both"])
    kw = {"weight": rng.choice([0, 0, 3, 10])}
    if kind in ("cap", "both"):
        kw["capacity"] = rng.choice([{"example.com/widgets": "8"}, {"example.com/widgets": "4", "example.com/gadgets": "2"}, {"example.com/gadgets": "1"}])
    if kind in ("price", "both"):
        if rng.random() < 0.5:
            kw["priceAdjustment"] = rng.choice(["-10%", "+25%", "-0.01", "+0.5"])
        else:
            kw["price"] = rng.choice(["0.01", "0.3", "5"])
    return overlay(name, sel, **kw)


def buffer_step(name, n, ext, cpu=700):
    """Step CapacityBuffer: a PodTemplate + a ready CapacityBuffer with n replicas whose virtual pods carry relaxable constraints."""
    return {"a": "CapacityBuffer", "value": name, "n": n, "pod": dc.pod(name, "", cpu=cpu, labels={"app": name}, ext=ext)}


# ------------------------------------------------------------------ decisions with many consecutive simulations
def decision_scenarios(rng):
    """The C07/C06 cluster shapes: every method on its base cluster (single-node, multi-node binary search, emptiness,
    drift with replacements), plain and with churn during the validation wait (re-simulation on a changed cluster),
    followed by a controller round and the method again."""
    out = []
    churns = [[], ["nominated"], ["marked"], ["podDndTrue"], ["nodeDnd"], ["pdbZero"]]
    pres = [[], ["tgp"], ["pdbOk"], ["nominatedExpired"], ["podDndDurExpired"]]
    for m in METHODS:
        for pre in pres:
            for churn in churns:
                if churn and pre:
                    continue
                cell = {"m": m, "pre": pre, "churn": churn, "issued": True}
                sc = dc.cell_scenario(cell, rng, with_round=True, again=True)
                sc["name"] = "decision:" + sc["name"]
                sc["tags"] = dict(sc["tags"], kind="decision")
                out.append(sc)
    return out


EXTS = [{}, {"hostPort": "8080"}, {"hostPort": "9090"}, {"preferZone": "zone-b"}, {"preferZone": "zone-c"}, {"pvc": "v"},
        {"hostPort": "8080", "pvc": "v"}, {"antiAffinity": "web"}, {"spreadZone": "web"}, {"requireZone": "zone-a"},
        {"preferZone": "zone-c", "hostPort": "7070"},
        # relaxable content: required OR-terms whose first term cannot be met (here or anywhere), preferred pod (anti-)affinity,
        # ScheduleAnyway spreads, matchLabelKeys
        {"requireZones": "zone-x|zone-a|zone-b"}, {"requireZones": "zone-x|zone-y|zone-b"}, {"requireZones": "zone-b|zone-a"},
        {"requireZones": "zone-x|zone-a", "preferZone": "zone-c"}, {"prefAntiAffinity": "web"}, {"prefAffinity": "db"},
        {"spreadKeys": "web"}, {"spreadZone": "web", "prefAntiAffinity": "web", "requireZones": "zone-x|zone-b|zone-a"},
        {"requireZones": "zone-x|zone-a|zone-b", "hostPort": "8080", "spreadZone": "db"},
        # required hostname anti-affinity (the scheduler tracks the inverse on the LIVE node of every bound pod that has one)
        {"antiAffinity": "db"}, {"antiAffinity": "web", "prefAntiAffinity": "db"}, {"antiAffinity": "web", "spreadZone": "web"}]
DROPS = [["hostname"], ["hostname"], ["hostname"], ["hostname", "zone"], ["zone"], ["arch", "os"], ["hostname", "arch", "os", "zone"]]


def option_grid(sc):
    """The scenario under every option combination that selects different code paths of the scheduler: preference policy
    {Respect, Ignore} x minValues policy {Strict, BestEffort}."""
    out = []
    for pi in (False, True):
        for mv in ("Strict", "BestEffort"):
            v = copy.deepcopy(sc)
            v["options"] = dict(v.get("options") or {}, preferIgnore=pi, minValuesPolicy=mv)
            v["name"] = "%s/%s-%s" % (sc["name"], "Ignore" if pi else "Respect", mv)
            out.append(v)
    return out


def rich_scenario(rng, name):
    """Seeded larger cluster: 3-6 nodes in two pools and two zones; pods with host ports / volumes / preferences /
    anti-affinity / spread / required zone; pending pods (one of them invalid: it asks for a label Karpenter restricts);
    then a random sequence of simulations on random candidate sets (live, cancelled, timing out), all five methods,
    provisioning passes and real mutations in between."""
    pools = [dc.pool("pa", policy="WhenEmptyOrUnderutilized", ca=rng.choice([0, dc.CA])), dc.pool("pb", ca=rng.choice([0, dc.CA]))]
    if rng.random() < 0.3:      # a PreferNoSchedule taint on a pool template: the last relaxation adds a blanket toleration
        pools[rng.randrange(2)]["ext"] = {"preferNoSchedule": "x"}
    if rng.random() < 0.25:     # minValues on a pool requirement (Strict vs BestEffort differ)
        pools[rng.randrange(2)]["requirements"] = [{"key": "node.kubernetes.io/instance-type", "op": "Exists", "values": [], "minValues": rng.choice([2, 3])}]
    nodes, pods = [], []
    nn = rng.randint(3, 6)
    for j in range(nn):
        nm = "n%d" % j
        nodes.append(dc.node(nm, rng.choice(["pa", "pa", "pb"]), rng.choice(["small", "medium", "large", "large"]),
                             zone=rng.choice(["zone-a", "zone-b"]), ct=rng.choice(["on-demand", "on-demand", "spot"]),
                             drifted=rng.random() < 0.4, driftedAt=rng.choice([-1, 400, 700])))
        for q in range(rng.choice([0, 1, 1, 2])):
            ext = dict(rng.choice(EXTS))
            if "pvc" in ext:
                ext["pvc"] = "v-%d-%d" % (j, q)
            labels = {"app": rng.choice(["web", "web", "db"])}
            pods.append(dc.pod("p%d-%d" % (j, q), nm, cpu=rng.choice([200, 500, 900, 1500]), labels=labels,
                               owner=rng.choice(["replicaset", "replicaset", "statefulset"]), ext=ext))
    # nodes whose Node object LACKS well-known labels (the kubelet has not set them yet); one that lacks the hostname label runs a pod
    # with required anti-affinity (the scheduler resolves that pod's domains from the live node)
    for j, n in enumerate(nodes):
        if rng.random() < 0.3:
            n["dropLabels"] = list(rng.choice(DROPS))
            if "hostname" in n["dropLabels"] and rng.random() < 0.8:
                pods.append(dc.pod("g%d" % j, n["name"], cpu=100, labels={"app": rng.choice(["web", "db", "guard"])},
                                   ext={"antiAffinity": rng.choice(["web", "db", "none"])}))
    overlays_on = rng.random() < 0.4
    for q in range(rng.choice([0, 0, 1, 2])):
        ext = dict(rng.choice(EXTS))
        if overlays_on and rng.random() < 0.5:
            ext["widgets"] = rng.choice(["1", "2", "6"])
        if "pvc" in ext:
            ext["pvc"] = "v-pend-%d" % q
        pods.append(dc.pod("pend%d" % q, "", cpu=rng.choice([200, 900, 2500]), labels={"app": "web"}, ext=ext))
    if rng.random() < 0.3:
        pods.append(dc.pod("invalid", "", cpu=200, labels={"app": "db"}, ext={"badSelector": "x"}))
    names = [n["name"] for n in nodes]
    steps = []
    for _ in range(rng.randint(6, 12)):
        r = rng.random()
        if r < 0.45:
            cs = rng.sample(names, rng.randint(1, min(3, nn)))
            st = {"a": "Simulate", "value": ",".join(sorted(cs)), "n": rng.choice([1, 1, 2, 3])}
            mode = rng.choice(["", "", "", "cancelled", "deadline"])
            if mode:
                st["method"] = mode
                st["d"] = rng.choice([1, 2, 4])
            steps.append(st)
        elif r < 0.70:
            st = {"a": "Method", "method": rng.choice(METHODS)}
            if rng.random() < 0.2:     # the whole method under a context that is cancelled / expires after d polls
                st.update(value=rng.choice(["cancelled", "deadline"]), d=rng.choice([1, 3, 6, 12]))
            if rng.random() < 0.3:
                st["during"] = [rng.choice([{"a": "Nominate", "node": rng.choice(names)}, {"a": "Mark", "node": rng.choice(names)},
                                            {"a": "Tick", "d": 3}])]
            steps.append(st)
        elif r < 0.80:
            steps.append({"a": "Pass"})
        elif r < 0.86:
            steps.append({"a": rng.choice(["Mark", "Unmark", "Nominate"]), "node": rng.choice(names)})
        elif r < 0.92:
            steps.append({"a": "Tick", "d": rng.choice([1, 15, 25, 400])})
        else:
            bound = [p for p in pods if p["node"]]
            if bound:
                p = copy.deepcopy(rng.choice(bound))
                p["node"] = rng.choice(names)
                steps.append({"a": "SetPod", "pod": p})
    opts = {"spotToSpot": rng.random() < 0.3}
    overlays = []
    if overlays_on:
        # NodeOverlay feature gate: overlays from the start and overlays that appear / change / vanish between the simulations (the
        # FIRST application of a changed overlay falls into the next bracketed call)
        opts["nodeOverlay"] = True
        overlays = [random_overlay(rng, "ov%d" % i) for i in range(rng.choice([0, 1, 2]))]
        for i in range(rng.choice([1, 2, 3])):
            pos = rng.randint(0, max(0, len(steps) - 1))
            if rng.random() < 0.2:
                steps.insert(pos, {"a": "DeleteOverlay", "value": "ov%d" % rng.randrange(3)})
            else:
                steps.insert(pos, {"a": "SetOverlay", "overlay": random_overlay(rng, "ov%d" % rng.randrange(3))})
        for p in pods:
            if p["node"] and rng.random() < 0.25:
                p["ext"] = dict(p.get("ext") or {}, widgets=rng.choice(["1", "2"]))
    if rng.random() < 0.3:
        ext = dict(rng.choice([e for e in EXTS if e and "pvc" not in e and "hostPort" not in e]))
        steps.insert(0, buffer_step("buf", rng.choice([1, 2, 3]), ext, cpu=rng.choice([300, 900, 2500])))
        opts["capacityBuffer"] = True
    sc = dc.scenario(name, pools, nodes, pods, [], steps, {"kind": "rich"}, options=opts)
    if overlays:
        sc["overlays"] = overlays
    sc["catalog"] = catalog(rng.choice([("large", "small", "medium"), ("medium", "large", "small"), ("large", "medium", "small")]))
    return sc


# ------------------------------------------------------------------ scheduling-driver scenarios: NodeOverlays, nodes without hostname
def sched_overlays(rng, sc):
    """NodeOverlays for a scheduling-driver scenario (short keys): they appear right before the provisioning pass."""
    types = [t["name"] for t in sc["types"]] or ["t0"]
    pools = [p["name"] for p in sc["pools"]] or ["p0"]
    zones = sorted({o["zone"] for t in sc["types"] for o in t["offerings"]}) or ["a"]
    out = []
    for i in range(rng.choice([1, 1, 2, 3])):
        reqs = rng.choice([[{"key": "pool", "op": "In", "vals": [rng.choice(pools)], "n": 0}], [{"key": "it", "op": "In", "vals": [rng.choice(types)], "n": 0}],
                           [{"key": "zone", "op": "In", "vals": [rng.choice(zones)], "n": 0}], [{"key": "ct", "op": "In", "vals": [rng.choice(["spot", "od", "reserved"])], "n": 0}],
                           [{"key": "it", "op": "NotIn", "vals": [rng.choice(types)], "n": 0}, {"key": "ct", "op": "In", "vals": ["spot", "od"], "n": 0}], []])
        o = {"name": "ov%d" % i, "reqs": reqs, "weight": rng.choice([0, 0, 2, 9])}
        kind = rng.choice(["cap", "cap", "price", "both"])
        if kind in ("cap", "both"):
            o["capacity"] = rng.choice([{"example.com/widgets": "8"}, {"example.com/widgets": "4", "example.com/gadgets": "2"}])
        if kind in ("price", "both"):
            if rng.random() < 0.5:
                o["priceAdjustment"] = rng.choice(["-10%", "+25%", "-0.01", "+0.5"])
            else:
                o["price"] = rng.choice(["0.01", "0.3", "5"])
        out.append(o)
    return out


def sched_frame_variant(rng, sc, i):
    """Every third scheduling scenario gets NodeOverlays; every second one has Node objects without the hostname label, each running a
    pod with required hostname anti-affinity (in place: the number of scenarios stays the same)."""
    if i % 3 == 0:
        sc["overlays"] = sched_overlays(rng, sc)
        sc["name"] += "+ov"
    if i % 2 == 1:
        hit = False
        for n in sc["nodes"]:
            if n["stage"] != "claimonly" and rng.random() < 0.6:
                n["noHost"] = True
                hit = True
                labels = dict(rng.choice([p.get("labels") or {} for p in sc["pods"]] or [{}]))
                sc["pods"].append({"name": "guard-" + n["name"], "ns": "default", "node": n["name"], "owner": "rs", "cpu": 10, "mem": 8, "created": 0,
                                   "labels": {"app": "guard"}, "sel": {}, "terms": [], "pref": [], "tol": [], "ports": [], "vols": [], "aff": [],
                                   "anti": [{"key": "host", "sel": labels or {"app": "guard"}, "ns": [], "nsAll": False, "weight": 0, "nsSel": {}}],
                                   "prefAff": [], "prefAnti": [], "spread": [], "terminating": False, "phase": ""})
        if hit:
            sc["name"] += "+nh"
    return sc


# ------------------------------------------------------------------ summaries
def summarise(files):
    """Per trace: judged brackets by call, what the bracketed calls did, which sections changed where change is allowed
    (evidence that the projection is sensitive), which items changed inside pause/resume windows."""
    out = []
    for f in files:
        cur, base, paused = None, None, None
        for line in open(f):
            if '"e":"Cfg"' in line[:40] or line.startswith('{"e":"Cfg"') or '"e":"Cfg"' in line:
                ev = json.loads(line)
                if ev.get("e") == "Cfg":
                    cur = {"name": ev.get("name", "?"), "file": f, "judged": {}, "placed_existing": 0, "placed_new": 0, "cmds": 0,
                           "sims": 0, "sim_errs": 0, "allowed_changes": {}, "window_changes": {}, "panics": 0}
                    out.append(cur)
                    base = paused = None
                    continue
            if cur is None:
                continue
            if '"e":"Snapshot"' in line:
                ev = json.loads(line)
                ph = ev["phase"]
                if ph == "pre":
                    base, call = ev, ev["call"]
                    cur["_call"] = call
                elif ph in ("rebase", "pause", "post") and base is not None:
                    call = cur.get("_call", "?")
                    if ph != "rebase":
                        cur["judged"][call] = cur["judged"].get(call, 0) + 1
                    for sec in ("node", "cache", "api", "catalog", "instances"):
                        for k, it in ev[sec].items():
                            b = base[sec].get(k)
                            if b is None or b["v"] != it["v"]:
                                key = "%s:%s:%s" % (call, sec, it["c"])
                                cur["allowed_changes"][key] = cur["allowed_changes"].get(key, 0) + 1
                    if ph == "pause":
                        paused = ev
                        base = None
                    elif ph == "rebase":
                        base = ev
                    else:
                        base = None
                elif ph == "resume":
                    if paused is not None:
                        for sec in ("node", "cache", "api"):
                            for k, it in ev[sec].items():
                                b = paused[sec].get(k)
                                if b is None or b["v"] != it["v"]:
                                    key = "%s:%s" % (sec, it["c"])
                                    cur["window_changes"][key] = cur["window_changes"].get(key, 0) + 1
                    base, paused = ev, None
            elif '"e":"Sim"' in line:
                ev = json.loads(line)
                cur["sims"] += 1
                cur["placed_existing"] += ev["onExisting"]
                cur["placed_new"] += ev["onNew"]
                cur["sim_errs"] += ev["err"] != "-"
                cur["panics"] += bool(ev.get("panic"))
            elif '"e":"Cmd"' in line or '"e":"QCmd"' in line:
                ev = json.loads(line)
                cur["cmds"] += 1
                cur["placed_existing"] += sum(len(x["pods"]) for x in ev.get("existing", []))
                cur["placed_new"] += sum(len(x["pods"]) for x in ev.get("replacements", []))
            elif '"e":"Results"' in line:
                ev = json.loads(line)
                cur["placed_existing"] += sum(len(x["pods"]) for x in ev.get("existing", []))
                cur["placed_new"] += sum(len(x["pods"]) for x in ev.get("claims", []))
            elif '"e":"Panic"' in line:
                cur["panics"] += 1
            elif '"nodeoverlay-error"' in line:
                cur["overlay_errs"] = cur.get("overlay_errs", 0) + 1
    for s in out:
        s.pop("_call", None)
    return out
