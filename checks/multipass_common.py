"""Multi-round provisioning: MultiPass.tla bound to the real code (C04 and the dynamic-limits stage of C03).

Pipeline (one call of `pipeline(run, prop)`):
  1. closed model MultiPass.tla (scenario scope x every interleaving of passes with the life of the NodeClaims they create,
     every launch choice) must satisfy the C04 / C03 invariants in the semantics the statements need; every spec mutation
     (MultiPass_Weak*.cfg) and the pinned tree's semantics where it differs (MultiPass_Code*.cfg) must be rejected by TLC -
     each rejection prints its history, which becomes a behaviour below;
  2. behaviours: TLC enumerates every driver-level history up to a depth on a focus scope, simulates deep random ones on
     the full scope, plus the printed counterexamples; a few hand-written larger ones (checks/witness/MP-*.json);
  3. harness/drivers/multipass replays them on the REAL Provisioner.Reconcile (batcher, Synced gate, Schedule,
     CreateNodeClaims), the real nodeclaim lifecycle controller (launch with the behaviour's explicit provider choice,
     registration, initialization) and the real informer controllers;
  4. MultiPass_Trace.tla judges every recorded trace (guards of MultiPassGuards.tla over the ground truth).
"""
import concurrent.futures as cf
import glob
import json
import os
import random
import re
import time

import vlib

MAP_FIELDS = {"labels", "sel"}
FLAGS = ("W_NoSyncGate = FALSE  W_SubMin = FALSE  W_SubDominating = FALSE  W_StartupBlocks = FALSE  W_CountMarked = FALSE  W_ZeroSkips = FALSE  "
         "W_NoZeroFallback = FALSE  W_DaemonTwice = FALSE  W_SyncBeforeBatch = FALSE  C_NodesPerPass = FALSE  C_OverrideBase = FALSE")
INVS = ("TypeOK Inv_C04_NoNeedlessOpen Inv_C04_Idempotent Inv_C04_InflightFits Inv_C04_MarkedNotCapacity Inv_C04_PassOnlyWhenSynced "
        "Inv_C03_PoolCapacity Inv_C03_OpenWithinLimits")
# spec mutations / pinned-tree semantics TLC must reject: cfg -> set of acceptable violated invariants
WEAK = {
    "MultiPass_WeakNoSyncGate.cfg": {"Cex_C04_PassOnlyWhenSynced", "Cex_C04_Idempotent", "Cex_C04_NoNeedlessOpen"},
    "MultiPass_WeakSyncBeforeBatch.cfg": {"Cex_C04_PassOnlyWhenSynced", "Cex_C04_Idempotent", "Cex_C04_NoNeedlessOpen"},
    "MultiPass_WeakSubMin.cfg": {"Cex_C03_OpenWithinLimits", "Cex_C03_PoolCapacity"},
    "MultiPass_WeakSubDominating.cfg": {"Cex_C03_OpenWithinLimits", "Cex_C03_PoolCapacity"},
    "MultiPass_WeakStartupBlocks.cfg": {"Cex_C04_NoNeedlessOpen", "Cex_C04_Idempotent"},
    "MultiPass_WeakCountMarked.cfg": {"Cex_C04_MarkedNotCapacity"},
    "MultiPass_WeakZeroSkips.cfg": {"Cex_C03_OpenWithinLimits", "Cex_C03_PoolCapacity"},
    "MultiPass_WeakNoZeroFallback.cfg": {"Cex_C04_NoNeedlessOpen", "Cex_C04_Idempotent"},
    "MultiPass_WeakDaemonTwice.cfg": {"Cex_C04_NoNeedlessOpen", "Cex_C04_Idempotent"},
    "MultiPass_CodeNodesPerPass.cfg": {"Cex_C03_PoolCapacity"},
    "MultiPass_CodeOverrideBase.cfg": {"Cex_C03_PoolCapacity"},
}

# scope per property and tier.  mc: exhaustive closed model; cov: coverage run; enum: exhaustive behaviour enumeration
# (focus scope, depth); sim: simulated behaviours (full scope)
FULL = "Catalogs = {1, 2, 3}  Limits = {0, 1, 2, 3, 4, 5}  Daemons = {0, 1}  Batches = {1, 2, 3, 4, 5, 6, 7}  Laters = {0, 1, 2, 3}"
SCOPE = {
    ("C04", "quick"): dict(mc="Catalogs = {1, 2}  Limits = {0}  Daemons = {1}  Batches = {2, 7}  Laters = {0, 2}", mc_steps=7,
                           enum="Catalogs = {1}  Limits = {0}  Daemons = {1}  Batches = {2, 7}  Laters = {1}", enum_steps=4, enum_keep=300,
                           sim=500, sim_steps=14, explore=200),
    ("C04", "thorough"): dict(mc="Catalogs = {1, 2, 3}  Limits = {0, 2, 4}  Daemons = {0, 1}  Batches = {2, 5, 7}  Laters = {0, 1, 2}", mc_steps=8, mc_foreign=False,
                              mc2="Catalogs = {1, 2}  Limits = {0, 2}  Daemons = {1}  Batches = {2, 7}  Laters = {0, 2}", mc2_steps=7,
                              enum="Catalogs = {1, 2}  Limits = {0, 2}  Daemons = {1}  Batches = {2, 7}  Laters = {1}", enum_steps=5, enum_keep=4000,
                              sim=5000, sim_steps=16, explore=4000),
    ("C03", "quick"): dict(mc="Catalogs = {1, 3}  Limits = {2, 4, 5}  Daemons = {1}  Batches = {2, 6}  Laters = {0, 2}", mc_steps=6,
                           enum="Catalogs = {1}  Limits = {2, 3}  Daemons = {1}  Batches = {2}  Laters = {3}", enum_steps=4, enum_keep=150,
                           sim=300, sim_steps=12, explore=200, sim_scope="Catalogs = {1, 2, 3}  Limits = {1, 2, 3, 4, 5}  Daemons = {0, 1}  Batches = {1, 2, 3, 4, 5, 6, 7}  Laters = {0, 1, 2, 3}"),
    ("C03", "thorough"): dict(mc="Catalogs = {1, 2, 3}  Limits = {1, 2, 3, 4, 5}  Daemons = {1}  Batches = {1, 2, 4, 6}  Laters = {0, 2, 3}", mc_steps=7, mc_foreign=False,
                              mc2="Catalogs = {1, 3}  Limits = {2, 4, 5}  Daemons = {1}  Batches = {2, 6}  Laters = {0, 2}", mc2_steps=6,
                              enum="Catalogs = {1, 3}  Limits = {2, 3, 5}  Daemons = {1}  Batches = {2, 6}  Laters = {3}", enum_steps=5, enum_keep=3000,
                              sim=3000, sim_steps=16, explore=3000, sim_scope="Catalogs = {1, 2, 3}  Limits = {1, 2, 3, 4, 5}  Daemons = {0, 1}  Batches = {1, 2, 3, 4, 5, 6, 7}  Laters = {0, 1, 2, 3}"),
}


def fix_maps(x, key=None):
    """TLC prints an empty function as []; scenario map fields must be JSON objects"""
    if isinstance(x, dict):
        return {k: fix_maps(v, k) for k, v in x.items()}
    if isinstance(x, list):
        if not x and key in MAP_FIELDS:
            return {}
        return [fix_maps(v) for v in x]
    return x


ALL_FORMS = "AllowForeign = TRUE  Resyncs = {FALSE, TRUE}  EphForms = {1, 2, 3, 4, 5, 6, 7}  StForms = {0, 1, 2}"
ONE_FORM = "AllowForeign = TRUE  Resyncs = {FALSE}  EphForms = {2}  StForms = {2}"      # closed-model runs: the forms only show in the history (hidden by the VIEW)


def write_cfg(run, name, scope, steps, spec_lines, forms=ONE_FORM):
    with open(os.path.join(run.specdir, name), "w") as f:
        f.write("CONSTANTS %s\nCONSTANTS MaxRounds = 3  MaxClaims = 3  MaxSteps = %d  %s\nCONSTANTS %s\n%s\n" % (scope, steps, forms, FLAGS, spec_lines))
    return name


def _key(b):
    return json.dumps(b, sort_keys=True)


def dedupe(behs):
    seen, out = set(), []
    for b in behs:
        k = _key(b)
        if k not in seen:
            seen.add(k)
            out.append(b)
    return out


def closed_models(run, prop):
    """closed model + vacuity; returns the counterexample behaviours printed by the rejected configurations"""
    sc = SCOPE[(prop, run.tier)]
    dev = os.environ.get("VERIF_DEV")
    skip = bool(os.environ.get("VERIF_SKIP_MODEL"))      # developer aid for mutation runs, never used by registered commands
    cov_seen, cov_zero = set(), set()

    def note_cov(r):
        for cm in re.finditer(r"^<(\w+) line \d+, col \d+ to line \d+, col \d+ of module MultiPass>: (\d+):(\d+)$", r.stdout, re.M):
            (cov_seen if int(cm.group(3)) > 0 else cov_zero).add(cm.group(1))

    jobs = []
    if not skip:
        # the main exhaustive run; in the thorough tier the foreign-create dimension (another controller stores a NodeClaim inside a
        # batching window) is explored exhaustively in a second run on a sub-scope (mc2) and stays in every generated behaviour
        forms = ONE_FORM if sc.get("mc_foreign", True) else ONE_FORM.replace("AllowForeign = TRUE", "AllowForeign = FALSE")
        write_cfg(run, "MultiPass_MC_run.cfg", sc["mc"], sc["mc_steps"], "SPECIFICATION Spec\nVIEW view\nINVARIANTS " + INVS, forms=forms)
        jobs.append(("mc", lambda: run.closed_model("MultiPass", "MultiPass_MC_run.cfg", workers=4 if dev else 8, heap="4g" if dev else "8g",
                                                    timeout=5400)))
        if sc.get("mc2"):
            write_cfg(run, "MultiPass_MC2_run.cfg", sc["mc2"], sc["mc2_steps"], "SPECIFICATION Spec\nVIEW view\nINVARIANTS " + INVS)
            jobs.append(("mc2", lambda: run.closed_model("MultiPass", "MultiPass_MC2_run.cfg", workers=4, heap="4g", timeout=5400)))
        write_cfg(run, "MultiPass_Cov_run.cfg", "Catalogs = {1}  Limits = {2}  Daemons = {1}  Batches = {2}  Laters = {1}", 6,
                  "SPECIFICATION Spec\nVIEW view\nINVARIANTS " + INVS)
        jobs.append(("cov", lambda: run.tlc("MultiPass", "MultiPass_Cov_run.cfg", workers=2, coverage=True, timeout=1500, heap="3g")))
    for cfg in WEAK:
        jobs.append(("weak:" + cfg, lambda cfg=cfg: run.tlc("MultiPass", cfg, workers=1, expect_violation=True, collect_beh=True, timeout=900,
                                                            heap="2g")))
    res = {}
    with cf.ThreadPoolExecutor(max_workers=4 if dev else 6) as ex:
        futs = {}
        for name, fn in jobs:
            futs[name] = ex.submit(fn)
            time.sleep(0.3)
        for name, f in futs.items():
            res[name] = f.result()
    if not skip:
        r = res["cov"]
        if not r.ok:
            raise vlib.InfraError("coverage run of the closed model failed: %s" % (r.violated or r.error))
        note_cov(r)
        never = sorted(a for a in cov_zero - cov_seen if a not in ("Init",))
        if never:
            raise vlib.InfraError("vacuous closed model, actions never taken: %s" % never)
        run.extra_cov["actions_covered"] = sorted(cov_seen)
    cex = []
    for cfg, want in WEAK.items():
        wk = res["weak:" + cfg]
        if wk.violated not in want:
            raise vlib.InfraError("spec mutation %s not rejected by TLC as expected (wanted one of %s, got %s)" % (cfg, sorted(want), wk.violated or wk.error))
        if not wk.printed:
            raise vlib.InfraError("%s: TLC printed no counterexample history" % cfg)
        b = fix_maps(wk.printed[0])
        b["name"] = "cex:%s/%s" % (cfg[len("MultiPass_"):-4], b["name"])
        cex.append(b)
    run.notes.append("spec mutations / pinned-tree semantics rejected by TLC: " + ", ".join(sorted(c[len("MultiPass_"):-4] for c in WEAK)))
    return cex


def complete(b):
    """A TLC history may stop right after the step that matters; let every behaviour end with the remaining launches and a
    delivered pass, so that Inv_C03_PoolCapacity / the in-flight guards see the consequences (the driver skips what does not
    apply)."""
    steps = list(b["steps"])
    blank = dict(BLANK)
    pol = ("maxcpu", "maxmem", "first")[sum(len(s["a"]) for s in steps) % 3]
    steps.append(dict(blank, a="LaunchRest", type=pol))
    steps.append(dict(blank, a="Pass", deliver=True, resync=len(steps) % 2 == 0))
    return dict(b, steps=steps)


def generate(run, prop, rng):
    sc = SCOPE[(prop, run.tier)]
    dev = os.environ.get("VERIF_DEV")
    write_cfg(run, "MultiPass_Enum_run.cfg", sc["enum"], sc["enum_steps"], "SPECIFICATION Spec\nINVARIANTS GenPrint", forms="AllowForeign = TRUE  Resyncs = {FALSE, TRUE}  EphForms = {2, 5}  StForms = {0, 2}")
    write_cfg(run, "MultiPass_Sim_run.cfg", sc.get("sim_scope", FULL), sc["sim_steps"], "SPECIFICATION Spec\nINVARIANTS GenPrint", forms=ALL_FORMS)
    with cf.ThreadPoolExecutor(max_workers=2) as ex:
        fe = ex.submit(lambda: run.generate("MultiPass", "MultiPass_Enum_run.cfg", workers=2 if dev else 4, timeout=2400, heap="4g"))
        time.sleep(0.3)
        fs = ex.submit(lambda: run.generate("MultiPass", "MultiPass_Sim_run.cfg", workers=1, simulate="num=%d" % sc["sim"], depth=80,
                                            timeout=2400, heap="3g"))
        enum, sim = fe.result(), fs.result()
    enum = dedupe([fix_maps(b) for b in enum])
    sim = dedupe([fix_maps(b) for b in sim])[:sc["sim"]]
    if not enum or not sim:
        raise vlib.InfraError("TLC generated no behaviours (enum=%d sim=%d)" % (len(enum), len(sim)))
    total_enum = len(enum)
    exhaustive = True
    if len(enum) > sc["enum_keep"]:
        enum = rng.sample(enum, sc["enum_keep"])
        exhaustive = False
    for i, b in enumerate(enum):
        b["name"] = "enum-%d/%s" % (i, b["name"])
    for i, b in enumerate(sim):
        b["name"] = "sim-%d/%s" % (i, b["name"])
    run.extra_cov.update({"tlc_enumerated_behaviours": total_enum, "tlc_enumerated_replayed": len(enum), "tlc_simulated_behaviours": len(sim),
                          "enumeration_depth": sc["enum_steps"], "simulation_depth": sc["sim_steps"]})
    return enum, sim, exhaustive


# ---------------------------------------------------------------------------------------------- seeded explorer
# scopes larger than TLC's: 2-4 instance types (incomparable shapes, kube-reserved overhead, unavailable and capacity-override
# offerings), 1-2 pools (taints, startup taints, zone requirement, limits on cpu / memory / nodes), 0-2 daemonsets, 2-5 + 0-2 pods
# (tolerations, zone / instance-type selectors), scripted random histories with explorer addressing ("#k", type "?").
SHAPES = [(2000, 4096), (4000, 4096), (2000, 8192), (4000, 8192), (8000, 8192), (4000, 16384), (1000, 2048)]
PODS = [(300, 256), (600, 512), (900, 1500), (1500, 1024), (1700, 3000), (1900, 700), (2500, 2048), (3100, 2048), (3500, 6000)]
DEDICATED = {"key": "dedicated", "value": "infra", "effect": "NoSchedule"}
STARTUP = {"key": "startup.example/agent", "value": "", "effect": "NoSchedule"}
TOL_DED = {"key": "dedicated", "op": "Equal", "value": "infra", "effect": "NoSchedule"}
TOL_ALL = {"key": "", "op": "Exists", "value": "", "effect": ""}
BLANK = {"c": "-", "deliver": False, "type": "-", "off": 0, "labels": False, "zero": False, "eph": False, "ephv": 0, "stv": 0, "resync": False, "pod": "-"}


def _pod(name, cpu, mem, created):
    return {"name": name, "ns": "default", "node": "", "owner": "rs", "cpu": cpu, "mem": mem, "created": created, "labels": {}, "sel": {},
            "terms": [], "pref": [], "tol": [], "ports": [], "vols": [], "aff": [], "anti": [], "prefAff": [], "prefAnti": [], "spread": []}


def explore(rng, name):
    types = []
    for i, (cpu, mem) in enumerate(rng.sample(SHAPES, rng.choice([2, 2, 3, 3, 4]))):
        t = {"name": "t%d" % i, "cpu": cpu, "mem": mem, "pods": rng.choice([110, 110, 110, 4]), "labels": {}, "ovCpu": rng.choice([0, 0, 100]),
             "ovMem": rng.choice([0, 0, 256]), "offerings": []}
        for z in ("a", "b"):
            if rng.random() < 0.8:
                t["offerings"].append({"zone": z, "ct": "od", "price": cpu // 40 + rng.randrange(5), "available": rng.random() < 0.85, "rid": "",
                                       "rcap": 0, "cpuOv": 0, "memOv": 0})
        if not any(o["available"] for o in t["offerings"]):
            t["offerings"].append({"zone": "a", "ct": "spot", "price": cpu // 60, "available": True, "rid": "", "rcap": 0, "cpuOv": 0, "memOv": 0})
        if rng.random() < 0.25:
            o = rng.choice(t["offerings"])
            o["available"] = True
            o["cpuOv"] = rng.choice([cpu * 2, cpu // 2])
            o["memOv"] = rng.choice([0, 0, mem * 2])
        types.append(t)
    pools = []
    for i in range(rng.choice([1, 1, 1, 2])):
        lim = {"cpu": 0, "mem": 0, "nodes": -1}
        r = rng.random()
        if i == 0 and r < 0.8:
            if rng.random() < 0.7:
                lim["cpu"] = rng.choice([2000, 4000, 6000, 8000, 10000, 12000])
            if rng.random() < 0.5:
                lim["mem"] = rng.choice([4096, 8192, 12288, 16384, 24576])
            if rng.random() < 0.3:
                lim["nodes"] = rng.choice([1, 2, 3])
        pools.append({"name": "p%d" % i, "weight": 10 if i == 0 and rng.random() < 0.5 else 0, "reqs": [], "labels": {},
                      "taints": [dict(DEDICATED)] if rng.random() < 0.25 else [], "startup": [dict(STARTUP)] if rng.random() < 0.7 else [],
                      "limits": lim, "types": []})
        if rng.random() < 0.2:
            pools[-1]["reqs"].append({"key": "zone", "op": "In", "vals": [rng.choice(["a", "b"])], "n": 0, "min": 0})
    dss = []
    for i in range(rng.choice([0, 1, 1, 2])):
        dss.append({"name": "ds%d" % i, "ns": "kube-system", "cpu": rng.choice([100, 200, 300]), "mem": rng.choice([64, 128, 512]), "sel": {}, "terms": [],
                    "tol": [dict(TOL_ALL)] if i == 0 or rng.random() < 0.5 else [], "ports": []})
    tainted = any(p["taints"] for p in pools)

    def mkpod(j):
        cpu, mem = rng.choice(PODS)
        p = _pod("w%d" % j, cpu, mem, j)
        if tainted and rng.random() < 0.7:
            p["tol"] = [dict(TOL_DED)]
        r = rng.random()
        if r < 0.12:
            p["sel"] = {"zone": rng.choice(["a", "b"])}
        elif r < 0.2:
            p["sel"] = {"it": rng.choice(types)["name"]}
        return p
    n0, n1 = rng.choice([2, 3, 3, 4, 5]), rng.choice([0, 1, 1, 2])
    pods = [mkpod(j + 1) for j in range(n0)]
    later = [mkpod(n0 + j + 1) for j in range(n1)]
    steps, arrived = [], 0
    stage = {}          # explorer's guess of each NodeClaim's stage (the driver skips what does not apply)
    names = [p["name"] for p in pods + later]
    for rnd in range(rng.choice([2, 3, 3, 4])):
        # (another controller stores a NodeClaim for some pod inside the batching window of about every sixth pass)
        steps.append(dict(BLANK, a="Pass", deliver=True, resync=rng.random() < 0.5, pod=rng.choice(names) if rng.random() < 0.17 else "-"))
        r = rng.random()
        if r < 0.3:
            steps.append(dict(BLANK, a="Pass", deliver=False))
        elif r < 0.45:              # restart while the NodeClaims of the pass are stored but not launched
            steps.append(dict(BLANK, a="Restart"))
            steps.append(dict(BLANK, a="Pass", deliver=rng.random() < 0.8))
        for k in range(4):
            c = "#%d" % k
            st = stage.get(k, 0)
            for _ in range(rng.choice([0, 1, 1, 2, 3, 6])):
                if st == 0:
                    steps.append(dict(BLANK, a="Launch", c=c, type="?", off=rng.randrange(8)))
                elif st == 1:
                    ev = rng.choice([0, 0, 1, 2, 3, 4, 5, 6, 7])
                    steps.append(dict(BLANK, a="Appear", c=c, labels=rng.random() < 0.5, zero=rng.random() < 0.5, eph=ev > 0, ephv=ev,
                                      stv=rng.randrange(3)))
                elif st == 2:
                    steps.append(dict(BLANK, a="Register", c=c))
                elif st == 3:
                    steps.append(dict(BLANK, a=rng.choice(["Partial", "Daemon", "Init"]), c=c))
                    if steps[-1]["a"] != "Init":
                        st -= 1
                elif st == 4:
                    steps.append(dict(BLANK, a=rng.choice(["Bind", "Daemon", "Bind"]), c=c))
                    st -= 1 if rng.random() < 0.5 else 0
                st = min(st + 1, 5)
                r = rng.random()
                if r < 0.15:
                    steps.append(dict(BLANK, a="Pass", deliver=True, resync=rng.random() < 0.5))
                elif r < 0.22:      # Karpenter restarts at this point of the NodeClaim's life; a pass is the first thing the new process does
                    steps.append(dict(BLANK, a="Restart"))
                    steps.append(dict(BLANK, a="Pass", deliver=rng.random() < 0.8))
            stage[k] = st
        if arrived < len(later) and rng.random() < 0.6:
            steps.append(dict(BLANK, a="AddPod", pod=later[arrived]["name"]))
            arrived += 1
        if rng.random() < 0.3:
            steps.append(dict(BLANK, a=rng.choice(["Mark", "Delete"]), c="#%d" % rng.randrange(3)))
        if rng.random() < 0.15:
            steps.append(dict(BLANK, a="Restart"))
            if rng.random() < 0.5:
                steps.append(dict(BLANK, a="Pass", deliver=False))
    scn = {"options": {"create": True}, "types": types, "pools": pools, "nodes": [], "ds": dss, "scs": [], "pvs": [], "pvcs": [], "pods": pods}
    return {"name": name, "scenario": scn, "later": later, "steps": steps}


def systematic():
    """Deterministic grids over ONE small scenario (two pods that share a NodeClaim, one daemonset, a startup taint), always replayed:
    (a) a pass re-run while the in-flight node carries each known ephemeral taint / startup taint in each MatchTaint-equal form
        (other value, timeAdded set) at the appeared and the registered stage;
    (b) Karpenter restarts at every point of the NodeClaim's life (stored-unlaunched, launched, appeared, registered, initialized),
        the new process is fully re-hydrated through the informers (or not at all) and a pass is the first thing it does."""
    off = {"zone": "a", "ct": "od", "price": 100, "available": True, "rid": "", "rcap": 0, "cpuOv": 0, "memOv": 0}
    scn = {"options": {"create": True},
           "types": [{"name": "A", "cpu": 4000, "mem": 4096, "pods": 110, "labels": {}, "ovCpu": 0, "ovMem": 0, "offerings": [dict(off)]},
                     {"name": "B", "cpu": 2000, "mem": 8192, "pods": 110, "labels": {}, "ovCpu": 0, "ovMem": 0, "offerings": [dict(off, price=90)]}],
           "pools": [{"name": "p", "weight": 0, "reqs": [], "labels": {}, "taints": [], "startup": [dict(STARTUP)],
                      "limits": {"cpu": 0, "mem": 0, "nodes": -1}, "types": []}],
           "nodes": [], "ds": [{"name": "ds0", "ns": "kube-system", "cpu": 200, "mem": 128, "sel": {}, "terms": [], "tol": [dict(TOL_ALL)], "ports": []}],
           "scs": [], "pvs": [], "pvcs": [], "pods": [_pod("w1", 1500, 1024, 1), _pod("w2", 1500, 1024, 2)]}
    c = "default/w1"
    P = lambda d=True: dict(BLANK, a="Pass", deliver=d)
    launch = dict(BLANK, a="Launch", c=c, type="A", off=0)
    out = []
    for ev in range(0, 8):
        for sv in range(0, 3):
            for reg in (False, True):
                steps = [P(), launch, dict(BLANK, a="Appear", c=c, labels=reg, zero=(ev + sv) % 2 == 1, eph=ev > 0, ephv=ev, stv=sv)]
                if reg:
                    steps.append(dict(BLANK, a="Register", c=c))
                steps.append(P())
                out.append({"name": "sys-taint-e%d-s%d-%s" % (ev, sv, "registered" if reg else "appeared"), "scenario": scn, "later": [], "steps": steps})
    life = [("created", []), ("launched", [launch]),
            ("appeared", [launch, dict(BLANK, a="Appear", c=c, eph=True, ephv=2, stv=2)]),
            ("registered", [launch, dict(BLANK, a="Appear", c=c, labels=True, eph=True, ephv=1), dict(BLANK, a="Register", c=c)]),
            ("initialized", [launch, dict(BLANK, a="Appear", c=c, labels=True), dict(BLANK, a="Register", c=c), dict(BLANK, a="Init", c=c)])]
    for stage, pre in life:
        for mid in (False, True):          # with / without a delivered pass between the lifecycle steps and the restart
            for first in (True, False):    # the first pass of the new process: fully re-hydrated / nothing delivered yet
                steps = [P()] + pre + ([P()] if mid else []) + [dict(BLANK, a="Restart"), P(first)] + ([] if first else [P()])
                out.append({"name": "sys-restart-%s%s-%s" % (stage, "-mid" if mid else "", "hydrated" if first else "cold"), "scenario": scn,
                            "later": [], "steps": steps})
    # (c) the LAST state event of the node comes from the NodeClaim informer (condition write / resync) after its daemonset pod
    #     started, and the waiting pod fits only if the running daemon's overhead is not reserved a second time
    def scn2(cpus):
        x = json.loads(json.dumps(scn))
        x["pods"] = [_pod("w%d" % (i + 1), c, m, i + 1) for i, (c, m) in enumerate(cpus)]
        return x
    for tag, pods_, ty, both in (("B-tight", [(1700, 3000), (1700, 3000)], "B", False), ("A-exact", [(1900, 1024), (1900, 1024)], "A", True)):
        for stage in ("registered", "initialized"):
            for resync in (True, False):
                steps = [P(), dict(BLANK, a="Launch", c=c, type=ty, off=0)]
                if not both:
                    steps.append(dict(BLANK, a="Launch", c="default/w2", type="B", off=0))
                steps += [dict(BLANK, a="Appear", c=c, labels=True), dict(BLANK, a="Register", c=c)]
                if stage == "initialized":
                    steps.append(dict(BLANK, a="Init", c=c))
                steps += [dict(BLANK, a="Daemon", c=c), dict(P(), resync=resync)]
                if stage == "initialized":       # ... and again once the pods are bound next to the daemon and one more pod arrives
                    steps += [dict(BLANK, a="Bind", c=c), dict(P(), resync=resync)]
                out.append({"name": "sys-daemon-%s-%s-%s" % (tag, stage, "resync" if resync else "podlast"), "scenario": scn2(pods_), "later": [],
                            "steps": steps})
    # (d) another controller stores a NodeClaim for the pending pod inside the batching window of the pass - at the start and
    #     while an earlier NodeClaim is at each stage of its life
    for stage, pre in life[1:]:
        x = scn2([(1500, 1024), (1500, 1024)])
        out.append({"name": "sys-foreign-" + stage, "scenario": x, "later": [_pod("w3", 3100, 2048, 3)],
                    "steps": [P()] + pre + [P(), dict(BLANK, a="AddPod", pod="w3"), dict(P(), pod="w3")]})
    out.append({"name": "sys-foreign-first", "scenario": scn, "later": [], "steps": [dict(P(), pod="w1")]})
    return out


def witnesses():
    out = []
    for f in sorted(glob.glob(os.path.join(vlib.ROOT, "checks", "witness", "MP-*.json"))):
        b = json.load(open(f))
        b["name"] = "witness:" + os.path.basename(f)[:-5]
        out.append(b)
    return out


def run_driver(run, behs, tag, procs):
    chunks = vlib.shard(behs, procs)
    files, sums = [], []
    run.build_drv()

    def one(i_chunk):
        i, chunk = i_chunk
        path = os.path.join(run.work, "%s-%02d.beh.ndjson" % (tag, i))
        vlib.write_ndjson(path, chunk)
        out = run.drv("multipass", ["-in", path, "-out", os.path.join(run.work, "traces"), "-shards", max(1, len(chunk) // 150),
                                    "-prefix", "%s-%02d" % (tag, i)], timeout=3000)
        return json.loads(out.strip().splitlines()[-1])

    with cf.ThreadPoolExecutor(max_workers=procs) as ex:
        for out in ex.map(one, list(enumerate(chunks))):
            files += out["files"]
            sums += out["summaries"]
            if not out.get("hook"):
                raise vlib.InfraError("the tree under test does not carry hook H1 (repo-patches/hook-H1.patch): no scheduler decisions to judge")
    return files, sums


def pipeline(run, prop):
    dev = os.environ.get("VERIF_DEV")
    rng = random.Random(run.seed)
    procs = 4 if dev else min(12, vlib.NCPU)
    cex = closed_models(run, prop)
    enum, sim, exhaustive = generate(run, prop, rng)
    expl = [explore(rng, "x-%d-%d" % (run.seed, i)) for i in range(SCOPE[(prop, run.tier)]["explore"])]
    behs = [complete(b) for b in cex + witnesses() + systematic() + enum + sim + expl]
    files, sums = run_driver(run, behs, "mp-" + prop.lower(), procs)
    bad = [s for s in sums if s.get("status") != "ok"]
    if bad:
        raise vlib.InfraError("driver could not materialise %d behaviours, e.g. %s" % (len(bad), bad[0]))
    for s in sums:
        # non-trivial: (C04) a pass ran after at least one NodeClaim had been launched (in-flight capacity is in play);
        # (C03) a NodeClaim was stored for a pool that has limits
        run.note_case(s["name"], s.get("passesWithInflight", 0) >= 1 if prop == "C04" else s.get("createdUnderLimits", 0) >= 1)
    viol = run.validate("MultiPass_Trace", "MultiPass_Trace.cfg", files, par=4 if dev else None, timeout=3000)
    counts = {}
    for f in files:
        for k, v in json.load(open(f + ".viol.json")).get("counts", {}).items():
            counts[k] = counts.get(k, 0) + v
    run.extra_cov["guard_evaluations"] = counts
    if not counts.get("opensJudged") or not counts.get("commits"):
        raise vlib.InfraError("vacuous run: no `open` / `commit` decision of the real scheduler was judged (%s)" % counts)
    drift = [v for v in viol if str(v.get("guard", "")).startswith("Drift_MP_PoolNotReady")]
    if drift:
        raise vlib.InfraError("a NodePool lost its Ready condition during a behaviour (harness problem, no verdict): %s" % drift[:2])
    xdrift = [v for v in viol if str(v.get("guard", "")).startswith("Drift_MP_PoolResources")]
    if xdrift:
        run.notes.append("MODEL-DRIFT: Cluster.NodePoolResourcesFor differed from the API truth right after a full informer delivery in %d "
                         "places (C11's business, not judged here), e.g. %s" % (len(xdrift), {k: xdrift[0].get(k) for k in ("file", "line")}))
    tlc_names = {b["name"] for b in behs if not b["name"].startswith(("x-", "sys-"))}
    run.viol = [v for v in run.viol if not str(v.get("guard", "")).startswith(("Drift_MP_", "Obs_C04_"))]
    obs = [v for v in viol if str(v.get("guard", "")).startswith("Obs_C04_RepackAddsNode")]
    run.extra_cov["observation_rerun_repacks_and_adds_a_node"] = len(obs)
    if obs:
        run.notes.append("OBSERVATION (not judged): in %d passes every pending pod had been nominated to a live NodeClaim, yet the re-run "
                         "stored another NodeClaim because first-fit re-packed the pods over SEVERAL in-flight nodes in a different order "
                         "(G_C04_OpenOnlyIfNoneAdmits held at that open); e.g. %s" % (len(obs), {k: obs[0].get(k) for k in ("file", "line")}))
    skips = sum(s.get("skips", 0) - s.get("skipsLaunchRest", 0) for s in sums if s["name"] in tlc_names)
    steps = sum(len(b["steps"]) for b in behs if b["name"] in tlc_names)
    run.extra_cov.update({
        "behaviours_replayed": len(behs), "counterexample_behaviours": len(cex), "passes": sum(s.get("passes", 0) for s in sums),
        "passes_that_ran": sum(s.get("passesRan", 0) for s in sums), "nodeclaims_created": sum(s.get("created", 0) for s in sums),
        "launches": sum(s.get("launches", 0) for s in sums), "nodeclaims_stored_by_another_controller_inside_a_batching_window": sum(s.get("foreignCreated", 0) for s in sums), "opens": sum(s.get("opens", 0) for s in sums),
        "explorer_behaviours": len(expl), "systematic_behaviours": len(systematic()), "tlc_driver_steps": steps, "tlc_driver_steps_skipped": skips})
    if steps and skips > steps * 0.25:
        raise vlib.InfraError("the real code diverged from the model's prediction in %d of %d steps (model and code must be reconciled)" % (skips, steps))
    run.exhaustive = False
    run.extra_cov["enumeration_complete_on_focus_scope"] = exhaustive
    run.samples += [{"behaviour": behs[0]["name"], "steps": behs[0]["steps"], "summary": sums[0]},
                    {"behaviour": behs[-1]["name"], "steps": behs[-1]["steps"], "summary": sums[-1]}]
    run.assumptions += [
        "a node's capacity / allocatable is what the catalog says about the (instance type, offering) it was launched as; the kubelet "
        "reports exactly that once it reports at all (zero-valued status resources before)",
        "before every pass that is expected to run the informers deliver every object (a pass without delivery is only attempted while "
        "a NodeClaim is unlaunched or not yet known to be launched - it must not run)",
        "single provisioner thread: no cluster change between Schedule and CreateNodeClaims; API / provider faults are outside the quantifier",
        "C04's converse guard is evaluated for pods whose admissibility is modelled exactly (requests, tolerations, labels every node "
        "carries; no host ports, volumes, inter-pod constraints, preferences, minValues, reserved capacity)",
    ]
    return behs, sums


def replay(run, path):
    body = json.load(open(path))
    cfg = [e for e in body.get("trace", []) if e.get("e") == "Cfg"]
    if not cfg:
        raise vlib.InfraError("replay file has no Cfg line")
    c = cfg[0]
    scn = {k: v for k, v in c.items() if k not in ("e", "seq", "t", "later", "steps", "mp")}
    beh = {"name": c.get("name", "replay"), "scenario": scn, "later": c.get("later", []), "steps": json.loads(c.get("steps", "[]"))}
    files, sums = run_driver(run, [beh], "replay", 1)
    run.note_case(beh["name"])
    run.validate("MultiPass_Trace", "MultiPass_Trace.cfg", files)
    run.samples = [{"behaviour": beh["name"], "summary": sums[0]}]


def stage_dynamic(run):
    """C03, dynamic pools: appended to checks/C03.py STAGES."""
    run.rule = (run.rule + "; " if run.rule else "") + (
        "dynamic pools: a behaviour = a limits scenario x a TLC-generated history of provisioning passes, launch choices and node "
        "lifecycle steps replayed on the real provisioner / lifecycle controller; non-trivial when a pass ran after a launch")
    pipeline(run, "C03")


GUARDS = {"G_C04_OpenOnlyIfNoneAdmits", "G_C04_InflightCountsLaunchedAllocatable", "G_C04_MarkedNotCapacity", "G_C04_PassOnlyWhenSynced",
          "Inv_C04_Idempotent", "G_C03_OpenWithinLimits", "G_C03_CreateUnderLimit", "Inv_C03_PoolCapacity"}
