"""C17 - Scarce capacity is never over-committed in a scheduling pass.

RESERVATION HALF.  Closed model Reservations.tla (requirement narrowing of NodeClaims, the reservation
manager's CanReserve / Reserve / Release table, strict vs fallback mode, weight-ordered pools, Finalize
pinning) is checked exhaustively by TLC against the declarative guards of ReservationGuards.tla (holders
counted against the catalog's capacities); every Reservations_Weak*.cfg spec mutation must be rejected.
TLC ENUMERATES the model's scenario space (Reservations_Gen.cfg); each scenario - plus seeded explorer
scenarios over the wider alphabet of checks/resv_common.py - is run by harness/drivers/sched through the
real Provisioner.Schedule (strict mode) or NewScheduler+Solve (fallback mode, as the disruption
simulations use it) with 1/2/8 candidate-evaluation workers; hook H1 records every commitment with the
reservation ids the target NodeClaim holds.  Reservations_Trace.tla keeps the holders as ghost state and
judges every commitment, every finalized claim, the Results and every reserved-offering deferral.

DRA HALF.  Closed model DRA.tla (the AllocationTracker's bookkeeping: in-flight exclusive devices per
(NodeClaim, set of instance types), template devices per (NodeClaim, type), shared capacity and pool counters
with the pessimistic maximum over a NodeClaim's types folded in by delta updates on Commit and
ReleaseInstanceType) is checked exhaustively against the per-RESOLUTION counting oracle of DRAGuards.tla;
every DRA_Weak*.cfg must be rejected.  TLC enumerates the model's worlds (DRA_Gen.cfg); each world - wrapped
into scenarios with five pod-size variants - plus seeded explorer scenarios (checks/dra_common.py) is run by
the same driver with IgnoreDRARequests=false on generated ResourceSlices / DeviceClasses / ResourceClaims and
per-instance-type ResourceSliceTemplates.  DRA_Trace.tla judges Results.DRAClaimAllocationMetadata for every
resolution (one surviving instance type per NodeClaim, from the H1 `final` events)."""
import concurrent.futures as cf
import json
import os
import random

from checks import dra_common as dc
from checks import resv_common as rc
from checks import sched_common as sc
import vlib

MAP_FIELDS = {"labels", "sel"}
FLAGS = "W_CanReserve = TRUE  W_Release = TRUE  W_PinAll = TRUE  W_Strict = TRUE  W_KeepHeld = TRUE  W_PoolOrder = TRUE"
INVS = ["Inv_C17_ReservationCapacity", "Inv_C17_ManagerConsistent", "Inv_C17_PinnedToHeldIds", "Inv_C17_EveryResolutionWithinCapacity",
        "Inv_C17_StrictNoFallback", "Inv_C17_StrictClaim", "Inv_C17_NoPoolFallback", "Inv_C17_DeferJustified"]
WEAK = {"CanReserve": "Inv_C17_ReservationCapacity", "Release": "Inv_C17_ManagerConsistent", "ReleaseDefer": "Inv_C17_DeferJustified",
        "PinAll": "Inv_C17_PinnedToHeldIds", "Strict": "Inv_C17_StrictNoFallback", "KeepHeld": "Inv_C17_StrictClaim",
        "PoolOrder": "Inv_C17_NoPoolFallback"}
DFLAGS = ("W_OtherNC = TRUE  W_SameType = TRUE  W_Prealloc = TRUE  W_RefCount = TRUE  W_CapInflight = TRUE  W_CapDelta = TRUE  "
          "W_Counters = TRUE  W_Template = TRUE  W_Releasable = TRUE")
DINVS = ["Inv_C17_DeviceExclusive", "Inv_C17_SharedCapacity", "Inv_C17_Counters", "Inv_C17_TrackerCoversEveryResolution"]
DWEAK = {"OtherNC": "Inv_C17_DeviceExclusive", "SameType": "Inv_C17_DeviceExclusive", "Prealloc": "Inv_C17_DeviceExclusive",
         "RefCount": "Inv_C17_DeviceExclusive", "CapInflight": "Inv_C17_SharedCapacity", "CapDelta": "Inv_C17_TrackerCoversEveryResolution",
         "Counters": "Inv_C17_Counters", "Template": "Inv_C17_DeviceExclusive",
         # the seed rule gatherAllocatedDevices has today (known finding F-C17-1..3): the model only holds with the corrected rule
         "Releasable": "Inv_C17_DeviceExclusive", "ReleasableShared": "Inv_C17_SharedCapacity"}
DALL = 'NCs = {"N1", "N2"}  Kinds = {"net", "net2", "shm1", "shm2", "shm3", "gpu", "tshm"}  Pres = {0, 1, 2, 3, 4, 5}  Slots = {0, 1, 2}'
ALL = 'Layouts = {1,2,3}  Caps = {0,1,2}  PoolSets = {1,2,3,4,5}  Modes = {"strict", "fallback"}'

SCOPE = {
    # mc: exhaustive closed-model scope; gen: scenario enumeration; replay: TLC scenarios replayed (None = all); explore: explorer scenarios
    # (sized for ~2 min on a quiet 16-core machine; measured 3m42 while the shared machine's load rose from 35 to 170)
    "quick": dict(mc='NPods = 3  PodArchs = {1,3,4,6,9}  Layouts = {1,2}  Caps = {0,1,2}  PoolSets = {2,5}  Modes = {"strict", "fallback"}',
                  gen="NPods = 3  PodArchs = {1,2,3,4,5,6,7,8,9,10}  " + ALL, replay=1200, explore=1200,
                  dmc="NClaims = 2  " + DALL.replace("Slots = {0, 1, 2}", "Slots = {0, 1}"),
                  dgen="NClaims = 3  " + DALL.replace("Slots = {0, 1, 2}", "Slots = {0, 1}"), dreplay=None, dexplore=1200),   # every world x 5 pod-size variants (x both claim orders for 2 of them; thorough: for all)
    # (pool set 4 = a single pool is a sub-case of the others: left out of the exhaustive run, kept in the enumeration that is replayed;
    #  archetype 8 = two OR-terms relaxes into archetypes 3/4; measured: the full 59 400-scenario scope has ~3.0M states)
    "thorough": dict(mc='NPods = 3  PodArchs = {1,2,3,4,5,6,7,9,10}  Layouts = {1,2,3}  Caps = {0,1,2}  PoolSets = {1,2,3,5}  Modes = {"strict", "fallback"}',
                     mc4='NPods = 4  PodArchs = {1,3,4,6,9}  Layouts = {1,3}  Caps = {1,2}  PoolSets = {2}  Modes = {"strict", "fallback"}',
                     gen="NPods = 3  PodArchs = {1,2,3,4,5,6,7,8,9,10}  " + ALL,
                     gen4='NPods = 4  PodArchs = {1,2,3,4,6,8,9}  Layouts = {1,2,3}  Caps = {0,1,2}  PoolSets = {1,2,3}  Modes = {"strict", "fallback"}',
                     replay=None, explore=15000,
                     dmc="NClaims = 3  " + DALL, dgen="NClaims = 3  " + DALL, dreplay=None, dexplore=15000),
}


def fix_maps(x, key=None):
    """TLC prints an empty function as []; scenario map fields must be JSON objects"""
    if isinstance(x, dict):
        return {k: fix_maps(v, k) for k, v in x.items()}
    if isinstance(x, list):
        if not x and key in MAP_FIELDS:
            return {}
        return [fix_maps(v) for v in x]
    return x


def write_cfg(run, name, consts, spec, invs, flags=FLAGS):
    with open(os.path.join(run.specdir, name), "w") as f:
        f.write("CONSTANTS %s\nCONSTANTS %s\nSPECIFICATION %s\nINVARIANTS %s\n" % (consts, flags, spec, " ".join(invs)))
    return name


def run_driver(run, scenarios, tag, procs):
    chunks = vlib.shard(scenarios, procs)
    files, sums = [], []
    run.build_drv()

    def one(i_chunk):
        i, chunk = i_chunk
        path = os.path.join(run.work, "%s-%02d.scn.ndjson" % (tag, i))
        sc.write_scenarios(path, chunk)
        return json.loads(run.drv("sched", ["-in", path, "-out", os.path.join(run.work, "traces"), "-shards", max(1, len(chunk) // 500),
                                            "-prefix", "%s-%02d" % (tag, i)], timeout=3000).strip().splitlines()[-1])

    hook = True
    with cf.ThreadPoolExecutor(max_workers=procs) as ex:
        for out in ex.map(one, list(enumerate(chunks))):
            files += out["files"]
            sums += out["summaries"]
            hook = hook and bool(out.get("hook"))
    return files, sums, hook


def model_dra(run, tier, dev):
    """DRA closed model, coverage, spec mutations"""
    if os.environ.get("VERIF_SKIP_MODEL"):
        return
    w, heap = (4 if dev else max(2, vlib.NCPU // 4)), ("4g" if dev else "8g")
    write_cfg(run, "DRA_MC_run.cfg", tier["dmc"], "Spec", DINVS, DFLAGS)
    run.closed_model("DRA", "DRA_MC_run.cfg", workers=w, heap=heap, timeout=7000)
    write_cfg(run, "DRA_Cov_run.cfg", 'NCs = {"N1", "N2"}  NClaims = 2  Kinds = {"net", "shm2", "gpu"}  Pres = {0}  Slots = {1}', "Spec", DINVS, DFLAGS)
    r = run.tlc("DRA", "DRA_Cov_run.cfg", workers=2, coverage=True, timeout=1200)
    if not r.ok:
        raise vlib.InfraError("coverage run of the DRA closed model failed: %s" % (r.violated or r.error))
    zero = rc.coverage_zero(r.stdout)
    if zero:
        raise vlib.InfraError("vacuous DRA closed model, actions never taken: %s" % zero)
    for wk, inv in DWEAK.items():
        wr = run.tlc("DRA", "DRA_Weak%s.cfg" % wk, workers=2, expect_violation=True, timeout=900)
        if wr.violated != inv:
            raise vlib.InfraError("spec mutation DRA_Weak%s.cfg not rejected by TLC as expected (got %s)" % (wk, wr.violated or wr.error))
    run.notes.append("DRA spec mutations rejected: " + ", ".join(sorted(DWEAK)))


def model(run, tier, dev):
    """closed model, coverage, spec mutations (VERIF_SKIP_MODEL=1: developer aid for mutation runs)"""
    if os.environ.get("VERIF_SKIP_MODEL"):
        return
    w, heap = (4 if dev else max(2, vlib.NCPU // 2)), ("4g" if dev else "8g")
    write_cfg(run, "Reservations_MC_run.cfg", tier["mc"], "Spec", INVS)
    run.closed_model("Reservations", "Reservations_MC_run.cfg", workers=w, heap=heap, timeout=7000)
    if tier.get("mc4"):
        write_cfg(run, "Reservations_MC4_run.cfg", tier["mc4"], "Spec", INVS)
        run.closed_model("Reservations", "Reservations_MC4_run.cfg", workers=w, heap=heap, timeout=7000)
    write_cfg(run, "Reservations_Cov_run.cfg", 'NPods = 3  PodArchs = {1,4,6,7,8,10}  Layouts = {1}  Caps = {0}  PoolSets = {2}  Modes = {"strict", "fallback"}',
              "Spec", INVS)
    r = run.tlc("Reservations", "Reservations_Cov_run.cfg", workers=2, coverage=True, timeout=1200)
    if not r.ok:
        raise vlib.InfraError("coverage run of the closed model failed: %s" % (r.violated or r.error))
    zero = rc.coverage_zero(r.stdout)
    if zero:
        raise vlib.InfraError("vacuous closed model, actions never taken: %s" % zero)
    for wk, inv in WEAK.items():
        wr = run.tlc("Reservations", "Reservations_Weak%s.cfg" % wk, workers=2, expect_violation=True, timeout=900)
        if wr.violated != inv:
            raise vlib.InfraError("spec mutation Reservations_Weak%s.cfg not rejected by TLC as expected (got %s)" % (wk, wr.violated or wr.error))
    run.notes.append("spec mutations rejected: " + ", ".join(sorted(WEAK)))


def check(run):
    tier = SCOPE[run.tier]
    rng = random.Random(run.seed)
    dev = os.environ.get("VERIF_DEV")
    procs = 4 if dev else min(12, vlib.NCPU)
    run.rule = ("a behaviour = one scenario run through the real scheduler.  Reservation half: catalog with reserved offerings x weighted pools "
                "x pod batch x strict|fallback x workers; non-trivial when some NodeClaim held a reservation at a commitment or a pod was "
                "deferred with a reserved-offering error.  DRA half: ResourceSlices / templates / claims x pod batch; non-trivial when the "
                "allocator allocated at least one claim in the pass (only then a C17 guard has a non-trivial antecedent)")
    # 1./2. closed models of both halves, harness build and TLC scenario enumeration: independent jobs, run concurrently
    #    (reservations: both modes are part of the scenario space; workers 1/2/8 by rotation)
    write_cfg(run, "Reservations_Gen_run.cfg", tier["gen"], "GenSpec", ["GenPrint"])
    write_cfg(run, "DRA_Gen_run.cfg", tier["dgen"], "GenSpec", ["GenPrint"], DFLAGS)
    with cf.ThreadPoolExecutor(max_workers=5) as ex:
        jobs = [ex.submit(run.build_drv), ex.submit(model, run, tier, dev), ex.submit(model_dra, run, tier, dev)]
        j1 = ex.submit(run.generate, "Reservations", "Reservations_Gen_run.cfg", workers=2, timeout=2400, heap="4g")
        j2 = ex.submit(run.generate, "DRA", "DRA_Gen_run.cfg", workers=2, timeout=2400, heap="4g")
        for j in jobs:
            j.result()
        enum, worlds = [fix_maps(s) for s in j1.result()], j2.result()
    if tier.get("gen4"):
        write_cfg(run, "Reservations_Gen4_run.cfg", tier["gen4"], "GenSpec", ["GenPrint"])
        enum += [fix_maps(s) for s in run.generate("Reservations", "Reservations_Gen4_run.cfg", workers=2, timeout=2400, heap="4g")]
    if not enum or not worlds:
        raise vlib.InfraError("TLC generated no scenarios")
    total_enum, total_worlds = len(enum), len(worlds)
    run.exhaustive = True
    if tier["replay"] and tier["replay"] < len(enum):
        enum, run.exhaustive = rng.sample(enum, tier["replay"]), False
    rng.shuffle(enum)
    scenarios = [rc.with_workers(s, (1, 2, 8)[i % 3]) for i, s in enumerate(enum)]
    scenarios += [rc.explore_resv(rng, "x-resv-%d-%d" % (run.seed, i)) for i in range(tier["explore"])]
    #    DRA: every world x 5 pod-size variants x 2 claim-to-pod orders
    revs = {v: (False, True) if (run.tier == "thorough" or v in (0, 2)) else (False,) for v in dc.SIZES}
    dscn = [dc.from_world(w, v, "tlc-dra-%d/v%d%s" % (i, v, "r" if rev else ""), rev) for i, w in enumerate(worlds) for v in sorted(dc.SIZES)
            for rev in revs[v]]
    total_dscn = len(dscn)
    if tier["dreplay"] and tier["dreplay"] < len(dscn):
        dscn, run.exhaustive = rng.sample(dscn, tier["dreplay"]), False
    dscn += [dc.explore_dra(rng, "x-dra-%d-%d" % (run.seed, i)) for i in range(tier["dexplore"])]
    # witnesses of the listed known findings (always replayed, so the KNOWN-FINDING lines do not depend on the seed)
    wdir = os.path.join(vlib.ROOT, "checks", "witness")
    nwit = 0
    for f in sorted(os.listdir(wdir)):
        if f.startswith("C17-") and f.endswith(".json"):
            w = json.load(open(os.path.join(wdir, f)))
            (dscn if "dra" in w else scenarios).append(w)
            nwit += 1
    # 3./4. the real scheduler + trace validation, in batches (bounds the scratch space: validated trace files without findings are removed)
    sums, stats, hook = replay_validate(run, scenarios, "c17", "Reservations_Trace", procs, dev, hot_resv)
    dsums, dstats, dhook = replay_validate(run, dscn, "c17dra", "DRA_Trace", procs, dev, hot_dra)
    if not (hook and dhook):
        raise vlib.InfraError("the tree under test does not carry hook H1 (repo-patches/hook-H1.patch): C17 needs the commit-order events")
    note_obs(run, list(run.viol))
    run.samples = [{"scenario": scenarios[0]["name"], "summary": sums[0]}, {"scenario": scenarios[-1]["name"], "summary": sums[-1]},
                   {"scenario": dscn[0]["name"], "summary": dsums[0]}, {"scenario": dscn[-1]["name"], "summary": dsums[-1]}]
    run.extra_cov.update({"halves": "reservations + DRA",
                          "tlc_enumerated_scenarios": total_enum, "tlc_scenarios_replayed": len(enum), "explorer_scenarios": tier["explore"],
                          "dra_tlc_worlds": total_worlds, "dra_tlc_scenarios": total_dscn, "dra_scenarios_replayed": len(dscn) - tier["dexplore"] - nwit, "witness_scenarios": nwit,
                          "dra_explorer_scenarios": tier["dexplore"], "trace_stats": stats, "dra_trace_stats": dstats, "hook_h1_events": hook,
                          "new_claims": sum(s.get("claims", 0) for s in sums + dsums), "pod_errors": sum(s.get("errors", 0) for s in sums + dsums),
                          "panics": sum(1 for s in sums + dsums if s.get("panic"))})
    # vacuity guard (only when nothing failed: a changed tree that e.g. never defers must be judged by its violations, not by this)
    if not run.viol and (stats.get("holdingSteps", 0) == 0 or stats.get("deferrals", 0) == 0 or stats.get("releases", 0) == 0):
        raise vlib.InfraError("vacuous run: no commitment held a reservation / nothing was released / nothing was deferred (%s)" % stats)
    if not run.viol and (dstats.get("claimsAllocated", 0) == 0 or dstats.get("superposed", 0) == 0 or dstats.get("sharedDevices", 0) == 0
                         or dstats.get("templateDevices", 0) == 0):
        raise vlib.InfraError("vacuous DRA run: no claim allocated / no superposed NodeClaim / no shared or template device (%s)" % dstats)
    run.assumptions += [
        "capacity of a reservation id = the capacity its offerings declare (all offerings of one id agree in the generated catalogs; "
        "otherwise the invariant uses the largest, the exhaustion test the smallest declared value)",
        "a NodeClaim holds the ids hook H1 reports after its latest commitment (nc.reservedOfferings); holders and remaining capacity are "
        "recomputed by the trace spec, the ReservationManager's table is never read",
        "converse guards (no fallback to a lower-weight pool, deferral only while a compatible reservation is exhausted) are evaluated only on "
        "the sub-alphabet where compatibility is decidable from the scenario (no daemonsets/taints/limits/minValues/overrides; pod constrains "
        "zone/ct/it/arch by selector and at most one required term)",
        "fallback mode: a claim forced to capacity-type reserved by its pool/pods that holds no reservation is not counted as a holder (observation only)",
        "DRA: the instance types a new NodeClaim can still become are those of its H1 `final` event (before TruncateInstanceTypes, a superset); an "
        "existing node has the one type of its label; a device that consumes a counter is charged once per resolution however often it is shared",
        "DRA alphabet: one capacity dimension and one counter per pool, one ExactCount request per claim, DeviceClasses select by driver; "
        "pre-allocated claims stay allocated (no deleting consumers); All-mode, FirstAvailable, constraints and attribute bindings are not generated",
        "single scheduling pass; API/provider faults are outside C17's quantifier",
    ]


def hot_resv(line):
    """a scenario counts as non-trivial when one of its Sched events carries a held reservation or a reserved-offering error"""
    return '"e":"Sched"' in line and ('"err":"reserved"' in line or '"reserved":["' in line)


def hot_dra(line):
    """... when the allocator allocated at least one claim in the pass"""
    return '"e":"Results"' in line and '"dra":[{' in line


def replay_validate(run, scenarios, tag, spec, procs, dev, hot, batch=20000):
    """run the scenarios through the driver and validate the traces with trace spec `spec`, batch by batch"""
    sums, stats, hook = [], {}, True
    for b in range(0, len(scenarios), batch):
        files, bs, h = run_driver(run, scenarios[b:b + batch], "%s-b%02d" % (tag, b // batch), procs)
        hook = hook and h
        bad = [s for s in bs if s.get("status") != "ok"]
        if bad:
            raise vlib.InfraError("driver could not materialise %d scenarios, e.g. %s" % (len(bad), bad[0]))
        viol = run.validate(spec, spec + ".cfg", files, par=4 if dev else None, timeout=3000)
        for k, v in collect_stats(files).items():
            stats[k] = stats.get(k, 0) + v
        hotnames = set()
        for f in files:
            name = None
            for line in open(f):
                if '"e":"Cfg"' in line:
                    name = json.loads(line).get("name")
                elif hot(line):
                    hotnames.add(name)
        for s in bs:
            run.note_case(s["name"], s["name"] in hotnames)
        sums += bs
        keep = {v["file"] for v in viol}
        for f in files:
            if f not in keep:
                for x in (f, f + ".viol.json", f + ".tlc.out"):
                    if os.path.exists(x):
                        os.remove(x)
    return sums, stats, hook


def note_obs(run, viol):
    """Drift_* / Obs_* entries are model-conformance notes and observations, never a verdict"""
    obs = {}
    for v in viol:
        g = str(v.get("guard", ""))
        if g.startswith("Drift_") or g.startswith("Obs_"):
            obs.setdefault((g, v.get("sig")), []).append("%s:%s" % (os.path.basename(v["file"]), v.get("line")))
    for (g, sig), where in sorted(obs.items()):
        run.notes.append("MODEL-DRIFT/observation %s sig=%s x%d e.g. %s" % (g, sig, len(where), where[0]))
    run.viol = [v for v in run.viol if not (str(v.get("guard", "")).startswith("Drift_") or str(v.get("guard", "")).startswith("Obs_"))]
    run.extra_cov["observations"] = {"%s/%s" % k: len(w) for k, w in obs.items()}


def collect_stats(files):
    tot = {}
    for f in files:
        p = f + ".viol.json"
        if os.path.exists(p):
            for k, v in (json.load(open(p)).get("stats") or {}).items():
                tot[k] = tot.get(k, 0) + int(v)
    return tot


def replay(run, path):
    body = json.load(open(path))
    cfg = [e for e in body.get("trace", []) if e.get("e") == "Cfg"]
    if not cfg:
        raise vlib.InfraError("replay file has no Cfg line")
    scn = {k: v for k, v in cfg[0].items() if k not in ("e", "seq", "t")}
    files, sums, hook = run_driver(run, [scn], "replay", 1)
    run.note_case(scn.get("name", "replay"))
    viol = run.validate("Reservations_Trace", "Reservations_Trace.cfg", files)
    if "dra" in scn:
        viol += run.validate("DRA_Trace", "DRA_Trace.cfg", files)
    note_obs(run, viol)
    run.samples = [{"scenario": scn.get("name"), "summary": sums[0]}]
