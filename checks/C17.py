"""C17 - Scarce capacity is never over-committed in a scheduling pass.

RESERVATION HALF.  Closed model Reservations.tla (requirement narrowing of NodeClaims, the reservation
manager's CanReserve / Reserve / Release table, strict vs fallback mode, weight-ordered pools, Finalize
pinning) is checked exhaustively by TLC against the declarative guards of ReservationGuards.tla (holders
counted against the catalog's capacities); every Reservations_Weak*.cfg spec mutation must be rejected.
TLC ENUMERATES the model's scenario space (Reservations_Gen.cfg); each scenario - plus seeded explorer
scenarios over the wider alphabet of checks/resv_common.py - is run by harness/drivers/sched through the
real Provisioner.Schedule (strict mode) or NewScheduler+Solve (fallback mode, as the disruption
simulations use it) with 1/2/8 candidate-evaluation workers; hook H1 records every commitment with the
reservation ids the target NodeClaim holds.  Reservations_Trace.tla keeps the holders as ghost state and
judges every commitment, every finalized claim, the Results and every reserved-offering deferral.

DRA HALF.  Closed model DRA.tla (the AllocationTracker's bookkeeping: in-flight exclusive devices per
(NodeClaim, set of instance types), template devices per (NodeClaim, type), shared capacity and pool counters
with the pessimistic maximum over a NodeClaim's types folded in by delta updates on Commit and
ReleaseInstanceType) is checked exhaustively against the per-RESOLUTION counting oracle of DRAGuards.tla;
every DRA_Weak*.cfg must be rejected.  TLC enumerates the model's worlds (DRA_Gen.cfg); each world - wrapped
into scenarios with five pod-size variants - plus seeded explorer scenarios (checks/dra_common.py) is run by
the same driver with IgnoreDRARequests=false on generated ResourceSlices / DeviceClasses / ResourceClaims and
per-instance-type ResourceSliceTemplates.  DRA_Trace.tla judges Results.DRAClaimAllocationMetadata for every
resolution (one surviving instance type per NodeClaim, from the H1 `final` events)."""
import concurrent.futures as cf
import json
import os
import random
import threading

from checks import dra_common as dc
from checks import resv_common as rc
from checks import sched_common as sc
import vlib

MAP_FIELDS = {"labels", "sel"}
VLOCK = threading.Lock()
BLOCK = threading.Lock()


def build(run):
    """Run.build_drv is not re-entrant: the pipelines ask for the driver concurrently"""
    with BLOCK:
        return run.build_drv()
FLAGS = "W_CanReserve = TRUE  W_Release = TRUE  W_PinAll = TRUE  W_Strict = TRUE  W_KeepHeld = TRUE  W_PoolOrder = TRUE"
INVS = ["Inv_C17_ReservationCapacity", "Inv_C17_ManagerConsistent", "Inv_C17_PinnedToHeldIds", "Inv_C17_EveryResolutionWithinCapacity",
        "Inv_C17_StrictNoFallback", "Inv_C17_StrictClaim", "Inv_C17_NoPoolFallback", "Inv_C17_DeferJustified"]
WEAK = {"CanReserve": "Inv_C17_ReservationCapacity", "Release": "Inv_C17_ManagerConsistent", "ReleaseDefer": "Inv_C17_DeferJustified",
        "PinAll": "Inv_C17_PinnedToHeldIds", "Strict": "Inv_C17_StrictNoFallback", "KeepHeld": "Inv_C17_StrictClaim",
        "PoolOrder": "Inv_C17_NoPoolFallback"}
DFLAGS = ("W_OtherNC = TRUE  W_SameType = TRUE  W_Prealloc = TRUE  W_RefCount = TRUE  W_CapInflight = TRUE  W_CapDelta = TRUE  "
          "W_Counters = TRUE  W_Template = TRUE  W_Releasable = TRUE")
DINVS = ["Inv_C17_DeviceExclusive", "Inv_C17_SharedCapacity", "Inv_C17_Counters", "Inv_C17_TrackerCoversEveryResolution"]
DWEAK = {"OtherNC": "Inv_C17_DeviceExclusive", "SameType": "Inv_C17_DeviceExclusive", "Prealloc": "Inv_C17_DeviceExclusive",
         "RefCount": "Inv_C17_DeviceExclusive", "CapInflight": "Inv_C17_SharedCapacity", "CapDelta": "Inv_C17_TrackerCoversEveryResolution",
         "Counters": "Inv_C17_Counters", "Template": "Inv_C17_DeviceExclusive",
         # the seed rule gatherAllocatedDevices had before /repo 576ecc993 (findings F-C17-1..3, fixed): TLC must reject it
         "Releasable": "Inv_C17_DeviceExclusive", "ReleasableShared": "Inv_C17_SharedCapacity"}
DALL = 'NCs = {"N1", "N2"}  Kinds = {"net", "net2", "shm1", "shm2", "shm3", "gpu", "tshm"}  Pres = {0, 1, 2, 3, 4, 5}  Slots = {0, 1, 2}'
ALL = 'Layouts = {1,2,3}  Caps = {0,1,2}  PoolSets = {1,2,3,4,5}  Modes = {"strict", "fallback"}'

SCOPE = {
    # mc / dmc: exhaustive closed-model scopes; gen / dgen: scenario (world) enumeration, strided by genmod (every genmod-th scenario,
    # residue = seed % genmod: stratified over all dimensions, other seeds see the other residues); explore / dexplore: explorer scenarios;
    # dvariants: (pod-size variant, reversed claim order) pairs every DRA world is wrapped into.
    # quick is sized for <= 90 s on an unloaded 16-core machine (all TLC jobs, the harness build, both replay pipelines run concurrently)
    "quick": dict(mc='NPods = 3  PodArchs = {1,3,4,6,9}  Layouts = {1,2}  Caps = {0,1,2}  PoolSets = {2}  Modes = {"strict", "fallback"}',
                  gen="NPods = 3  PodArchs = {1,2,3,4,5,6,7,8,9,10}  " + ALL, genmod=48, explore=800,
                  dmc='NClaims = 2  NCs = {"N1", "N2"}  Kinds = {"net", "net2", "shm1", "shm3", "gpu", "tshm"}  Pres = {0, 2, 4, 5}  Slots = {0, 1}',
                  dgen="NClaims = 3  " + DALL.replace("Slots = {0, 1, 2}", "Slots = {0, 1}"), dstride=2,
                  dvariants=[(0, False), (2, False), (3, False), (4, True)], dexplore=600),
    # thorough is sized for <= 25 min at load 20-60 (pool set 4 = a single pool and archetype 8 = two OR-terms are sub-cases of the others:
    # left out of the exhaustive run, kept in the enumeration that is replayed)
    "thorough": dict(mc='NPods = 3  PodArchs = {1,2,3,4,5,6,7,9,10}  Layouts = {1,2,3}  Caps = {0,1,2}  PoolSets = {1,2,5}  Modes = {"strict", "fallback"}',
                     mc4='NPods = 4  PodArchs = {1,3,4,6,9}  Layouts = {1,3}  Caps = {1,2}  PoolSets = {2}  Modes = {"strict", "fallback"}',
                     gen="NPods = 3  PodArchs = {1,2,3,4,5,6,7,8,9,10}  " + ALL, genmod=2,
                     gen4='NPods = 4  PodArchs = {1,2,3,4,6,8,9}  Layouts = {1,2,3}  Caps = {0,1,2}  PoolSets = {1,2,3}  Modes = {"strict", "fallback"}',
                     gen4mod=4, explore=8000,
                     dmc="NClaims = 3  " + DALL.replace("Slots = {0, 1, 2}", "Slots = {0, 1}"), dgen="NClaims = 3  " + DALL, dstride=1,
                     dvariants=[(v, r) for v in (0, 1, 2, 3, 4) for r in (False, True)], dexplore=8000),
}


def fix_maps(x, key=None):
    """TLC prints an empty function as []; scenario map fields must be JSON objects"""
    if isinstance(x, dict):
        return {k: fix_maps(v, k) for k, v in x.items()}
    if isinstance(x, list):
        if not x and key in MAP_FIELDS:
            return {}
        return [fix_maps(v) for v in x]
    return x


def write_cfg(run, name, consts, spec, invs, flags=FLAGS, genmod=1, genres=0):
    if flags is FLAGS:      # the Reservations module: scenario sub-sampling constants (1, 0 = the whole scope)
        consts += "  GenMod = %d  GenRes = %d" % (genmod, genres)
    with open(os.path.join(run.specdir, name), "w") as f:
        f.write("CONSTANTS %s\nCONSTANTS %s\nSPECIFICATION %s\nINVARIANTS %s\n" % (consts, flags, spec, " ".join(invs)))
    return name


def run_driver(run, scenarios, tag, procs):
    chunks = vlib.shard(scenarios, procs)
    files, sums = [], []
    build(run)

    def one(i_chunk):
        i, chunk = i_chunk
        path = os.path.join(run.work, "%s-%02d.scn.ndjson" % (tag, i))
        sc.write_scenarios(path, chunk)
        return json.loads(run.drv("sched", ["-in", path, "-out", os.path.join(run.work, "traces"), "-shards", max(1, len(chunk) // 500),
                                            "-prefix", "%s-%02d" % (tag, i)], timeout=3000).strip().splitlines()[-1])

    hook = True
    with cf.ThreadPoolExecutor(max_workers=procs) as ex:
        for out in ex.map(one, list(enumerate(chunks))):
            files += out["files"]
            sums += out["summaries"]
            hook = hook and bool(out.get("hook"))
    return files, sums, hook


def closed_models(run, tier, dev):
    """the independent TLC jobs on the closed models: exhaustive runs, coverage runs, spec mutations (each a callable)"""
    if os.environ.get("VERIF_SKIP_MODEL"):      # developer aid for mutation runs, never used by registered commands
        return []
    heap = "4g" if dev else "8g"
    # (measured, thorough at load 50-100: Reservations 1.34M states 15 min with 10 workers, DRA 3.26M states 24 min with 4 workers)
    wr, wd = (4, 4) if dev else (max(2, vlib.NCPU * 5 // 8), max(2, vlib.NCPU * 3 // 8 if tier.get("mc4") else vlib.NCPU // 4))

    def mc_resv():
        write_cfg(run, "Reservations_MC_run.cfg", tier["mc"], "SpecFast", INVS)
        run.closed_model("Reservations", "Reservations_MC_run.cfg", workers=wr, heap=heap, timeout=7000)

    def mc4_resv():
        write_cfg(run, "Reservations_MC4_run.cfg", tier["mc4"], "SpecFast", INVS)
        run.closed_model("Reservations", "Reservations_MC4_run.cfg", workers=4, heap=heap, timeout=7000)

    def mc_dra():
        write_cfg(run, "DRA_MC_run.cfg", tier["dmc"], "Spec", DINVS, DFLAGS)
        run.closed_model("DRA", "DRA_MC_run.cfg", workers=wd, heap=heap, timeout=7000)

    def cov(module, cfgname, consts, invs, flags):
        def job():
            write_cfg(run, cfgname, consts, "Spec", invs, flags)
            r = run.tlc(module, cfgname, workers=1, coverage=True, timeout=1200, heap="2g")
            if not r.ok:
                raise vlib.InfraError("coverage run of the %s closed model failed: %s" % (module, r.violated or r.error))
            zero = rc.coverage_zero(r.stdout[max(0, r.stdout.rfind("The coverage statistics")):])
            if zero:
                raise vlib.InfraError("vacuous %s closed model, actions never taken: %s" % (module, zero))
        return job

    def weak(module, table):
        def job():
            for wk, inv in table.items():
                wr_ = run.tlc(module, "%s_Weak%s.cfg" % (module, wk), workers=1, expect_violation=True, timeout=900, heap="2g")
                if wr_.violated != inv:
                    raise vlib.InfraError("spec mutation %s_Weak%s.cfg not rejected by TLC as expected (got %s)" % (module, wk, wr_.violated or wr_.error))
            run.notes.append("%s spec mutations rejected: %s" % (module, ", ".join(sorted(table))))
        return job

    half = lambda t, k: dict(list(t.items())[k::2])
    return [mc_resv, mc_dra] + ([mc4_resv] if tier.get("mc4") else []) + [
            cov("Reservations", "Reservations_Cov_run.cfg",
                'NPods = 2  PodArchs = {1,7,8,10}  Layouts = {1}  Caps = {0}  PoolSets = {2}  Modes = {"strict", "fallback"}', INVS, FLAGS),
            cov("DRA", "DRA_Cov_run.cfg", 'NCs = {"N1", "N2"}  NClaims = 2  Kinds = {"net", "shm2", "gpu"}  Pres = {0}  Slots = {1}', DINVS, DFLAGS),
            weak("Reservations", WEAK), weak("DRA", half(DWEAK, 0)), weak("DRA", half(DWEAK, 1))]


def check(run):
    tier = SCOPE[run.tier]
    rng = random.Random(run.seed)
    dev = os.environ.get("VERIF_DEV")
    procs = 4 if dev else max(2, min(8, vlib.NCPU // 2))         # driver processes / validators PER replay pipeline (two run side by side)
    run.rule = ("a behaviour = one scenario run through the real scheduler.  Reservation half: catalog with reserved offerings x weighted pools "
                "x pod batch x strict|fallback x workers; non-trivial when some NodeClaim held a reservation at a commitment or a pod was "
                "deferred with a reserved-offering error.  DRA half: ResourceSlices / templates / claims x pod batch; non-trivial when the "
                "allocator allocated at least one claim in the pass (only then a C17 guard has a non-trivial antecedent)")
    wdir = os.path.join(vlib.ROOT, "checks", "witness")
    wit = [json.load(open(os.path.join(wdir, f))) for f in sorted(os.listdir(wdir)) if f.startswith("C17-") and f.endswith(".json")]
    info = {}

    def pipe_resv():
        """TLC-enumerated scenarios (strided sample; both modes are part of the scenario space; workers 1/2/8 by rotation) + explorer"""
        write_cfg(run, "Reservations_Gen_run.cfg", tier["gen"], "GenSpec", ["GenPrint"], genmod=tier["genmod"], genres=run.seed % tier["genmod"])
        enum = [fix_maps(s) for s in run.generate("Reservations", "Reservations_Gen_run.cfg", workers=2, timeout=2400, heap="4g")]
        if tier.get("gen4"):
            write_cfg(run, "Reservations_Gen4_run.cfg", tier["gen4"], "GenSpec", ["GenPrint"], genmod=tier["gen4mod"], genres=run.seed % tier["gen4mod"])
            enum += [fix_maps(s) for s in run.generate("Reservations", "Reservations_Gen4_run.cfg", workers=2, timeout=2400, heap="4g")]
        if not enum:
            raise vlib.InfraError("TLC generated no scenarios")
        r2 = random.Random(run.seed)
        r2.shuffle(enum)
        scn = [rc.with_workers(s, (1, 2, 8)[i % 3]) for i, s in enumerate(enum)]
        scn += [rc.explore_resv(r2, "x-resv-%d-%d" % (run.seed, i)) for i in range(tier["explore"])]
        scn += [w for w in wit if "dra" not in w]
        info["resv"] = dict(tlc=len(enum), scn=scn)
        build(run)
        return replay_validate(run, scn, "c17", "Reservations_Trace", procs, dev, hot_resv)

    def pipe_dra():
        """every stride-th TLC world x the tier's (pod sizes, claim order) variants + explorer + witnesses"""
        write_cfg(run, "DRA_Gen_run.cfg", tier["dgen"], "GenSpec", ["GenPrint"], DFLAGS)
        worlds = run.generate("DRA", "DRA_Gen_run.cfg", workers=2, timeout=2400, heap="4g")
        if not worlds:
            raise vlib.InfraError("TLC generated no worlds")
        st = tier["dstride"]
        scn = [dc.from_world(w, v, "tlc-dra-%d/v%d%s" % (i, v, "r" if rev else ""), rev)
               for j, (v, rev) in enumerate(tier["dvariants"]) for i, w in enumerate(worlds) if (i + j + run.seed) % st == 0]
        r2 = random.Random(run.seed + 1)
        scn += [dc.explore_dra(r2, "x-dra-%d-%d" % (run.seed, i)) for i in range(tier["dexplore"])]
        scn += [w for w in wit if "dra" in w]
        info["dra"] = dict(worlds=len(worlds), scn=scn)
        build(run)
        return replay_validate(run, scn, "c17dra", "DRA_Trace", procs, dev, hot_dra)

    # everything is independent: closed models, coverage, spec mutations, harness build, enumeration -> replay -> validation per half
    with cf.ThreadPoolExecutor(max_workers=10) as ex:
        fb = ex.submit(build, run)
        fr, fd = ex.submit(pipe_resv), ex.submit(pipe_dra)
        fm = [ex.submit(j) for j in closed_models(run, tier, dev)]
        fb.result()
        (sums, stats, hook, cases), (dsums, dstats, dhook, dcases) = fr.result(), fd.result()
        for f in fm:
            f.result()
    for name, hotcase in cases + dcases:
        run.note_case(name, hotcase)
    if not (hook and dhook):
        raise vlib.InfraError("the tree under test does not carry hook H1 (repo-patches/hook-H1.patch): C17 needs the commit-order events")
    note_obs(run, list(run.viol))
    scenarios, dscn = info["resv"]["scn"], info["dra"]["scn"]
    run.samples = [{"scenario": scenarios[0]["name"], "summary": sums[0]}, {"scenario": scenarios[-1]["name"], "summary": sums[-1]},
                   {"scenario": dscn[0]["name"], "summary": dsums[0]}, {"scenario": dscn[-1]["name"], "summary": dsums[-1]}]
    run.extra_cov.update({"halves": "reservations + DRA",
                          "tlc_scenarios_replayed": info["resv"]["tlc"], "tlc_scenario_stride": tier["genmod"], "explorer_scenarios": tier["explore"],
                          "dra_tlc_worlds": info["dra"]["worlds"], "dra_world_stride": tier["dstride"], "dra_variants_per_world": len(tier["dvariants"]),
                          "dra_scenarios_replayed": len(dscn) - tier["dexplore"], "witness_scenarios": len(wit),
                          "dra_explorer_scenarios": tier["dexplore"], "trace_stats": stats, "dra_trace_stats": dstats, "hook_h1_events": hook,
                          "new_claims": sum(s.get("claims", 0) for s in sums + dsums), "pod_errors": sum(s.get("errors", 0) for s in sums + dsums),
                          "panics": sum(1 for s in sums + dsums if s.get("panic"))})
    # vacuity guard (only when nothing failed: a changed tree that e.g. never defers must be judged by its violations, not by this)
    if not run.viol and (stats.get("holdingSteps", 0) == 0 or stats.get("deferrals", 0) == 0 or stats.get("releases", 0) == 0
                         or stats.get("exactOpens", 0) == 0 or stats.get("exactDefers", 0) == 0 or stats.get("multiHeld", 0) == 0):
        raise vlib.InfraError("vacuous run: no commitment held a reservation / nothing was released / nothing was deferred (%s)" % stats)
    if not run.viol and (dstats.get("claimsAllocated", 0) == 0 or dstats.get("superposed", 0) == 0 or dstats.get("sharedDevices", 0) == 0
                         or dstats.get("templateDevices", 0) == 0 or dstats.get("onExisting", 0) == 0):
        raise vlib.InfraError("vacuous DRA run: no claim allocated / no superposed NodeClaim / no shared or template device (%s)" % dstats)
    run.assumptions += ASSUMPTIONS


ASSUMPTIONS = [
    "capacity of a reservation id = the capacity its offerings declare (all offerings of one id agree in the generated catalogs; "
    "otherwise the invariant uses the largest, the exhaustion test the smallest declared value)",
    "a NodeClaim holds the ids hook H1 reports after its latest commitment (nc.reservedOfferings); holders and remaining capacity are "
    "recomputed by the trace spec, the ReservationManager's table is never read",
    "converse guards (no fallback to a lower-weight pool, deferral only while a compatible reservation is exhausted) are evaluated only on "
    "the sub-alphabet where compatibility is decidable from the scenario (no daemonsets/taints/limits/minValues/overrides; pod constrains "
    "zone/ct/it/arch by selector and at most one required term)",
    "fallback mode: a claim forced to capacity-type reserved by its pool/pods that holds no reservation is not counted as a holder (observation only)",
    "DRA: the instance types a new NodeClaim can still become are those of its H1 `final` event (before TruncateInstanceTypes, a superset); an "
    "existing node has the one type of its label; a device that consumes a counter is charged once per resolution however often it is shared",
    "DRA alphabet: one capacity dimension and one counter per pool, one ExactCount request per claim, DeviceClasses select by driver; "
    "pre-allocated claims stay allocated (no deleting consumers); All-mode, FirstAvailable, constraints and attribute bindings are not generated",
    "single scheduling pass; API/provider faults are outside C17's quantifier",
]


def hot_resv(line):
    """a scenario counts as non-trivial when one of its Sched events carries a held reservation or a reserved-offering error"""
    return '"e":"Sched"' in line and ('"err":"reserved"' in line or '"reserved":["' in line)


def hot_dra(line):
    """... when the allocator allocated at least one claim in the pass"""
    return '"e":"Results"' in line and '"dra":[{' in line


def replay_validate(run, scenarios, tag, spec, procs, dev, hot, batch=20000):
    """run the scenarios through the driver and validate the traces with trace spec `spec`, batch by batch (bounds the scratch space:
    validated trace files without findings are removed).  Called from two threads: returns the cases instead of noting them."""
    sums, stats, hook, cases = [], {}, True, []
    for b in range(0, len(scenarios), batch):
        files, bs, h = run_driver(run, scenarios[b:b + batch], "%s-b%02d" % (tag, b // batch), procs)
        hook = hook and h
        bad = [s for s in bs if s.get("status") != "ok"]
        if bad:
            raise vlib.InfraError("driver could not materialise %d scenarios, e.g. %s" % (len(bad), bad[0]))
        with VLOCK:         # Run.validate updates the run's counters: one call at a time (each call is parallel inside)
            viol = run.validate(spec, spec + ".cfg", files, par=procs * 2, timeout=3000)
        for k, v in collect_stats(files).items():
            stats[k] = stats.get(k, 0) + v
        hotnames = set()
        for f in files:
            name = None
            for line in open(f):
                if '"e":"Cfg"' in line:
                    name = json.loads(line).get("name")
                elif hot(line):
                    hotnames.add(name)
        cases += [(s["name"], s["name"] in hotnames) for s in bs]
        sums += bs
        keep = {v["file"] for v in viol}
        for f in files:
            if f not in keep:
                for x in (f, f + ".viol.json", f + ".tlc.out"):
                    if os.path.exists(x):
                        os.remove(x)
    return sums, stats, hook, cases


def note_obs(run, viol):
    """Drift_* / Obs_* entries are model-conformance notes and observations, never a verdict"""
    obs = {}
    for v in viol:
        g = str(v.get("guard", ""))
        if g.startswith("Drift_") or g.startswith("Obs_"):
            obs.setdefault((g, v.get("sig")), []).append("%s:%s" % (os.path.basename(v["file"]), v.get("line")))
    for (g, sig), where in sorted(obs.items()):
        run.notes.append("MODEL-DRIFT/observation %s sig=%s x%d e.g. %s" % (g, sig, len(where), where[0]))
    run.viol = [v for v in run.viol if not (str(v.get("guard", "")).startswith("Drift_") or str(v.get("guard", "")).startswith("Obs_"))]
    run.extra_cov["observations"] = {"%s/%s" % k: len(w) for k, w in obs.items()}


def collect_stats(files):
    tot = {}
    for f in files:
        p = f + ".viol.json"
        if os.path.exists(p):
            for k, v in (json.load(open(p)).get("stats") or {}).items():
                tot[k] = tot.get(k, 0) + int(v)
    return tot


def replay(run, path):
    body = json.load(open(path))
    cfg = [e for e in body.get("trace", []) if e.get("e") == "Cfg"]
    if not cfg:
        raise vlib.InfraError("replay file has no Cfg line")
    scn = {k: v for k, v in cfg[0].items() if k not in ("e", "seq", "t")}
    files, sums, hook = run_driver(run, [scn], "replay", 1)
    run.note_case(scn.get("name", "replay"))
    viol = run.validate("Reservations_Trace", "Reservations_Trace.cfg", files)
    if "dra" in scn:
        viol += run.validate("DRA_Trace", "DRA_Trace.cfg", files)
    note_obs(run, viol)
    run.samples = [{"scenario": scn.get("name"), "summary": sums[0]}]
