"""C16: behaviours of Reapers.tla -> driver steps, systematic threshold / fault placement, parallel TLC helpers."""
import concurrent.futures as cf
import json
import os
import random
import re
import subprocess
import time

import vlib

# static attributes of the model's claims (Attr in Reapers.tla)
ATTR = {
    "c1": {"pool": "p", "ea": "EA", "pid": "i1", "node": "n1", "reg": True},
    "c2": {"pool": "", "ea": -1, "pid": "i2", "node": "n2", "reg": True},
    "c3": {"pool": "p", "ea": "EA", "pid": "i3", "node": "n3", "reg": False},
}
WEAK = {
    "Reapers_WeakExpireEarly.cfg": "Inv_C16_Expiration",
    "Reapers_WeakExpireRound.cfg": "Inv_C16_Expiration",
    "Reapers_WeakExpireNever.cfg": "Inv_C16_Expiration",
    "Reapers_WeakGcProvList.cfg": "Inv_C16_GarbageCollection",
    "Reapers_WeakGcProvListNotFound.cfg": "Inv_C16_GarbageCollection",
    "Reapers_WeakGcLookup.cfg": "Inv_C16_GarbageCollection",
    "Reapers_WeakGcLookupNotFound.cfg": "Inv_C16_GarbageCollection",
    "Reapers_WeakGcReady.cfg": "Inv_C16_GarbageCollection",
    "Reapers_WeakGcReadOrder.cfg": "Inv_C16_GarbageCollection",
    "Reapers_WeakLiveGate.cfg": "Inv_C16_Liveness",
    "Reapers_WeakRepairTolByType.cfg": "Inv_C16_Repair",
    "Reapers_WeakRepairAnnotated.cfg": "Inv_C16_Repair",
    "Reapers_WeakLive.cfg": "Inv_C16_Liveness",
    "Reapers_WeakLiveRound.cfg": "Inv_C16_Liveness",
    "Reapers_WeakRepairEarly.cfg": "Inv_C16_Repair",
    "Reapers_WeakRepairRound.cfg": "Inv_C16_Repair",
    "Reapers_WeakRepairExtra.cfg": "Inv_C16_Repair",
    "Reapers_WeakRepairScope.cfg": "Inv_C16_Repair",
    "Reapers_WeakRepairList.cfg": "Inv_C16_Repair",
    "Reapers_WeakRepairListNotFound.cfg": "Inv_C16_Repair",
    "Reapers_WeakRepairTerminating.cfg": "Inv_C16_Repair",
}
REAPERS = {"nodeclaim.expiration": "expiration", "nodeclaim.garbagecollection": "gc", "node.health": "repair",
           "nodeclaim.lifecycle": "liveness"}


# ---------------------------------------------------------------------- TLC, several runs at once
def tlc_par(run, jobs, par=4):
    """jobs: list of (module, cfg, workers, timeout, coverage). Runs them concurrently in run.specdir (each with its own
    metadir / output file); returns list of dicts {cfg, rc, out, generated, distinct, depth, violated, error, wall, zero}."""
    def one(i_job):
        i, (module, cfg, workers, timeout, coverage) = i_job
        meta = os.path.join(run.work, "pmeta-%s-%d" % (cfg, i))
        outp = os.path.join(run.work, "tlc-par-%s.out" % cfg)
        cmd = ["java", "-XX:+UseParallelGC", "-Xmx3g", "-Xss64m", "-cp", vlib.TLA_CP, "tlc2.TLC", "-metadir", meta,
               "-config", cfg, "-workers", str(workers), "-deadlock"]
        if coverage:
            cmd += ["-coverage", "1"]
        cmd.append(module + ".tla")
        e = dict(os.environ)
        e.pop("JAVA_TOOL_OPTIONS", None)
        t = time.time()
        with open(outp, "w") as out:
            try:
                p = subprocess.run(cmd, cwd=run.specdir, env=e, stdout=out, stderr=subprocess.STDOUT, timeout=timeout)
            except subprocess.TimeoutExpired:
                raise vlib.InfraError("TLC timeout after %ss on %s/%s" % (timeout, module, cfg))
        txt = open(outp, errors="replace").read()
        r = {"module": module, "cfg": cfg, "rc": p.returncode, "out": outp, "generated": 0, "distinct": 0, "depth": 0,
             "violated": None, "error": None, "wall": time.time() - t, "zero": []}
        m = re.search(r"(\d+) states generated, (\d+) distinct states found", txt)
        if m:
            r["generated"], r["distinct"] = int(m.group(1)), int(m.group(2))
        m = re.search(r"depth of the complete state graph search is (\d+)", txt)
        if m:
            r["depth"] = int(m.group(1))
        m = re.search(r"Invariant (\S+) is violated", txt)
        if m:
            r["violated"] = m.group(1)
        m = re.search(r"Action property (\S+) is violated", txt)
        if m and not r["violated"]:
            r["violated"] = m.group(1)
        if "Error:" in txt and not r["violated"]:
            em = re.search(r"Error: (.*(?:\n.*){0,6})", txt)
            r["error"] = em.group(1) if em else "unknown TLC error"
        if coverage:
            for cm in re.finditer(r"^<(\w+) line \d+, col \d+ to line \d+, col \d+ of module (\w+)>: (\d+):(\d+)$", txt, re.M):
                if int(cm.group(4)) == 0 and cm.group(1) != "Init":
                    r["zero"].append(cm.group(1))
        return r

    with cf.ThreadPoolExecutor(max_workers=par) as ex:
        return list(ex.map(one, list(enumerate(jobs))))


def closed_models(run, cfgs, workers=2, timeout=1200, coverage=False, par=4):
    res = tlc_par(run, [("Reapers", c, workers, timeout, coverage) for c in cfgs], par=par)
    taken = None
    for r in res:
        run.states += r["distinct"]
        run.transitions += r["generated"]
        run.models.append({"module": "Reapers", "cfg": r["cfg"], "distinct": r["distinct"], "generated": r["generated"],
                           "depth": r["depth"], "wall_s": round(r["wall"], 1), "violated": r["violated"]})
        run.notes.append("tlc Reapers/%s: generated=%d distinct=%d depth=%d wall=%.1fs" % (
            r["cfg"], r["generated"], r["distinct"], r["depth"], r["wall"]))
        if r["error"]:
            raise vlib.InfraError("TLC error on Reapers/%s: %s (see %s)" % (r["cfg"], r["error"], r["out"]))
        if r["violated"] or r["rc"] != 0:
            raise vlib.InfraError("closed model Reapers/%s does not satisfy its invariants (%s); model and code must be "
                                  "reconciled before this check can be trusted" % (r["cfg"], r["violated"]))
        if coverage:
            z = set(r["zero"])
            taken = z if taken is None else (taken & z)
    # an action is vacuous only if no configuration of the closed model ever takes it
    return sorted(taken or [])


def weak_configs(run, which, timeout=600, par=4):
    res = tlc_par(run, [("Reapers", c, 2, timeout, False) for c in which], par=par)
    for r in res:
        want = WEAK[r["cfg"]]
        if r["violated"] != want:
            raise vlib.InfraError("spec mutation %s not rejected by TLC (expected %s, got %s / %s)" % (
                r["cfg"], want, r["violated"], r["error"]))
    run.notes.append("spec mutations rejected by TLC as expected: " + ", ".join(
        "%s->%s" % (r["cfg"].replace("Reapers_", "").replace(".cfg", ""), r["violated"]) for r in res))


def gen_constants(run, cfg="Reapers_Gen.cfg"):
    txt = open(os.path.join(run.specdir, cfg)).read()
    out = {}
    for k in ("EA", "LT", "RT", "TolReady", "TolUnk", "TolDisk"):
        out[k] = int(re.search(r"\b%s = (\d+)" % k, txt).group(1))
    out["UnknownFirst"] = re.search(r"UnknownFirst = (\w+)", txt).group(1) == "TRUE"
    out["Claims"] = re.findall(r'"(c\d)"', re.search(r"Claims = \{([^}]*)\}", txt).group(1))
    return out


# ---------------------------------------------------------------------- model history -> driver steps
def fault(verb, kind, nth=1, err="Server", sub="-"):
    return {"verb": verb, "kind": kind, "sub": sub, "nth": nth, "err": err}


def tick(tms):
    """absolute instant in milliseconds since the scenario epoch"""
    return {"a": "Tick", "to": tms // 1000, "ms": tms % 1000}


def claim_step(name, pool, ea, pid, launched="True", registered="True", instance=True, **kw):
    st = {"a": "Claim", "name": name, "pool": pool, "expireAfter": ea, "launched": launched, "registered": registered,
          "pid": pid, "instance": instance}
    st.update(kw)
    return st


def node_step(name, pid, pool, ready="True", conds=None, deleting=False):
    return {"a": "Node", "name": name, "pid": pid, "pool": pool, "ready": ready, "conds": conds or {}, "deleting": deleting}


def bgname(sc, i):
    return "bg%s%02d" % (sc, i)


def policies(k):
    rf = {"type": "Ready", "status": "False", "toleration": k["TolReady"]}
    ru = {"type": "Ready", "status": "Unknown", "toleration": k["TolUnk"]}
    bd = {"type": "BadDisk", "status": "True", "toleration": k["TolDisk"]}
    return [ru, rf, bd] if k["UnknownFirst"] else [rf, ru, bd]


# the kind dimension of a failing read: what the injected error is typed as
API_KIND = {"generic": ["Server", "Server", "TooManyRequests", "Conflict"], "notfound": ["NotFound"]}
PROV_KIND = {"generic": ["err"], "notfound": ["notfound", "notfoundWrapped"]}
LOOKUP_KIND = {"generic": ["Server", "Timeout", "TooManyRequests"], "notfound": ["NotFound"]}


def from_model(h, k, rng):
    """Translate a history of Reapers.tla (constants k) into driver steps."""
    init = h[0]
    assert init["a"] == "Init"
    bg = {"p": [init["pt"], init["pu"], init["pd"]], "o": [init["ot"], init["ou"], init["od"]]}
    steps = [{"a": "Pool", "name": "p"}]
    for c in k["Claims"]:
        a = ATTR[c]
        ea = k["EA"] if a["ea"] == "EA" else a["ea"]
        if a["reg"]:
            steps.append(claim_step(c, a["pool"], ea, a["pid"], initialized="True"))
            steps.append(node_step(a["node"], a["pid"], a["pool"], "True", {"BadDisk": "False"}))
        else:
            steps.append(claim_step(c, a["pool"], ea, "", launched="Unknown", registered="Unknown", instance=False))
    for sc, pool in (("p", "p"), ("o", "")):
        for i in range(1, bg[sc][0] + 1):
            steps.append(node_step(bgname(sc, i), bgname(sc, i), pool, "True", {"BadDisk": "True" if i <= bg[sc][1] else "False"},
                                   deleting=(i <= bg[sc][2])))
    werr = lambda: rng.choice(["Server", "Server", "TooManyRequests", "Conflict"])    # failing writes
    launched = {c: ATTR[c]["reg"] for c in k["Claims"]}

    def env_steps(e):
        """environment actions that may also happen in the middle of a garbage-collection pass"""
        a, c = e["a"], e.get("c")
        if a == "InstanceVanishes":
            return [{"a": "InstanceGone", "pid": ATTR[c]["pid"]}]
        if a == "NodeReady":
            return [{"a": "SetCond", "name": ATTR[c]["node"], "type": "Ready", "status": e["s"]}]
        if a == "NodeGone":
            return [{"a": "NodeGone", "name": ATTR[c]["node"]}]
        if a == "UserDelete":
            return [{"a": "UserDelete", "name": c}]
        if a == "Annotate":
            return [{"a": "Annotate", "name": c}]
        if a == "Join":
            launched[c] = True
            return [{"a": "SetClaim", "name": c, "launched": "True", "registered": "True", "pid": ATTR[c]["pid"], "instance": True},
                    node_step(ATTR[c]["node"], ATTR[c]["pid"], ATTR[c]["pool"], e["s"], {"BadDisk": "False"})]
        return None
    for e in h[1:]:
        a = e["a"]
        c = e.get("c")
        f = e.get("f", "none")
        kind = e.get("k", "generic")
        n0 = len(steps)
        if a == "Tick":
            steps.append(tick(e["tms"]))
        elif a == "Expire":
            steps.append({"a": "Expire", "name": c, "faults": [fault("delete", "NodeClaim", 1, werr())] if f == "delete" else []})
        elif a == "Gc":
            st = {"a": "Gc", "faults": [], "prov": "ok", "lookupFail": [ATTR[x]["pid"] for x in e.get("lf", [])],
                  "lookupErr": rng.choice(LOOKUP_KIND[kind])}
            if f == "claimList":
                st["faults"] = [fault("list", "NodeClaim", 1, rng.choice(API_KIND[kind]))]
            elif f == "provList":
                st["prov"] = rng.choice(PROV_KIND[kind])
            elif f == "delete":
                st["faults"] = [fault("delete", "NodeClaim", 0, werr())]
            if e.get("mid", {}).get("a", "none") != "none":
                st["mid"] = env_steps(e["mid"])
            steps.append(st)
        elif a == "Live":
            st = {"a": "Live", "name": c, "faults": [], "prov": "ok" if launched[c] else "err"}
            if f == "poolGet":
                st["faults"] = [fault("get", "NodePool", 1, "NotFound" if kind == "notfound" else rng.choice(["Server", "TooManyRequests"]))]
            elif f == "delete":
                st["faults"] = [fault("delete", "NodeClaim", 1, werr())]
            steps.append(st)
        elif a == "Repair":
            st = {"a": "Repair", "name": ATTR[c]["node"], "faults": []}
            if f == "claimList":
                st["faults"] = [fault("list", "NodeClaim", 1, rng.choice(API_KIND[kind]))]
            elif f == "nodeList":
                st["faults"] = [fault("list", "Node", 1, rng.choice(API_KIND[kind]))]
            elif f == "annotate":
                st["faults"] = [fault("patch", "NodeClaim", 1, werr())]
            elif f == "delete":
                st["faults"] = [fault("delete", "NodeClaim", 1, werr())]
            steps.append(st)
        elif env_steps(e) is not None:
            steps += env_steps(e)
        elif a == "DiskBad":
            steps.append({"a": "SetCond", "name": ATTR[c]["node"], "type": "BadDisk", "status": e["s"]})
        elif a == "NodeTerminating":
            steps.append({"a": "NodeDelete", "name": ATTR[c]["node"]})
        elif a == "BgFlip":
            sc, d = e["sc"], e["d"]
            if d > 0:
                bg[sc][1] += 1
                steps.append({"a": "SetCond", "name": bgname(sc, bg[sc][1]), "type": "BadDisk", "status": "True"})
            elif d < 0:
                steps.append({"a": "SetCond", "name": bgname(sc, bg[sc][1]), "type": "BadDisk", "status": "False"})
                bg[sc][1] -= 1
            else:       # an unhealthy node repaired in an earlier wave is now terminating
                bg[sc][2] += 1
                steps.append({"a": "NodeDelete", "name": bgname(sc, bg[sc][2])})
        elif a == "Launched":
            launched[c] = True
            steps.append({"a": "SetClaim", "name": c, "launched": "True", "pid": ATTR[c]["pid"], "instance": True})
        elif a == "Registered":
            steps.append({"a": "SetClaim", "name": c, "registered": "True"})
            steps.append(node_step(ATTR[c]["node"], ATTR[c]["pid"], ATTR[c]["pool"], e["s"], {"BadDisk": "False"}))
        elif a == "Restart":
            steps.append({"a": "Restart"})
        else:
            raise vlib.InfraError("unknown model action %r" % a)
        if "del" in e:      # what the model (documented behaviour) expects this reconcile to delete
            steps[n0]["expect"] = sorted(e["del"])
    return steps


def simulate(run, nsim, per_prefix, rng):
    """TLC simulation of Reapers.tla. TLC prints every successor of the last-but-one state of each random walk; keep
    `per_prefix` of them per walk (they differ in the last step only)."""
    hs = run.generate("Reapers", "Reapers_Gen.cfg", workers=1, simulate="num=%d" % nsim, depth=24, timeout=900)
    if not hs:
        raise vlib.InfraError("TLC generated no Reapers behaviours")
    k = gen_constants(run)
    groups = {}
    for h in hs:
        groups.setdefault(json.dumps(h[:-1], sort_keys=True), []).append(h)
    behs = []
    for _, g in sorted(groups.items()):
        uniq = {json.dumps(h, sort_keys=True): h for h in g}
        pick = sorted(uniq)
        rng.shuffle(pick)
        # prefer last steps that are controller actions
        pick.sort(key=lambda s: 0 if uniq[s][-1]["a"] in ("Expire", "Gc", "Live", "Repair") else 1)
        for s in pick[:per_prefix]:
            behs.append({"cfg": {"policies": policies(k)}, "steps": from_model(uniq[s], k, rng), "tag": "tlc-sim"})
    return behs, len(hs)


# ---------------------------------------------------------------------- systematic placement
def pol(t, st, tol):
    return {"type": t, "status": st, "toleration": tol}


# the repair-policy alphabet: several policies on one condition type with different statuses and tolerations, in both
# orders (the shorter one listed first / last), next to policies on other types
POL2 = [pol("Ready", "False", 120), pol("Ready", "Unknown", 90), pol("BadDisk", "True", 60)]
POLICY_SETS = {
    "F120-U90-D60": POL2,
    "U90-F120-D60": [pol("Ready", "Unknown", 90), pol("Ready", "False", 120), pol("BadDisk", "True", 60)],
    "U30-D60-F120": [pol("Ready", "Unknown", 30), pol("BadDisk", "True", 60), pol("Ready", "False", 120)],
    "F40-U120-D60": [pol("Ready", "False", 40), pol("Ready", "Unknown", 120), pol("BadDisk", "True", 60)],
    "D60-U120-F40": [pol("BadDisk", "True", 60), pol("Ready", "Unknown", 120), pol("Ready", "False", 40)],
    "Dt20-Df80-F50": [pol("BadDisk", "True", 20), pol("BadDisk", "False", 80), pol("Ready", "False", 50)],
}


def tol_of(pols, t, st):
    return [p["toleration"] for p in pols if p["type"] == t and p["status"] == st][0]
# clock positions around every threshold T, in milliseconds relative to it: a rounded / truncated / early clock reading
# shows within the last second before T
OFFS = (-1000, -501, -500, -1, 0, 1, 500)
OFFS_FAULT = (-1, 0)


def ceil20(n):
    return (n + 4) // 5


def approach(steps, T, off, rec):
    """after the reconcile at T+off (off < 0): reconcile again 1 ms before the threshold, then exactly at it"""
    if off < -1:
        steps += [tick(T - 1), dict(rec)]
    if off < 0:
        steps += [tick(T), dict(rec)]


def sys_expiration(tier, rng):
    behs = []
    FAR = 1000000 * 1000
    for ea in (-1, 0, 45, 600):
        for created in (0, 7):
            for variant in ("plain", "nofinalizer", "deletefail", "stale", "userdeleted", "unmanaged"):
                if tier == "quick" and variant in ("nofinalizer", "unmanaged") and created == 7:
                    continue
                if ea > 0:
                    offs = OFFS if variant == "plain" else ((-500, -1, 0) if tier != "quick" else OFFS_FAULT)
                else:
                    offs = (0, 1, 500) if ea == 0 else (0,)
                for off in offs:
                    steps = [{"a": "Pool", "name": "p"}]
                    if created:
                        steps.append(tick(created * 1000))
                    steps.append(claim_step("c1", "p", ea, "i1", noFinalizer=(variant == "nofinalizer"), unmanaged=(variant == "unmanaged")))
                    steps.append(node_step("n1", "i1", "p"))
                    T = (created + ea) * 1000
                    t = T + off if ea >= 0 else FAR
                    if variant == "stale":
                        steps.append({"a": "Expire", "name": "c1"})
                    if variant == "userdeleted":
                        steps.append({"a": "UserDelete", "name": "c1"})
                    if t > created * 1000:
                        steps.append(tick(t))
                    ex = {"a": "Expire", "name": "c1", "faults": []}
                    if variant == "deletefail":
                        ex["faults"] = [fault("delete", "NodeClaim", 1, rng.choice(["Server", "Conflict", "NotFound"]))]
                    if variant == "stale":
                        ex["stale"] = 1
                    steps += [ex, {"a": "Expire", "name": "c1"}]
                    if ea >= 0:
                        approach(steps, T, off, {"a": "Expire", "name": "c1"})
                    steps.append({"a": "Restart"})
                    steps.append({"a": "Expire", "name": "c1"})
                    behs.append({"cfg": {"policies": []}, "steps": steps, "tag": "exp:%s:ea%d:c%d:%+dms" % (variant, ea, created, off)})
    return behs


# a failure at each read of the collector x the kind of the error
GC_FAULTS = ["none", "claimList:Server", "claimList:NotFound", "provList:err", "provList:notfound", "provList:notfoundWrapped",
             "lookup:Server", "lookup:NotFound", "lookup:Timeout", "lookupAll:Server", "lookupAll:NotFound", "delete", "delete404"]


def gc_step(f, rng):
    g = {"a": "Gc", "faults": [], "prov": "ok", "lookupFail": []}
    name, _, kind = f.partition(":")
    if name == "claimList":
        g["faults"] = [fault("list", "NodeClaim", 1, kind)]
    elif name == "provList":
        g["prov"] = kind
    elif name == "lookup":
        g["lookupFail"], g["lookupErr"] = ["i1"], kind
    elif name == "lookupAll":
        g["lookupFail"], g["lookupErr"] = ["*"], kind
    elif name == "delete":
        g["faults"] = [fault("delete", "NodeClaim", 0, rng.choice(["Server", "Conflict"]))]
    elif name == "delete404":
        g["faults"] = [fault("delete", "NodeClaim", 0, "NotFound")]
    return g


def sys_gc(tier, rng):
    behs = []
    node_states = ["True", "False", "Unknown", "", "absent", "gone-later", "duplicate", "terminating"]
    for registered in ("True", "Unknown", "False"):
        for inst in ("listed", "gone", "never"):
            for ns in node_states:
                for f in GC_FAULTS:
                    if registered != "True" and (f not in ("none", "lookupAll:Server", "provList:notfound") or ns not in ("True", "absent")):
                        continue
                    if tier == "quick" and inst == "never" and f not in ("none", "lookup:Server", "provList:notfound"):
                        continue
                    if tier == "quick" and ns in ("gone-later", "duplicate", "terminating", "") and f.endswith((":Timeout", "Wrapped", "lookupAll:NotFound")):
                        continue
                    steps = [{"a": "Pool", "name": "p"},
                             claim_step("c1", "p", -1, "i1", registered=registered, instance=(inst != "never")),
                             claim_step("c2", "", 600, "i2"), node_step("n2", "i2", "")]
                    if ns not in ("absent",):
                        steps.append(node_step("n1", "i1", "p", ready="True" if ns in ("gone-later", "duplicate", "terminating") else ns,
                                               deleting=(ns == "terminating")))
                    if ns == "duplicate":
                        steps.append(node_step("n1b", "i1", "p", ready="True"))
                    steps.append(tick(30000))
                    steps.append({"a": "Gc"})
                    if inst == "gone":
                        steps.append({"a": "InstanceGone", "pid": "i1"})
                    if ns == "gone-later":
                        steps.append({"a": "NodeGone", "name": "n1"})
                    steps += [gc_step(f, rng), tick(150000), {"a": "Gc"}]
                    behs.append({"cfg": {"policies": []}, "steps": steps, "tag": "gc:%s:%s:%s:%s" % (registered, inst, ns or "nocond", f)})
    # several candidates in one pass (parallel workers): ready / not ready / absent node / still listed / deleting
    multi = [("a", "True"), ("b", "False"), ("c", "absent"), ("d", "True"), ("e", "Unknown")]
    lfs = [[], ["ia"], ["ib"], ["ic"], ["ia", "ib", "ic"], ["*"]]
    for lf in lfs:
        for listed_d in (True, False):
            for kind in ("Server", "NotFound"):
                if not lf and kind != "Server":
                    continue
                steps = [{"a": "Pool", "name": "p"}]
                for x, ns in multi:
                    steps.append(claim_step("c" + x, "p" if x in "abc" else "", -1, "i" + x))
                    if ns != "absent":
                        steps.append(node_step("n" + x, "i" + x, "p" if x in "abc" else "", ready=ns))
                steps.append({"a": "UserDelete", "name": "ce"})
                for x, _ in multi:
                    if x != "d" or not listed_d:
                        steps.append({"a": "InstanceGone", "pid": "i" + x})
                steps += [{"a": "Gc", "lookupFail": lf, "lookupErr": kind}, {"a": "Gc"}]
                behs.append({"cfg": {"policies": []}, "steps": steps, "tag": "gc-multi:%s:%s:%s" % ("+".join(lf) or "none", kind, listed_d)})
    return behs


TOL = {"BadDisk": 60, "ReadyFalse": 120, "ReadyUnknown": 90}
REPAIR_FAULTS = {
    "claimList": lambda rng: fault("list", "NodeClaim", 1, rng.choice(["Server", "TooManyRequests"])),
    "claimList404": lambda rng: fault("list", "NodeClaim", 1, "NotFound"),
    "nodeList": lambda rng: fault("list", "Node", 1, rng.choice(["Server", "TooManyRequests"])),
    "nodeList404": lambda rng: fault("list", "Node", 1, "NotFound"),
    "nodeListConflict": lambda rng: fault("list", "Node", 1, "Conflict"),
    "annotate": lambda rng: fault("patch", "NodeClaim", 1, rng.choice(["Server", "Conflict"])),
    "delete": lambda rng: fault("delete", "NodeClaim", 1, rng.choice(["Server", "Conflict"])),
    "poolGet": lambda rng: fault("get", "NodePool", 1),
}


def repair_step(name, f, rng):
    return {"a": "Repair", "name": name, "faults": [REPAIR_FAULTS[f](rng)] if f != "none" else []}


def sys_repair(tier, rng):
    behs = []

    def scenario(kind, n, u, off, f, others=(0, 0), cond="BadDisk", term=0, tag="", pols=POL2):
        """focal node n1 (claim c1) unhealthy since t=10 s; scope of `n` nodes of which `u` unhealthy (focal included), the
        last `term` of the other unhealthy ones already terminating; others = (healthy, unhealthy) nodes outside the scope
        (pool claims only); off = clock offset in ms relative to the instant the toleration elapses."""
        pool = "p" if kind == "pool" else ""
        steps = [{"a": "Pool", "name": "p"}, {"a": "Pool", "name": "q"},
                 claim_step("c1", pool, -1, "i1"), node_step("n1", "i1", pool, "True", {"BadDisk": "False"})]
        # the rest of the scope: for a standalone claim the cluster = labelled and unlabelled nodes alike
        for i in range(2, n + 1):
            p_i = pool if kind == "pool" else ("q" if i % 2 else "")
            steps.append(node_step("m%02d" % i, "j%02d" % i, p_i, "True", {"BadDisk": "True" if i <= u else "False"},
                                   deleting=(i <= u and i > u - term)))
        if kind == "pool":
            for i in range(others[0] + others[1]):
                steps.append(node_step("x%02d" % i, "y%02d" % i, "q" if i % 2 else "", "True",
                                       {"BadDisk": "True" if i >= others[0] else "False"}))
        steps.append(tick(10000))
        bad = {"a": "SetCond", "name": "n1", "type": "BadDisk", "status": "True"}
        rdy = lambda st_: {"a": "SetCond", "name": "n1", "type": "Ready", "status": st_}
        if cond == "BadDisk":
            steps.append(bad)
            t = 10 + tol_of(pols, "BadDisk", "True")
        elif cond == "ReadyFalse":
            steps.append(rdy("False"))
            t = 10 + tol_of(pols, "Ready", "False")
        elif cond == "ReadyUnknown":
            steps.append(rdy("Unknown"))
            t = 10 + tol_of(pols, "Ready", "Unknown")
        elif cond == "Unknown-then-False":   # the condition cycles between the policies' statuses: each change restarts the clock
            steps += [rdy("Unknown"), tick(15000), rdy("False")]
            t = 15 + tol_of(pols, "Ready", "False")
        elif cond == "False-then-Unknown":
            steps += [rdy("False"), tick(15000), rdy("Unknown")]
            t = 15 + tol_of(pols, "Ready", "Unknown")
        elif cond == "False-True-False":
            steps += [rdy("False"), tick(12000), rdy("True"), tick(18000), rdy("False")]
            t = 18 + tol_of(pols, "Ready", "False")
        elif cond == "both":      # BadDisk at 10 (due 70), Ready=False at 20 (due 140): the earliest counts
            steps += [bad, tick(20000), {"a": "SetCond", "name": "n1", "type": "Ready", "status": "False"}]
            t = 10 + TOL["BadDisk"]
        elif cond == "flap":      # unhealthy at 10, recovers at 40, unhealthy again at 50.3 (stamped 50): due 110
            steps += [bad, tick(40000), {"a": "SetCond", "name": "n1", "type": "BadDisk", "status": "False"}, tick(50300), dict(bad)]
            t = 50 + TOL["BadDisk"]
        elif cond == "cleared":   # recovers before the toleration elapses
            steps += [bad, tick(40000), {"a": "SetCond", "name": "n1", "type": "BadDisk", "status": "False"}]
            t = 10 + TOL["BadDisk"]
        T = t * 1000
        steps.append({"a": "Repair", "name": "n1"})
        steps.append(tick(T + off))
        steps += [repair_step("n1", f, rng), {"a": "Repair", "name": "n1"}]
        approach(steps, T, off, {"a": "Repair", "name": "n1"})
        behs.append({"cfg": {"policies": pols}, "steps": steps,
                     "tag": "repair:%s:n%d:u%d:term%d:%+dms:%s:%s%s" % (kind, n, u, term, off, f, cond, tag)})

    # (a) the 20 % grid: pool sizes 1..11 x unhealthy counts around the ceiling, at the toleration instant; the same
    #     counts with some of the unhealthy nodes already terminating (they still exist, so they still count)
    for kind in ("pool", "standalone"):
        for n in range(1, 12):
            c = ceil20(n)
            for u in sorted({x for x in (1, c - 1, c, c + 1, c + 2, n) if 1 <= x <= n}):
                fs = ["none"] if (tier == "quick" and u not in (c, c + 1)) else ["none", "nodeList", "nodeList404"]
                for f in fs:
                    scenario(kind, n, u, 0, f)
                for term in sorted({1, u - 1}):
                    if 1 <= term <= u - 1 and (tier != "quick" or u in (c, c + 1, c + 2)):
                        scenario(kind, n, u, 0, "none", term=term)
                # nodes outside the pool must not dilute (or burden) the pool's ratio
                if kind == "pool" and u in (c, c + 1):
                    scenario(kind, n, u, 0, "none", others=(9, 0), tag=":others-healthy")
                    scenario(kind, n, u, 0, "none", others=(0, 4), tag=":others-unhealthy")
    # (b) the toleration threshold: every condition shape x sub-second offset x fault
    for kind in ("pool", "standalone"):
        for cond in ("BadDisk", "ReadyFalse", "ReadyUnknown", "both", "flap", "cleared"):
            for off in OFFS:
                if tier == "quick" and kind == "standalone" and cond not in ("BadDisk", "flap") and off not in (-500, -1, 0):
                    continue
                scenario(kind, 6, 2, off, "none", cond=cond)
            for f in REPAIR_FAULTS:
                for off in OFFS_FAULT:
                    if tier == "quick" and (cond not in ("BadDisk", "both") or (off != 0 and kind == "standalone")):
                        continue
                    scenario(kind, 6, 2, off, f, cond=cond)
    # (b2) the policy alphabet: every policy list x every Ready status shape, 1 ms before and at the toleration of the
    #      policy matching (type, status), and at the instant the *other* policy of the type would have elapsed
    for name, pols in POLICY_SETS.items():
        for cond in ("ReadyFalse", "ReadyUnknown", "Unknown-then-False", "False-then-Unknown", "False-True-False", "BadDisk"):
            if name == "Dt20-Df80-F50" and cond not in ("BadDisk", "ReadyFalse"):
                continue
            for kind in (("pool",) if tier == "quick" else ("pool", "standalone")):
                for off in (-1, 0):
                    scenario(kind, 6, 1, off, "none", cond=cond, pols=pols, tag=":pol=" + name)
    # (c) read faults while the scope is over the budget (a failed read must not be taken for "no unhealthy nodes")
    for kind in ("pool", "standalone"):
        for f in ("nodeList", "nodeList404", "nodeListConflict", "claimList", "claimList404"):
            scenario(kind, 10, 4, 0, f, tag=":over")
            scenario(kind, 10, 4, 0, f, term=2, tag=":over")
    return behs


def sys_repair_waves(tier, rng):
    """multi-wave histories on the real controllers: a first wave of nodes turns unhealthy and is repaired (or deleted by
    someone else); their Nodes are deleted in turn and linger, terminating; then more nodes of the same scope turn
    unhealthy.  The breaker must keep counting the terminating ones while they exist."""
    behs = []
    combos = [(10, 2, 2), (10, 2, 1), (10, 1, 1), (5, 1, 1), (11, 3, 1), (11, 2, 1), (6, 1, 2), (3, 1, 1)]
    if tier == "quick":
        combos = combos[:6]
    for kind in ("pool", "standalone"):
        pool = "p" if kind == "pool" else ""
        for n, k1, k2 in combos:
            for first in ("repaired", "deleted-by-env", "gone"):
                if tier == "quick" and first == "gone" and (n, k1, k2) not in ((10, 2, 2), (5, 1, 1)):
                    continue
                steps = [{"a": "Pool", "name": "p"}]
                for i in range(1, n + 1):
                    steps.append(claim_step("k%02d" % i, pool, -1, "w%02d" % i))
                    steps.append(node_step("v%02d" % i, "w%02d" % i, pool, "True", {"BadDisk": "False"}))
                w1 = ["%02d" % i for i in range(1, k1 + 1)]
                w2 = ["%02d" % i for i in range(k1 + 1, k1 + k2 + 1)]
                steps.append(tick(10000))
                steps += [{"a": "SetCond", "name": "v" + x, "type": "BadDisk", "status": "True"} for x in w1]
                steps.append(tick(70000))
                for x in w1:
                    if first == "repaired":
                        steps.append({"a": "Repair", "name": "v" + x})
                    else:
                        steps.append({"a": "UserDelete", "name": "k" + x})
                # the lifecycle controller finalizes the deleted claims: their Nodes are deleted and drain (or are gone)
                for x in w1:
                    steps.append({"a": "NodeGone" if first == "gone" else "NodeDelete", "name": "v" + x})
                steps.append(tick(80000))
                steps += [{"a": "SetCond", "name": "v" + x, "type": "BadDisk", "status": "True"} for x in w2]
                steps.append(tick(140000 - 1))
                steps += [{"a": "Repair", "name": "v" + x} for x in w2]
                steps.append(tick(140000))
                steps += [{"a": "Repair", "name": "v" + x} for x in w2]
                steps += [{"a": "Repair", "name": "v" + x} for x in w2]
                behs.append({"cfg": {"policies": POL2}, "steps": steps, "tag": "repair-waves:%s:n%d:%d+%d:%s" % (kind, n, k1, k2, first)})
    return behs


def sys_repair_retry(tier, rng):
    """the breaker is consulted at EVERY pass: pass 1 is within the breaker but its NodeClaim Delete fails (or the process
    dies right after the annotation patch) - or someone else annotated the claim -; then more nodes of the scope turn
    unhealthy, past ceil(20 %) or still within it; then the retry."""
    behs = []
    for kind in ("pool", "standalone"):
        pool = "p" if kind == "pool" else ""
        for n, more in ((10, 2), (10, 1), (5, 1), (6, 1), (11, 3), (3, 1)):
            for first in ("delete-fails", "delete-fails+restart", "annotated-by-other", "annotated-by-other-future", "annotate-fails"):
                if tier == "quick" and first in ("annotated-by-other-future", "annotate-fails") and n not in (10, 5):
                    continue
                steps = [{"a": "Pool", "name": "p"}, {"a": "Pool", "name": "q"},
                         claim_step("c1", pool, -1, "i1"), node_step("n1", "i1", pool, "True", {"BadDisk": "False"})]
                for i in range(2, n + 1):
                    p_i = pool if kind == "pool" else ("q" if i % 2 else "")
                    steps.append(node_step("m%02d" % i, "j%02d" % i, p_i, "True", {"BadDisk": "False"}))
                steps += [tick(10000), {"a": "SetCond", "name": "n1", "type": "BadDisk", "status": "True"}, tick(70000)]
                if first.startswith("delete-fails"):
                    steps.append(repair_step("n1", "delete", rng))
                elif first == "annotate-fails":
                    steps.append(repair_step("n1", "annotate", rng))
                elif first == "annotated-by-other":
                    steps.append({"a": "Annotate", "name": "c1"})
                else:
                    steps.append({"a": "Annotate", "name": "c1", "to": 3600})
                if first.endswith("restart"):
                    steps.append({"a": "Restart"})
                steps.append(tick(75000))
                steps += [{"a": "SetCond", "name": "m%02d" % i, "type": "BadDisk", "status": "True"} for i in range(2, 2 + more)]
                steps += [tick(90000), {"a": "Repair", "name": "n1"}, {"a": "Repair", "name": "n1"}]
                # some of them recover: back within the breaker, the retry may go through
                steps += [{"a": "SetCond", "name": "m%02d" % i, "type": "BadDisk", "status": "False"} for i in range(2, 2 + more)]
                steps += [tick(95000), {"a": "Repair", "name": "n1"}]
                behs.append({"cfg": {"policies": POL2}, "steps": steps, "tag": "repair-retry:%s:n%d:+%d:%s" % (kind, n, more, first)})
    return behs


def sys_liveness(tier, rng):
    """the lifecycle controller's liveness path inside the reapers world (Reapers_Trace evaluates G_C16_Liveness)"""
    behs = []
    for kind, Ts in (("launch", 300), ("registration", 900)):
        for created in (0, 13):
            for f in ("none", "poolGet", "poolGet404", "poolPatch", "delete"):
                for off in (OFFS if f == "none" else OFFS_FAULT):
                    if tier == "quick" and ((f != "none" and off != 0) or (created == 13 and off in (-1000, 500, 1))):
                        continue
                    T = (created + Ts) * 1000
                    steps = [{"a": "Pool", "name": "p"}]
                    if created:
                        steps.append(tick(created * 1000))
                    if kind == "launch":
                        steps.append(claim_step("c3", "p", -1, "", launched="Unknown", registered="Unknown", instance=False))
                        prov = "err"
                    else:
                        steps.append(claim_step("c3", "p", -1, "i3", launched="True", registered="Unknown", instance=True))
                        prov = "ok"
                    rec = {"a": "Live", "name": "c3", "prov": prov}
                    steps += [dict(rec), tick(T // 2), dict(rec), tick(T + off)]
                    lv = dict(rec, faults=[])
                    if f == "poolGet":
                        lv["faults"] = [fault("get", "NodePool", 1)]
                    elif f == "poolGet404":
                        lv["faults"] = [fault("get", "NodePool", 1, "NotFound")]
                    elif f == "poolPatch":
                        lv["faults"] = [fault("patch", "NodePool", 1, "Conflict", sub="status")]
                    elif f == "delete":
                        lv["faults"] = [fault("delete", "NodeClaim", 1, rng.choice(["Server", "Conflict"]))]
                    steps += [lv, dict(rec)]
                    approach(steps, T, off, rec)
                    behs.append({"cfg": {"policies": []}, "steps": steps, "tag": "live:%s:c%d:%+dms:%s" % (kind, created, off, f)})
    # the conditions are stamped by the controller itself, later than the claim's creation (at 40.4 s, stored as 40 s)
    for kind, Ts in (("launch", 300), ("registration", 900)):
        prov = "err" if kind == "launch" else "ok"
        rec = {"a": "Live", "name": "c3", "prov": prov}
        steps = [{"a": "Pool", "name": "p"},
                 claim_step("c3", "p", -1, "", launched="", registered="", instance=False, noFinalizer=True),
                 tick(40400), dict(rec), dict(rec), tick((40 + Ts - 2) * 1000), dict(rec)]
        for t in range((40 + Ts - 1) * 1000, (40 + Ts + 3) * 1000, 500):
            steps += [tick(t - 1), dict(rec), tick(t), dict(rec)]
        behs.append({"cfg": {"policies": []}, "steps": steps, "tag": "live-late-stamp:%s" % kind})
    # the condition changed after creation (Launched went False at t=20, Registered went False at t=20): the timeout runs
    # from the condition's last transition, not from the claim's creation
    for kind, Ts in (("launch", 300), ("registration", 900)):
        prov = "err" if kind == "launch" else "ok"
        rec = {"a": "Live", "name": "c3", "prov": prov}
        if kind == "launch":
            steps = [{"a": "Pool", "name": "p"}, claim_step("c3", "p", -1, "", launched="Unknown", registered="Unknown", instance=False),
                     tick(20000), {"a": "SetClaim", "name": "c3", "launched": "False"}]
        else:
            steps = [{"a": "Pool", "name": "p"}, claim_step("c3", "p", -1, "i3", launched="True", registered="Unknown", instance=True),
                     tick(20000), {"a": "SetClaim", "name": "c3", "registered": "False"}]
        steps.append(dict(rec))
        for t in list(range(Ts - 2, Ts + 19)) + [Ts + 20]:
            steps += [tick(t * 1000), dict(rec)]
        steps[-2:-2] = [tick((Ts + 20) * 1000 - 500), dict(rec), tick((Ts + 20) * 1000 - 1), dict(rec)]
        behs.append({"cfg": {"policies": []}, "steps": steps, "tag": "live-restamped:%s" % kind})
    return behs


def sys_uninitialized(tier, rng):
    """a claim that launched and registered in time but stays uninitialized (node NotReady / startup or ephemeral taint
    never removed / requested extended resource never reported / node gone): liveness has nothing to say about it, however
    long it lasts.  Lifecycle reconciles around both timeouts counted from every stamp it carries, and much later."""
    behs = []
    blockers = {
        "node-notready": dict(ready="False"),
        "node-unknown": dict(ready="Unknown"),
        "node-nocondition": dict(ready=""),
        "startup-taint": dict(ready="True", taints=["startup"]),
        "ephemeral-taint": dict(ready="True", taints=["ephemeral"]),
        "both-taints-notready": dict(ready="False", taints=["startup", "ephemeral"]),
        "extres-zero": dict(ready="True", res="zero"),
        "extres-absent": dict(ready="True"),
        "node-gone": dict(ready="True"),
    }
    for why, nd in blockers.items():
        for reg_at in (0, 200):
            if tier == "quick" and reg_at and why not in ("node-notready", "startup-taint", "extres-zero"):
                continue
            ext = why.startswith("extres")
            steps = [{"a": "Pool", "name": "p"},
                     claim_step("c3", "p", -1, "i3", launched="True", registered="True" if reg_at == 0 else "Unknown", instance=True,
                                startupTaint=True, extRes=1 if ext else 0)]
            rec = {"a": "Live", "name": "c3", "prov": "ok"}
            node = dict(node_step("n3", "i3", "p", nd.get("ready", "True"), {}), taints=nd.get("taints", []), res=nd.get("res", ""))
            if reg_at:
                steps += [dict(rec), tick(reg_at * 1000), {"a": "SetClaim", "name": "c3", "registered": "True"}]
            steps.append(node)
            if why == "node-gone":
                steps.append({"a": "NodeGone", "name": "n3"})
            steps.append(dict(rec))
            # around the launch timeout and the registration timeout counted from creation and from registration
            for T in sorted({300, 900, reg_at + 300, reg_at + 900}):
                for off in (-1, 0, 1):
                    steps += [tick(T * 1000 + off), dict(rec)]
            steps += [tick(3 * 3600 * 1000), dict(rec), {"a": "Restart"}, dict(rec)]
            # at last the blocker goes away: the claim initializes, nothing is deleted
            if why in ("startup-taint", "ephemeral-taint", "both-taints-notready"):
                steps += [{"a": "Untaint", "name": "n3", "taints": ["startup", "ephemeral"]},
                          {"a": "SetCond", "name": "n3", "type": "Ready", "status": "True"}, dict(rec)]
            elif why.startswith("node-") and why != "node-gone":
                steps += [{"a": "SetCond", "name": "n3", "type": "Ready", "status": "True"}, dict(rec)]
            steps += [tick(4 * 3600 * 1000), dict(rec)]
            behs.append({"cfg": {"policies": []}, "steps": steps, "tag": "live-uninitialized:%s:reg@%d" % (why, reg_at)})
    return behs


def sys_gc_mid(tier, rng):
    """one environment step between the two listing reads of a garbage-collection pass (whichever order the controller
    issues them in): a claim joins (launched + registered, node not yet Ready) / an instance vanishes / a node turns
    NotReady / a user deletes a claim while the pass is in flight."""
    behs = []
    for join_ready in ("False", "Unknown", "", "True", "absent"):
        for other in ("none", "gone-ready", "gone-notready"):
            steps = [{"a": "Pool", "name": "p"},
                     claim_step("c1", "p", -1, "i1"), node_step("n1", "i1", "p", "True" if other != "gone-notready" else "False"),
                     claim_step("cj", "p", -1, "", launched="Unknown", registered="Unknown", instance=False),
                     tick(30000)]
            if other != "none":
                steps.append({"a": "InstanceGone", "pid": "i1"})
            mid = [{"a": "SetClaim", "name": "cj", "launched": "True", "registered": "True", "pid": "ij", "instance": True}]
            if join_ready != "absent":
                mid.append(node_step("nj", "ij", "p", join_ready))
            steps += [{"a": "Gc", "mid": mid}, {"a": "Gc"}]
            behs.append({"cfg": {"policies": []}, "steps": steps, "tag": "gc-mid:join:%s:%s" % (join_ready or "nocond", other)})
    for mid_kind in ("vanish", "notready", "ready", "userdelete", "nodegone"):
        for ns in ("True", "False"):
            steps = [{"a": "Pool", "name": "p"}, claim_step("c1", "p", -1, "i1"), node_step("n1", "i1", "p", ns),
                     claim_step("c2", "", -1, "i2"), node_step("n2", "i2", "", "False"), tick(30000)]
            if mid_kind != "vanish":
                steps.append({"a": "InstanceGone", "pid": "i1"})
            mid = {"vanish": [{"a": "InstanceGone", "pid": "i1"}],
                   "notready": [{"a": "SetCond", "name": "n1", "type": "Ready", "status": "False"}],
                   "ready": [{"a": "SetCond", "name": "n1", "type": "Ready", "status": "True"}],
                   "userdelete": [{"a": "UserDelete", "name": "c1"}],
                   "nodegone": [{"a": "NodeGone", "name": "n1"}]}[mid_kind]
            steps += [{"a": "Gc", "mid": mid}, {"a": "Gc"}]
            behs.append({"cfg": {"policies": []}, "steps": steps, "tag": "gc-mid:%s:%s" % (mid_kind, ns)})
    return behs


def systematic(tier, rng):
    return (sys_expiration(tier, rng) + sys_gc(tier, rng) + sys_gc_mid(tier, rng) + sys_repair(tier, rng) + sys_repair_waves(tier, rng) + sys_repair_retry(tier, rng)
            + sys_liveness(tier, rng) + sys_uninitialized(tier, rng))


# ---------------------------------------------------------------------- recording / accounting
def record(run, behs, prefix="reapers"):
    bpath = os.path.join(run.work, prefix + "-behs.json")
    json.dump(behs, open(bpath, "w"))
    out = json.loads(run.drv("reapers", ["-in", bpath, "-out", os.path.join(run.work, "traces-" + prefix), "-shards", vlib.NCPU]))
    return out["files"]


def account(files, nshards):
    """Per behaviour index: which reapers performed an effective delete; counts of guarded events.
    trace.Writer deals behaviours round-robin over `nshards` files (file name carries the shard index)."""
    import collections
    counts = collections.Counter()
    per = {}
    for f in files:
        shard = int(re.search(r"-(\d+)\.ndjson$", f).group(1))
        k = -1
        live = {}   # claim name -> deleting? (to recognise effective deletes like the trace spec does)
        cur = None
        for line in open(f):
            ev = json.loads(line)
            e = ev["e"]
            if e == "Cfg":
                k += 1
                cur = {"tag": ev.get("tag", ""), "deletes": [], "panics": 0, "by_step": {}}
                step = None
                per[shard + k * nshards] = cur
                live = {}
            elif e in ("Api", "Env") and ev.get("kind") == "NodeClaim":
                post = ev.get("post", {})
                ok = e == "Env" or ev.get("err") == "-"
                if e == "Api" and ok and ev["verb"] == "delete" and ev["actor"] in REAPERS and live.get(ev["name"]) is False:
                    cur["deletes"].append(REAPERS[ev["actor"]])
                    counts["delete:" + REAPERS[ev["actor"]]] += 1
                    if step is not None:
                        cur["by_step"][step].append(ev["name"])
                if e == "Api" and ev.get("injected"):
                    counts["injected:%s/%s" % (ev["verb"], ev["kind"])] += 1
                if ok:
                    if post.get("exists"):
                        live[ev["name"]] = bool(post.get("deleting"))
                    else:
                        live.pop(ev["name"], None)
            elif e == "Read" and ev.get("injected"):
                counts["injected:%s/%s" % (ev["verb"], ev["kind"])] += 1
            elif e == "Prov" and ev.get("call") == "List" and ev.get("err") != "-":
                counts["injected:provider/List"] += 1
            elif e == "Begin":
                step = ev.get("step")
                cur["by_step"][step] = []
            elif e == "End":
                step = None
                if ev.get("panic"):
                    cur["panics"] += 1
                    counts["panic:" + ev["controller"]] += 1
    return per, counts


def model_drift(behs, per):
    """Compare, for the model-generated behaviours, the deletes the model expected of each reconcile with what the real
    controller did.  Diagnostic only (MODEL-DRIFT notes): the model is the documented behaviour, the verdict is the
    guards'.  Returns counters {agree, model_only (real more conservative / clock drift), real_only}."""
    import collections
    c = collections.Counter()
    examples = []
    for i, b in enumerate(behs):
        for j, st in enumerate(b["steps"]):
            if "expect" not in st:
                continue
            real = sorted(per[i]["by_step"].get(j, []))
            key = st["a"].lower()
            if real == st["expect"]:
                c[key + ":agree"] += 1
                if real:
                    c[key + ":agree-delete"] += 1
                continue
            kind = "real_only" if set(real) - set(st["expect"]) else "model_only"
            if st["a"] == "Gc" and st.get("lookupFail") and kind == "real_only":
                kind = "real_only(lookup-failed)"
            c[key + ":" + kind] += 1
            if len(examples) < 5 and kind != "real_only(lookup-failed)":
                examples.append({"behaviour": i, "step": j, "a": st["a"], "model": st["expect"], "real": real})
            break       # from the first divergence on the two worlds differ: later reconciles are not comparable
    return dict(c), examples
