"""C16: behaviours of Reapers.tla -> driver steps, systematic threshold / fault placement, parallel TLC helpers."""
import concurrent.futures as cf
import json
import os
import random
import re
import subprocess
import time

import vlib

# static attributes of the model's claims (Attr in Reapers.tla)
ATTR = {
    "c1": {"pool": "p", "ea": "EA", "pid": "i1", "node": "n1", "reg": True},
    "c2": {"pool": "", "ea": -1, "pid": "i2", "node": "n2", "reg": True},
    "c3": {"pool": "p", "ea": "EA", "pid": "i3", "node": "n3", "reg": False},
}
WEAK = {
    "Reapers_WeakExpireEarly.cfg": "Inv_C16_Expiration",
    "Reapers_WeakExpireNever.cfg": "Inv_C16_Expiration",
    "Reapers_WeakGcProvList.cfg": "Inv_C16_GarbageCollection",
    "Reapers_WeakGcLookup.cfg": "Inv_C16_GarbageCollection",
    "Reapers_WeakGcReady.cfg": "Inv_C16_GarbageCollection",
    "Reapers_WeakLive.cfg": "Inv_C16_Liveness",
    "Reapers_WeakRepairEarly.cfg": "Inv_C16_Repair",
    "Reapers_WeakRepairExtra.cfg": "Inv_C16_Repair",
    "Reapers_WeakRepairScope.cfg": "Inv_C16_Repair",
    "Reapers_WeakRepairList.cfg": "Inv_C16_Repair",
}
REAPERS = {"nodeclaim.expiration": "expiration", "nodeclaim.garbagecollection": "gc", "node.health": "repair",
           "nodeclaim.lifecycle": "liveness"}


# ---------------------------------------------------------------------- TLC, several runs at once
def tlc_par(run, jobs, par=4):
    """jobs: list of (module, cfg, workers, timeout, coverage). Runs them concurrently in run.specdir (each with its own
    metadir / output file); returns list of dicts {cfg, rc, out, generated, distinct, depth, violated, error, wall, zero}."""
    def one(i_job):
        i, (module, cfg, workers, timeout, coverage) = i_job
        meta = os.path.join(run.work, "pmeta-%s-%d" % (cfg, i))
        outp = os.path.join(run.work, "tlc-par-%s.out" % cfg)
        cmd = ["java", "-XX:+UseParallelGC", "-Xmx3g", "-Xss64m", "-cp", vlib.TLA_CP, "tlc2.TLC", "-metadir", meta,
               "-config", cfg, "-workers", str(workers), "-deadlock"]
        if coverage:
            cmd += ["-coverage", "1"]
        cmd.append(module + ".tla")
        e = dict(os.environ)
        e.pop("JAVA_TOOL_OPTIONS", None)
        t = time.time()
        with open(outp, "w") as out:
            try:
                p = subprocess.run(cmd, cwd=run.specdir, env=e, stdout=out, stderr=subprocess.STDOUT, timeout=timeout)
            except subprocess.TimeoutExpired:
                raise vlib.InfraError("TLC timeout after %ss on %s/%s" % (timeout, module, cfg))
        txt = open(outp, errors="replace").read()
        r = {"module": module, "cfg": cfg, "rc": p.returncode, "out": outp, "generated": 0, "distinct": 0, "depth": 0,
             "violated": None, "error": None, "wall": time.time() - t, "zero": []}
        m = re.search(r"(\d+) states generated, (\d+) distinct states found", txt)
        if m:
            r["generated"], r["distinct"] = int(m.group(1)), int(m.group(2))
        m = re.search(r"depth of the complete state graph search is (\d+)", txt)
        if m:
            r["depth"] = int(m.group(1))
        m = re.search(r"Invariant (\S+) is violated", txt)
        if m:
            r["violated"] = m.group(1)
        m = re.search(r"Action property (\S+) is violated", txt)
        if m and not r["violated"]:
            r["violated"] = m.group(1)
        if "Error:" in txt and not r["violated"]:
            em = re.search(r"Error: (.*(?:\n.*){0,6})", txt)
            r["error"] = em.group(1) if em else "unknown TLC error"
        if coverage:
            for cm in re.finditer(r"^<(\w+) line \d+, col \d+ to line \d+, col \d+ of module (\w+)>: (\d+):(\d+)$", txt, re.M):
                if int(cm.group(4)) == 0 and cm.group(1) != "Init":
                    r["zero"].append(cm.group(1))
        return r

    with cf.ThreadPoolExecutor(max_workers=par) as ex:
        return list(ex.map(one, list(enumerate(jobs))))


def closed_models(run, cfgs, workers=2, timeout=1200, coverage=False, par=4):
    res = tlc_par(run, [("Reapers", c, workers, timeout, coverage) for c in cfgs], par=par)
    taken = None
    for r in res:
        run.states += r["distinct"]
        run.transitions += r["generated"]
        run.models.append({"module": "Reapers", "cfg": r["cfg"], "distinct": r["distinct"], "generated": r["generated"],
                           "depth": r["depth"], "wall_s": round(r["wall"], 1), "violated": r["violated"]})
        run.notes.append("tlc Reapers/%s: generated=%d distinct=%d depth=%d wall=%.1fs" % (
            r["cfg"], r["generated"], r["distinct"], r["depth"], r["wall"]))
        if r["error"]:
            raise vlib.InfraError("TLC error on Reapers/%s: %s (see %s)" % (r["cfg"], r["error"], r["out"]))
        if r["violated"] or r["rc"] != 0:
            raise vlib.InfraError("closed model Reapers/%s does not satisfy its invariants (%s); model and code must be "
                                  "reconciled before this check can be trusted" % (r["cfg"], r["violated"]))
        if coverage:
            z = set(r["zero"])
            taken = z if taken is None else (taken & z)
    # an action is vacuous only if no configuration of the closed model ever takes it
    return sorted(taken or [])


def weak_configs(run, which, timeout=600, par=4):
    res = tlc_par(run, [("Reapers", c, 2, timeout, False) for c in which], par=par)
    for r in res:
        want = WEAK[r["cfg"]]
        if r["violated"] != want:
            raise vlib.InfraError("spec mutation %s not rejected by TLC (expected %s, got %s / %s)" % (
                r["cfg"], want, r["violated"], r["error"]))
    run.notes.append("spec mutations rejected by TLC as expected: " + ", ".join(
        "%s->%s" % (r["cfg"].replace("Reapers_", "").replace(".cfg", ""), r["violated"]) for r in res))


def gen_constants(run, cfg="Reapers_Gen.cfg"):
    txt = open(os.path.join(run.specdir, cfg)).read()
    out = {}
    for k in ("EA", "LT", "RT", "TolReady", "TolDisk"):
        out[k] = int(re.search(r"\b%s = (\d+)" % k, txt).group(1))
    out["Claims"] = re.findall(r'"(c\d)"', re.search(r"Claims = \{([^}]*)\}", txt).group(1))
    return out


# ---------------------------------------------------------------------- model history -> driver steps
def fault(verb, kind, nth=1, err="Server", sub="-"):
    return {"verb": verb, "kind": kind, "sub": sub, "nth": nth, "err": err}


def claim_step(name, pool, ea, pid, launched="True", registered="True", instance=True, **kw):
    st = {"a": "Claim", "name": name, "pool": pool, "expireAfter": ea, "launched": launched, "registered": registered,
          "pid": pid, "instance": instance}
    st.update(kw)
    return st


def node_step(name, pid, pool, ready="True", conds=None):
    return {"a": "Node", "name": name, "pid": pid, "pool": pool, "ready": ready, "conds": conds or {}}


def bgname(sc, i):
    return "bg%s%02d" % (sc, i)


def policies(k):
    return [{"type": "Ready", "status": "False", "toleration": k["TolReady"]},
            {"type": "BadDisk", "status": "True", "toleration": k["TolDisk"]}]


def from_model(h, k, rng):
    """Translate a history of Reapers.tla (constants k) into driver steps."""
    init = h[0]
    assert init["a"] == "Init"
    bg = {"p": [init["pt"], init["pu"]], "o": [init["ot"], init["ou"]]}
    steps = [{"a": "Pool", "name": "p"}]
    for c in k["Claims"]:
        a = ATTR[c]
        ea = k["EA"] if a["ea"] == "EA" else a["ea"]
        if a["reg"]:
            steps.append(claim_step(c, a["pool"], ea, a["pid"]))
            steps.append(node_step(a["node"], a["pid"], a["pool"], "True", {"BadDisk": "False"}))
        else:
            steps.append(claim_step(c, a["pool"], ea, "", launched="Unknown", registered="Unknown", instance=False))
    for sc, pool in (("p", "p"), ("o", "")):
        for i in range(1, bg[sc][0] + 1):
            steps.append(node_step(bgname(sc, i), bgname(sc, i), pool, "True", {"BadDisk": "True" if i <= bg[sc][1] else "False"}))
    err = lambda: rng.choice(["Server", "Server", "TooManyRequests", "Conflict"])
    launched = {c: ATTR[c]["reg"] for c in k["Claims"]}
    for e in h[1:]:
        a = e["a"]
        c = e.get("c")
        f = e.get("f", "none")
        n0 = len(steps)
        if a == "Tick":
            steps.append({"a": "Tick", "to": e["to"]})
        elif a == "Expire":
            steps.append({"a": "Expire", "name": c, "faults": [fault("delete", "NodeClaim", 1, err())] if f == "delete" else []})
        elif a == "Gc":
            st = {"a": "Gc", "faults": [], "prov": "ok", "lookupFail": [ATTR[x]["pid"] for x in e.get("lf", [])]}
            if f == "claimList":
                st["faults"] = [fault("list", "NodeClaim", 1, err())]
            elif f == "provList":
                st["prov"] = "err"
            elif f == "delete":
                st["faults"] = [fault("delete", "NodeClaim", 0, err())]
            steps.append(st)
        elif a == "Live":
            st = {"a": "Live", "name": c, "faults": [], "prov": "ok" if launched[c] else "err"}
            if f == "poolGet":
                st["faults"] = [fault("get", "NodePool", 1, "Server")]
            elif f == "delete":
                st["faults"] = [fault("delete", "NodeClaim", 1, err())]
            steps.append(st)
        elif a == "Repair":
            st = {"a": "Repair", "name": ATTR[c]["node"], "faults": []}
            if f == "claimList":
                st["faults"] = [fault("list", "NodeClaim", 1, err())]
            elif f == "nodeList":
                st["faults"] = [fault("list", "Node", 1, err())]
            elif f == "annotate":
                st["faults"] = [fault("patch", "NodeClaim", 1, err())]
            elif f == "delete":
                st["faults"] = [fault("delete", "NodeClaim", 1, err())]
            steps.append(st)
        elif a == "InstanceVanishes":
            steps.append({"a": "InstanceGone", "pid": ATTR[c]["pid"]})
        elif a == "NodeReady":
            steps.append({"a": "SetCond", "name": ATTR[c]["node"], "type": "Ready", "status": e["s"]})
        elif a == "DiskBad":
            steps.append({"a": "SetCond", "name": ATTR[c]["node"], "type": "BadDisk", "status": e["s"]})
        elif a == "NodeGone":
            steps.append({"a": "NodeGone", "name": ATTR[c]["node"]})
        elif a == "BgFlip":
            sc, d = e["sc"], e["d"]
            if d > 0:
                bg[sc][1] += 1
                steps.append({"a": "SetCond", "name": bgname(sc, bg[sc][1]), "type": "BadDisk", "status": "True"})
            else:
                steps.append({"a": "SetCond", "name": bgname(sc, bg[sc][1]), "type": "BadDisk", "status": "False"})
                bg[sc][1] -= 1
        elif a == "UserDelete":
            steps.append({"a": "UserDelete", "name": c})
        elif a == "Launched":
            launched[c] = True
            steps.append({"a": "SetClaim", "name": c, "launched": "True", "pid": ATTR[c]["pid"], "instance": True})
        elif a == "Registered":
            steps.append({"a": "SetClaim", "name": c, "registered": "True"})
            steps.append(node_step(ATTR[c]["node"], ATTR[c]["pid"], ATTR[c]["pool"], "True", {"BadDisk": "False"}))
        elif a == "Restart":
            steps.append({"a": "Restart"})
        else:
            raise vlib.InfraError("unknown model action %r" % a)
        if "del" in e:      # what the model (documented behaviour) expects this reconcile to delete
            steps[n0]["expect"] = sorted(e["del"])
    return steps


def simulate(run, nsim, per_prefix, rng):
    """TLC simulation of Reapers.tla. TLC prints every successor of the last-but-one state of each random walk; keep
    `per_prefix` of them per walk (they differ in the last step only)."""
    hs = run.generate("Reapers", "Reapers_Gen.cfg", workers=1, simulate="num=%d" % nsim, depth=24, timeout=900)
    if not hs:
        raise vlib.InfraError("TLC generated no Reapers behaviours")
    k = gen_constants(run)
    groups = {}
    for h in hs:
        groups.setdefault(json.dumps(h[:-1], sort_keys=True), []).append(h)
    behs = []
    for _, g in sorted(groups.items()):
        uniq = {json.dumps(h, sort_keys=True): h for h in g}
        pick = sorted(uniq)
        rng.shuffle(pick)
        # prefer last steps that are controller actions
        pick.sort(key=lambda s: 0 if uniq[s][-1]["a"] in ("Expire", "Gc", "Live", "Repair") else 1)
        for s in pick[:per_prefix]:
            behs.append({"cfg": {"policies": policies(k)}, "steps": from_model(uniq[s], k, rng), "tag": "tlc-sim"})
    return behs, len(hs)


# ---------------------------------------------------------------------- systematic placement
POL2 = [{"type": "Ready", "status": "False", "toleration": 120}, {"type": "Ready", "status": "Unknown", "toleration": 90},
        {"type": "BadDisk", "status": "True", "toleration": 60}]


def ceil20(n):
    return (n + 4) // 5


def sys_expiration(tier, rng):
    behs = []
    FAR = 2000000
    for ea in (-1, 0, 45, 600):
        for created in (0, 7):
            for variant in ("plain", "nofinalizer", "deletefail", "stale", "userdeleted", "unmanaged"):
                if tier == "quick" and variant in ("nofinalizer", "unmanaged") and created == 7:
                    continue
                offs = (-1, 0, 1) if ea > 0 else ((0, 1) if ea == 0 else (0,))
                for off in offs:
                    steps = [{"a": "Pool", "name": "p"}]
                    if created:
                        steps.append({"a": "Tick", "to": created})
                    steps.append(claim_step("c1", "p", ea, "i1", noFinalizer=(variant == "nofinalizer"), unmanaged=(variant == "unmanaged")))
                    steps.append(node_step("n1", "i1", "p"))
                    t = (created + ea + off) if ea >= 0 else FAR
                    if variant == "stale":
                        steps.append({"a": "Expire", "name": "c1"})
                    if variant == "userdeleted":
                        steps.append({"a": "UserDelete", "name": "c1"})
                    if t > created:
                        steps.append({"a": "Tick", "to": t})
                    ex = {"a": "Expire", "name": "c1", "faults": []}
                    if variant == "deletefail":
                        ex["faults"] = [fault("delete", "NodeClaim", 1, rng.choice(["Server", "Conflict", "NotFound"]))]
                    if variant == "stale":
                        ex["stale"] = 1
                    steps += [ex, {"a": "Expire", "name": "c1"}]
                    if off < 0:   # then cross the threshold second by second
                        steps += [{"a": "Tick", "to": t + 1}, {"a": "Expire", "name": "c1"}]
                    steps.append({"a": "Restart"})
                    steps.append({"a": "Expire", "name": "c1"})
                    behs.append({"cfg": {"policies": []}, "steps": steps, "tag": "exp:%s:ea%d:c%d:%+d" % (variant, ea, created, off)})
    return behs


def sys_gc(tier, rng):
    behs = []
    node_states = ["True", "False", "Unknown", "", "absent", "gone-later", "duplicate"]
    faults = ["none", "claimList", "provList", "lookup", "lookupAll", "delete", "delete404"]
    for registered in ("True", "Unknown", "False"):
        for inst in ("listed", "gone", "never"):
            for ns in node_states:
                for f in faults:
                    if registered != "True" and (f not in ("none", "lookupAll") or ns not in ("True", "absent")):
                        continue
                    if tier == "quick" and inst == "never" and f not in ("none", "lookup"):
                        continue
                    steps = [{"a": "Pool", "name": "p"},
                             claim_step("c1", "p", -1, "i1", registered=registered, instance=(inst != "never")),
                             claim_step("c2", "", 600, "i2"), node_step("n2", "i2", "")]
                    if ns not in ("absent",):
                        steps.append(node_step("n1", "i1", "p", ready="True" if ns in ("gone-later", "duplicate") else ns))
                    if ns == "duplicate":
                        steps.append(node_step("n1b", "i1", "p", ready="True"))
                    steps.append({"a": "Tick", "to": 30})
                    steps.append({"a": "Gc"})
                    if inst == "gone":
                        steps.append({"a": "InstanceGone", "pid": "i1"})
                    if ns == "gone-later":
                        steps.append({"a": "NodeGone", "name": "n1"})
                    g = {"a": "Gc", "faults": [], "prov": "ok", "lookupFail": []}
                    if f == "claimList":
                        g["faults"] = [fault("list", "NodeClaim", 1)]
                    elif f == "provList":
                        g["prov"] = "err"
                    elif f == "lookup":
                        g["lookupFail"] = ["i1"]
                    elif f == "lookupAll":
                        g["lookupFail"] = ["*"]
                    elif f == "delete":
                        g["faults"] = [fault("delete", "NodeClaim", 0, rng.choice(["Server", "Conflict"]))]
                    elif f == "delete404":
                        g["faults"] = [fault("delete", "NodeClaim", 0, "NotFound")]
                    steps += [g, {"a": "Tick", "to": 150}, {"a": "Gc"}]
                    behs.append({"cfg": {"policies": []}, "steps": steps, "tag": "gc:%s:%s:%s:%s" % (registered, inst, ns or "nocond", f)})
    # several candidates in one pass (parallel workers): ready / not ready / absent node / still listed / deleting
    multi = [("a", "True"), ("b", "False"), ("c", "absent"), ("d", "True"), ("e", "Unknown")]
    lfs = [[], ["ia"], ["ib"], ["ic"], ["ia", "ib", "ic"], ["*"]]
    for lf in lfs:
        for listed_d in (True, False):
            steps = [{"a": "Pool", "name": "p"}]
            for x, ns in multi:
                steps.append(claim_step("c" + x, "p" if x in "abc" else "", -1, "i" + x))
                if ns != "absent":
                    steps.append(node_step("n" + x, "i" + x, "p" if x in "abc" else "", ready=ns))
            steps.append({"a": "UserDelete", "name": "ce"})
            for x, _ in multi:
                if x != "d" or not listed_d:
                    steps.append({"a": "InstanceGone", "pid": "i" + x})
            steps += [{"a": "Gc", "lookupFail": lf}, {"a": "Gc"}]
            behs.append({"cfg": {"policies": []}, "steps": steps, "tag": "gc-multi:%s:%s" % ("+".join(lf) or "none", listed_d)})
    return behs


def sys_repair(tier, rng):
    behs = []
    tol = {"BadDisk": 60, "ReadyFalse": 120, "ReadyUnknown": 90}

    def scenario(kind, n, u, off, f, others=(0, 0), cond="BadDisk", tag=""):
        """focal node n1 (claim c1) unhealthy since t=10; scope of `n` nodes of which `u` unhealthy (focal included);
        others = (healthy, unhealthy) nodes outside the scope (pool claims only)."""
        pool = "p" if kind == "pool" else ""
        steps = [{"a": "Pool", "name": "p"}, {"a": "Pool", "name": "q"},
                 claim_step("c1", pool, -1, "i1"), node_step("n1", "i1", pool, "True", {"BadDisk": "False"})]
        # the rest of the scope: for a standalone claim the cluster = labelled and unlabelled nodes alike
        for i in range(2, n + 1):
            p_i = pool if kind == "pool" else ("q" if i % 2 else "")
            steps.append(node_step("m%02d" % i, "j%02d" % i, p_i, "True", {"BadDisk": "True" if i <= u else "False"}))
        if kind == "pool":
            for i in range(others[0] + others[1]):
                steps.append(node_step("x%02d" % i, "y%02d" % i, "q" if i % 2 else "", "True",
                                       {"BadDisk": "True" if i >= others[0] else "False"}))
        steps.append({"a": "Tick", "to": 10})
        if cond == "BadDisk":
            steps.append({"a": "SetCond", "name": "n1", "type": "BadDisk", "status": "True"})
            t = 10 + tol["BadDisk"]
        elif cond == "ReadyFalse":
            steps.append({"a": "SetCond", "name": "n1", "type": "Ready", "status": "False"})
            t = 10 + tol["ReadyFalse"]
        elif cond == "ReadyUnknown":
            steps.append({"a": "SetCond", "name": "n1", "type": "Ready", "status": "Unknown"})
            t = 10 + tol["ReadyUnknown"]
        elif cond == "both":      # BadDisk at 10 (due 70), Ready=False at 20 (due 140): the earliest counts
            steps += [{"a": "SetCond", "name": "n1", "type": "BadDisk", "status": "True"}, {"a": "Tick", "to": 20},
                      {"a": "SetCond", "name": "n1", "type": "Ready", "status": "False"}]
            t = 10 + tol["BadDisk"]
        elif cond == "flap":      # unhealthy at 10, recovers at 40, unhealthy again at 50: due 110
            steps += [{"a": "SetCond", "name": "n1", "type": "BadDisk", "status": "True"}, {"a": "Tick", "to": 40},
                      {"a": "SetCond", "name": "n1", "type": "BadDisk", "status": "False"}, {"a": "Tick", "to": 50},
                      {"a": "SetCond", "name": "n1", "type": "BadDisk", "status": "True"}]
            t = 50 + tol["BadDisk"]
        elif cond == "cleared":   # recovers before the toleration elapses
            steps += [{"a": "SetCond", "name": "n1", "type": "BadDisk", "status": "True"}, {"a": "Tick", "to": 40},
                      {"a": "SetCond", "name": "n1", "type": "BadDisk", "status": "False"}]
            t = 10 + tol["BadDisk"]
        steps.append({"a": "Repair", "name": "n1"})
        steps.append({"a": "Tick", "to": t + off})
        r = {"a": "Repair", "name": "n1", "faults": []}
        if f == "claimList":
            r["faults"] = [fault("list", "NodeClaim", 1)]
        elif f == "nodeList":
            r["faults"] = [fault("list", "Node", 1, rng.choice(["Server", "TooManyRequests"]))]
        elif f == "nodeList404":
            r["faults"] = [fault("list", "Node", 1, "NotFound")]
        elif f == "annotate":
            r["faults"] = [fault("patch", "NodeClaim", 1, rng.choice(["Server", "Conflict"]))]
        elif f == "delete":
            r["faults"] = [fault("delete", "NodeClaim", 1, rng.choice(["Server", "Conflict"]))]
        elif f == "poolGet":
            r["faults"] = [fault("get", "NodePool", 1)]
        steps.append(r)
        steps.append({"a": "Repair", "name": "n1"})
        if off < 0:
            steps += [{"a": "Tick", "to": t}, {"a": "Repair", "name": "n1"}]
        behs.append({"cfg": {"policies": POL2}, "steps": steps,
                     "tag": "repair:%s:n%d:u%d:%+d:%s:%s%s" % (kind, n, u, off, f, cond, tag)})

    # (a) the 20 % grid: pool sizes 1..11 x unhealthy counts around the ceiling, at the toleration instant
    for kind in ("pool", "standalone"):
        for n in range(1, 12):
            c = ceil20(n)
            for u in sorted({x for x in (1, c - 1, c, c + 1, c + 2, n) if 1 <= x <= n}):
                fs = ["none"] if (tier == "quick" and u not in (c, c + 1)) else ["none", "nodeList", "nodeList404"]
                for f in fs:
                    scenario(kind, n, u, 0, f)
                # nodes outside the pool must not dilute (or burden) the pool's ratio
                if kind == "pool" and u in (c, c + 1):
                    scenario(kind, n, u, 0, "none", others=(9, 0), tag=":others-healthy")
                    scenario(kind, n, u, 0, "none", others=(0, 4), tag=":others-unhealthy")
    # (b) the toleration threshold: every condition shape x offset x fault
    for kind in ("pool", "standalone"):
        for cond in ("BadDisk", "ReadyFalse", "ReadyUnknown", "both", "flap", "cleared"):
            for off in (-1, 0, 1):
                for f in ("none", "claimList", "nodeList", "annotate", "delete", "poolGet"):
                    if tier == "quick" and f != "none" and (off != 0 or cond not in ("BadDisk", "both")):
                        continue
                    scenario(kind, 6, 2, off, f, cond=cond)
    return behs


def sys_liveness(tier, rng):
    """the lifecycle controller's liveness path inside the reapers world (Reapers_Trace evaluates G_C16_Liveness)"""
    behs = []
    for kind, T in (("launch", 300), ("registration", 900)):
        for created in (0, 13):
            for off in (-1, 0, 1):
                for f in ("none", "poolGet", "poolPatch", "delete"):
                    if tier == "quick" and f != "none" and off != 0:
                        continue
                    steps = [{"a": "Pool", "name": "p"}]
                    if created:
                        steps.append({"a": "Tick", "to": created})
                    if kind == "launch":
                        steps.append(claim_step("c3", "p", -1, "", launched="Unknown", registered="Unknown", instance=False))
                        prov = "err"
                    else:
                        steps.append(claim_step("c3", "p", -1, "i3", launched="True", registered="Unknown", instance=True))
                        prov = "ok"
                    steps.append({"a": "Live", "name": "c3", "prov": prov})
                    steps.append({"a": "Tick", "to": created + T // 2})
                    steps.append({"a": "Live", "name": "c3", "prov": prov})
                    steps.append({"a": "Tick", "to": created + T + off})
                    lv = {"a": "Live", "name": "c3", "prov": prov, "faults": []}
                    if f == "poolGet":
                        lv["faults"] = [fault("get", "NodePool", 1)]
                    elif f == "poolPatch":
                        lv["faults"] = [fault("patch", "NodePool", 1, "Conflict", sub="status")]
                    elif f == "delete":
                        lv["faults"] = [fault("delete", "NodeClaim", 1, rng.choice(["Server", "Conflict"]))]
                    steps += [lv, {"a": "Live", "name": "c3", "prov": prov}]
                    if off < 0:
                        steps += [{"a": "Tick", "to": created + T}, {"a": "Live", "name": "c3", "prov": prov}]
                    behs.append({"cfg": {"policies": []}, "steps": steps, "tag": "live:%s:c%d:%+d:%s" % (kind, created, off, f)})
    # the conditions are stamped by the controller itself, later than the claim's creation: the timeout runs from the stamp
    for kind, T in (("launch", 300), ("registration", 900)):
        for off in (-1, 0, 1):
            prov = "err" if kind == "launch" else "ok"
            steps = [{"a": "Pool", "name": "p"},
                     claim_step("c3", "p", -1, "", launched="", registered="", instance=False, noFinalizer=True),
                     {"a": "Tick", "to": 40}, {"a": "Live", "name": "c3", "prov": prov}, {"a": "Live", "name": "c3", "prov": prov},
                     {"a": "Tick", "to": 40 + T - 2}, {"a": "Live", "name": "c3", "prov": prov}]
            # approach second by second (the controller's own Sleep(1s) after a patch may have moved the stamp by a second)
            for t in range(40 + T - 1, 40 + T + 3 + off):
                steps += [{"a": "Tick", "to": t}, {"a": "Live", "name": "c3", "prov": prov}]
            behs.append({"cfg": {"policies": []}, "steps": steps, "tag": "live-late-stamp:%s:%+d" % (kind, off)})
    # the condition changed after creation (Launched went False at t=20, Registered went False at t=20): the timeout runs
    # from the condition's last transition, not from the claim's creation
    for kind, T in (("launch", 300), ("registration", 900)):
        prov = "err" if kind == "launch" else "ok"
        if kind == "launch":
            steps = [{"a": "Pool", "name": "p"}, claim_step("c3", "p", -1, "", launched="Unknown", registered="Unknown", instance=False),
                     {"a": "Tick", "to": 20}, {"a": "SetClaim", "name": "c3", "launched": "False"}]
        else:
            steps = [{"a": "Pool", "name": "p"}, claim_step("c3", "p", -1, "i3", launched="True", registered="Unknown", instance=True),
                     {"a": "Tick", "to": 20}, {"a": "SetClaim", "name": "c3", "registered": "False"}]
        steps.append({"a": "Live", "name": "c3", "prov": prov})
        for t in range(T - 2, T + 24):
            steps += [{"a": "Tick", "to": t}, {"a": "Live", "name": "c3", "prov": prov}]
        behs.append({"cfg": {"policies": []}, "steps": steps, "tag": "live-restamped:%s" % kind})
    return behs


def systematic(tier, rng):
    return sys_expiration(tier, rng) + sys_gc(tier, rng) + sys_repair(tier, rng) + sys_liveness(tier, rng)


# ---------------------------------------------------------------------- recording / accounting
def record(run, behs, prefix="reapers"):
    bpath = os.path.join(run.work, prefix + "-behs.json")
    json.dump(behs, open(bpath, "w"))
    out = json.loads(run.drv("reapers", ["-in", bpath, "-out", os.path.join(run.work, "traces-" + prefix), "-shards", vlib.NCPU]))
    return out["files"]


def account(files, nshards):
    """Per behaviour index: which reapers performed an effective delete; counts of guarded events.
    trace.Writer deals behaviours round-robin over `nshards` files (file name carries the shard index)."""
    import collections
    counts = collections.Counter()
    per = {}
    for f in files:
        shard = int(re.search(r"-(\d+)\.ndjson$", f).group(1))
        k = -1
        live = {}   # claim name -> deleting? (to recognise effective deletes like the trace spec does)
        cur = None
        for line in open(f):
            ev = json.loads(line)
            e = ev["e"]
            if e == "Cfg":
                k += 1
                cur = {"tag": ev.get("tag", ""), "deletes": [], "panics": 0, "by_step": {}}
                step = None
                per[shard + k * nshards] = cur
                live = {}
            elif e in ("Api", "Env") and ev.get("kind") == "NodeClaim":
                post = ev.get("post", {})
                ok = e == "Env" or ev.get("err") == "-"
                if e == "Api" and ok and ev["verb"] == "delete" and ev["actor"] in REAPERS and live.get(ev["name"]) is False:
                    cur["deletes"].append(REAPERS[ev["actor"]])
                    counts["delete:" + REAPERS[ev["actor"]]] += 1
                    if step is not None:
                        cur["by_step"][step].append(ev["name"])
                if e == "Api" and ev.get("injected"):
                    counts["injected:%s/%s" % (ev["verb"], ev["kind"])] += 1
                if ok:
                    if post.get("exists"):
                        live[ev["name"]] = bool(post.get("deleting"))
                    else:
                        live.pop(ev["name"], None)
            elif e == "Read" and ev.get("injected"):
                counts["injected:%s/%s" % (ev["verb"], ev["kind"])] += 1
            elif e == "Prov" and ev.get("call") == "List" and ev.get("err") != "-":
                counts["injected:provider/List"] += 1
            elif e == "Begin":
                step = ev.get("step")
                cur["by_step"][step] = []
            elif e == "End":
                step = None
                if ev.get("panic"):
                    cur["panics"] += 1
                    counts["panic:" + ev["controller"]] += 1
    return per, counts


def model_drift(behs, per):
    """Compare, for the model-generated behaviours, the deletes the model expected of each reconcile with what the real
    controller did.  Diagnostic only (MODEL-DRIFT notes): the model is the documented behaviour, the verdict is the
    guards'.  Returns counters {agree, model_only (real more conservative / clock drift), real_only}."""
    import collections
    c = collections.Counter()
    examples = []
    for i, b in enumerate(behs):
        for j, st in enumerate(b["steps"]):
            if "expect" not in st:
                continue
            real = sorted(per[i]["by_step"].get(j, []))
            key = st["a"].lower()
            if real == st["expect"]:
                c[key + ":agree"] += 1
                if real:
                    c[key + ":agree-delete"] += 1
                continue
            kind = "real_only" if set(real) - set(st["expect"]) else "model_only"
            if st["a"] == "Gc" and st.get("lookupFail") and kind == "real_only":
                kind = "real_only(lookup-failed)"
            c[key + ":" + kind] += 1
            if len(examples) < 5 and kind != "real_only(lookup-failed)":
                examples.append({"behaviour": i, "step": j, "a": st["a"], "model": st["expect"], "real": real})
            break       # from the first divergence on the two worlds differ: later reconciles are not comparable
    return dict(c), examples
