"""C08 — Replacements are ready before removal; failed actions roll back; one action per node.

Closed model Orchestration.tla (one action per linearization point of Queue.StartCommand / Queue.Reconcile /
the controller's stale cleanup, per-call faults, replacement initialisation / disappearance / stall, clock, restart
between any two steps; CodeMode code|fixed) checked exhaustively by TLC; behaviours (TLC simulation of the model +
systematic fault / crash / restart placement at every API call of canonical command paths + two-command and
real-controller paths) are replayed on the real disruption queue / controller / provisioner / cluster state by the `orch`
driver; Orchestration_Trace.tla evaluates the guards of OrchestrationGuards.tla on every recorded candidate delete,
command start, failed pass and quiescent point."""
import collections
import glob
import json
import os
import random

import vlib
from checks import orch_common as oc

NSIM = {"quick": 6000, "thorough": 60000}
PER_CLASS = {"quick": 1, "thorough": 3}
MAX_MODEL = {"quick": 260, "thorough": 4000}
NVARIANTS = {"quick": 1000, "thorough": 10 ** 9}
PROCS = {"quick": 12, "thorough": 16}
ALL_INV = ("TypeOK Inv_C08_DeleteAfterAllInitialized Inv_C08_NoDeleteAfterFailure_Code Inv_C08_SingleCommandPerNode "
           "Inv_C08_RolledBackWhenQuiet Inv_C08_RolledBackByAction")
WEAK_EXPECT = {"anyInitialized": "Inv_C08_DeleteAfterAllInitialized", "vanishedCountsAsReady": "Inv_C08_DeleteAfterAllInitialized",
               "markBeforeCreate": "Inv_C08_RolledBackWhenQuiet", "noUnmark": "Inv_C08_RolledBackWhenQuiet",
               "noUntaint": "Inv_C08_RolledBackByAction", "noCleanup": "Inv_C08_RolledBackWhenQuiet",
               "noHasAny": "Inv_C08_SingleCommandPerNode", "unmarkStopsAtMissing": "Inv_C08_RolledBackWhenQuiet",
               "requeueOnRollbackError": "Inv_C08_NoDeleteAfterFailure_Code"}


def closed_models(run):
    """All TLC runs on the closed model, three at a time (each on its own copy of `run`: vlib numbers its TLC scratch
    directories with a per-object counter)."""
    import concurrent.futures as cf
    import copy
    import threading
    thorough = run.tier == "thorough"
    lock = threading.Lock()
    rejected = []
    if not thorough:
        # two commands, quick: no fault, no restart (the exhaustive two-command model with one fault and one restart is the thorough tier)
        cfg = open(os.path.join(run.specdir, "Orchestration_MC2.cfg")).read().replace("MaxFaults = 1", "MaxFaults = 0").replace(
            "MaxRestarts = 1", "MaxRestarts = 0")
        open(os.path.join(run.specdir, "Orchestration_MC2q.cfg"), "w").write(cfg)

    def mc(r):
        x = r.closed_model("Orchestration", "Orchestration_MC.cfg", workers=6, heap="4g", coverage=True, timeout=1500)
        if x.coverage_zero:
            raise vlib.InfraError("vacuous closed model Orchestration, actions never taken: %s" % x.coverage_zero)

    def lead(r):
        # spec mutation "queue.go before fix 43007e763" (F-C08-1: timeout declared after the deletes succeeded): must be rejected
        x = r.tlc("Orchestration", "Orchestration_Lead.cfg", workers=2, heap="2g", expect_violation=True)
        if x.violated != "Inv_C08_NoDeleteAfterFailure":
            raise vlib.InfraError("the model of queue.go before the fix of F-C08-1 (CodeMode=wrapAlways) is not rejected by TLC")
        with lock:
            rejected.append("wrapAlways(F-C08-1)")

    def weak(name):
        def f(r):
            x = r.tlc("Orchestration", "Orchestration_Weak_%s.cfg" % name, workers=2, heap="2g", expect_violation=True)
            if x.violated != WEAK_EXPECT.get(name):
                raise vlib.InfraError("spec mutation %s not rejected by TLC as expected (got %s)" % (name, x.violated))
            with lock:
                rejected.append(name)
        return f

    def weaklive(r):
        x = r.tlc("Orchestration", "Orchestration_WeakLive_noUnmark.cfg", workers=2, heap="2g", expect_violation=True)
        if "Live_C08_RolledBack_T was violated" not in x.stdout:
            raise vlib.InfraError("spec mutation noUnmark does not violate the liveness property")
        with lock:
            rejected.append("live:noUnmark")

    def model(cfg, workers, heap="4g", timeout=1500):
        return lambda r: r.closed_model("Orchestration", cfg, workers=workers, heap=heap, timeout=timeout)
    jobs = [mc, lead, model("Orchestration_Pure.cfg", 6), model("Orchestration_Live.cfg", 4, "3g")]
    if thorough:
        jobs = [model("Orchestration_MC2.cfg", 10, "6g", 3000), model("Orchestration_MC3.cfg", 6, "4g", 3000)] + jobs
    else:
        jobs.append(model("Orchestration_MC2q.cfg", 6))
    names = sorted(os.path.basename(c)[len("Orchestration_Weak_"):-4] for c in glob.glob(os.path.join(run.specdir, "Orchestration_Weak_*.cfg")))
    if set(names) != set(WEAK_EXPECT):
        raise vlib.InfraError("spec mutation configs and expectations differ: %s" % sorted(set(names) ^ set(WEAK_EXPECT)))
    jobs += [weak(n) for n in names] + [weaklive]
    subs = []

    def runjob(ij):
        i, job = ij
        r = copy.copy(run)          # shares notes / models lists, own counters
        r._tlc_n = 100 * (i + 1)
        r.states = r.transitions = 0
        subs.append(r)
        job(r)
    with cf.ThreadPoolExecutor(max_workers=3) as ex:
        list(ex.map(runjob, enumerate(jobs)))
    run.states += sum(r.states for r in subs)
    run.transitions += sum(r.transitions for r in subs)
    run.notes.append("spec mutations rejected by TLC: " + ", ".join(sorted(rejected)))
    run.extra_cov["spec_mutations_rejected"] = sorted(rejected)


def model_behaviours(run, rng):
    behs = run.generate("Orchestration", "Orchestration_Gen.cfg", workers=1, simulate="num=%d" % NSIM[run.tier], depth=60,
                        heap="3g", timeout=1500)
    if not behs:
        raise vlib.InfraError("TLC generated no Orchestration behaviours")
    sel, nclasses = oc.select(behs, PER_CLASS[run.tier], rng)
    if len(sel) > MAX_MODEL[run.tier]:
        sel = rng.sample(sel, MAX_MODEL[run.tier])
    run.notes.append("TLC simulated %d behaviours of Orchestration.tla in %d classes, %d replayed" % (len(behs), nclasses, len(sel)))
    scen = []
    for i, b in enumerate(sel):
        sc = oc.scenario("tlc:%d" % i, oc.translate(b, rng), {"kind": "tlc", "idx": i})
        scen.append(sc)
    return sel, scen


def systematic(run, rng):
    base = [(n, st, None) for n, st in oc.base_paths() + oc.two_command_paths() + oc.cand_vanish_paths() + oc.rollback_paths()] + oc.round_paths() + oc.extra_paths()
    probe = [oc.scenario("base:" + n, st, {"kind": "base"}, log_reads=True, nodes_mut=mut) for n, st, mut in base]
    files = oc.record(run, probe, prefix="probe", procs=6)
    calls = {}
    for f in files:
        calls.update(oc.enumerate_calls(f))
    scen, nvar, unaligned = [], 0, []
    allv = []
    for n, st, mut in base:
        vs, ok = oc.variants(n, st, calls.get("base:" + n, []), rng, run.tier)
        if not ok:
            unaligned.append(n)
        allv += [(vn, vst, mut) for vn, vst in vs]
    nall = len(allv)
    if len(allv) > NVARIANTS[run.tier]:
        # stratified: one variant of every (base path, variant kind) first, the rest uniformly
        buckets = collections.defaultdict(list)
        for v in allv:
            path, _, what = v[0].partition("|")
            buckets[(path, what.split(":")[-2] if what.count(":") >= 2 and what.split(":")[-2] == "once" else what.split(":")[-1].split("@")[0].split("-")[0])].append(v)
        keys = sorted(buckets)
        rng.shuffle(keys)
        must = [v for v in allv if oc.is_rollback_variant(v[0])]     # every fault on every rollback call, always
        run.extra_cov["rollback_fault_variants"] = len(must)
        picked, seen = [], set()
        for v in must + [rng.choice(buckets[k]) for k in keys]:
            if v[0] not in seen and len(picked) < NVARIANTS[run.tier]:
                seen.add(v[0])
                picked.append(v)
        rest = [v for v in allv if v[0] not in seen]
        picked += rng.sample(rest, max(0, min(len(rest), NVARIANTS[run.tier] - len(picked))))
        run.extra_cov["variant_buckets"] = len(keys)
        allv = picked
    for vn, vst, mut in allv:
        scen.append(oc.scenario("var:" + vn, vst, {"kind": "variant"}, nodes_mut=mut))
    run.notes.append("systematic: %d base paths, %d call-position variants (fault once / always / crash before / after, restart "
                     "between steps), %d replayed%s" % (len(base), nall, len(allv),
                                                        ("; no call-level variants for %s" % unaligned) if unaligned else ""))
    run.extra_cov["base_paths"] = len(base)
    run.extra_cov["variants_total"] = nall
    run.extra_cov["variants_replayed"] = len(allv)
    return [oc.scenario("base:" + n, st, {"kind": "base"}, nodes_mut=mut) for n, st, mut in base] + scen, files


def check(run):
    run.rule = ("behaviours = (a) TLC simulation of Orchestration.tla (two commands, any candidate sets, 0-2 replacements, faults at "
                "any call, environment steps and a crash between any two calls), stratified by final state / faults / crash point; "
                "(b) canonical command paths (1-2 candidates x 0-2 replacements x every order of initialisation / disappearance / "
                "stall / timeout, two commands, commands started by the real controller) with, for EVERY API call of every "
                "controller step, a transient fault, a persistent fault and a crash at that call, and a restart between any two "
                "steps; each replayed on the real Queue.StartCommand / Queue.Reconcile / Controller.Reconcile; non-trivial = the "
                "real trace contains a candidate delete, a failed / refused / interrupted action or a second command")
    import time
    t0 = time.time()
    rng = random.Random(run.seed * 104729 + 8)
    sel, scen_model = model_behaviours(run, rng)
    t_gen = time.time() - t0
    # the closed-model runs (TLC) proceed in a background thread while the behaviours are replayed on the real code
    import threading
    bg = {"err": None}

    def models():
        try:
            closed_models(run)
        except BaseException as e:   # re-raised in the main thread
            bg["err"] = e
    th = None
    if os.environ.get("VERIF_FAST"):
        run.notes.append("VERIF_FAST: closed models and spec mutations skipped")
    else:
        th = threading.Thread(target=models)
        th.start()
    try:
        t1 = time.time()
        scen_sys, probe_files = systematic(run, rng)
        t_probe = time.time() - t1
        scen = scen_model + scen_sys
        t1 = time.time()
        files = oc.record(run, scen, procs=PROCS[run.tier])
        t_rec = time.time() - t1
        t1 = time.time()
    finally:
        if th is not None:
            th.join()
    if bg["err"] is not None:
        raise bg["err"]
    t_wait = time.time() - t1
    summ = oc.summarise(files)
    if len(summ) != len(scen):
        raise vlib.InfraError("trace count mismatch: %d traces for %d scenarios" % (len(summ), len(scen)))
    stats = collections.Counter()
    drift = []
    for sc in scen:
        s = summ[sc["name"]]
        run.note_case(sc["name"], oc.nontrivial(s))
        for k in ("deletes", "failed", "startFailed", "started", "succeeded", "restarts", "quiescent", "injected", "cuts", "panics", "skips",
                  "latched_vanish_delete"):
            stats[k] += s[k]
    for b, sc in zip(sel, scen_model):
        d = oc.model_drift(b, summ[sc["name"]])
        if d:
            drift.append((sc["name"], d))
    if stats["panics"]:
        run.notes.append("%d controller steps panicked (recovered like controller-runtime does; not judged by C08)" % stats["panics"])
    if stats["latched_vanish_delete"]:
        run.notes.append("OBSERVATION (not judged): in %d candidate deletes a replacement that had been seen Initialized (latched) had "
                         "since disappeared; the statement's 'a replacement disappears' is read as 'before it reported Initialized'"
                         % stats["latched_vanish_delete"])
    if drift:
        msg = "MODEL-DRIFT: %d of %d model behaviours ended differently on the real code (diagnostic, not a verdict): %s" % (
            len(drift), len(sel), drift[:4])
        run.notes.append(msg)
    run.extra_cov["model_drift"] = len(drift)
    run.extra_cov["guarded_event_counts"] = dict(stats)
    t1 = time.time()
    run.validate("Orchestration_Trace", "Orchestration_Trace.cfg", files + probe_files, heap="2g", par=min(vlib.NCPU, 16),
                 timeout=2400)
    run.notes.append("phases: generate %.0fs, probe (build + fault-free paths) %.0fs, replay %.0fs, waiting for closed models %.0fs, "
                     "trace validation %.0fs" % (t_gen, t_probe, t_rec, t_wait, time.time() - t1))
    run.exhaustive = run.tier == "thorough"   # thorough replays every call-position variant of every base path
    if not stats["deletes"] or not stats["failed"] or not stats["startFailed"] or not stats["cuts"]:
        # vacuity guard - but a real-code violation found on the way is a verdict and stands
        fresh = [v for v in run.viol if run.pmap.get(v.get("guard")) == run.pid and vlib.match_known(run.known, run.pid, v) is None]
        if not fresh:
            raise vlib.InfraError("vacuous run: guarded events missing %s" % dict(stats))
    run.samples = [{"scenario": scen[i]["name"], "steps": scen[i]["osteps"]} for i in (0, len(scen_model), len(scen) // 2, len(scen) - 1)]
    run.assumptions += [
        "controller-runtime fake client + harness choke point stand in for the API server; a crash at call n = every later call "
        "of that step fails and the process is re-instantiated (fresh queue, cluster state, provisioner)",
        "the informers deliver every change before the next controller step (no informer lag)",
        "'reports Initialized' = the stored NodeClaim has carried Initialized=True at or before the delete (Karpenter latches the "
        "observation on purpose); a replacement that disappears AFTER it reported Initialized is not counted as a failure",
        "'the action times out' = the orchestrator declares the command failed after its retry window; the window length itself "
        "(queue.GetMaxRetryDuration, 10 min here) is not prescribed by the statement",
        "quiescent point = un-launched NodeClaims are launched (environment fairness: cluster state must be synced), then queue "
        "passes and the stale cleanup run until no write happens at the current instant",
        "behaviours with more than one failing call in a row on the same delete (beyond the client's four retries) are included; "
        "the residual non-atomic partial-delete case is listed as known finding F-C08-2",
    ]


def replay(run, path):
    body = json.load(open(path))
    sc = json.loads(body["trace"][0]["scenarioJson"])
    files = oc.record(run, [sc], prefix="replay", shards=1, procs=1)
    s = oc.summarise(files)[sc["name"]]
    run.note_case(sc["name"], oc.nontrivial(s))
    run.note_case("replay", True)
    run.validate("Orchestration_Trace", "Orchestration_Trace.cfg", files, heap="2g", par=1)
    run.samples = [{"scenario": sc["name"], "steps": sc.get("osteps")}]
