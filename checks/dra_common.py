"""Scenario alphabet of the DRA half of C17 (dynamic resource allocation inside one scheduling pass).

Two sources of scenarios for harness/drivers/sched (scenario JSON with the optional `dra` section,
spec/SCHED_TRACE.md "DRA"):

* `from_world(world, variant, name)`: wraps a world enumerated by TLC from the closed model DRA.tla
  (in-cluster slices with exclusive devices consuming a pool counter, a shared device, per-instance-type
  templates, claims by kind, optional pre-allocation) into a full scenario: instance types A (2 CPU) and B
  (4 CPU), one pod per claim (or one pod with two claims), pod sizes chosen so that the NodeClaims stay
  superposed, lose type A by resource fit (-> ReleaseInstanceType) or multiply;
* `explore_dra(rng, name)`: seeded explorer over a wider alphabet (1-3 types with different template device
  counts, zone-scoped and node-local slices, existing nodes, counters on templates, claims shared by pods,
  pre-allocated claims reserved by bound pods, 2-7 pods).
"""
from checks import sched_common as sc

KIND = {  # kind -> (class/driver, count, capacity request)
    "net": ("net", 1, 0), "net2": ("net", 2, 0), "shm1": ("shm", 1, 1), "shm2": ("shm", 1, 2), "shm3": ("shm", 1, 3), "gpu": ("gpu", 1, 0), "tshm": ("tshm", 1, 3),
    "gpu2": ("gpu", 2, 0), "shm": ("shm", 1, 0), "gpuall": ("gpu", 0, 0), "netall": ("net", 0, 0),
    # FirstAvailable: the first alternative, else the second (ALT) - instance types of one NodeClaim may settle on different alternatives
    "fa-gpu2-gpu": ("gpu", 2, 0), "fa-gpu2-net": ("gpu", 2, 0), "fa-net2-gpu": ("net", 2, 0), "fa-shm3-tshm": ("shm", 1, 3),
}
ALT = {"fa-gpu2-gpu": ("gpu", 1), "fa-gpu2-net": ("net", 1), "fa-net2-gpu": ("gpu", 1), "fa-shm3-tshm": ("tshm", 1)}


def off(zone, ct="od", price=100, available=True):
    return {"zone": zone, "ct": ct, "price": price, "available": available, "rid": "", "rcap": 0, "cpuOv": 0, "memOv": 0}


def itype(name, cpu, zones=("a", "b")):
    return {"name": name, "cpu": cpu, "mem": cpu * 4, "pods": 110, "labels": {}, "ovCpu": 0, "ovMem": 0,
            "offerings": [off(z, "od", cpu // 20) for z in zones]}


def pool(name="p0", weight=0, reqs=()):
    return {"name": name, "weight": weight, "reqs": list(reqs), "labels": {}, "taints": [], "startup": [],
            "limits": {"cpu": 0, "mem": 0, "nodes": -1}, "types": []}


def claim(name, kind, alloc=(), reserved=(), zone="", others=0):
    cls, count, cap = KIND[kind]
    return {"name": name, "ns": "default", "class": cls, "count": count, "all": kind.endswith("all"), "capReq": cap, "alloc": list(alloc),
            "allocZone": zone, "reserved": list(reserved), "others": others, "altClass": ALT.get(kind, ("", 0))[0], "altCount": ALT.get(kind, ("", 0))[1]}


def classes(drivers):
    return [{"name": d, "driver": d} for d in sorted(drivers)]


OPTS = {"preference": "Respect", "minValues": "Strict", "reserved": "strict", "workers": 1, "maxTypes": 0, "create": False}
# pod sizes per variant: 0 all pods share one superposed NodeClaim; 1 the third pod no longer fits type A (fit prunes it);
# 2 two pods per node at most, only on B; 3 mixed; 4 one pod carries two claims
SIZES = {0: [400, 400, 400, 400], 1: [900, 900, 900, 900], 2: [1700, 1700, 1700, 1700], 3: [1500, 400, 900, 400], 4: [600, 600, 600, 600]}


def from_world(world, variant, name, reverse=False):
    d = {"classes": classes({"net", "shm", "gpu", "tshm"}),
         "slices": [dict(s, access="all", zone="", node="") for s in world["slices"]],
         "templates": world["templates"], "claims": [], "podClaims": []}
    pods = []
    live = [c for c in world["claims"] if not c["alloc"]]
    for c in world["claims"]:
        d["claims"].append(claim(c["name"], c["kind"], c["alloc"], c["reserved"], others=c["others"]))
    nodes = []
    held = [c["name"] for c in world["claims"] if "bd" in c["reserved"]]
    if held:        # the model's leaving pod: bound to a node that is marked for deletion, rescheduled in this pass with its claims
        nodes.append({"name": "nd", "stage": "initialized", "pool": "p0", "labels": {"zone": "a", "ct": "od", "it": "A", "arch": "amd64", "os": "linux", "pool": "p0"},
                      "taints": [], "startup": [], "ephemeral": False, "alloc": {"cpu": 2000, "mem": 8000, "pods": 110},
                      "cap": {"cpu": 2000, "mem": 8000, "pods": 110}, "marked": True, "deleting": False, "csi": []})
        bd = sc.plain_pod("bd", 300, 128)
        bd["node"], bd["owner"], bd["tol"] = "nd", "rs", [dict(sc.TOL_ALL)]
        pods.append(bd)
        d["podClaims"].append({"pod": "default/bd", "claims": held})
    live = [c for c in live if c["name"] not in held]
    if reverse:     # the model's kind multisets are ordered: also hand the claims to the pods in the opposite order
        live = live[::-1]
    sizes = SIZES[variant]
    i = 0
    while i < len(live):
        nw = sum(1 for x in pods if x["name"].startswith("w"))
        p = sc.plain_pod("w%d" % nw, sizes[nw % len(sizes)], 128)
        mine = [live[i]["name"]]
        if variant == 4 and i + 1 < len(live) and not nw:
            mine.append(live[i + 1]["name"])
            i += 1
        i += 1
        pods.append(p)
        d["podClaims"].append({"pod": "default/" + p["name"], "claims": mine})
    return {"name": name, "options": dict(OPTS, workers=(1, 2, 8)[variant % 3]), "types": [itype("A", 2000), itype("B", 4000)],
            "pools": [pool()], "nodes": nodes, "ds": [], "scs": [], "pvs": [], "pvcs": [], "pods": pods, "dra": d}


def dev(name, multi=False, cap=0, ctr=0):
    return {"name": name, "multi": multi, "cap": cap, "ctr": ctr}


def explore_nodelocal(rng, name="dn"):
    """The common node-local layout: an existing initialized node publishes a NODE-NAME-PINNED pool whose devices are partitions of one
    physical device - a shared (multi-allocatable) device and exclusive partitions that all consume the pool's counter -, part of it
    already allocated to claims of running pods (a share of the shared device and/or an exclusive partition); new pods ask for further
    partitions / shares of the same pool, which fit the counter only if what the pre-allocated devices consume is ignored."""
    t = itype("t0", rng.choice([4000, 8000]), ("a", "b"))
    types = [t] + ([itype("t1", 8000, ("a",))] if rng.random() < 0.3 else [])
    node = {"name": "n0", "stage": "initialized", "pool": "p0", "labels": {"zone": "a", "ct": "od", "it": "t0", "arch": "amd64", "os": "linux", "pool": "p0"},
            "taints": [], "startup": [], "ephemeral": False, "alloc": {"cpu": t["cpu"], "mem": t["mem"], "pods": 110},
            "cap": {"cpu": t["cpu"], "mem": t["mem"], "pods": 110}, "marked": False, "deleting": False, "csi": []}
    shared_ctr, part_ctr = rng.choice([2, 3, 4]), rng.choice([2, 3, 4, 6])
    nparts = rng.choice([1, 2, 2, 3])
    devs = [dev("sh0", True, rng.choice([6, 8]), shared_ctr)] + [dev("g%d" % i, False, 0, part_ctr) for i in range(nparts)]
    slots = rng.choice([part_ctr, shared_ctr + part_ctr - 1, shared_ctr + part_ctr, shared_ctr + 2 * part_ctr - 1, shared_ctr + nparts * part_ctr])
    access = rng.choice(["node", "node", "node", "zone"])
    slices = [{"name": "s-n0", "driver": "gpu", "pool": "n0-g", "access": access, "zone": "a" if access == "zone" else "", "node": "n0" if access == "node" else "",
               "devices": devs, "slots": 0},
              {"name": "s-n0-ctr", "driver": "gpu", "pool": "n0-g", "access": access, "zone": "a" if access == "zone" else "", "node": "n0" if access == "node" else "",
               "devices": [], "slots": slots}]
    templates = []
    if rng.random() < 0.4:
        templates.append({"type": "t0", "driver": "gpu", "pool": "g", "devices": [dev("tg0")], "slots": 0})
    claims, pcl, pods = [], [], []
    r = rng.random()
    pre = []
    if r < 0.7:         # a running pod holds a share of the shared device
        pre.append(("pc-sh", "shm2", {"driver": "gpu", "pool": "n0-g", "device": "sh0", "consumed": rng.choice([2, 3, 4])}))
    if r > 0.55 and nparts > 1:     # ... and/or an exclusive partition
        pre.append(("pc-g", "gpu", {"driver": "gpu", "pool": "n0-g", "device": "g%d" % (nparts - 1), "consumed": 0}))
    for i, (cn, kind, res) in enumerate(pre):
        bp = sc.plain_pod("b%d" % i, 300, 128)
        bp["node"], bp["owner"], bp["tol"] = "n0", "rs", [dict(sc.TOL_ALL)]
        pods.append(bp)
        c = claim(cn, kind, [res], [bp["name"]])
        c["class"] = "gpu"
        claims.append(c)
        pcl.append({"pod": "default/" + bp["name"], "claims": [cn]})
    for i in range(rng.choice([1, 2, 2, 3])):
        p = sc.plain_pod("w%d" % i, rng.choice([300, 500, 900]), 128)
        kind = rng.choice(["gpu", "gpu", "gpu", "gpu2", "shm2", "shm3"])
        c = claim("c%d" % i, kind)
        c["class"] = "gpu"      # the node-local pool's driver: partitions (no capacity request) or a share of the shared device
        claims.append(c)
        pods.append(p)
        pcl.append({"pod": "default/" + p["name"], "claims": [c["name"]]})
    d = {"classes": classes({"gpu"}), "slices": slices, "templates": templates, "claims": claims, "podClaims": pcl}
    return {"name": name, "options": dict(OPTS, workers=rng.choice([1, 2, 8])), "types": types, "pools": [pool("p0", 10)], "nodes": [node], "ds": [],
            "scs": [], "pvs": [], "pvcs": [], "pods": pods, "dra": d}


def explore_dra(rng, name="d"):
    if rng.random() < 0.25:
        return explore_nodelocal(rng, name)
    ntypes = rng.choice([1, 2, 2, 3])
    cpus = rng.sample([2000, 4000, 8000], ntypes)
    types = [itype("t%d" % i, cpus[i], rng.choice([("a", "b"), ("a",), ("a", "b", "c")])) for i in range(ntypes)]
    pools = [pool("p0", 10)]
    if rng.random() < 0.3:
        pools.append(pool("p1", 1, [{"key": "zone", "op": "In", "vals": [rng.choice(["a", "b"])], "n": 0, "min": 0}]))
    slices, templates, claims, pcl, nodes, pods = [], [], [], [], [], []
    # in-cluster network devices (exclusive), optionally metered by a pool counter
    nnet = rng.choice([0, 1, 2, 2, 3])
    metered = nnet > 0 and rng.random() < 0.4
    if nnet:
        access = rng.choice(["all", "all", "zone"])
        slices.append({"name": "s-net", "driver": "net", "pool": "np", "access": access, "zone": "a" if access == "zone" else "", "node": "",
                       "devices": [dev("n%d" % i, ctr=rng.choice([1, 1, 2]) if metered else 0) for i in range(nnet)], "slots": 0})
        if rng.random() < 0.3:      # a second slice of the same pool in another zone
            slices.append({"name": "s-net-b", "driver": "net", "pool": "np", "access": "zone", "zone": "b", "node": "",
                           "devices": [dev("nb0", ctr=1 if metered else 0)], "slots": 0})
        if metered:
            slices.append({"name": "s-net-ctr", "driver": "net", "pool": "np", "access": "all", "zone": "", "node": "", "devices": [],
                           "slots": rng.choice([1, 2, 3])})
    # a shared in-cluster device
    shared = rng.random() < 0.7
    if shared:
        access = rng.choice(["all", "all", "zone"])
        slices.append({"name": "s-shm", "driver": "shm", "pool": "sp", "access": access, "zone": rng.choice(["a", "b"]) if access == "zone" else "",
                       "node": "", "devices": [dev("m0", True, rng.choice([4, 5, 6, 8]))] + ([dev("m1", True, 3)] if rng.random() < 0.3 else []), "slots": 0})
    # templates: exclusive accelerators (more on bigger types), optionally metered, optionally a shared template device
    tmetered = rng.random() < 0.3
    for i, t in enumerate(types):
        n = rng.choice([0, 1, 1, 2]) + (1 if t["cpu"] >= 4000 else 0)
        if n:
            templates.append({"type": t["name"], "driver": "gpu", "pool": "g", "devices": [dev("g%d" % j, ctr=1 if tmetered else 0) for j in range(n)], "slots": 0})
            if tmetered:
                templates.append({"type": t["name"], "driver": "gpu", "pool": "g", "devices": [], "slots": rng.choice([1, 2, n])})
        if rng.random() < 0.4:
            templates.append({"type": t["name"], "driver": "tshm", "pool": "tp", "devices": [dev("t0", True, rng.choice([4, 6]))], "slots": 0})
    # an existing initialized node with a node-local published device
    if rng.random() < 0.35:
        t = rng.choice(types)
        z = t["offerings"][0]["zone"]
        nodes.append({"name": "n0", "stage": "initialized", "pool": "p0", "labels": {"zone": z, "ct": "od", "it": t["name"], "arch": "amd64", "os": "linux", "pool": "p0"},
                      "taints": [], "startup": [], "ephemeral": False, "alloc": {"cpu": t["cpu"], "mem": t["mem"], "pods": 110},
                      "cap": {"cpu": t["cpu"], "mem": t["mem"], "pods": 110}, "marked": False, "deleting": False, "csi": []})
        slices.append({"name": "s-node", "driver": "gpu", "pool": "n0-g", "access": "node", "zone": "", "node": "n0",
                       "devices": [dev("g0")] + ([dev("g1")] if rng.random() < 0.5 else []), "slots": 0})
        if rng.random() < 0.5:      # one of its devices is already allocated to a bound pod
            bp = sc.plain_pod("b0", 300, 128)
            bp["node"], bp["owner"], bp["tol"] = "n0", "rs", [dict(sc.TOL_ALL)]
            pods.append(bp)
            claims.append(claim("pc-node", "gpu", [{"driver": "gpu", "pool": "n0-g", "device": "g0", "consumed": 0}], ["b0"]))
            pcl.append({"pod": "default/b0", "claims": ["pc-node"]})
    # an in-flight node (launched, not yet initialized): its devices are still the TEMPLATES of its one instance type
    if rng.random() < 0.25:
        t = rng.choice(types)
        z = t["offerings"][0]["zone"]
        nodes.append({"name": "nf", "stage": rng.choice(["registered", "claimonly", "appeared"]), "pool": "p0",
                      "labels": {"zone": z, "ct": "od", "it": t["name"], "arch": "amd64", "os": "linux", "pool": "p0"},
                      "taints": [], "startup": [], "ephemeral": False, "alloc": {"cpu": t["cpu"], "mem": t["mem"], "pods": 110},
                      "cap": {"cpu": t["cpu"], "mem": t["mem"], "pods": 110}, "marked": False, "deleting": False, "csi": []})
    # an in-cluster pool with the SAME driver / pool / device names as the templates (ids collide, only the template flag differs)
    if rng.random() < 0.15:
        slices.append({"name": "s-gpu", "driver": "gpu", "pool": "g", "access": "all", "zone": "", "node": "", "devices": [dev("g0")], "slots": 0})
    # a node that is being removed: its pod is rescheduled in this pass and takes its claim (and the published device it holds) along
    if nnet and rng.random() < 0.2:
        t = types[0]
        nodes.append({"name": "nd", "stage": "initialized", "pool": "p0", "labels": {"zone": t["offerings"][0]["zone"], "ct": "od", "it": t["name"], "arch": "amd64", "os": "linux", "pool": "p0"},
                      "taints": [], "startup": [], "ephemeral": False, "alloc": {"cpu": t["cpu"], "mem": t["mem"], "pods": 110},
                      "cap": {"cpu": t["cpu"], "mem": t["mem"], "pods": 110}, "marked": True, "deleting": False, "csi": []})
        bp = sc.plain_pod("bd", 300, 128)
        bp["node"], bp["owner"], bp["tol"] = "nd", "rs", [dict(sc.TOL_ALL)]
        pods.append(bp)
        mig = ["pc-mig"]
        # (sometimes a non-pod consumer holds the claim as well: then it does not migrate)
        claims.append(claim("pc-mig", "net", [{"driver": "net", "pool": "np", "device": "n%d" % (nnet - 1), "consumed": 0}], ["bd"],
                            others=1 if rng.random() < 0.3 else 0))
        if shared and rng.random() < 0.6:   # ... and a share of the shared device
            claims.append(claim("pc-mig-shm", "shm2", [{"driver": "shm", "pool": "sp", "device": "m0", "consumed": 2}], ["bd"]))
            mig.append("pc-mig-shm")
        pcl.append({"pod": "default/bd", "claims": mig})
    # pre-allocated in-cluster devices (an exclusive device is held by at most one claim)
    if nnet and rng.random() < 0.3 and not (nnet == 1 and any(c["name"] == "pc-mig" for c in claims)):
        claims.append(claim("pc-net", "net", [{"driver": "net", "pool": "np", "device": "n0", "consumed": 0}]))
    if shared and rng.random() < 0.3:
        claims.append(claim("pc-shm", "shm2", [{"driver": "shm", "pool": "sp", "device": "m0", "consumed": rng.choice([2, 3])}]))
    kinds = ["gpu", "gpu", "gpu2"] + (["net", "net", "net2"] if nnet else []) + (["shm1", "shm2", "shm3", "shm3", "shm"] if shared else []) + ["tshm"]
    if shared and rng.random() < 0.25:      # capacity stress: mostly shares of the shared device
        kinds = ["shm1", "shm1", "shm2", "shm2", "shm3", "shm3", "gpu"]
    if rng.random() < 0.12:
        kinds += ["gpuall"] + (["netall"] if nnet else [])
    if rng.random() < 0.25:
        kinds += ["fa-gpu2-gpu", "fa-gpu2-gpu"] + (["fa-gpu2-net", "fa-net2-gpu"] if nnet else []) + (["fa-shm3-tshm"] if shared else [])
    small = min(cpus)
    sizes = [small // 5, small // 3, small // 2 - 50, small - 200, small + 200]
    npods = rng.choice([2, 3, 3, 4, 5, 6, 7])
    for i in range(npods):
        p = sc.plain_pod("w%d" % i, rng.choice(sizes), 128)
        p["created"] = rng.randrange(3)
        if rng.random() < 0.15:
            p["sel"]["zone"] = rng.choice(["a", "b"])
        mine = []
        for _ in range(rng.choice([0, 1, 1, 1, 2])):
            if claims and rng.random() < 0.12:
                cands = [c["name"] for c in claims if not c["alloc"]]
                if cands:
                    mine.append(rng.choice(cands))     # a claim shared with an earlier pod
                    continue
            c = claim("c%d" % len(claims), rng.choice(kinds))
            claims.append(c)
            mine.append(c["name"])
        pods.append(p)
        if mine:
            pcl.append({"pod": "default/" + p["name"], "claims": sorted(set(mine))})
    d = {"classes": classes({"net", "shm", "gpu", "tshm"}), "slices": slices, "templates": templates, "claims": claims, "podClaims": pcl}
    return {"name": name, "options": dict(OPTS, workers=rng.choice([1, 2, 8])), "types": types, "pools": pools, "nodes": nodes, "ds": [],
            "scs": [], "pvs": [], "pvcs": [], "pods": pods, "dra": d}


if __name__ == "__main__":
    import json
    import random
    import sys
    r = random.Random(int(sys.argv[1]) if len(sys.argv) > 1 else 0)
    for i in range(int(sys.argv[2]) if len(sys.argv) > 2 else 10):
        print(json.dumps(explore_dra(r, "d%d" % i), separators=(",", ":")))
