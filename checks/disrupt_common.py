"""Shared by the disruption family (C07; foundation for C05 rounds / C06 / C08 / C18):
cluster-scenario builders for harness/drivers/disruption (schema: spec/DISRUPT_TRACE.md), the mapping
from cells of Disruption.tla's blocker x method table to scenarios, and trace summarisation."""
import copy
import json
import os

import vlib

T0 = 1000   # instant of the round (Disruption.tla T0)
VD = 15     # validation delay
NW = 20     # nomination window (2 * BatchMaxDuration, default options)
DD = 300    # do-not-disrupt duration of the duration blockers
CA = 30     # consolidateAfter of the pools
METHODS = ["emptiness", "staticdrift", "drift", "multi", "single"]
EVENTUAL = ("drift", "staticdrift")
ZERO_COST = "-2147483647"   # pod-deletion-cost that clamps the pod's eviction cost to <= 0 ("empty" for Karpenter)


# ------------------------------------------------------------------ object builders (all fields explicit)
def pool(name, static=False, replicas=1, policy="WhenEmptyOrUnderutilized", ca=CA, budgets=None, **kw):
    p = {"name": name, "static": static, "replicas": replicas, "policy": policy, "consolidateAfter": ca,
         "budgets": budgets or [{"nodes": "100%"}], "tgp": -1, "absent": False}
    p.update(kw)
    return p


def node(name, pool_name, typ="medium", zone="zone-a", ct="on-demand", **kw):
    n = {"name": name, "pool": pool_name, "type": typ, "zone": zone, "ct": ct, "managed": True, "stage": "initialized",
         "initializedAt": 100, "lastPodEvent": 100, "createdAt": 50, "deleting": False, "nodeDeleting": False,
         "nodeGone": False, "instanceTerminating": False, "marked": False, "nominatedAt": -1, "nodeDnd": "", "claimDnd": "",
         "drifted": False, "driftedAt": -1, "tgp": -1, "buffer": 0, "noPoolLabel": False, "notReady": False,
         "consolidatable": "", "tainted": False, "expireAfter": -1}
    n.update(kw)
    return n


def pod(name, node_name, cpu=500, owner="replicaset", **kw):
    p = {"name": name, "ns": "default", "node": node_name, "cpu": cpu, "memMi": 64, "owner": owner, "dnd": "",
         "startedAt": 100, "phase": "", "terminating": False, "terminatingAt": -1, "labels": {"app": name},
         "deletionCost": "", "priority": 0, "hasPriority": False, "toleratesDisruption": False, "readyFalse": False}
    p.update(kw)
    return p


def pdb(name, selector, allowed=1, ns="default", **kw):
    b = {"name": name, "ns": ns, "selector": selector, "nilSelector": False, "allowed": allowed, "maxUnavailable": "",
         "minAvailable": "", "alwaysAllowUnhealthy": False}
    b.update(kw)
    return b


def scenario(name, pools, nodes, pods, pdbs, steps, tags=None, options=None, t0=T0):
    return {"name": name, "tags": tags or {}, "options": options or {}, "pools": pools, "nodes": nodes, "pods": pods,
            "pdbs": pdbs, "t0": t0, "steps": steps}


# ------------------------------------------------------------------ the base cluster of a method: X is its best candidate
def base(m, variant=0):
    """Cluster in which node x (pool xp) is the best candidate of method m and y (pool cp) an unblocked control.
    variant 1: the pod that carries pod-level blockers is a DaemonSet pod (emptiness) / a StatefulSet pod (others)."""
    static = m == "staticdrift"
    pools = [pool("xp", static=static), pool("cp", static=static, replicas=2 if m == "multi" else 1)]
    drift = dict(drifted=True) if m in EVENTUAL else {}
    if m == "emptiness":
        nodes = [node("x", "xp", "small"), node("y", "cp", "small")]
        pods = [pod("px", "x", deletionCost=ZERO_COST), pod("py", "y", deletionCost=ZERO_COST)]
    elif m in EVENTUAL:
        nodes = [node("x", "xp", "medium", driftedAt=500, **drift), node("y", "cp", "medium", driftedAt=600, **drift)]
        pods = [pod("px", "x"), pod("py", "y")]
    elif m == "single":
        # single-node consolidation interleaves pools in random (map) order: the control y is kept out of the candidates
        # by a do-not-disrupt pod so that x is deterministically the first candidate; y still offers room for px
        nodes = [node("x", "xp", "large"), node("y", "cp", "medium")]
        pods = [pod("px", "x"), pod("py", "y", dnd="true")]
    else:  # multi
        nodes = [node("x", "xp", "large"), node("y", "cp", "medium"), node("w", "cp", "medium")]
        pods = [pod("px", "x"), pod("py", "y"), pod("pw", "w")]
    if variant == 1:
        px = _px(pods)
        if m == "emptiness":
            px.update(owner="daemonset", deletionCost="", cpu=100)
        else:
            px.update(owner="statefulset")
    return pools, nodes, pods, []


GROUPS = {"unmanaged": "presence", "noNode": "presence", "nodeGone": "presence", "uninitialized": "presence", "marked": "mark",
          "claimDeleting": "deleting", "instanceTerminating": "deleting", "nominated": "nom", "nominatedEdge": "nom",
          "nominatedExpired": "nom", "nodeDnd": "nodeDnd", "nodeDndFalse": "nodeDnd", "noPoolLabel": "pool", "poolUnknown": "pool",
          "podDndTrue": "podDnd", "podDndDur": "podDnd", "podDndDurEdge": "podDnd", "podDndDurExpired": "podDnd",
          "podDndNoStart": "podDnd", "podDndInvalid": "podDnd", "podDndTerminal": "podDnd", "podDndTerminating": "podDnd", "dsPodDnd": "podDnd", "pdbZero": "pdb",
          "pdbOk": "pdb", "pdbMulti": "pdb", "pdbZeroWaived": "pdb", "pdbZeroTolerating": "pdb", "pdbZeroOtherNs": "pdb", "pdbZeroAll": "pdb", "pdbZeroNilSel": "pdb",
          "costMixedNeg": "cost", "costMixedPrio": "cost", "costAllNonPos": "cost", "costEdgeZero": "cost", "costEdgeTiny": "cost",
          "costLargePos": "cost", "costPrioOutweighs": "cost",
          "notConsolidatable": "cons", "consolidatableEdge": "cons", "consolidatableFalse": "cons", "poolKindFlip": "poolKind",
          "caNever": "ca", "caNeverStale": "ca", "whenEmpty": "policy", "buffer": "buffer", "notDrifted": "drift", "tgp": "tgp", "poolTgp": "poolTgp"}


def _px(pods, name="px"):
    return next((p for p in pods if p["name"] == name), None)


COST_ZERO_EDGE = "-134217728"    # eviction cost exactly 0   (1 + dc / 2^27)
COST_TINY_POS = "-134217727"     # smallest positive eviction cost
COST_LARGE = "2147483647"
PRIO_MIN = -2147483648           # priority / 2^25 = -64 -> clamped to -10


def apply_blocker(b, pools, nodes, pods, pdbs, rng=None, xname="x", pxname="px", xpname="xp", method=None):
    """Put blocker b of Disruption.tla on node xname (mirror of the model's Apply); pxname is the pod that carries
    pod-level blockers, xpname the node's pool (pool-level blockers change the pool itself)."""
    x, px = next(n for n in nodes if n["name"] == xname), _px(pods, pxname)
    xp = next(p for p in pools if p["name"] == xpname)
    dur = "300s" if rng is None else rng.choice(["300s", "5m", "5m0s"])
    if b == "unmanaged":
        x["managed"] = False
    elif b == "noNode":
        x["stage"] = "launched"
        pods[:] = [p for p in pods if p["node"] != xname]
    elif b == "nodeGone":
        x["nodeGone"] = True
        pods[:] = [p for p in pods if p["node"] != xname]
    elif b == "uninitialized":
        x["stage"] = "registered"
    elif b == "marked":
        x["marked"] = True
    elif b == "claimDeleting":
        x["deleting"] = True
    elif b == "instanceTerminating":
        x["instanceTerminating"] = True
    elif b == "nominated":
        x["nominatedAt"] = T0
    elif b == "nominatedEdge":
        x["nominatedAt"] = T0 + 1 - NW
    elif b == "nominatedExpired":
        x["nominatedAt"] = T0 - NW
    elif b == "nodeDnd":
        x["nodeDnd"] = "true"
    elif b == "nodeDndFalse":
        x["nodeDnd"] = "false"
    elif b == "noPoolLabel":
        x["noPoolLabel"] = True
    elif b == "poolUnknown":
        xp["absent"] = True
    elif b.startswith("podDnd") and px is not None:
        if b == "podDndTrue":
            px["dnd"] = "true"
        elif b == "podDndDur":
            px.update(dnd=dur, startedAt=T0 - 200)
        elif b == "podDndDurEdge":
            px.update(dnd=dur, startedAt=T0 - DD + 1)
        elif b == "podDndDurExpired":
            px.update(dnd=dur, startedAt=T0 - DD)
        elif b == "podDndNoStart":
            px.update(dnd=dur, startedAt=-1)
        elif b == "podDndInvalid":
            px["dnd"] = "garbage" if rng is None else rng.choice(["garbage", "-5m", "0s", "false", "True"])
        elif b in ("podDndTerminal", "podDndTerminating"):
            if b == "podDndTerminal":
                px.update(dnd="true", phase="Succeeded" if rng is None else rng.choice(["Succeeded", "Failed"]))
            else:
                px.update(dnd="true", terminating=True, terminatingAt=T0 - 5, owner="replicaset" if px["owner"] == "statefulset" else px["owner"])
            if not px["deletionCost"] and px["owner"] != "daemonset":   # keep the node non-empty for the methods that want it so
                pods.append(pod(pxname + "b", xname))
    elif b == "dsPodDnd":
        if x["stage"] != "launched" and not x["nodeGone"]:
            pods.append(pod("ds" + xname, xname, cpu=100, owner="daemonset", dnd="true"))
    elif b.startswith("pdb") and px is not None:
        sel = dict(px["labels"])
        nm = "pdb-" + xname
        if b == "pdbZero":
            pdbs.append(pdb(nm, sel, 0))
        elif b == "pdbOk":
            pdbs.append(pdb(nm, sel, 1))
        elif b == "pdbMulti":
            pdbs.append(pdb(nm, sel, 1))
            pdbs.append(pdb(nm + "-2", sel, 1 if rng is None else rng.choice([1, 1, 0])))
        elif b == "pdbZeroWaived":
            pdbs.append(pdb(nm, sel, 0, alwaysAllowUnhealthy=True))
            px["readyFalse"] = True
        elif b == "pdbZeroTolerating":
            pdbs.append(pdb(nm, sel, 0))
            px["toleratesDisruption"] = True
        elif b == "pdbZeroOtherNs":
            pdbs.append(pdb(nm, sel, 0, ns="other"))
        elif b == "pdbZeroAll":
            pdbs.append(pdb(nm, {}, 0, ns="pdbns-" + xname))   # empty selector: every pod of the (dedicated) namespace
            px["ns"] = "pdbns-" + xname
        elif b == "pdbZeroNilSel":
            pdbs.append(pdb(nm, {}, 0, nilSelector=True))
    elif b in ("costMixedNeg", "costMixedPrio") and px is not None:
        # a positive-cost pod next to a strongly negative one on the same node: the costs must not cancel
        neg = dict(deletionCost=ZERO_COST) if b == "costMixedNeg" else dict(priority=PRIO_MIN, hasPriority=True)
        if method == "emptiness":
            if b == "costMixedPrio" and px["owner"] != "daemonset":
                px.update(deletionCost="", **neg)
            pods.append(pod(pxname + "n", xname, cpu=300))
        else:
            pods.append(pod(pxname + "n", xname, cpu=300, **neg))
    elif b.startswith("cost") and px is not None:
        if b == "costAllNonPos":
            px.update(deletionCost=ZERO_COST)
        elif b == "costEdgeZero":
            px.update(deletionCost=COST_ZERO_EDGE)
        elif b == "costEdgeTiny":
            px.update(deletionCost=COST_TINY_POS)
        elif b == "costLargePos":
            px.update(deletionCost=COST_LARGE)
        elif b == "costPrioOutweighs":
            px.update(deletionCost=ZERO_COST, priority=1000000000, hasPriority=True)
    elif b == "notConsolidatable":
        x["lastPodEvent"] = T0 - CA + 1
    elif b == "consolidatableEdge":
        x["lastPodEvent"] = T0 - CA
    elif b == "consolidatableFalse":
        x["consolidatable"] = "False"
    elif b == "poolKindFlip":
        xp["static"] = not xp["static"]
    elif b == "caNever":
        xp["consolidateAfter"] = -1
    elif b == "caNeverStale":
        xp["consolidateAfter"] = -1
        if x["managed"] and not xp["static"]:
            x["consolidatable"] = "True"
    elif b == "whenEmpty":
        xp["policy"] = "WhenEmpty"
    elif b == "buffer":
        x["buffer"] = 1
    elif b == "notDrifted":
        x["drifted"] = False
    elif b == "tgp":
        x["tgp"] = 300
    elif b == "poolTgp":
        xp["tgp"] = 300


def churn_steps(b, pods):
    """Environment steps that put blocker b on x while a command waits for validation."""
    px = _px(pods)
    if b == "nominated":
        return [{"a": "Nominate", "node": "x"}]
    if b == "nodeDnd":
        return [{"a": "AnnotateNode", "node": "x", "value": "true"}]
    if b == "marked":
        return [{"a": "Mark", "node": "x"}]
    if b == "claimDeleting":
        return [{"a": "DeleteClaim", "node": "x"}]
    if px is None:
        return []
    if b == "podDndTrue":
        p2 = copy.deepcopy(px)
        p2["dnd"] = "true"
        return [{"a": "SetPod", "pod": p2}]
    if b in ("pdbZero", "pdbOk"):
        return [{"a": "SetPDB", "pdb": pdb("pdb-x", {"app": "px"}, 0 if b == "pdbZero" else 1)}]
    if b == "pdbMulti":
        return [{"a": "SetPDB", "pdb": pdb("pdb-x", {"app": "px"}, 1)}, {"a": "SetPDB", "pdb": pdb("pdb-x2", {"app": "px"}, 1)}]
    raise vlib.InfraError("no churn mapping for blocker %r" % b)


def cell_scenario(cell, rng=None, with_round=True, again=False, variant=0):
    """One cell of the table (as printed by Disruption.tla's GenPrint) -> a scenario."""
    m = cell["m"]
    pre = list(cell["pre"]) if isinstance(cell["pre"], list) else []
    churn = list(cell["churn"]) if isinstance(cell["churn"], list) else []
    pools, nodes, pods, pdbs = base(m, variant)
    for b in pre:
        apply_blocker(b, pools, nodes, pods, pdbs, rng, method=m)
    during = []
    for b in churn:
        during += churn_steps(b, pods)
    steps = [{"a": "Method", "method": m, "during": during}] if during else [{"a": "Method", "method": m}]
    if with_round:
        # the same decision once more through the real Controller.Reconcile (all methods in order, StartCommand)
        steps.append({"a": "Round"})
        if again:
            # whatever the round started is now in flight: the method must not select those nodes again
            steps.append({"a": "Method", "method": m})
    name = "cell%s:%s:%s:%s" % ("" if variant == 0 else "-v%d" % variant, m, "+".join(pre) or "-", "+".join(churn) or "-")
    tags = {"kind": "cell", "method": m, "pre": "+".join(pre) or "-", "churn": "+".join(churn) or "-",
            "issued": bool(cell["issued"]), "target": "x"}
    return scenario(name, pools, nodes, pods, pdbs, steps, tags)


# ------------------------------------------------------------------ Consolidatable condition behaviours
def cond_scenario(beh, idx, variant="A"):
    """A behaviour of DisruptionCond.tla -> steps on the real podevents / nodeclaim-disruption controllers, pool edits and
    decisions of a consolidation method.  variant A: x is empty by eviction cost, the decision is Emptiness; variant B: x
    hosts a normal pod and an unmanaged node offers room, the decision is single-node consolidation."""
    ca, static, inited = beh["ca"], beh["static"], beh["inited"]
    pools = [pool("xp", static=static, ca=ca)]
    nodes = [node("x", "xp", "small", stage="initialized" if inited else "registered", initializedAt=0, lastPodEvent=-1,
                  createdAt=0)]
    pods = []
    if inited:
        pods = [pod("px", "x", cpu=300, startedAt=0, deletionCost=ZERO_COST if variant == "A" else "")]
    if variant == "B":
        nodes.append(node("z", "", "large", managed=False, createdAt=0))
    method = "emptiness" if variant == "A" else "single"
    steps = []
    for st in beh["steps"]:
        a = st["a"]
        if a == "Init":
            continue
        if a == "Tick":
            steps.append({"a": "Tick", "d": st["d"]})
        elif a == "PodEvent":
            if inited:
                steps.append({"a": "PodEvents", "pod": {"name": "px", "ns": "default"}})
        elif a == "Reconcile":
            steps.append({"a": "NcDisruption", "node": "x"})
        elif a == "EditCA":
            steps.append({"a": "SetPool", "value": "xp", "d": st["d"]})
        elif a == "Decide":
            steps.append({"a": "Method", "method": method})
        else:
            raise vlib.InfraError("unknown DisruptionCond step %r" % st)
    if not steps or steps[-1]["a"] != "Method":
        steps.append({"a": "Method", "method": method})
    tags = {"kind": "cond", "ca": ca, "static": static, "inited": inited, "idx": idx, "variant": variant}
    return scenario("cond:%d:%s" % (idx, variant), pools, nodes, pods, [], steps, tags, t0=0)


def cond_tours():
    """Systematic behaviours around the Consolidatable condition: reconciles at T-1 / T / T+1 of the threshold; pool edits of
    consolidateAfter after the condition was set (raise, lower, Never, back) with and without a reconcile in between; pod
    events at every offset relative to the condition's transition instant (same second, +-1 s), de-duplicated ones."""
    R, P, D = {"a": "Reconcile", "d": 0}, {"a": "PodEvent", "d": 0}, {"a": "Decide", "d": 0}

    def T(d):
        return {"a": "Tick", "d": d}

    def E(c):
        return {"a": "EditCA", "d": c}
    out = []
    for static in (False, True):
        for inited in (True, False):
            for ca in (-1, 0, 2):
                out.append((ca, static, inited, [R, T(1), R, T(1), R, T(1), R, D]))
                if inited and not static:
                    out.append((ca, static, inited, [T(1), P, R, T(1), R, T(1), R, T(1), R, D]))
                    out.append((ca, static, inited, [P, T(1), T(1), R, T(1), P, R, T(9), P, R, T(1), R, T(1), R, T(1), R, D]))
            if static or not inited:
                out.append((30, static, inited, [T(30), R, E(3600), R, D, E(30), R, D]))
                continue
            C = 30
            seqs = [
                [T(C - 1), R, D, T(1), R, D],                                   # threshold
                [T(C), R, E(3600), R, D],                                       # raised after the condition was set
                [T(C), R, E(3600), D],                                          # ... not yet reconciled (lag: not judged)
                [T(C), R, E(3600), R, D, E(C), R, D],                           # ... and back
                [T(C), R, E(-1), R, D, E(C), R, D],                             # Never and back
                [T(C), R, E(10), R, D, E(60), R, D, T(20), R, D],               # lowered, raised a little, elapsed again
                [T(5), P, T(C), R, E(100), R, D, T(60), R, D],                  # with a pod event as the reference
                [T(C), R, P, R, D],                                             # pod event in the SAME second as the transition
                [T(C), R, T(1), P, R, D],                                       # one second after
                [T(C), R, D, P, R, D],
                [T(C), R, P, T(1), R, D, T(C - 2), R, D, T(1), R, D],           # same second, then the new window elapses
                [T(C), R, P, T(5), P, R, D],                                    # second event de-duplicated
                [T(C), R, P, T(10), P, R, D, T(C), R, D],
            ]
            out += [(C, static, inited, q) for q in seqs]
            out.append((1, static, inited, [T(4), P, T(1), R, D, E(C), R, D]))   # pod event one second BEFORE the transition
            out.append((0, static, inited, [R, P, R, D, E(C), R, D, T(C), R, D]))
    return [{"ca": ca, "static": st, "inited": ini, "steps": [{"a": "Init", "d": ca}] + q} for ca, st, ini, q in out]


# ------------------------------------------------------------------ in-memory protections over time (DisruptionMem.tla)
def mem_expect(beh):
    """Does the (un-weakened) model issue the command on x?  Independent re-computation used to cross-check TLC's output
    and to label the systematic tours: protected at t = marked or latest nomination + window > t."""
    w, m = beh["w"], beh["m"]
    now, noms, marked, cand, decided = 0, [], False, None, False
    for st in beh["steps"]:
        a = st["a"]
        if a == "Tick":
            now += st["d"]
        elif a == "Nominate":
            noms.append(now)
        elif a == "Mark":
            marked = True
        elif a == "Unmark":
            marked = False
        elif a == "Decide":
            decided = True
            cand = not (marked or (noms and max(noms) + w > now))
            if m in EVENTUAL:
                return cand
        elif a == "WaitNominate":
            noms.append(now + VD)
        elif a == "WaitMark":
            marked = True
    if not decided:
        return False
    t = now + VD
    return bool(cand and not (marked or (noms and max(noms) + w > t)))


def mem_scenario(beh, idx):
    """A behaviour of DisruptionMem.tla (protection updates at different instants, then one decision) -> a scenario."""
    m, w = beh["m"], beh["w"]
    if w % 2 or w < 10:
        raise vlib.InfraError("nomination window %r not realisable (window = max(2*batchMax, 10 s))" % w)
    pools, nodes, pods, pdbs = base(m)
    steps, during, decide = [], [], None
    for st in beh["steps"]:
        a = st["a"]
        if a == "Tick":
            steps.append({"a": "Tick", "d": st["d"]})
        elif a in ("Nominate", "Mark", "Unmark"):
            steps.append({"a": a, "node": "x"})
        elif a == "Decide":
            decide = {"a": "Method", "method": m}
            steps.append(decide)
        elif a == "WaitNominate":
            during.append({"a": "Nominate", "node": "x"})
        elif a == "WaitMark":
            during.append({"a": "Mark", "node": "x"})
        else:
            raise vlib.InfraError("unknown DisruptionMem step %r" % st)
    if decide is not None and during:
        decide["during"] = during
    tags = {"kind": "mem", "method": m, "window": w, "issued": mem_expect(beh), "target": "x", "idx": idx,
            "beh": " ".join("%s%s" % (st["a"][0] if st["a"] != "Unmark" else "u", st["d"] or "") for st in beh["steps"])}
    return scenario("mem:%d:%s:w%d" % (idx, m, w), pools, nodes, pods, pdbs, steps, tags,
                    options={"batchMaxSec": w // 2 if w > 10 else 5})


def mem_tours(windows, methods=METHODS):
    """Systematic interval tours: repeated nominations with clock steps in between and the decision placed in every
    interval (before the first expiry, between expiries, last protected second, first free second, later); mark / unmark
    sequences; protections arriving during the validation wait after earlier ones lapsed."""
    N, M, Un, D = {"a": "Nominate", "d": 0}, {"a": "Mark", "d": 0}, {"a": "Unmark", "d": 0}, {"a": "Decide", "d": 0}
    WN, WM = {"a": "WaitNominate", "d": 0}, {"a": "WaitMark", "d": 0}

    def T(d):
        return {"a": "Tick", "d": d}
    out = []
    for w in windows:
        r = w // 2
        seqs = []
        for d in (r + 1, w - 1, w, w + 1, r + w - 1, r + w, r + w + 5):       # two nominations at 0 and r (inside the window)
            seqs.append([N, T(r), N, T(d - r), D])
        for d in (2 * r + w - 1, 2 * r + w):                                   # a chain of three
            seqs.append([N, T(r), N, T(r), N, T(d - 2 * r), D])
        seqs.append([N, T(w - 1), N, T(2), D])                                  # re-nominated in the last protected second
        seqs.append([N, T(w), N, T(w - 1), D])                                  # nominated again right after expiry
        seqs.append([N, T(w + 1), D, WN])                                       # expired, nominated again during the wait
        seqs.append([N, T(r), N, T(w + r), D, WN])
        seqs.append([N, T(w + 1), D])
        seqs += [[M, T(5), Un, D], [M, Un, M, D], [M, T(3), Un, T(3), M, T(3), Un, T(1), D], [Un, D], [M, T(5), Un, T(5), D, WM],
                 [M, N, T(w), Un, D], [N, M, T(w - 1), Un, D], [D, WM], [D, WN], [D]]
        for m in methods:
            out += [{"m": m, "w": w, "steps": s} for s in seqs]
    return out


# ------------------------------------------------------------------ running and summarising
def record(run, scenarios, prefix="disruption", shards=None, procs=None):
    """Run the scenarios on the real code: `procs` driver processes in parallel (each scenario has its own world), every
    process writing `shards` trace files. Returns the trace files; the i-th Cfg of summarise() is NOT positional - match by name."""
    import concurrent.futures as cf
    procs = max(1, min(procs or 4, len(scenarios)))
    shards = shards or 2
    run.build_drv()
    chunks = [scenarios[i::procs] for i in range(procs)]

    def one(i):
        spath = os.path.join(run.work, "%s-scenarios-%02d.json" % (prefix, i))
        json.dump(chunks[i], open(spath, "w"))
        out = json.loads(run.drv("disruption", ["-in", spath, "-out", os.path.join(run.work, "traces-" + prefix),
                                                "-shards", shards, "-prefix", "%s-%02d" % (prefix, i)]))
        if out["traces"] != len(chunks[i]):
            raise vlib.InfraError("driver recorded %d traces for %d scenarios" % (out["traces"], len(chunks[i])))
        return out["files"]
    files = []
    with cf.ThreadPoolExecutor(max_workers=procs) as ex:
        for fs in ex.map(one, range(procs)):
            files += [f if os.path.isabs(f) else os.path.join(run.work, f) for f in fs]
    return files


def summarise(files):
    """Per trace: tags, the commands (Cmd of method runs, QCmd of rounds), candidate sets, errors."""
    out = []
    for f in files:
        cur = None
        for line in open(f):
            ev = json.loads(line)
            e = ev["e"]
            if e == "Cfg":
                cur = {"name": ev["name"], "tags": ev["tags"], "cmds": [], "qcmds": [], "cands": [], "errors": [],
                       "ctrue_writes": 0, "file": f}
                out.append(cur)
            elif e == "Cmd":
                cur["cmds"].append({"method": ev["method"], "names": ev["names"], "t": ev["t"], "decision": ev["decision"]})
            elif e == "QCmd":
                cur["qcmds"].append({"method": ev["method"], "names": ev["names"], "t": ev["t"], "decision": ev["decision"]})
            elif e == "Cands":
                cur["cands"].append({"method": ev["method"], "names": ev["names"], "t": ev["t"]})
            elif e == "End" and (ev.get("err", "-") != "-" or ev.get("panic")):
                cur["errors"].append({"controller": ev["controller"], "object": ev["object"], "err": ev["err"],
                                      "panic": ev.get("panic", False)})
            elif e == "Api" and ev["kind"] == "NodeClaim" and ev["actor"] == "nodeclaim.disruption" and ev["err"] == "-" \
                    and ev["post"].get("consolidatable") == "True":
                cur["ctrue_writes"] += 1
    return out
