"""Shared by C09 / C10: behaviours of Termination.tla and Drain.tla -> steps of the `termination` driver.

Behaviours come from (a) TLC simulation of the closed models (random deep interleavings of Node / NodeClaim /
eviction-queue reconciles with a failing call anywhere, environment steps, restarts) and (b) systematic placement of
every fault kind at every reconcile of canonical termination paths (as checks/lifecycle_common.py does), plus a
decision-table sweep of pod archetypes x clock positions around `deadline - grace` and `deadline` for the drain.
"""
import collections
import concurrent.futures as cf
import copy
import json
import os
import random

import vlib

UNIT = 30          # one logical clock unit of Drain.tla in seconds
TGP_UNITS = 3      # Drain.tla: TGP = 3 units

# ------------------------------------------------------------------------------------------------ fault addressing
# (controller, call of the closed model) -> how the driver makes that call fail
API_ERRS = ("Server", "Conflict", "NotFound")


def api(verb, kind, sub="-", nth=1, err="Server"):
    return {"verb": verb, "kind": kind, "sub": sub, "nth": nth, "err": err}


def fault_plan(ctl, call, nth, err):
    """Returns (faults, provDelete, provGet) for one failing call of a reconcile."""
    if (ctl, call) in (("lc", "provDelete"), ("nt", "provDelete")):
        return [], "err", None
    if (ctl, call) == ("nt", "provGet"):
        return [], None, "err"
    table = {
        ("lc", "annotate"): ("patch", "NodeClaim", "-"),
        ("lc", "listNodes"): ("list", "Node", "-"),
        ("lc", "deleteNode"): ("delete", "Node", "-"),
        ("lc", "patchStatus"): ("patch", "NodeClaim", "status"),
        ("lc", "removeFin"): ("patch", "NodeClaim", "-"),
        ("nt", "listClaims"): ("list", "NodeClaim", "-"),
        ("nt", "deleteClaim"): ("delete", "NodeClaim", "-"),
        ("nt", "taint"): ("patch", "Node", "-"),
        ("nt", "listPods"): ("list", "Pod", "-"),
        ("nt", "listVolumes"): ("list", "VolumeAttachment", "-"),
        ("nt", "patchStatus"): ("patch", "NodeClaim", "status"),
        ("nt", "removeFin"): ("patch", "Node", "-"),
    }
    verb, kind, sub = table[(ctl, call)]
    if verb == "list":
        err = "Server"
    return [api(verb, kind, sub, nth, err)], None, None


LC_CALLS = ["annotate", "listNodes", "deleteNode", "provDelete", "patchStatus", "removeFin"]
NT_CALLS = ["listClaims", "deleteClaim", "provGet", "taint", "listPods", "listVolumes", "provDelete", "patchStatus", "removeFin"]


def add_fault(step, ctl, call, nth, err):
    faults, pd, pg = fault_plan(ctl, call, nth, err)
    step.setdefault("faults", []).extend(faults)
    if pd:
        step["provDelete"] = pd
    if pg:
        step["provGet"] = pg


# ------------------------------------------------------------------------------------------------ Termination.tla
def prelude(kind):
    """Real lifecycle reconciles that bring the NodeClaim to the model's start state."""
    if kind == "registered-uninitialized":   # the kubelet registered but never reported Ready: Registered, not Initialized
        return [{"a": "LcRec"}, {"a": "NodeAppears", "ready": False, "unreg": True}, {"a": "LcRec"}, {"a": "LcRec"}]
    if kind == "registered":
        return [{"a": "LcRec"}, {"a": "NodeAppears", "ready": True, "unreg": True}, {"a": "LcRec"}, {"a": "LcRec"}]
    if kind == "launched":
        return [{"a": "LcRec"}]
    if kind == "unpersisted":   # provider Create succeeds, the status patch fails (DESIGN 7 item 8)
        return [{"a": "LcRec", "faults": [api("patch", "NodeClaim", "status", 1, "Server")]}]
    if kind == "fresh":         # the provider never created anything
        return [{"a": "LcRec", "provCreate": "err"}]
    raise vlib.InfraError("unknown start kind %r" % kind)


def term_cfg(va_owner, tgp, instant, p1=None):
    p1 = dict(p1 or {})
    pods = [dict({"name": "p1", "owner": "replicaset", "dnd": "-", "tgps": 30, "pdb": "-", "pv": va_owner == "p1"}, **p1),
            {"name": "p2", "owner": "replicaset", "dnd": "-", "tgps": 30, "pdb": "-", "tol": True, "late": True,
             "pv": va_owner == "p2"},
            # bound directly (spec.nodeName) at any time: does not tolerate the taint, Karpenter has to drain it
            {"name": "p3", "owner": "replicaset", "dnd": "-", "tgps": 30, "pdb": "-", "tol": False, "late": True, "pv": False}]
    return {"tgp": 120 if tgp else -1, "instant": bool(instant), "pods": pods, "orphanVA": va_owner == "orphan"}


def term_from_model(h, rng):
    """A history of Termination.tla (Atomic = TRUE) -> driver behaviour."""
    st = h[0]
    if st["a"] != "Start":
        raise vlib.InfraError("history does not begin with Start: %r" % (st,))
    cfg = term_cfg(st["vaOwner"], st["tgp"], st["instant"])
    steps = prelude(st["kind"])
    if st["kind"] == "registered":
        r = rng.random()
        if r < 0.15:
            steps.append({"a": "PreTaint", "which": rng.choice(["PreferNoSchedule", "NoExecute"])})
        elif r < 0.3:
            steps.append({"a": "PodPhase", "pod": "p1", "phase": rng.choice(["Succeeded", "Failed"])})
    for e in h[1:]:
        a = e["a"]
        if a in ("LcRec", "NodeRec"):
            steps.append({"a": a, "stale": 1} if rng.random() < 0.1 else {"a": a})
        elif a == "Fault":
            last = steps[-1]
            want = "LcRec" if e["ctl"] == "lc" else "NodeRec"
            if last["a"] != want:
                raise vlib.InfraError("fault %r does not follow its reconcile" % (e,))
            add_fault(last, e["ctl"], e["call"], e["nth"], rng.choice(API_ERRS))
        elif a == "QRec":
            steps.append({"a": "QRec", "pod": e["pod"]})
        elif a == "Restart" and e.get("mid") and steps[-1]["a"] in ("LcRec", "NodeRec") and not steps[-1].get("faults"):
            # the model restarted inside a reconcile: the process dies before one of its calls
            steps[-1]["crashAt"] = rng.randint(1, 8)
        elif a in ("DeleteClaim", "DeleteNode", "InstanceGone", "Restart"):
            steps.append({"a": a})
        elif a == "InstanceVanishes":     # the node controller notices the dead kubelet at once or (1 in 4) not before the end
            steps += [{"a": "InstanceVanishes"}] + ([{"a": "Ready", "ready": False}] if rng.random() < 0.75 else [])
        elif a in ("PodGone", "PodBinds"):
            steps.append({"a": a, "pod": e["pod"]})
        elif a == "PodStuck":
            steps.append({"a": "TickPodStuck", "pod": e["pod"], "d": rng.choice([0, 0, 5])})
        elif a in ("VolumeDetach", "VolumeDetachStart"):
            steps.append({"a": a, "pod": "" if st["vaOwner"] == "orphan" else st["vaOwner"]})
        elif a == "NotReady":
            steps.append({"a": "Ready", "ready": False})
        elif a == "Ready":
            steps.append({"a": "Ready", "ready": True})
        elif a == "TgpElapses":
            steps.append({"a": "TickToDeadline", "d": rng.choice([1, 1, 2, 30])})
        elif a == "DrainTimePasses":
            steps.append({"a": "Tick", "d": rng.choice([5, 5, 6, 20])})
        else:
            raise vlib.InfraError("unknown Termination.tla action %r" % a)
    steps.append({"a": "Settle"})      # bounded progress: the environment goes quiet, controllers run to a fix-point
    return {"cfg": cfg, "steps": steps}


SETTLE = [{"a": "Settle"}]


def term_paths():
    """Canonical termination paths; every LcRec / NodeRec after the prelude is a fault site."""
    P = []
    # 1. NodeClaim deleted first, pod with a volume, graceful drain, volume detaches, instance terminates
    P.append(("claim-first", "registered", term_cfg("p1", False, False), [
        {"a": "DeleteClaim"}, {"a": "LcRec"}, {"a": "NodeRec"}, {"a": "QAll"}, {"a": "NodeRec"}, {"a": "PodGone", "pod": "p1"},
        {"a": "NodeRec"}, {"a": "Tick", "d": 6}, {"a": "NodeRec"}, {"a": "VolumeDetachStart", "pod": "p1"}, {"a": "NodeRec"}, {"a": "NodeRec"},
        {"a": "VolumeDetach", "pod": "p1"}, {"a": "NodeRec"}, {"a": "InstanceGone"}, {"a": "NodeRec"}, {"a": "LcRec"}, {"a": "LcRec"}]))
    # 2. Node deleted first, TGP, the volume never detaches: the deadline releases the wait; tolerating pod binds late
    P.append(("node-first-tgp", "registered", term_cfg("p1", True, True), [
        {"a": "DeleteNode"}, {"a": "NodeRec"}, {"a": "LcRec"}, {"a": "NodeRec"}, {"a": "QAll"}, {"a": "PodBinds", "pod": "p2"},
        {"a": "PodGone", "pod": "p1"}, {"a": "Tick", "d": 6}, {"a": "NodeRec"}, {"a": "TickToDeadline", "d": 1}, {"a": "NodeRec"},
        {"a": "NodeRec"}, {"a": "LcRec"}, {"a": "LcRec"}]))
    # 3. the instance vanishes, the node goes NotReady: shortcut
    P.append(("vanished", "registered", term_cfg("p2", False, False), [
        {"a": "InstanceVanishes"}, {"a": "Ready", "ready": False}, {"a": "DeleteNode"}, {"a": "NodeRec"}, {"a": "LcRec"},
        {"a": "NodeRec"}, {"a": "LcRec"}, {"a": "LcRec"}]))
    # 3b. the instance vanishes but the kubelet's last report still says Ready: no shortcut, full drain, Delete -> NotFound
    P.append(("vanished-still-ready", "registered", term_cfg("p1", False, False), [
        {"a": "InstanceVanishes"}, {"a": "DeleteNode"}, {"a": "NodeRec"}, {"a": "LcRec"}, {"a": "QAll"}, {"a": "NodeRec"},
        {"a": "PodGone", "pod": "p1"}, {"a": "Tick", "d": 6}, {"a": "NodeRec"}, {"a": "VolumeDetach", "pod": "p1"}, {"a": "NodeRec"},
        {"a": "LcRec"}, {"a": "LcRec"}]))
    # 3c. registered but never initialized (node not ready), instance vanishes: shortcut, then the claim waits for the node
    P.append(("uninitialized", "registered-uninitialized", term_cfg("-", True, False), [
        {"a": "DeleteClaim"}, {"a": "LcRec"}, {"a": "InstanceVanishes"}, {"a": "LcRec"}, {"a": "NodeRec"}, {"a": "LcRec"}, {"a": "LcRec"}]))
    # 3d. two Node objects for the one instance: the NodeClaim waits for both, each is finalized on its own
    D = {"a": "NodeRec", "which": "node-1-dup"}
    P.append(("dup-node", "registered", term_cfg("p1", False, False), [
        {"a": "NodeAppears2"}, {"a": "DeleteClaim"}, {"a": "LcRec"}, {"a": "NodeRec"}, dict(D), {"a": "QAll"}, {"a": "PodGone", "pod": "p1"},
        {"a": "Tick", "d": 6}, {"a": "NodeRec"}, dict(D), {"a": "VolumeDetach", "pod": "p1"}, {"a": "NodeRec"}, {"a": "LcRec"},
        {"a": "InstanceGone"}, dict(D), {"a": "LcRec"}, {"a": "NodeRec"}, {"a": "LcRec"}, {"a": "LcRec"}]))
    # 4. volume of a pod that cannot be drained (tolerating) does not block; pod stuck terminating
    P.append(("stuck-pod", "registered", term_cfg("p2", False, False), [
        {"a": "PodBinds", "pod": "p2"}, {"a": "DeleteClaim"}, {"a": "LcRec"}, {"a": "NodeRec"}, {"a": "QAll"}, {"a": "NodeRec"},
        {"a": "TickPodStuck", "pod": "p1", "d": 0}, {"a": "NodeRec"}, {"a": "Tick", "d": 6}, {"a": "NodeRec"}, {"a": "InstanceGone"}, {"a": "NodeRec"},
        {"a": "LcRec"}, {"a": "LcRec"}]))
    # 5. launched but never registered
    P.append(("launched", "launched", term_cfg("-", True, False), [
        {"a": "DeleteClaim"}, {"a": "LcRec"}, {"a": "LcRec"}, {"a": "InstanceGone"}, {"a": "LcRec"}, {"a": "LcRec"}]))
    # 6. the lead: provider id never persisted, deleted before the next reconcile
    P.append(("unpersisted", "unpersisted", term_cfg("-", False, False), [
        {"a": "DeleteClaim"}, {"a": "LcRec"}, {"a": "LcRec"}]))
    # 7. same, but the next reconcile runs first and persists the cached launch
    P.append(("unpersisted-healed", "unpersisted", term_cfg("-", False, False), [
        {"a": "LcRec"}, {"a": "DeleteClaim"}, {"a": "LcRec"}, {"a": "InstanceGone"}, {"a": "LcRec"}, {"a": "LcRec"}]))
    # 8. never launched
    P.append(("fresh", "fresh", term_cfg("-", False, False), [{"a": "DeleteClaim"}, {"a": "LcRec"}, {"a": "LcRec"}]))
    # 9. orphan volume attachment, no TGP: waits until it detaches
    P.append(("orphan-va", "registered", term_cfg("orphan", False, True), [
        {"a": "DeleteClaim"}, {"a": "LcRec"}, {"a": "NodeRec"}, {"a": "QAll"}, {"a": "PodGone", "pod": "p1"}, {"a": "Tick", "d": 6},
        {"a": "NodeRec"}, {"a": "NodeRec"}, {"a": "VolumeDetachStart", "pod": ""}, {"a": "NodeRec"}, {"a": "Tick", "d": 30}, {"a": "NodeRec"},
        {"a": "VolumeDetach", "pod": ""}, {"a": "NodeRec"}, {"a": "NodeRec"}, {"a": "LcRec"}, {"a": "LcRec"}]))
    # 11. the node already carries the karpenter.sh/disrupted KEY with another effect: it still has to get the NoSchedule taint
    for eff in ("PreferNoSchedule", "NoExecute"):
        P.append(("pretaint-" + eff, "registered", term_cfg("p1", False, False), [
            {"a": "PreTaint", "which": eff}, {"a": "DeleteClaim"}, {"a": "LcRec"}, {"a": "NodeRec"}, {"a": "QAll"}, {"a": "PodGone", "pod": "p1"},
            {"a": "Tick", "d": 6}, {"a": "NodeRec"}, {"a": "VolumeDetach", "pod": "p1"}, {"a": "NodeRec"}, {"a": "InstanceGone"}, {"a": "NodeRec"},
            {"a": "LcRec"}, {"a": "LcRec"}]))
    # 12. a Succeeded / Failed pod stays bound to the node with its volume attached: Karpenter could drain that pod, so its
    #     VolumeAttachment blocks like any other (only volumes of pods it will NOT drain are exempt)
    for ph in ("Succeeded", "Failed"):
        P.append(("terminal-pod-volume-" + ph, "registered", term_cfg("p1", False, False), [
            {"a": "PodPhase", "pod": "p1", "phase": ph}, {"a": "DeleteClaim"}, {"a": "LcRec"}, {"a": "NodeRec"}, {"a": "Tick", "d": 6},
            {"a": "NodeRec"}, {"a": "NodeRec"}, {"a": "InstanceGone"}, {"a": "NodeRec"}, {"a": "NodeRec"}, {"a": "VolumeDetachStart", "pod": "p1"},
            {"a": "NodeRec"}, {"a": "VolumeDetach", "pod": "p1"}, {"a": "NodeRec"}, {"a": "LcRec"}, {"a": "LcRec"}]))
    # 10. a drainable pod is bound directly to the node after Drained=True was persisted, while the controller waits for
    #     the volume and then for the instance: it has to be drained again before the finalizer goes
    P.append(("late-pod", "registered", term_cfg("p1", False, False), [
        {"a": "DeleteClaim"}, {"a": "LcRec"}, {"a": "NodeRec"}, {"a": "QAll"}, {"a": "PodGone", "pod": "p1"}, {"a": "Tick", "d": 6},
        {"a": "NodeRec"}, {"a": "PodBinds", "pod": "p3"}, {"a": "NodeRec"}, {"a": "VolumeDetach", "pod": "p1"}, {"a": "NodeRec"},
        {"a": "QAll"}, {"a": "NodeRec"}, {"a": "InstanceGone"}, {"a": "NodeRec"}, {"a": "LcRec"}, {"a": "LcRec"}]))
    return P


def term_late_binds(tier, rng):
    """A non-tolerating, drainable pod is bound to the node between any two steps of any canonical path (in particular
    after Drained=True was persisted and before the finalizer-removing reconcile), then the controllers carry on; in half
    of them the cooperative tail keeps the pod running for a while (it is only evicted, the kubelet is slow)."""
    behs = []
    for name, kind, cfg, path in term_paths():
        if kind not in ("registered", "registered-uninitialized"):
            continue
        pre = prelude(kind)
        for pos in range(len(path) + 1):
            for tail in ("settle", "as-is"):
                steps = copy.deepcopy(path)
                steps.insert(pos, {"a": "PodBinds", "pod": "p3"})
                end = SETTLE if tail == "settle" else [{"a": "NodeRec"}, {"a": "InstanceGone"}, {"a": "NodeRec"}, {"a": "LcRec"}] + SETTLE
                behs.append({"cfg": cfg, "steps": pre + steps + end, "tag": "latebind:%s:%d:%s" % (name, pos, tail)})
    if tier == "quick":
        behs = rng.sample(behs, 90)
    return behs


def term_systematic(tier, rng):
    behs = []
    for name, kind, cfg, path in term_paths():
        pre = prelude(kind)
        behs.append({"cfg": cfg, "steps": pre + path + SETTLE, "tag": "path:" + name})
        sites = [i for i, s in enumerate(path) if s["a"] in ("LcRec", "NodeRec")]
        for i in sites:
            ctl, calls = ("lc", LC_CALLS) if path[i]["a"] == "LcRec" else ("nt", NT_CALLS)
            for call in calls:
                errs = API_ERRS
                if call in ("provDelete", "provGet") or call.startswith("list"):
                    errs = ("Server",)
                if tier == "quick" and len(errs) > 1:
                    errs = (rng.choice(errs),)
                for err in errs:
                    for nth in ((1, 2) if call == "removeFin" else (1,)):
                        steps = copy.deepcopy(path)
                        add_fault(steps[i], ctl, call, nth, err)
                        behs.append({"cfg": cfg, "steps": pre + steps + SETTLE,
                                     "tag": "fault:%s:%d:%s.%s:%s:%d" % (name, i, ctl, call, err, nth)})
            # restart right after this reconcile
            steps = copy.deepcopy(path)
            steps.insert(i + 1, {"a": "Restart"})
            behs.append({"cfg": cfg, "steps": pre + steps + SETTLE, "tag": "restart:%s:%d" % (name, i)})
            # the process dies right before the k-th API call of this reconcile (no error handling runs), then restarts
            for k in ((rng.randint(1, 8),) if tier == "quick" else range(1, 9)):
                steps = copy.deepcopy(path)
                steps[i]["crashAt"] = k
                behs.append({"cfg": cfg, "steps": pre + steps + SETTLE, "tag": "crash:%s:%d@%d" % (name, i, k)})
            # this reconcile runs on a lagging informer copy (the object as of the previous reconcile of that controller)
            steps = copy.deepcopy(path)
            steps[i]["stale"] = 1
            behs.append({"cfg": cfg, "steps": pre + steps + SETTLE, "tag": "stale:%s:%d" % (name, i)})
        # a permanent error: the call fails in every reconcile from the start of the termination on; nothing may be
        # finalized by giving up (the Settle tail cannot complete - that is the expected outcome)
        if kind == "registered":
            for ctl, calls in (("lc", LC_CALLS), ("nt", NT_CALLS)):
                for call in calls:
                    actor = "nodeclaim.lifecycle" if ctl == "lc" else "node.termination"
                    faults, pd, pg = fault_plan(ctl, call, 0, "Server")
                    perm = [dict(f, actor=actor) for f in faults] + ([{"actor": actor, "verb": "provDelete", "kind": "-", "sub": "-", "err": "-"}] if pd else []) \
                        + ([{"actor": actor, "verb": "provGet", "kind": "-", "sub": "-", "err": "-"}] if pg else [])
                    behs.append({"cfg": dict(cfg, perm=perm), "steps": pre + [{"a": "PermOn"}] + path + SETTLE,
                                 "tag": "permanent:%s:%s.%s" % (name, ctl, call)})
        if tier == "quick":   # a third of the permanent-error behaviours
            perm = [b for b in behs if b["tag"].startswith("permanent:%s:" % name)]
            for b in rng.sample(perm, len(perm) - len(perm) // 3):
                behs.remove(b)
        # faults in the launch prelude itself (before deletion): every lifecycle write of the launching reconcile
        for f in (api("patch", "NodeClaim", "-", 1), api("patch", "NodeClaim", "-", 2), api("patch", "NodeClaim", "status", 1)):
            for restart in (False, True):
                pre2 = [{"a": "LcRec", "faults": [f]}] + ([{"a": "Restart"}] if restart else [])
                behs.append({"cfg": cfg, "steps": pre2 + path + SETTLE,
                             "tag": "launchfault:%s:%s/%s#%d:%s" % (name, f["kind"], f["sub"], f["nth"], "restart" if restart else "-")})
    return behs


def term_fine(tier, rng):
    """API-call-granularity interleavings on the real code: one environment step right before the k-th API call (reads
    included) of one reconcile of a canonical path - pods/volumes/instance leaving, NotReady, deletion of the other
    object, the clock passing MinDrainTime / the termination time between a check and the write that relies on it."""
    behs = []
    for name, kind, cfg, path in term_paths():
        if kind not in ("registered", "registered-uninitialized"):
            continue
        cfg = dict(cfg, logReads=True)
        va = "" if cfg["orphanVA"] else next((p["name"] for p in cfg["pods"] if p["pv"]), None)
        envs = [[{"a": "PodGone", "pod": "p1"}], [{"a": "PodBinds", "pod": "p2"}], [{"a": "PodBinds", "pod": "p3"}], [{"a": "InstanceGone"}],
                [{"a": "InstanceVanishes"}], [{"a": "InstanceVanishes"}, {"a": "Ready", "ready": False}], [{"a": "Ready", "ready": False}],
                [{"a": "DeleteClaim"}], [{"a": "DeleteNode"}], [{"a": "Tick", "d": 6}], [{"a": "TickToDeadline", "d": 1}],
                [{"a": "TickPodStuck", "pod": "p1", "d": 0}], [{"a": "UserDeletePod", "pod": "p1", "grace": -1}], [{"a": "QAll"}]]
        if va is not None:
            envs += [[{"a": "VolumeDetach", "pod": va}], [{"a": "VolumeDetachStart", "pod": va}]]
        pre = prelude(kind)
        sites = [i for i, s in enumerate(path) if s["a"] in ("LcRec", "NodeRec")]
        combos = [(i, k, e) for i in sites for k in range(1, 9) for e in envs]
        if tier == "quick":
            combos = rng.sample(combos, 14)
        for i, k, e in combos:
            steps = copy.deepcopy(path)
            steps[i]["mid"] = [{"at": k, "steps": e}]
            behs.append({"cfg": cfg, "steps": pre + steps + [{"a": "Settle"}],
                         "tag": "fine:%s:%d@%d:%s" % (name, i, k, "+".join(x["a"] for x in e))})
    return behs


# ------------------------------------------------------------------------------------------------ Drain.tla
DND = {"-": "-", "true": "true", "dur": "90s", "bogus": "bogus"}
DRAIN_PRELUDE = [{"a": "LcRec"}, {"a": "NodeAppears", "ready": True, "unreg": True}, {"a": "LcRec"}, {"a": "LcRec"},
                 {"a": "DeleteClaim"}, {"a": "LcRec"}]


TOLERATING = ("key-exists", "key-equal", "wildcard", "wildcard-effect")     # forms that tolerate karpenter.sh/disrupted:NoSchedule
NOT_TOLERATING = ("", "", "wrong-effect", "wrong-key")                       # forms that do not (Kubernetes toleration semantics)


def pod_cfg(a, rng):
    owner = "node" if a["static"] else ("daemonset" if a["daemon"] else "replicaset")
    return {"name": a["name"], "owner": owner, "critical": bool(a["crit"]), "dnd": DND[a["dnd"]], "tol": bool(a["tol"]),
            "tolKind": rng.choice(TOLERATING if a["tol"] else NOT_TOLERATING),
            "tgps": a["tgps"] * UNIT, "pdb": a["pdb"], "late": bool(a["late"]), "pv": False}


def drain_from_model(h, rng):
    st = h[0]
    if st["a"] != "Start":
        raise vlib.InfraError("history does not begin with Start: %r" % (st,))
    cfg = {"tgp": TGP_UNITS * UNIT if st["tgp"] else -1, "instant": False, "pods": [pod_cfg(a, rng) for a in st["pods"]], "orphanVA": False}
    steps = list(DRAIN_PRELUDE)
    evict_errs = ("Server", "Server", "NotFound", "Conflict", "TooManyRequests")
    for e in h[1:]:
        a = e["a"]
        if a == "NodeRec":
            steps.append({"a": "NodeRec"})
        elif a == "QRec":
            s = {"a": "QRec", "pod": e["pod"]}
            if e["f"] == "err":
                s["faults"] = [api("evict", "Pod", "eviction", 1, rng.choice(evict_errs)), api("delete", "Pod", "-", 1, rng.choice(API_ERRS))]
            if rng.random() < 0.15:
                s["stale"] = 1
            steps.append(s)
        elif a in ("PodGone", "PodBinds", "DndClear"):
            steps.append({"a": a, "pod": e["pod"]})
        elif a == "PodSucceeds":
            steps.append({"a": "PodPhase", "pod": e["pod"], "phase": rng.choice(["Succeeded", "Failed"])})
        elif a == "PdbFlip":
            steps.append({"a": "PdbFlip", "pod": e["pod"], "allowed": e["allowed"]})
        elif a == "UserDeletePod":
            steps.append({"a": "UserDeletePod", "pod": e["pod"], "grace": 600 if e["long"] else -1})
        elif a == "Deadline":
            steps.append({"a": "DeadlineRel", "d": e["to"] * UNIT})
        elif a == "DeadlineRemove":
            steps.append({"a": "DeadlineRemove"})
        elif a == "Tick":
            steps.append({"a": "Tick", "d": rng.choice([UNIT, UNIT, UNIT - 1, UNIT + 1])})
        elif a == "Restart":
            steps.append({"a": "Restart"})
        else:
            raise vlib.InfraError("unknown Drain.tla action %r" % a)
    return {"cfg": cfg, "steps": steps}


def P(name, **kw):
    d = {"name": name, "owner": "replicaset", "critical": False, "dnd": "-", "tol": False, "tolKind": "", "tgps": 30, "pdb": "-", "late": False,
         "pv": False, "phase": ""}
    d.update(kw)
    return d


def drain_mixes():
    return [
        ("tiers", [P("p1"), P("p2", owner="daemonset"), P("p3", critical=True, tgps=90)]),
        ("dnd", [P("p1", dnd="true", tgps=60), P("p2", owner="daemonset"), P("p3", dnd="90s")]),
        ("pdb", [P("p1", pdb="blocked", tgps=90), P("p2", critical=True, owner="daemonset", pdb="blocked"), P("p3", pdb="multi")]),
        ("undrainable", [P("p1", tol=True), P("p2", owner="node"), P("p3", tgps=0)]),
        ("invalid-dnd", [P("p1", dnd="bogus"), P("p2", dnd="-5s", owner="daemonset"), P("p3", dnd="10m", critical=True)]),
        ("unset-grace", [P("p1", tgps=-1), P("p2", tgps=-1, owner="daemonset", dnd="true"), P("p3", tgps=120, owner="statefulset")]),
        # every way of tolerating the disruption taint (decided by Kubernetes' toleration semantics), and a static daemon
        ("tolerations", [P("p1", tol=True, tolKind="wildcard", tgps=60), P("p2", tol=True, tolKind="wildcard-effect", owner="daemonset"),
                         P("p3", tol=True, tolKind="key-equal", critical=True, tgps=90)]),
        ("tolerations-2", [P("p1", tol=True, tolKind="key-exists", tgps=90), P("p2", owner="node", critical=True, tgps=60), P("p3", tolKind="")]),
        # tolerations that do NOT tolerate it (other effect, other key): these pods are drained like any other
        ("non-tolerations", [P("p1", tolKind="wrong-effect"), P("p2", tolKind="wrong-key", owner="daemonset"), P("p3", tolKind="wrong-effect", critical=True, tgps=60)]),
        # pods that are finished or already terminating when the drain starts
        ("finished", [P("p1", phase="Succeeded"), P("p2", phase="Failed", owner="daemonset"), P("p3", tgps=90, pdb="blocked")]),
    ]


def drain_systematic(tier, rng):
    """Decision-table sweep: pod mixes x TGP x clock positions around `deadline - grace` and `deadline`, with PDB
    flips, annotation clears, foreign deletes, restarts and a rewritten (later / earlier) deadline in between."""
    behs = []
    sweep = [{"a": "NodeRec"}, {"a": "QAll"}]
    for name, pods in drain_mixes():
        for tgp in (-1, 90):
            cfg = {"tgp": tgp, "instant": True, "pods": pods, "orphanVA": False}
            offs = (-91, -90, -89, -61, -60, -59, -31, -30, -29, -1, 0, 1, 31) if tgp >= 0 else ()
            variants = [("plain", {})]
            for p in pods:
                variants += [("pdbflip-" + p["name"], {1: [{"a": "PdbFlip", "pod": p["name"], "allowed": 1}]})] if p["pdb"] in ("blocked",) else []
                variants += [("dndclear-" + p["name"], {1: [{"a": "DndClear", "pod": p["name"]}]})] if p["dnd"] != "-" else []
                variants += [("userdel-" + p["name"], {0: [{"a": "UserDeletePod", "pod": p["name"], "grace": 600}]}),
                             ("succeeds-" + p["name"], {1: [{"a": "PodPhase", "pod": p["name"], "phase": "Succeeded"}]}),
                             ("gone-" + p["name"], {2: [{"a": "PodGone", "pod": p["name"]}]})]
            variants += [("restart", {2: [{"a": "Restart"}]})]
            if tgp >= 0:
                # the termination timestamp is rewritten between two drain passes, queue reconciles on both sides; the clock
                # positions that follow lie around D1-grace, D1, D2-grace and D2 for the grace periods 30/60/90 (D2 = D1 +- 60/45)
                variants += [("later", {1: [{"a": "DeadlineRel", "d": tgp + 60}]}), ("earlier", {1: [{"a": "DeadlineRel", "d": tgp - 45}]}),
                             ("later-late", {4: [{"a": "DeadlineRel", "d": tgp + 60}]}),
                             # the annotation disappears between two drain passes (the next pass carries no deadline: nil = +infinity,
                             # the queued deadline must survive) and comes back; and a first pass without deadline, then D
                             ("removed", {1: [{"a": "DeadlineRemove"}], 6: [{"a": "DeadlineRel", "d": tgp}]}),
                             ("removed-for-good", {2: [{"a": "DeadlineRemove"}]}),
                             ("nil-first", {0: [{"a": "DeadlineRemove"}], 2: [{"a": "DeadlineRel", "d": tgp}]}),
                             ("later-restart", {1: [{"a": "DeadlineRel", "d": tgp + 60}], 3: [{"a": "Restart"}]})]
            if tier == "quick":   # the plain sweep and the rewritten deadlines always, a sample of the rest
                fixed = [v for v in variants if v[0] in ("plain", "later", "earlier", "later-late", "later-restart", "removed", "removed-for-good", "nil-first")]
                rest = [v for v in variants if v not in fixed]
                variants = fixed + rng.sample(rest, min(3, len(rest)))
            for vname, inserts in variants:
                steps = list(DRAIN_PRELUDE)
                k = 0
                for round_ in range(3):               # before any threshold
                    steps += inserts.get(k, []) + sweep
                    k += 1
                    steps.append({"a": "Tick", "d": 3})
                for o in offs:                        # around the thresholds
                    steps.append({"a": "TickToDeadline", "d": o})
                    steps += inserts.get(k, []) + sweep
                    k += 1
                # kubelet finishes terminating pods, drain completes
                steps += [{"a": "QAll"}] + [{"a": "PodGone", "pod": p["name"]} for p in pods if not p["tol"] and p["owner"] != "node"]
                steps += [{"a": "Tick", "d": 6}, {"a": "NodeRec"}, {"a": "NodeRec"}, {"a": "LcRec"}, {"a": "LcRec"}]
                behs.append({"cfg": cfg, "steps": steps, "tag": "sweep:%s:tgp%d:%s" % (name, tgp, vname)})
            # eviction outcomes 404 / 409 / 500 / 429 injected at the first queue reconcile of each pod
            for p in pods:
                for err in ("NotFound", "Conflict", "Server", "TooManyRequests"):
                    steps = list(DRAIN_PRELUDE) + [{"a": "NodeRec"},
                                                   {"a": "QRec", "pod": p["name"], "faults": [api("evict", "Pod", "eviction", 1, err),
                                                                                               api("delete", "Pod", "-", 1, err)]},
                                                   {"a": "NodeRec"}, {"a": "QAll"}, {"a": "NodeRec"}, {"a": "QAll"}]
                    behs.append({"cfg": cfg, "steps": steps, "tag": "evicterr:%s:tgp%d:%s:%s" % (name, tgp, p["name"], err)})
                    if tgp >= 0 and (tier != "quick" or err in ("Server", "TooManyRequests")):
                        # the pod stays queued across the failed call; the deadline moves later, then the clock runs through
                        steps = steps[:-4] + [{"a": "DeadlineRel", "d": tgp + 60}, {"a": "NodeRec"}, {"a": "QAll"}]
                        for o in (-121, -91, -89, -61, -59, -31, -29, -1, 1):
                            steps += [{"a": "TickToDeadline", "d": o}, {"a": "NodeRec"}, {"a": "QAll"}]
                        behs.append({"cfg": cfg, "steps": steps, "tag": "evicterr-later:%s:tgp%d:%s:%s" % (name, tgp, p["name"], err)})
    return behs


# ------------------------------------------------------------------------------------------------ run
def simulate(run, module, cfg, nsim, depth=400):
    hs = run.generate(module, cfg, workers=1, simulate="num=%d" % nsim, depth=depth, timeout=900)
    if not hs:
        raise vlib.InfraError("TLC generated no %s behaviours" % module)
    return hs


def generate(run, nsim_term, nsim_drain, with_term_sys=True, with_drain_sys=True, with_fine=False):
    rng = random.Random(run.seed)
    behs = []
    if nsim_term:
        for h in simulate(run, "Termination", "Termination_Gen.cfg", nsim_term):
            b = term_from_model(h, rng)
            b["tag"] = "tlc-sim:Termination"
            behs.append(b)
    if nsim_drain:
        for h in simulate(run, "Drain", "Drain_Gen.cfg", nsim_drain):
            b = drain_from_model(h, rng)
            b["tag"] = "tlc-sim:Drain"
            behs.append(b)
    if with_term_sys:
        behs += term_systematic(run.tier, rng)
        behs += term_late_binds(run.tier, rng)
    if with_drain_sys:
        behs += drain_systematic(run.tier, rng)
    if with_fine:
        behs += term_fine(run.tier, rng)
    for i, b in enumerate(behs):
        b["idx"] = i
    return behs


def record(run, behs, prefix="termination", procs=4):
    """Replay on the real code; the behaviours are split over a few driver processes (each world is single-threaded)."""
    import time
    t = time.time()
    run.build_drv()
    parts = vlib.shard(behs, procs)

    def one(i):
        bpath = os.path.join(run.work, "%s-behs-%d.json" % (prefix, i))
        json.dump(parts[i], open(bpath, "w"))
        out = json.loads(run.drv("termination", ["-in", bpath, "-out", os.path.join(run.work, "traces-%s-%d" % (prefix, i)),
                                                 "-shards", max(1, vlib.NCPU // procs)], timeout=3000))
        return out
    files, lines = [], 0
    with cf.ThreadPoolExecutor(max_workers=procs) as ex:
        for out in ex.map(one, range(len(parts))):
            files += out["files"]
            lines += out["lines"]
    run.notes.append("replayed %d behaviours on the real controllers: %d events in %.1fs" % (len(behs), lines, time.time() - t))
    return files


def validate(run, files):
    import time
    t = time.time()
    run.validate("Termination_Trace", "Termination_Trace.cfg", files, par=min(vlib.NCPU, 8), timeout=3000)
    run.notes.append("trace validation of %d files in %.1fs" % (len(files), time.time() - t))


def scan(files, nbehs):
    """Per behaviour: which guarded events its real trace contains (non-triviality is measured on the real traces)."""
    info = [collections.Counter() for _ in range(nbehs)]
    total = collections.Counter()
    for f in files:
        cur = None
        pre = {}
        for line in open(f):
            ev = json.loads(line)
            e = ev["e"]
            if e == "Cfg":
                cur = info[ev["idx"]]
                pre = {}
                continue
            if e == "Api":
                key = (ev["kind"], ev["name"])
                if ev.get("injected"):
                    cur["injected"] += 1
                    total["injected:%s/%s/%s/%s" % (ev["actor"], ev["verb"], ev["kind"], ev["sub"])] += 1
                if ev["err"] == "-":
                    was = pre.get(key, {})
                    now = ev["post"] if not ev["gone"] else {"exists": False}
                    if ev["actor"] != "env" and ev["kind"] in ("Node", "NodeClaim") and was.get("finalizer") and not now.get("finalizer"):
                        cur["fin:" + ev["kind"]] += 1
                        total["finalizer-removed:" + ev["kind"]] += 1
                    pre[key] = now
                if ev["actor"] != "env" and ev["kind"] == "Pod" and ev["verb"] in ("evict", "delete"):
                    cur[ev["verb"]] += 1
                    total["%s:%s" % (ev["verb"], ev["err"])] += 1
            elif e == "Env":
                pre[(ev["kind"], ev["name"])] = ev["post"]
            elif e == "Settled":
                total["settled:claimGone=%s,nodeGone=%s,instancesLeft=%d" % (ev["claimGone"], ev["nodeGone"], ev["instancesLeft"])] += 1
            elif e == "Prov" and ev["actor"] != "env":
                total["prov:%s:%s" % (ev["call"], ev["err"])] += 1
    return info, total


def parallel_tlc(run, module, models, weak, coverage=False, workers=4):
    """Closed-model configs (must hold) and spec mutations (every one must be rejected by TLC) run concurrently.
    models: list of cfg names; weak: {cfg: expected violated property}. Returns the TlcResults of the models."""
    import time

    def model(cfg):
        return run.closed_model(module, cfg, workers=workers, coverage=coverage, heap="4g", timeout=2400)

    def mutation(item):
        cfg, want = item
        return cfg, want, run.tlc(module, cfg, workers=2, heap="2g", expect_violation=True, timeout=600)

    with cf.ThreadPoolExecutor(max_workers=4) as ex:
        mf, wf = [], []
        for cfg in models:
            mf.append(ex.submit(model, cfg))
            time.sleep(0.4)      # run.tlc numbers its scratch files with an unlocked counter: stagger the starts
        for item in sorted(weak.items()):
            wf.append(ex.submit(mutation, item))
            time.sleep(0.4)
        res = [f.result() for f in mf]
        for cfg, want, r in [f.result() for f in wf]:
            if not r.violated or (want and r.violated != want):
                raise vlib.InfraError("spec mutation %s not rejected by TLC as expected (violated=%s, wanted %s)" % (cfg, r.violated, want))
            run.notes.append("spec mutation %s violates %s as expected" % (cfg, r.violated))
    if coverage:
        zero = sorted({a for r in res for a in r.coverage_zero} - {a for r in res for a in _covered(r)})
        if zero:
            raise vlib.InfraError("vacuous closed model %s, actions never taken: %s" % (module, zero))
    return res


def _covered(r):
    import re
    return {m.group(1) for m in re.finditer(r"^<(\w+) line \d+, col \d+ to line \d+, col \d+ of module \w+>: (\d+):(\d+)$", r.stdout, re.M)
            if int(m.group(3)) > 0}


def replay(run, path, behaviours):
    body = json.load(open(path))
    head = body["trace"][0]
    run.tier, run.seed = body.get("tier", run.tier), int(body.get("seed", run.seed))
    behs = behaviours(run)
    idx = head["idx"]
    if idx >= len(behs) or behs[idx]["tag"] != head["tag"]:
        raise vlib.InfraError("replay %s: behaviour %s (%s) cannot be regenerated from tier=%s seed=%s" % (path, idx, head["tag"], run.tier, run.seed))
    b = dict(behs[idx], idx=0)
    files = record(run, [b], prefix="replay", procs=1)
    info, total = scan(files, 1)
    run.note_case(json.dumps([b["cfg"], b["steps"]], sort_keys=True), True)
    run.note_case("replay", True)
    validate(run, files)
    run.samples = [{"tag": b["tag"], "cfg": b["cfg"], "steps": b["steps"]}]
    run.extra_cov["guarded_event_counts"] = dict(total)
