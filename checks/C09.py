"""C09 — Nodes and instances are finalized in order and never leaked.

Closed model Termination.tla (both finalizers at API / provider call granularity, faults, restarts, environment)
checked by TLC; behaviours (TLC simulation of the model + systematic placement of every failing call at every
reconcile of canonical termination paths, launch step with failing patches included) are replayed on the real
lifecycle controller, node termination controller, terminator and eviction queue; Termination_Trace.tla judges every
finalizer-removing write against the provider's instance set, the node's pods and its volume attachments."""
import json
import vlib
from checks import termination_common as tc

NSIM = {"quick": (400, 100), "thorough": (9000, 2500)}
WEAK = {"Termination_WeakDeleteOk.cfg": "Act_C09_NodeFinalizer", "Termination_WeakVolumes.cfg": "Act_C09_NodeFinalizer",
        "Termination_WeakDrain.cfg": "Act_C09_NodeFinalizer", "Termination_WeakTaint.cfg": "Act_C09_NodeFinalizer",
        "Termination_WeakClaimNodes.cfg": "Act_C09_ClaimFinalizer",
        "Termination_WeakDrainCached.cfg": "Act_C09_NodeFinalizer", "Termination_WeakDetaching.cfg": "Act_C09_NodeFinalizer",
        # the finalize path as the code had it before the fix of F-C09-1 / a restart after the failed status patch: the model itself shows the leak
        "Termination_Defect.cfg": "Inv_C09_NoLeak", "Termination_DefectRestart.cfg": "Inv_C09_NoLeakStrict"}


def behaviours(run):
    return tc.generate(run, NSIM[run.tier][0], NSIM[run.tier][1], with_term_sys=True, with_drain_sys=run.tier == "thorough", with_fine=True)


def check(run):
    run.rule = ("behaviours = TLC simulation of Termination.tla (random deep interleavings of NodeClaim-finalize, Node-finalize and "
                "eviction-queue reconciles with a failing API/provider call anywhere, pods/volumes/instance leaving, NotReady, clock "
                "past MinDrainTime / the termination time, restarts; four start states incl. a launch whose status patch failed) and of "
                "Drain.tla + every fault kind at every reconcile and a restart after every reconcile of 9 canonical termination paths "
                "+ failing launch patches; each replayed on the real lifecycle, node-termination controllers and eviction queue; "
                "non-trivial = the real trace contains a finalizer-removing patch of the Node or the NodeClaim by Karpenter")
    thorough = run.tier == "thorough"
    models = ["Termination_MC.cfg", "Termination_MClate.cfg"] + (
        ["Termination_MCfine.cfg", "Termination_MCfinelate.cfg", "Termination_MCbig.cfg", "Termination_MClatebig.cfg", "Termination_Live.cfg"]
        if thorough else [])
    tc.parallel_tlc(run, "Termination", models, WEAK, coverage=thorough, workers=6 if thorough else 4)
    behs = behaviours(run)
    files = tc.record(run, behs)
    info, total = tc.scan(files, len(behs))
    for b, k in zip(behs, info):
        run.note_case(json.dumps([b["cfg"], b["steps"]], sort_keys=True), k["fin:Node"] + k["fin:NodeClaim"] > 0)
    tc.validate(run, files)
    run.extra_cov["guarded_event_counts"] = dict(total)
    run.samples = [{"tag": b["tag"], "cfg": b["cfg"], "steps": b["steps"]} for b in (behs[0], behs[len(behs) // 2], behs[-1])]
    run.assumptions += ["controller-runtime fake client + harness choke point stand in for the API server (finalizer-gated deletion, "
                        "optimistic-lock patches, field-indexed lists); the harness provider moves instances running -> terminating -> gone",
                        "reconciles run without foreign steps in between (coarse granularity); the fine-grained interleaving is "
                        "checked on the closed model only (Termination_MCfine.cfg, thorough tier)",
                        "pods may be bound to the node at any time between reconciles (tolerating ones, and non-tolerating ones bound directly with "
                        "spec.nodeName); the drain answers for every pod bound before the finalizer-removing reconcile listed the node's pods",
                        "a VolumeAttachment blocks as long as the object exists (a deletionTimestamp means the detach is still in progress)",
                        "'provider confirms the instance gone' = some Delete/Get for that provider id answered NotFound to Karpenter",
                        "a VolumeAttachment blocks unless its volume belongs to a pod on the node that Karpenter cannot drain"]


def replay(run, path):
    """Re-execute the failing behaviour on the current tree and re-validate it (behaviours are a deterministic
    function of tier and seed, so the replay file only needs to name them)."""
    tc.replay(run, path, behaviours)
