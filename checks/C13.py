# TEMPORARY wrapper for mutation runs of the stage (never committed; the lead wires c13_sched_stage.stage into the real checks/C13.py)
from checks import c13_sched_stage as s
def check(run):
    s.stage(run)
