"""C13 — The launch request carries the scheduler's decision faithfully.

Stage 1 (this file, requirement level): parts (a) and (e) of the statement.
  (a) every requirement state reachable by <=2 (quick) / <=3 (thorough) Adds per key - plus seeded longer chains - is
      serialised with Requirements.NodeSelectorRequirements() (incl. BoundedNodeSelectorRequirements) and through
      NewNodeClaimTemplate(pool).ToNodeClaim(); Requirements_Trace.tla compares the Kubernetes reading of the serialised
      entries with the reading of the chain, key by key, re-parses them with NewNodeSelectorRequirementsWithMinValues
      (same Has-vector, same minValues, same treatment of an absent label) and checks that the label value chosen for a
      custom key (Requirement.Any) is admitted;
  (e) Any() and ToNodeClaim() (dynamic and static pools) never panic for NodePools accepted by RuntimeValidate /
      v1.ValidateRequirement - for the pool alone and for every split "pool carries the first i atoms, a pod carries the
      rest" where the pod's requirements (NewStrictPodRequirements) pass the scheduler's own gate
      (Compatible with AllowUndefinedWellKnownLabels) and are Added to the template the way the scheduler does.
Stage 2 (scheduler level: (b) instance-type subset / minValues floors, (c) requests, (d) labels / taints / hash, and (a),(e)
on NodeClaims created by Provisioner.CreateNodeClaims) is added by the scheduling module; append it to STAGES."""
from checks import requirements_common as rc
from checks import c13_sched_stage

BOUND = set(rc.BOUND_OPS)


def _note(run, ev):
    if ev["e"] != "Case":
        return
    ops = [a["op"] for a in ev["atoms"]]
    # non-trivial for C13: the state needs more than one plain entry (a bound is involved) or went through ToNodeClaim
    run.note_case(("case", ev["id"]), any(o in BOUND for o in ops) or any(x["ran"] for x in ev["ncs"]))


def stage_requirements(run):
    rc.pipeline(run, _note)


STAGES = [stage_requirements, c13_sched_stage.stage]


def check(run):
    run.rule = ("stage 1: every requirement state TLC enumerates from Requirements.tla (<=2 Adds quick, <=3 thorough; every "
                "operator combination incl. exclusion list + bound and Lt 0) and seeded chains of 3-6 atoms are serialised "
                "by the real code directly and through NodePool -> NewNodeClaimTemplate -> ToNodeClaim (when RuntimeValidate "
                "accepts the pool), re-parsed, and Any() is drawn 8 times; non-trivial = a bound is involved or ToNodeClaim ran")
    # the stages are independent (own scenarios, own trace files, own TLC jobs): they run side by side on one harness build
    import concurrent.futures as cf
    run.build_drv()
    with cf.ThreadPoolExecutor(max_workers=len(STAGES)) as ex:
        for fut in [ex.submit(st, run) for st in STAGES]:
            fut.result()
    run.assumptions.append("stage 1 covers parts (a) and (e) at the requirement / template level; stage 2 (checks/c13_sched_stage.py, "
                           "Weights_Trace.tla) decides (b)-(d) on NodeClaims created by the real Provisioner.CreateNodeClaims")


def replay(run, path):
    import json as _json
    body = _json.load(open(path))
    if str(body.get("guard", "")).startswith(("G_C13_TypesSubsetMinValues", "G_C13_Requests", "G_C13_Template")):
        cfg = next((e for e in body.get("trace", []) if e.get("e") == "Cfg"), None)
        c13_sched_stage.replay_stage(run, cfg)
    else:
        rc.replay_case(run, path)
