"""C15 helpers: behaviours of Drift.tla -> driver steps, systematic no-self-drift scenarios, parallel replay."""
import concurrent.futures as cf
import itertools
import json
import os
import re
import subprocess
import time

import vlib

ZONE = "topology.kubernetes.io/zone"
CT = "karpenter.sh/capacity-type"
TYPE = "node.kubernetes.io/instance-type"
ARCH = "kubernetes.io/arch"
OS = "kubernetes.io/os"
TEAM = "example.com/team"
GEN = "example.com/gen"

WEAK = {  # spec mutation -> properties one of which TLC must report
    "hashWithReqs": {"Act_C15_HashInvariant"}, "hashWithOrder": {"Act_C15_HashInvariant"}, "hashWithBehav": {"Act_C15_HashInvariant"},
    "hashNoTmpl": {"Act_C15_HashSensitive"},
    "anyBoundsOnly": {"Inv_C15_NoSelfDrift", "Act_C15_NoSelfDrift"}, "noMerge": {"Inv_C15_NoSelfDrift", "Act_C15_NoSelfDrift"},
    "crossVersion": {"Inv_C15_NoSelfDrift", "Act_C15_NoSelfDrift", "Act_C15_Decision"},
    "intersects": {"Act_C15_Decision"},
    "restampAlways": {"Act_C15_TemplateChangeReported"}, "restampDrifted": {"Act_C15_TemplateChangeReported"},
    "versionConst": {"Act_C15_Decision", "Inv_C15_NoSelfDrift", "Act_C15_NoSelfDrift"},
    "rawKeyFilter": {"Act_C15_Decision", "Inv_C15_NoSelfDrift", "Act_C15_NoSelfDrift"},
}
A_ARCH, A_OS, A_TYPE = "beta.kubernetes.io/arch", "beta.kubernetes.io/os", "beta.kubernetes.io/instance-type"
A_ZONE, A_REGION = "failure-domain.beta.kubernetes.io/zone", "failure-domain.beta.kubernetes.io/region"
REGION = "topology.kubernetes.io/region"


def R(key, op, vals=(), mn=0):
    return {"key": key, "op": op, "vals": list(vals), "min": mn, "cls": ""}


def model_catalog(types=("small", "large"), zones=("zone-a", "zone-b"), cts=("spot", "on-demand")):
    cpu = {"small": 2000, "medium": 4000, "large": 8000}
    out = []
    for t in types:
        offs = [{"zone": z, "ct": c, "price": cpu[t] // 20 * (6 if c == "spot" else 10) // 10, "resv": ""} for z in zones for c in cts]
        out.append({"name": t, "cpu": cpu[t], "arch": "amd64", "offs": offs})
    return out


# concrete realisations of the model's abstract template value n in 0..2, one family per behaviour
FAMILIES = {
    "taints": [("setTaints", "", "t1"), ("setTaints", "", "t1,t2"), ("setTaints", "", "t3")],
    # taints sharing a key (valid: only duplicate key+effect pairs are rejected): remove / change one member of the pair
    "pairTaints": [("setTaints", "", "d:NoSchedule,d:NoExecute,t1"), ("setTaints", "", "d:NoSchedule,t1"),
                   ("setTaints", "", "d:NoSchedule,d=y:NoExecute,t1")],
    "pairStartupTaints": [("setStartupTaints", "", "s:NoSchedule,s:NoExecute"), ("setStartupTaints", "", "s:NoSchedule"),
                          ("setStartupTaints", "", "s:NoSchedule,s:PreferNoSchedule")],
    "startupTaints": [("setStartupTaints", "", "-"), ("setStartupTaints", "", "s1"), ("setStartupTaints", "", "s1,s2")],
    "expireAfter": [("expireAfter", "", "Never"), ("expireAfter", "", "10m"), ("expireAfter", "", "0s")],
    "tgp": [("tgp", "", "-"), ("tgp", "", "30s"), ("tgp", "", "0s")],
    "annotation": [("tannotation", "example.com/a", "-"), ("tannotation", "example.com/a", "1"), ("tannotation", "example.com/a", "")],
    "label": [("tlabel", "example.com/other", "-"), ("tlabel", "example.com/other", "x"), ("tlabel", "example.com/other", "y")],
}


def tmpl_edit(fam, n):
    what, key, val = FAMILIES[fam][n]
    return {"a": "EditPool", "what": what, "key": key, "val": val}


def from_model(h, atoms, rng):
    """Translate a history of Drift.tla into a driver behaviour (scenario + steps)."""
    fam = rng.choice(sorted(FAMILIES))
    scn = {"reqs": [], "tlabels": {}, "taints": ["t1"], "static": rng.random() < 0.25, "types": model_catalog()}
    steps = []
    if fam in ("pairTaints", "pairStartupTaints"):     # the template value n = 0 of these families
        scn["taints"] = FAMILIES[fam][0][2].split(",") if fam == "pairTaints" else ["t1"]
        if fam == "pairStartupTaints":
            steps.append(tmpl_edit(fam, 0))
    for e in h:
        a = e["a"]
        if a == "Scn":
            for i in sorted(e["atoms"]):
                scn["reqs"] += [dict(r, min=0, cls="") for r in atoms[i - 1]["reqs"]]
        elif a == "EditTemplate":
            steps.append(tmpl_edit(fam, e["n"]))
        elif a == "SetTLabel":
            steps.append({"a": "EditPool", "what": "tlabel", "key": TEAM, "val": e["v"]})
        elif a == "Reorder":
            steps += [{"a": "EditPool", "what": "taintReorder"}, {"a": "EditPool", "what": "reorderReqs"}]
            if fam == "pairStartupTaints":
                steps.append({"a": "EditPool", "what": "startupTaintReorder"})
        elif a == "EditBehav":
            steps.append({"a": "EditPool", "what": "behav", "n": rng.randrange(4)})
        elif a == "AddReq":
            for r in atoms[e["atom"] - 1]["reqs"]:
                steps.append({"a": "EditPool", "what": "addReq", "req": dict(r, min=0, cls="")})
        elif a == "DelReq":
            for k in sorted({r["key"] for r in atoms[e["atom"] - 1]["reqs"]}):      # raw spelling (may be an alias key)
                steps.append({"a": "EditPool", "what": "delReqKey", "key": k})
        elif a == "TamperPool":
            steps.append({"a": "EditPool", "what": "hashAnn", "val": "tampered"})
        elif a in ("HashRec", "AgeVersion", "Restart"):
            steps.append({"a": a})
        elif a == "OldStamp":
            steps.append({"a": "EditClaim", "c": e["c"], "what": "oldStamp"})
        elif a == "Create":
            steps.append({"a": "Create", "c": e["c"]})
        elif a == "Launch":
            steps.append({"a": "Launch", "c": e["c"], "opt": e["opt"]})
            if rng.random() < 0.3:
                steps.append({"a": "Register", "c": e["c"]})
        elif a == "DriftRec":
            steps.append({"a": "DriftRec", "c": e["c"]})
        elif a == "ProvDrift":
            steps.append({"a": "ProvDrift", "c": e["c"], "on": True})
        elif a == "EditLabel":
            steps.append({"a": "EditClaim", "c": e["c"], "what": "label", "key": e["key"], "val": e["val"]})
        elif a == "RemoveType":
            steps.append({"a": "RemoveType", "t": e["t"]})
        elif a == "Tick":
            steps.append({"a": "Tick", "d": 3700})
        else:
            raise vlib.InfraError("unknown model action %r" % a)
    return {"scn": scn, "steps": steps, "tag": "tlc-sim:" + fam}


# ---------------------------------------------------------------- systematic scenarios (part c: every launch option)
# requirement atoms of the orchestrator's larger alphabet (default catalog: small/medium/large x zone-a/b x spot/on-demand)
WELLKNOWN = [
    [R(ZONE, "In", ["zone-a"])], [R(ZONE, "NotIn", ["zone-a"])], [R(ZONE, "In", ["zone-a", "zone-b"], 2)], [R(ZONE, "Exists")],
    [R(CT, "In", ["spot"])], [R(CT, "NotIn", ["spot"])], [R(CT, "In", ["on-demand", "spot"])], [R(CT, "Exists")],
    [R(TYPE, "In", ["small", "medium"], 2)], [R(TYPE, "NotIn", ["small"])], [R(TYPE, "Exists", [], 2)],
    [R(ARCH, "In", ["amd64"])], [R(ARCH, "NotIn", ["arm64"])], [R(OS, "Exists")],
    [R(ZONE, "In", ["zone-a", "zone-b"]), R(ZONE, "NotIn", ["zone-b"])],
    # deprecated alias spellings (accepted by validation, normalised by the scheduler) and a key the catalog does not define
    [R(A_ARCH, "In", ["amd64"])], [R(A_ARCH, "NotIn", ["arm64"])], [R(A_OS, "Exists")], [R(A_OS, "In", ["linux"])],
    [R(A_TYPE, "In", ["small", "medium"])], [R(A_TYPE, "Exists")], [R(A_ZONE, "In", ["zone-a"])], [R(A_ZONE, "NotIn", ["zone-a"])],
    [R(A_ZONE, "Exists")], [R(A_REGION, "In", ["r1"])], [R(REGION, "In", ["r1"])], [R(A_ZONE, "In", ["zone-a", "zone-b"]), R(ZONE, "NotIn", ["zone-b"])],
]
CUSTOM = [
    [R(TEAM, "In", ["a"])], [R(TEAM, "In", ["a", "b"])], [R(TEAM, "In", ["a", "b"], 2)], [R(TEAM, "NotIn", ["a"])], [R(TEAM, "Exists")],
    [R(TEAM, "DoesNotExist")], [R(TEAM, "In", ["a", "b"]), R(TEAM, "NotIn", ["a"])],
    [R(GEN, "Gt", ["2"])], [R(GEN, "Lt", ["5"])], [R(GEN, "Lt", ["1"])], [R(GEN, "Gt", ["1"]), R(GEN, "Lt", ["4"])],
    [R(GEN, "Gt", ["2"]), R(GEN, "Lt", ["5"]), R(GEN, "NotIn", ["3"])],
    [R(GEN, "Gte", ["2"]), R(GEN, "Lte", ["4"]), R(GEN, "NotIn", ["2", "4"])],
    [R(GEN, "Gt", ["2"]), R(GEN, "NotIn", ["3"])], [R(GEN, "Lt", ["3"]), R(GEN, "NotIn", ["0"])],
    [R(GEN, "In", ["1", "3", "4"]), R(GEN, "Gt", ["2"])], [R(GEN, "In", ["3", "4"]), R(GEN, "NotIn", ["3"])],
    [R(GEN, "Gte", ["3"]), R(GEN, "Lte", ["3"])], [R(GEN, "Exists")], [R(GEN, "NotIn", ["7"])],
]
# follow-up phases after the sweep (each keeps or ends the freshness of the swept claims)
PHASES = {
    "invariant": [{"a": "EditPool", "what": "behav", "n": 0}, {"a": "EditPool", "what": "behav", "n": 2}, {"a": "EditPool", "what": "reorderReqs"},
                  {"a": "EditPool", "what": "taintReorder"}, {"a": "HashRec"}, {"a": "DriftAll"}],
    "bump": [{"a": "AgeVersion"}, {"a": "DriftAll"}, {"a": "HashRec"}, {"a": "DriftAll"}],
    "oldreplica": [{"a": "EditClaim", "c": "s-0", "what": "oldStamp"}, {"a": "DriftAll"}, {"a": "EditPool", "what": "setTaints", "val": "t1,t9"},
                   {"a": "HashRec"}, {"a": "DriftAll"}],
    "template": [{"a": "EditPool", "what": "setTaints", "val": "t1,t9"}, {"a": "DriftAll"}, {"a": "HashRec"}, {"a": "DriftAll"},
                 {"a": "AgeVersion"}, {"a": "HashRec"}, {"a": "DriftAll"},
                 {"a": "EditPool", "what": "setTaints", "val": "t1,t2"}, {"a": "HashRec"}, {"a": "DriftAll"}],
    "restart-tick": [{"a": "OfferingUnavailable", "t": "small", "zone": "zone-a", "ct": "spot"},
                     {"a": "OfferingUnavailable", "t": "large", "zone": "zone-b", "ct": "on-demand"},
                     {"a": "Tick", "d": 3700}, {"a": "DriftAll"}, {"a": "Restart"}, {"a": "DriftAll"}, {"a": "RemoveType", "t": "medium"},
                     {"a": "DriftAll"}, {"a": "Tick", "d": 1900}, {"a": "DriftAll"}],
    # taints sharing a key: a permutation keeps the claims undrifted, removing / changing ONE member of the pair drifts them
    "pair-taints": [{"a": "EditPool", "what": "taintReorder"}, {"a": "HashRec"}, {"a": "DriftAll"},
                    {"a": "EditPool", "what": "setTaints", "val": "t1,d:NoSchedule"}, {"a": "HashRec"}, {"a": "DriftAll"}],
    "pair-taints-change": [{"a": "EditPool", "what": "setTaints", "val": "d:NoExecute,t1,d:NoSchedule"}, {"a": "HashRec"}, {"a": "DriftAll"},
                           {"a": "EditPool", "what": "setTaints", "val": "d:PreferNoSchedule,t1,d:NoSchedule"}, {"a": "HashRec"}, {"a": "DriftAll"}],
    "stale-annotation": [{"a": "EditPool", "what": "setTaints", "val": "t1,t9"}, {"a": "Create", "c": "late"}, {"a": "Launch", "c": "late", "opt": "#0"},
                         {"a": "DriftRec", "c": "late"}, {"a": "HashRec"}, {"a": "DriftRec", "c": "late"}],
}


PAIR_TAINTS = ["d:NoSchedule", "d:NoExecute", "t1"]


def sweep_behaviour(reqs, tag, phase, static=False, tlabels=None, sel=None, register=False):
    steps = [{"a": "HashRec"}, {"a": "Sweep", "c": "s", "on": register}]
    if sel:
        steps[1]["sel"] = sel
    steps += PHASES[phase]
    return {"scn": {"reqs": reqs, "tlabels": tlabels or {}, "taints": PAIR_TAINTS if phase.startswith("pair-taints") else ["t1", "t2"],
                    "static": static}, "steps": steps,
            "tag": "sweep:%s:%s" % (phase, tag)}


def atom_tag(atom):
    return "+".join("%s.%s%s" % (r["key"].split("/")[-1], r["op"], ",".join(r["vals"])) for r in atom)


def systematic(tier, rng):
    behs = []
    phases = sorted(PHASES)
    k = 0
    singles = [[a] for a in WELLKNOWN + CUSTOM] + [[]]
    pairs = [[a, b] for a in WELLKNOWN for b in CUSTOM]
    pairs += [[a, b] for a, b in itertools.combinations(CUSTOM, 2) if a[0]["key"] != b[0]["key"]]
    triples = [[a, b, c] for a in WELLKNOWN for b in CUSTOM for c in CUSTOM if b[0]["key"] == TEAM and c[0]["key"] == GEN]
    if tier == "quick":
        pairs = rng.sample(pairs, 24)
        triples = rng.sample(triples, 8)
    else:
        triples = rng.sample(triples, 250)
    for combo in singles + pairs + triples:
        reqs = [dict(r) for atom in combo for r in atom]
        tag = "&".join(atom_tag(a) for a in combo) or "none"
        behs.append(sweep_behaviour(reqs, tag, phases[k % len(phases)], static=(k % 5 == 4), register=(k % 3 == 0)))
        k += 1
    # the lead, repeated: Any() draws at random, several claims per scenario and several scenarios make the excluded pick near-certain
    lead = [R(GEN, "Gt", ["2"]), R(GEN, "Lt", ["5"]), R(GEN, "NotIn", ["3"])]
    for i in range(2 if tier == "quick" else 6):
        behs.append(sweep_behaviour([dict(r) for r in lead], "lead-%d" % i, "invariant", static=(i % 2 == 1)))
    # template labels and pod selectors feeding the NodeClaim's labels
    behs.append(sweep_behaviour([], "tlabel-only", "invariant", tlabels={TEAM: "a"}))
    behs.append(sweep_behaviour([R(TEAM, "In", ["a", "b"])], "tlabel+In", "template", tlabels={TEAM: "a"}))
    behs.append(sweep_behaviour([R(TEAM, "Exists")], "tlabel+Exists", "bump", tlabels={TEAM: "a"}, static=True))
    behs.append(sweep_behaviour([R(TEAM, "In", ["a", "b"])], "sel-team-b", "invariant", sel={TEAM: "b"}))
    behs.append(sweep_behaviour([R(GEN, "Gt", ["2"]), R(GEN, "Lt", ["5"]), R(GEN, "NotIn", ["3"])], "sel-gen-4", "invariant", sel={GEN: "4"}))
    behs.append(sweep_behaviour([R(ZONE, "Exists")], "sel-zone-b", "template", sel={ZONE: "zone-b"}))
    behs.append(sweep_behaviour([R(TEAM, "NotIn", ["a"])], "sel-team-c", "bump", sel={TEAM: "c"}))
    # template labels on a well-known key; reserved capacity (claim labelled capacity-type=reserved + reservation id, later demoted)
    behs.append(sweep_behaviour([], "tlabel-zone", "template", tlabels={ZONE: "zone-b"}))
    behs.append(sweep_behaviour([R(CT, "In", ["spot", "on-demand"])], "tlabel-zone+ct", "invariant", tlabels={ZONE: "zone-a"}, static=True))
    resv = [{"name": "small", "cpu": 2000, "arch": "amd64", "offs": [{"zone": "zone-a", "ct": "on-demand", "price": 100, "resv": ""},
                                                                    {"zone": "zone-a", "ct": "reserved", "price": 1, "resv": "r1"},
                                                                    {"zone": "zone-b", "ct": "spot", "price": 60, "resv": ""}]},
            {"name": "large", "cpu": 8000, "arch": "amd64", "offs": [{"zone": "zone-b", "ct": "on-demand", "price": 400, "resv": ""},
                                                                    {"zone": "zone-b", "ct": "reserved", "price": 2, "resv": "r2"}]}]
    for i, (reqs, phase) in enumerate([([], "invariant"), ([R(CT, "In", ["reserved", "on-demand"])], "template"), ([R(CT, "NotIn", ["spot"])], "bump"),
                                       ([R(CT, "Exists")], "restart-tick")]):
        b = sweep_behaviour(reqs, "reserved-%d" % i, phase, static=(i == 2))
        b["scn"]["types"] = resv
        k8 = len(b["steps"])
        # demotion: the reservation is lost, the provider relabels the claim on-demand
        b["steps"] += [{"a": "EditClaim", "c": "s-0", "what": "label", "key": CT, "val": "on-demand"},
                       {"a": "EditClaim", "c": "s-0", "what": "label", "key": "karpenter.test.sh/reservation-id", "val": "-"},
                       {"a": "Tick", "d": 3700}, {"a": "DriftAll"}, {"a": "RemoveOffering", "t": "small", "zone": "zone-a", "ct": "on-demand"},
                       {"a": "Restart"}, {"a": "DriftAll"}]
        behs.append(b)
    # instance types that can boot several operating systems: the provider resolves the OS from the NodeClaim's requirement
    multi = [dict(t, multiOS=True) for t in model_catalog(types=("small", "medium"))]
    for i, reqs in enumerate([[R(OS, "In", ["linux"])], [R(A_OS, "In", ["linux"])], [R(OS, "NotIn", ["windows"])]]):
        b = sweep_behaviour(reqs, "multi-os-%d" % i, "invariant", static=(i == 1))
        b["scn"]["types"] = multi
        behs.append(b)
    # upgrade window: every (pool annotation version, claim annotation version) in {older, current}^2 x {hash equal, different},
    # judged by drift reconciles that run BEFORE the hash controller re-stamps
    for static in (False, True):
        mk = lambda c, k: [{"a": "Create", "c": c}, {"a": "Launch", "c": c, "opt": "#%d" % k}]
        steps = [{"a": "HashRec"}] + mk("cA", 0) + mk("cB", 1) + [{"a": "DriftAll"},
                 {"a": "EditPool", "what": "setTaints", "val": "t1,t8"}, {"a": "HashRec"}] + mk("cC", 2) + mk("cD", 3) + [
                 {"a": "DriftAll"},                                     # (cur,cur): cA,cB different, cC,cD equal
                 {"a": "EditClaim", "c": "cB", "what": "oldStamp"}, {"a": "EditClaim", "c": "cD", "what": "oldStamp"},
                 {"a": "DriftAll"},                                     # (cur,old): never compared
                 {"a": "AgeVersion"}, {"a": "DriftAll"},                # (old,old): cA,cB different -> reported, cC,cD equal
                 ] + mk("cE", 4) + mk("cF", 5) + [
                 {"a": "EditClaim", "c": "cF", "what": "copyPoolHash"},
                 {"a": "DriftAll"},                                     # (old,cur): new claims stamped by the new release, pool still stale
                 {"a": "HashRec"}, {"a": "DriftAll"}, {"a": "Restart"}, {"a": "DriftAll"}]
        behs.append({"scn": {"reqs": [], "tlabels": {}, "taints": ["t1"], "static": static}, "steps": steps, "tag": "upgrade-window:%s" % static})
    # requirement drift: the pool's requirements move away from launched claims (and back)
    for i, (add, key) in enumerate([([R(TEAM, "In", ["a"])], TEAM), ([R(TEAM, "Exists")], TEAM), ([R(GEN, "Gt", ["2"])], GEN),
                                    ([R(ZONE, "In", ["zone-b"])], ZONE), ([R(CT, "NotIn", ["spot"])], CT), ([R(TYPE, "In", ["large"])], TYPE),
                                    ([R(TEAM, "NotIn", ["a"])], TEAM), ([R(TEAM, "DoesNotExist")], TEAM),
                                    ([R(GEN, "Gt", ["2"]), R(GEN, "NotIn", ["5"])], GEN), ([R(GEN, "Lt", ["4"]), R(GEN, "NotIn", ["1"])], GEN),
                                    ([R(TEAM, "Exists"), R(TEAM, "NotIn", ["a"])], TEAM), ([R(GEN, "Gte", ["1"])], GEN),
                                    ([R(A_ARCH, "In", ["amd64"])], A_ARCH), ([R(A_ZONE, "In", ["zone-b"])], A_ZONE),
                                    ([R(A_TYPE, "NotIn", ["large"])], A_TYPE), ([R(A_OS, "Exists")], A_OS),
                                    ([R(A_ARCH, "In", ["arm64"])], A_ARCH)]):
        steps = [{"a": "HashRec"}, {"a": "Sweep", "c": "s", "on": i % 2 == 0}]
        steps += [{"a": "EditPool", "what": "addReq", "req": r} for r in add]
        steps += [{"a": "DriftAll"}, {"a": "HashRec"}, {"a": "DriftAll"}, {"a": "EditPool", "what": "delReqKey", "key": key}, {"a": "DriftAll"}]
        behs.append({"scn": {"reqs": [R(ZONE, "In", ["zone-a", "zone-b"])] if key not in (ZONE, A_ZONE) else [], "tlabels": {}, "taints": ["t1"],
                             "static": i % 4 == 3}, "steps": steps, "tag": "reqdrift:" + atom_tag(add)})
    # label drift on the claim side (labels stop satisfying): removal, change, demotion of the capacity type
    for i, (key, val) in enumerate([(TEAM, "-"), (TEAM, "z"), (ZONE, "-"), (ZONE, "zone-c"), (CT, "on-demand"), (GEN, "9"), (GEN, "x")]):
        steps = [{"a": "HashRec"}, {"a": "Create", "c": "c1"}, {"a": "Launch", "c": "c1", "opt": "#0"}, {"a": "Create", "c": "c2"},
                 {"a": "Launch", "c": "c2", "opt": "#1"}, {"a": "Register", "c": "c2"}, {"a": "DriftAll"},
                 {"a": "EditClaim", "c": "c1", "what": "label", "key": key, "val": val},
                 {"a": "EditClaim", "c": "c2", "what": "label", "key": key, "val": val}, {"a": "DriftAll"}, {"a": "Restart"}, {"a": "DriftAll"}]
        behs.append({"scn": {"reqs": [R(TEAM, "In", ["a", "b"]), R(ZONE, "In", ["zone-a", "zone-b"]), R(CT, "In", ["spot"]),
                                      R(GEN, "Gt", ["1"]), R(GEN, "Lt", ["4"])], "tlabels": {}, "taints": [], "static": i % 2 == 1},
                     "steps": steps, "tag": "labeldrift:%s=%s" % (key.split("/")[-1], val)})
    # launched-but-unregistered vs registered vs not launched; provider drift; instance type leaves the catalog
    for static in (False, True):
        steps = [{"a": "HashRec"}, {"a": "Create", "c": "c1"}, {"a": "DriftRec", "c": "c1"},
                 {"a": "EditPool", "what": "setTaints", "val": "t7"}, {"a": "HashRec"}, {"a": "DriftRec", "c": "c1"},
                 {"a": "Launch", "c": "c1", "opt": "#5"}, {"a": "DriftRec", "c": "c1"}, {"a": "Register", "c": "c1"}, {"a": "DriftRec", "c": "c1"},
                 {"a": "Create", "c": "c2"}, {"a": "Launch", "c": "c2", "opt": "#4"}, {"a": "DriftRec", "c": "c2"},
                 {"a": "ProvDrift", "c": "c2", "on": True}, {"a": "DriftRec", "c": "c2"}, {"a": "ProvDrift", "c": "c2", "on": False},
                 {"a": "DriftRec", "c": "c2"}, {"a": "Tick", "d": 3700},
                 # a temporarily unavailable offering is still a known offering: its NodeClaims do not drift
                 {"a": "OfferingUnavailable", "t": "medium", "zone": "zone-a", "ct": "on-demand"}, {"a": "DriftAll"},
                 {"a": "OfferingAvailable", "t": "medium", "zone": "zone-a", "ct": "on-demand"},
                 {"a": "RemoveOffering", "t": "medium", "zone": "zone-a", "ct": "spot"},
                 {"a": "DriftAll"}, {"a": "RemoveType", "t": "medium"}, {"a": "DriftAll"}, {"a": "RestoreCatalog"}, {"a": "Tick", "d": 1900},
                 {"a": "DriftAll"}, {"a": "EditPool", "what": "dropAnn"}, {"a": "DriftAll"}, {"a": "HashRec"}, {"a": "DriftAll"},
                 {"a": "EditClaim", "c": "c2", "what": "dropAnn"}, {"a": "DriftAll"}]
        behs.append({"scn": {"reqs": [], "tlabels": {}, "taints": ["t1"], "static": static}, "steps": steps, "tag": "stages:%s" % static})
    return behs


# ---------------------------------------------------------------- running
def tlc_parallel(run, jobs, par=4, workers=2, heap="3g", timeout=900):
    """Run several TLC jobs (cfg names on Drift.tla) concurrently; returns {cfg: (violated, distinct, wall)}."""
    def one(cfg):
        meta = os.path.join(run.work, "wmeta-" + cfg)
        out = os.path.join(run.work, "tlc-" + cfg + ".out")
        cmd = ["java", "-XX:+UseParallelGC", "-Xmx" + heap, "-Xss64m", "-cp", vlib.TLA_CP, "tlc2.TLC", "-metadir", meta, "-config", cfg,
               "-workers", str(workers), "-deadlock", "Drift.tla"]
        e = dict(os.environ)
        e.pop("JAVA_TOOL_OPTIONS", None)
        t = time.time()
        with open(out, "w") as f:
            try:
                subprocess.run(cmd, cwd=run.specdir, env=e, stdout=f, stderr=subprocess.STDOUT, timeout=timeout)
            except subprocess.TimeoutExpired:
                raise vlib.InfraError("TLC timeout on %s" % cfg)
        txt = open(out, errors="replace").read()
        m = re.search(r"(?:Invariant|Action property) (\S+) is violated", txt)
        d = re.search(r"(\d+) distinct states found", txt)
        if not m and "Error:" in txt:
            raise vlib.InfraError("TLC error on %s (see %s)" % (cfg, out))
        return cfg, (m.group(1) if m else None, int(d.group(1)) if d else 0, time.time() - t)
    with cf.ThreadPoolExecutor(max_workers=par) as ex:
        return dict(ex.map(one, jobs))


def record(run, behs, prefix, procs=8):
    """Replay behaviours on the real code with several driver processes; returns trace files (order = behs order per part)."""
    run.build_drv()
    t0 = time.time()
    parts = vlib.shard(behs, procs)

    def one(i_part):
        i, part = i_part
        bp = os.path.join(run.work, "%s-behs-%d.json" % (prefix, i))
        json.dump(part, open(bp, "w"))
        out = json.loads(run.drv("drift-world", ["-in", bp, "-out", os.path.join(run.work, "traces-%s-%d" % (prefix, i)), "-shards", 1,
                                                 "-prefix", "%s-%d" % (prefix, i)]))
        return out["files"]
    files = []
    with cf.ThreadPoolExecutor(max_workers=procs) as ex:
        for fl in ex.map(one, list(enumerate(parts))):
            files += fl
    run.notes.append("replayed %d behaviours on the real code in %.1fs (%d driver processes)" % (len(behs), time.time() - t0, procs))
    return files


def scan(files):
    """Per trace: (tag, number of drift reconciles that judged a launched claim, number of hash reconciles, claims launched)."""
    out = []
    for f in files:
        cur = None
        launched = set()
        for line in open(f):
            ev = json.loads(line)
            e = ev["e"]
            if e == "Cfg":
                cur = {"tag": ev.get("tag", "-"), "drift": 0, "hash": 0, "launched": 0, "drifted": 0, "beh": ev.get("behJson", ""),
                       "created": 0, "create_failed": 0, "late_drifted": 0}
                out.append(cur)
                launched = set()
            elif e == "Obs":
                launched = {c["name"] for c in ev["claims"] if c["launched"] == "True" and c["exists"]}
                cur["launched"] = max(cur["launched"], len(launched))
                cur["drifted"] = max(cur["drifted"], sum(1 for c in ev["claims"] if c["drifted"] == "True"))
                if any(c["name"] == "late" and c["drifted"] == "True" for c in ev["claims"]):
                    cur["late_drifted"] = 1
            elif e == "Begin" and ev["controller"] == "nodeclaim.disruption" and ev["object"] in launched:
                cur["drift"] += 1
            elif e == "Begin" and ev["controller"] == "nodepool.hash":
                cur["hash"] += 1
            elif e == "Created":
                cur["created" if ev["name"] != "-" else "create_failed"] += 1
    return out
