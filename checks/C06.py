"""C06 — Consolidation keeps pods schedulable and strictly lowers cost.

Closed model Consolidation.tla: one consolidation decision over a price table (types x {spot, on-demand} x {za, zb};
zone zb same / overlay-priced / unavailable / not offered), 1..3 nodes to remove, optionally a remaining node with
some room, the spot-to-spot flag; the controller may issue ANY command the guards of ConsolidationGuards.tla admit,
churn arrives while the command waits for validation, the provider launches the replacement as ANY launch the
request allows (incl. the on-demand fall-back).  Invariants: cost after < cost before, at most one launch, spot-to-spot
needs the feature and enough cheaper types and settles, several nodes are never replaced by a same-type node at the
same or a higher price, empty means no positive eviction cost, pods stay schedulable.  Every Consolidation_Weak*.cfg
weakens one guard and must be rejected.

Binding: TLC draws price-grid scenarios (and enumerates the pods grid); each becomes a cluster brought up through the
real informers / nodeclaim-disruption controller; the real SingleNodeConsolidation / MultiNodeConsolidation / Emptiness
ComputeCommands (incl. the 15 s validation) and real Controller.Reconcile rounds run on it; directed churn scenarios
(late pods, destinations that fill / are marked / deleted, offerings that run out during the validation wait), the
spot-to-spot threshold ladder and a seeded explorer with larger catalogs follow.  Consolidation_Trace.tla judges every
command: price algebra from the CURRENT price table, placements by C01's admissibility oracle (SchedulingGuards.tla)
with an independent search when the command's own placements are stale."""
import collections
import glob
import json
import os
import random
import re

import vlib
from checks import consol_common as cc
from checks import disrupt_common as dc

NGRID = {"quick": 140, "thorough": 2500}          # draws from the price grid (the valid ones are used)
NEXPLORE = {"quick": 70, "thorough": 2500}
PODS_MOD = {"quick": 12, "thorough": 1}          # pods grid: slice Hash % mod (1 = the whole grid)
PROCS = {"quick": 6, "thorough": 12}
INVS = ("Inv_C06_CostDecreases Inv_C06_AtMostOneLaunch Inv_C06_SpotToSpotFeature Inv_C06_SpotToSpotAlternatives "
        "Inv_C06_SpotToSpotSettles Inv_C06_NotWorseThanKeeping Inv_C06_EmptyHarmless Inv_C06_PodsSchedulable").split()
WEAK = {"le": "price", "cheapest": "price", "noPin": "price", "s2sFlag": "price", "s2sFew": "price", "s2sNoTruncate": "price",
        "sameType": "price", "twoReplacements": "price", "emptyCost": "pods", "noHome": "pods", "noRevalidate": "pods", "noReprice": "pods", "ignoreAvail": "avail"}


def closed_models(run):
    """Closed models, coverage, spec mutations: independent TLC jobs, run side by side."""
    import concurrent.futures as cf
    big = vlib.NCPU >= 16
    models = [("Consolidation_MC.cfg", 5 if big else 3), ("Consolidation_MCPods.cfg", 4 if big else 2), ("Consolidation_MCAvail.cfg", 2)]
    if run.tier == "thorough":
        models += [("Consolidation_MCFull.cfg", 8 if big else 4), ("Consolidation_MC3.cfg", 4), ("Consolidation_MC3c.cfg", 2), ("Consolidation_MCAvailFull.cfg", 4)]
    if run.tier == "quick":
        # one TLC run per focus tries every weakening (Weak = "*price" / "*pods"): WeakDetect prints <<"REJ", rule>>
        weak = ["Consolidation_WeakAll.cfg", "Consolidation_WeakAllMulti.cfg", "Consolidation_WeakAll3.cfg", "Consolidation_WeakAllPods.cfg", "Consolidation_WeakAllAvail.cfg"]
    else:
        weak = sorted(os.path.basename(c) for c in glob.glob(os.path.join(run.specdir, "Consolidation_Weak_*.cfg")))

    def model(job):
        cfg, workers = job
        return cfg, run.closed_model("Consolidation", cfg, workers=workers, heap="4g", coverage=True, timeout=7200)

    def mutation(cfg):
        wk = 2
        return cfg, run.tlc("Consolidation", cfg, workers=wk, heap="3g", expect_violation=(run.tier != "quick"), timeout=7200)

    def never_taken(r):
        """Actions with count 0 in the FINAL coverage block (TLC also prints interim blocks every minute)."""
        last = r.stdout.split("The coverage statistics at")[-1]
        return {m.group(1) for m in re.finditer(r"^<(\w+) line \d+, col \d+ to line \d+, col \d+ of module Consolidation>: (\d+):(\d+)$", last, re.M)
                if int(m.group(3)) == 0 and m.group(1) != "Init"}

    zero, rejected, seen = None, [], set()
    with cf.ThreadPoolExecutor(max_workers=6 if big else 2) as ex:
        fm = [ex.submit(model, j) for j in models]
        fw = [ex.submit(mutation, c) for c in weak]
        for f in fm:
            cfg, r = f.result()
            z = never_taken(r)
            zero = z if zero is None else (zero & z)   # an action must be taken in at least one focus (churn: pods focus only)
        for f in fw:
            cfg, r = f.result()
            if run.tier == "quick":
                seen |= set(re.findall(r'<<"REJ", "(\w+)">>', r.stdout))
            else:
                name = cfg[len("Consolidation_Weak_"):-4]
                if not r.violated or not r.violated.startswith("Inv_C06_"):
                    raise vlib.InfraError("spec mutation %s not rejected by TLC (guard conjunct not load-bearing)" % name)
                rejected.append("%s->%s" % (name, r.violated))
    if zero:
        raise vlib.InfraError("vacuous closed model Consolidation, actions never taken in any configuration: %s" % sorted(zero))
    if run.tier == "quick":
        missing = set(WEAK) - seen
        if missing:
            raise vlib.InfraError("spec mutations not rejected by TLC (guard conjunct not load-bearing): %s" % sorted(missing))
        rejected = sorted(WEAK)
    elif {x.split("->")[0] for x in rejected} != set(WEAK):
        raise vlib.InfraError("Consolidation_Weak_*.cfg files do not cover %s" % sorted(set(WEAK) - {x.split("->")[0] for x in rejected}))
    run.notes.append("spec mutations rejected by TLC: " + ", ".join(rejected))
    run.extra_cov["spec_mutations_rejected"] = rejected


def gen_grid(run):
    """TLC draws scenarios from the price grid (RandomElement, seeded by -seed = VERIF_SEED + 1) and enumerates a
    slice of the pods grid."""
    cfg = open(os.path.join(run.specdir, "Consolidation_Gen.cfg")).read().replace("GenMod = 200", "GenMod = %d" % NGRID[run.tier])
    open(os.path.join(run.specdir, "Consolidation_Gen_run.cfg"), "w").write(cfg)
    price = run.generate("Consolidation", "Consolidation_Gen_run.cfg", workers=1, heap="3g", timeout=1800,
                         extra=["-seed", str(run.seed + 1)])
    mod = PODS_MOD[run.tier]
    cfg = open(os.path.join(run.specdir, "Consolidation_GenPods.cfg")).read().replace(
        "GenMod = 20  GenRes = 0", "GenMod = %d  GenRes = %d" % (mod, run.seed % mod))
    open(os.path.join(run.specdir, "Consolidation_GenPods_run.cfg"), "w").write(cfg)
    pods = run.generate("Consolidation", "Consolidation_GenPods_run.cfg", workers=1, heap="3g", timeout=1800)
    if not price or not pods:
        raise vlib.InfraError("TLC generated no scenarios (price %d, pods %d)" % (len(price), len(pods)))
    for g in price:
        g["focus"] = "price"
    for g in pods:
        g["focus"] = "pods"
    return price, pods


def check(run):
    run.rule = ("TLC draws price tables x removed-node sets from the grid of Consolidation.tla (3 types x 2 capacity types x 2 zones, "
                "prices {1,2,3,5} x 1/8 $, zone zb same / overlay-priced / unavailable / not offered, zone-za offerings of every capacity type "
                "out of capacity independently, an available or exhausted capacity reservation, pools allowing each subset of capacity "
                "types, 1-3 nodes) and enumerates the pods "
                "grid (pod sizes, capacity-type selector, zero-cost pods, room on a remaining node); each scenario runs on the real "
                "Single/MultiNodeConsolidation and Emptiness ComputeCommands (incl. validation) and a real Controller.Reconcile round; "
                "directed churn during the validation wait, the spot-to-spot threshold ladder (13..20 cheaper types, minValues), a seeded "
                "explorer (3-24 types, 2-3 zones, wild prices, pool requirements, policies). non-trivial = the real trace holds a judged "
                "consolidation command")
    import threading
    err = []
    th = None
    if os.environ.get("VERIF_FAST"):     # development loop only (mutation runs): skip the closed-model part
        run.notes.append("VERIF_FAST: closed models and spec mutations skipped")
    else:
        # the closed-model jobs do not depend on the real code: they run next to the binding pipeline
        def bg():
            try:
                closed_models(run)
            except Exception as e:   # noqa: BLE001 - re-raised in the main thread
                err.append(e)
        th = threading.Thread(target=bg)
        th.start()
    try:
        bind(run)
    finally:
        if th is not None:
            th.join()
    if err:
        raise err[0]


def bind(run):
    rng = random.Random(run.seed * 104729 + 6)
    price, pods = gen_grid(run)
    scen = [cc.grid_scenario(g, i) for i, g in enumerate(price)]
    if run.tier == "quick" and len(pods) > 90:
        pods = rng.sample(pods, 90)
    scen += [cc.grid_scenario(g, 100000 + i) for i, g in enumerate(pods)]
    ngrid = len(scen)
    scen += cc.directed(rng)
    scen += cc.s2s_directed(rng)
    scen += cc.s2s_multi_directed()
    scen += cc.float_witness()
    scen += cc.explore(rng, NEXPLORE[run.tier])
    judge(run, scen)
    run.extra_cov.update({"grid_scenarios_price": len(price), "grid_scenarios_pods": len(pods), "explorer_scenarios": NEXPLORE[run.tier]})
    run.exhaustive = False
    run.assumptions += ["controller-runtime fake client + harness choke point stand in for the API server; the harness provider's "
                        "catalog is the price table (prices are multiples of 1/8 $ so that float sums are exact)",
                        "cluster state is hydrated by the real informer controllers before each decision (no informer lag)",
                        "a command is judged at the instant it is issued (after the 15 s validation) against the API store and the "
                        "price table of that instant; price changes during the validation wait appear in four directed scenarios only "
                        "(known finding F-C06-2)",
                        "reschedulable pods protected by do-not-disrupt / fully blocking PDBs are C07's business (the node is "
                        "ineligible), C01's listed known-finding classes are C01's business",
                        "plain DaemonSets and capacity reservations occur; no volumes, topology constraints or DRA in these clusters (C01/C02/C17)"]


CHUNK = 1200     # scenarios recorded + validated at a time (bounds the scratch space: traces of clean chunks are deleted)


def judge(run, scen, prefix="c06"):
    import shutil
    cov = collections.Counter()
    obs = collections.Counter()
    infra, summ = [], []
    chunks = [scen[i:i + CHUNK] for i in range(0, len(scen), CHUNK)]
    for ci, chunk in enumerate(chunks):
        pfx = prefix if len(chunks) == 1 else "%s-%d" % (prefix, ci)
        files = dc.record(run, chunk, prefix=pfx, procs=PROCS[run.tier], shards=2)
        part = cc.summarise(files)
        if len(part) != len(chunk):
            raise vlib.InfraError("trace count mismatch (%d traces, %d scenarios)" % (len(part), len(chunk)))
        by_name = {s["name"]: s for s in part}
        for sc in chunk:
            s = by_name[sc["name"]]
            panics = [e for e in s["errors"] if e["panic"]]
            if panics:
                raise vlib.InfraError("panic while running %s: %s" % (sc["name"], panics[0]))
            run.note_case(sc["name"], len(s["cmds"]) > 0)
            for c in s["cmds"]:
                cov["commands"] += 1
                cov["%s:%s" % (c["method"], c["decision"])] += 1
                if c["e"] == "QCmd":
                    cov["started_by_controller_round"] += 1
                if c["nrepl"]:
                    if c["cand_cts"] == ["spot"] and "spot" in c["repl_ct"]:
                        cov["spot_to_spot:%s" % ("single" if c["ncand"] == 1 else "multi")] += 1
                    if "on-demand" in c["cand_cts"]:
                        cov["on_demand_replaced:%s" % "+".join(c["repl_ct"])] += 1
                    if c["ncand"] > 1 and set(c["opts"]) & set(c["cand_types"]):
                        cov["multi_replace_with_same_type_option"] += 1
                if c["placed_existing"]:
                    cov["placements_on_existing_nodes"] += c["placed_existing"]
                if c["placed_new"]:
                    cov["placements_on_replacement"] += c["placed_new"]
            if sc["tags"].get("kind") == "churn":
                # the Method step runs with the churn inside its validation wait; the Round that follows sees the churned world
                cov["churn:%s" % ("command" if any(c["e"] == "Cmd" for c in s["cmds"]) else "no-command")] += 1
        viol = run.validate("Consolidation_Trace", "Consolidation_Trace.cfg", files, heap="3g", par=PROCS[run.tier], timeout=3000)
        infra += [v for v in viol if v.get("guard", "").startswith("Infra_")]
        obs.update("%s[%s]" % (v["guard"], v["sig"]) for v in viol if v.get("guard", "").startswith("Obs_"))
        for s in part:
            s.pop("file", None)
        summ += part
        if len(chunks) > 1 and not any(run.pmap.get(v.get("guard")) == run.pid for v in viol) and not os.environ.get("VERIF_KEEP"):
            shutil.rmtree(os.path.join(run.work, "traces-" + pfx), ignore_errors=True)   # replay bodies need the traces of failing chunks only
    fresh = [v for v in run.viol if run.pmap.get(v.get("guard")) == run.pid and vlib.match_known(run.known, run.pid, v) is None]
    if infra:
        msg = "the home search could not decide %d commands (scenario too large for the oracle): %s" % (len(infra), infra[:3])
        if not fresh:      # a real-code violation decided on other commands stands on its own
            raise vlib.InfraError(msg)
        run.notes.append(msg)
    for k, n in sorted(obs.items()):
        run.notes.append("observation (not judged): %s x%d" % (k, n))
    # vacuity: the guarded command classes must actually occur (a real-code violation found on the way stands on its own)
    need = ["single:replace", "single:delete", "multi:delete", "emptiness:delete", "started_by_controller_round",
            "placements_on_existing_nodes", "placements_on_replacement"]
    if prefix == "c06":
        need += ["multi:replace", "spot_to_spot:single", "spot_to_spot:multi", "on_demand_replaced:spot", "churn:command", "churn:no-command"]
        missing = [k for k in need if not cov[k]]
        if missing:
            msg = "vacuous binding: no real command of class %s was judged" % missing
            if not fresh:
                raise vlib.InfraError(msg)
            run.notes.append(msg)
    run.extra_cov["judged_commands"] = dict(cov)
    pick = [s for s in summ if s["cmds"]]
    run.samples = [{"scenario": s["name"], "tags": s["tags"], "commands": s["cmds"][:3]} for s in pick[:: max(1, len(pick) // 5)]][:6]
    return summ


def replay(run, path):
    """Re-execute the scenario of the failing trace (embedded in its Cfg line) on the current tree and re-validate."""
    body = json.load(open(path))
    sc = json.loads(body["trace"][0]["scenarioJson"])
    summ = judge(run, [sc], prefix="replay")
    run.note_case("replay", True)
    run.samples = [{"scenario": sc["name"], "commands": summ[0]["cmds"]}]
