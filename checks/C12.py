"""C12 — Label-requirement algebra agrees with set semantics.

Requirements.tla: Kubernetes operator semantics (`Admits`, RequirementsSem.tla) vs. the representation and algorithms of
pkg/scheduling.Requirement(s) transcribed one-to-one; TLC checks the refinement laws for every chain of Adds in a
witness-complete value universe and prints the chains; each is replayed on the real code (New/Has, Add, Intersection in
every association order, HasIntersection for every split, Compatible / Intersects / IsCompatible for every split with and
without AllowUndefinedWellKnownLabels, MinValues, alias normalisation) together with seeded longer chains and multi-key
compatibility cases over a larger universe; Requirements_Trace.tla re-derives every answer from `Admits`."""
from checks import requirements_common as rc

BOUND = set(rc.BOUND_OPS)


def _note(run, ev):
    if ev["e"] == "Multi":
        run.note_case(("multi", ev["id"]), True)
        return
    if ev["e"] != "Case":
        run.note_case(("panic", ev["id"]), True)
        return
    ops = [a["op"] for a in ev["atoms"]]
    # non-trivial for C12: an intersection of at least two atoms that mixes a bound or a complement with a value set
    mixes = len(ops) >= 2 and (any(o in BOUND for o in ops) or "NotIn" in ops) and len(set(ops)) >= 2
    run.note_case(("case", ev["id"]), mixes)


def check(run):
    run.rule = ("TLC enumerates every chain of <=2 Adds (quick; <=3 thorough) over In/NotIn with 1-2 (and 0, 3) values from "
                "{-1,0,1,2,01,a}, Exists, DoesNotExist, Gt/Lt/Gte/Lte on {0,1,2,01,-1}, minValues {unset,1,2}; each chain is "
                "replayed on the real scheduling.Requirement(s) on a well-known key (both AllowUndefined options, alias "
                "spellings) or a custom key, plus seeded chains of 3-6 atoms and multi-key Compatible cases over a 37-value "
                "universe; a case is non-trivial when it intersects >=2 atoms mixing a bound/complement with another operator")
    rc.pipeline(run, _note)


def replay(run, path):
    rc.replay_case(run, path)
