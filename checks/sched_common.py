"""Scenario alphabets and the seeded explorer for the scheduling family (C01 and its followers
C02/C03-dynamic/C04/C13/C17/C19 share the driver harness/drivers/sched and this generator).

A scenario is the JSON object documented in spec/SCHED_TRACE.md.  `explore(rng, profile)` draws one
scenario; profiles select sub-alphabets (DESIGN Appendix D):

  basic     catalog x pools x existing nodes x daemonsets x node-level pod constraints
            (selector, required/preferred node affinity, tolerations, host ports, volumes) - the
            alphabet for which the C01 oracle is exact
  interpod  basic + pod (anti)affinity and topology spread archetypes (C01 must still hold; C02's food)
  reserved  basic + reserved offerings / reservation ids (C17's food)
  weights   weighted pools, limits, price ties, minValues, reduced MaxInstanceTypes (C19 / C13 b-d; checks/weights_common.py)
"""
import copy
import json
import random

ZONES = ["a", "b", "c"]
SIZES = [(1000, 2048), (2000, 4096), (4000, 8192), (8000, 16384)]
CPUS = [100, 300, 400, 500, 700, 900, 1000, 1500, 1900, 2500, 3500]
TAINT = {"key": "dedicated", "value": "infra", "effect": "NoSchedule"}
PREFER = {"key": "soft", "value": "x", "effect": "PreferNoSchedule"}
STARTUP = {"key": "startup.example/agent", "value": "", "effect": "NoSchedule"}
TOL_TAINT = {"key": "dedicated", "op": "Equal", "value": "infra", "effect": "NoSchedule"}
TOL_ALL = {"key": "", "op": "Exists", "value": "", "effect": ""}
# well-known ephemeral taints (NoSchedule / NoExecute forms, with / without timeAdded and value) and readiness.k8s.io/* rules
NODE_TAINTS = [
    {"key": "node.kubernetes.io/not-ready", "value": "", "effect": "NoSchedule", "timeAdded": False},
    {"key": "node.kubernetes.io/not-ready", "value": "", "effect": "NoExecute", "timeAdded": True},
    {"key": "node.kubernetes.io/unreachable", "value": "", "effect": "NoSchedule", "timeAdded": False},
    {"key": "node.kubernetes.io/unreachable", "value": "", "effect": "NoExecute", "timeAdded": True},
    {"key": "node.cloudprovider.kubernetes.io/uninitialized", "value": "true", "effect": "NoSchedule", "timeAdded": False},
    {"key": "readiness.k8s.io/network-ready", "value": "pending", "effect": "NoSchedule", "timeAdded": False},
    {"key": "readiness.k8s.io/storage-ready", "value": "", "effect": "NoExecute", "timeAdded": True},
]


def expr(key, op, vals=(), n=0):
    return {"key": key, "op": op, "vals": list(vals), "n": n}


def alloc_of(t, o):
    """allocatable of one offering: capacity (with capacity override) - overhead (with overhead override), per resource"""
    return {"cpu": (o.get("cpuOv") or t["cpu"]) - (o.get("ohCpu") or t["ovCpu"]),
            "mem": (o.get("memOv") or t["mem"]) - (o.get("ohMem") or t["ovMem"]), "pods": o.get("podsOv") or t["pods"]}


def add_overrides(rng, t):
    """per-offering overrides: capacity-only, overhead-only or both, on one / some / all offerings (an overhead-only type never
    touches the capacity-override code path; offerings of one type may end up in several allocatable groups)"""
    kind = rng.choice(["cap", "cap", "oh", "oh", "both", "mixed"])
    offs = t["offerings"]
    some = rng.choice([offs[:1], rng.sample(offs, max(1, len(offs) // 2)), offs])
    for o in some:
        k = kind if kind != "mixed" else rng.choice(["cap", "oh", "both"])
        if k in ("cap", "both"):
            o["cpuOv"] = rng.choice([t["cpu"] // 2, t["cpu"] * 2])
            o["memOv"] = rng.choice([0, t["mem"] // 2])
            o["podsOv"] = rng.choice([0, 0, 2])
        if k in ("oh", "both"):
            o["ohCpu"] = rng.choice([50, t["cpu"] // 2, t["cpu"] // 2 + 100])
            o["ohMem"] = rng.choice([0, 0, t["mem"] // 2])
        if rng.random() < 0.7:
            o["available"] = True
        a = alloc_of(t, o)
        if a["cpu"] < 100:
            o["ohCpu"] = 50
        if a["mem"] < 128:
            o["ohMem"] = 0


def gen_catalog(rng, profile):
    n = rng.choice([1, 2, 2, 3, 3, 4, 5])
    types = []
    for i in range(n):
        cpu, mem = rng.choice(SIZES)
        t = {"name": "t%d" % i, "cpu": cpu, "mem": mem, "pods": rng.choice([110, 110, 4, 3]),
             "labels": {"arch": rng.choice(["amd64", "amd64", "arm64"]), "os": "linux", "gen": str(rng.choice([1, 2, 3, 4]))},
             "ovCpu": rng.choice([0, 0, 100, 200]), "ovMem": rng.choice([0, 0, 256]), "offerings": []}
        base = rng.choice([40, 50, 60]) * cpu // 1000
        for z in ZONES:
            if rng.random() < 0.25:
                continue
            for ct in ("spot", "od"):
                if rng.random() < 0.2:
                    continue
                t["offerings"].append({"zone": z, "ct": ct, "price": base * (6 if ct == "spot" else 10) // 10 + rng.randrange(5),
                                       "available": rng.random() < 0.8, "rid": "", "rcap": 0, "cpuOv": 0, "memOv": 0})
        if not t["offerings"]:
            t["offerings"].append({"zone": "a", "ct": "od", "price": base, "available": True, "rid": "", "rcap": 0, "cpuOv": 0, "memOv": 0})
        if rng.random() < 0.3:
            add_overrides(rng, t)
        elif rng.random() < 0.15:
            # capacity-override offering: same type, different capacity in one zone
            o = copy.deepcopy(rng.choice(t["offerings"]))
            o["cpuOv"] = rng.choice([cpu // 2, cpu * 2])
            o["memOv"] = rng.choice([0, mem // 2])
            o["available"] = True
            o["zone"] = rng.choice(ZONES)
            o["ct"] = "od"
            t["offerings"] = [x for x in t["offerings"] if not (x["zone"] == o["zone"] and x["ct"] == o["ct"])] + [o]
        if profile == "reserved" and rng.random() < 0.6:
            z = rng.choice(ZONES)
            t["offerings"].append({"zone": z, "ct": "reserved", "price": 1, "available": rng.random() < 0.85,
                                   "rid": rng.choice(["r1", "r2"]), "rcap": rng.choice([0, 1, 1, 2]), "cpuOv": 0, "memOv": 0})
        types.append(t)
    return types


def gen_pools(rng, types, profile):
    pools = []
    for i in range(rng.choice([1, 1, 2, 2, 3])):
        p = {"name": "p%d" % i, "weight": rng.choice([0, 0, 1, 10]), "reqs": [], "labels": {}, "taints": [], "startup": [],
             "limits": {"cpu": 0, "mem": 0, "nodes": -1}, "types": []}
        if rng.random() < 0.4:
            p["reqs"].append({"key": "zone", "op": "In", "vals": rng.sample(ZONES, rng.choice([1, 2])), "n": 0, "min": 0})
        if rng.random() < 0.3:
            cts = ["spot"] if rng.random() < 0.5 else ["od"]
            if profile == "reserved":
                cts = rng.choice([["reserved", "od"], ["reserved", "spot", "od"], ["od"]])
            p["reqs"].append({"key": "ct", "op": rng.choice(["In", "In", "NotIn"]) if profile != "reserved" else "In", "vals": cts, "n": 0, "min": 0})
        if rng.random() < 0.25:
            names = [t["name"] for t in types]
            sub = rng.sample(names, max(1, len(names) - 1))
            p["reqs"].append({"key": "it", "op": "In", "vals": sub, "n": 0, "min": rng.choice([0, 0, 2])})
        if rng.random() < 0.15:
            p["reqs"].append({"key": "gen", "op": rng.choice(["Gt", "Lt"]), "vals": [], "n": rng.choice([1, 2, 3]), "min": 0})
        if rng.random() < 0.15:
            p["reqs"].append({"key": "arch", "op": "In", "vals": [rng.choice(["amd64", "arm64"])], "n": 0, "min": 0})
        r = rng.random()
        if r < 0.25:
            p["reqs"].append({"key": "team", "op": "In", "vals": ["x", "y"], "n": 0, "min": 0})
        elif r < 0.45:
            p["labels"]["team"] = rng.choice(["x", "y"])
        elif r < 0.5:
            p["reqs"].append({"key": "team", "op": "Exists", "vals": [], "n": 0, "min": 0})
        if rng.random() < 0.25:
            p["taints"].append(dict(TAINT, effect=rng.choice(["NoSchedule", "NoSchedule", "NoExecute"])))
        if rng.random() < 0.12:
            p["taints"].append(dict(PREFER))
        if rng.random() < 0.2:
            p["startup"].append(dict(STARTUP))
        if rng.random() < 0.2:
            p["limits"]["cpu"] = rng.choice([2000, 4000, 8000, 16000])
        if rng.random() < 0.1:
            p["limits"]["nodes"] = rng.choice([0, 1, 2])
        if rng.random() < 0.15 and len(types) > 1:
            p["types"] = rng.sample([t["name"] for t in types], len(types) - 1)
        pools.append(p)
    return pools


def pool_value(rng, pool, key):
    """a value the pool's template fixes or admits for a custom key ("" = undefined)"""
    if key in pool["labels"]:
        return pool["labels"][key]
    for r in pool["reqs"]:
        if r["key"] == key:
            if r["op"] == "In":
                return rng.choice(r["vals"])
            if r["op"] == "Exists":
                return rng.choice(["x", "y", "w"])
    return ""


def gen_nodes(rng, types, pools, dss, profile):
    nodes, pods = [], []
    for i in range(rng.choice([0, 0, 1, 1, 2, 3])):
        t = rng.choice(types)
        o = rng.choice(t["offerings"])
        pool = rng.choice(pools)
        stage = rng.choice(["initialized", "initialized", "initialized", "registered", "appeared", "claimonly", "unmanaged"])
        labels = {"zone": o["zone"], "ct": o["ct"], "it": t["name"]}
        labels.update(t["labels"])
        n = {"name": "n%d" % i, "stage": stage, "pool": pool["name"], "labels": labels, "taints": [], "startup": [], "ephemeral": False,
             "alloc": alloc_of(t, o), "cap": {"cpu": o["cpuOv"] or t["cpu"], "mem": o["memOv"] or t["mem"], "pods": t["pods"]},
             "marked": False, "deleting": False, "csi": []}
        if stage == "unmanaged":
            n["pool"] = ""
            if rng.random() < 0.3:
                labels["team"] = rng.choice(["x", "y"])
            if rng.random() < 0.3:
                n["taints"].append(dict(TAINT))
            # statically joined nodes may lack any well-known label (a missing label satisfies only NotIn / DoesNotExist)
            for k in ("zone", "ct", "it", "arch", "gen"):
                if rng.random() < 0.3:
                    del labels[k]
        else:
            labels["pool"] = pool["name"]
            tv = pool_value(rng, pool, "team")
            if tv:
                labels["team"] = tv
            n["taints"] = copy.deepcopy([x for x in pool["taints"]])
            if stage != "initialized":
                n["startup"] = copy.deepcopy(pool["startup"])
                n["ephemeral"] = rng.random() < 0.5
            if o["rid"]:
                labels["rid"] = o["rid"]
        if stage != "unmanaged":
            for k in ("arch", "gen"):      # provider-specific / optional labels can be missing on managed nodes too
                if rng.random() < 0.08:
                    del labels[k]
        r = rng.random()
        if r < 0.12:
            n["marked"] = True
        elif r < 0.2 and stage in ("initialized", "registered", "unmanaged"):
            n["deleting"] = True
        if rng.random() < 0.25 and stage != "claimonly":
            n["csi"].append({"driver": "csi.example", "count": rng.choice([1, 2])})
        # taints the Node object acquired after launch (not in the NodeClaim): an INITIALIZED / unmanaged node that went NotReady,
        # unreachable or was re-tainted by a readiness rule keeps filtering; on a registered, not yet initialized node they are
        # expected to clear
        if stage in ("initialized", "unmanaged", "registered") and rng.random() < 0.3:
            n["nodeTaints"] = [dict(t) for t in rng.sample(NODE_TAINTS, rng.choice([1, 1, 2]))]
        nodes.append(n)
        # bound pods
        if stage in ("initialized", "unmanaged", "registered"):
            for j in range(rng.choice([0, 1, 1, 2])):
                bp = plain_pod("b%d%d" % (i, j), rng.choice([100, 300, 500, 900]), rng.choice([64, 256, 1024]))
                bp["node"] = n["name"]
                bp["owner"] = "rs"
                bp["labels"] = {"app": rng.choice(["x", "y"])}
                if rng.random() < 0.2:
                    bp["ports"] = [{"port": 80, "ip": rng.choice(["", "", "10.0.0.1"]), "proto": "TCP"}]
                if profile == "interpod" and rng.random() < 0.3:
                    bp["anti"] = [{"key": rng.choice(["zone", "host"]), "sel": {"app": rng.choice(["x", "y"])}, "ns": [], "nsAll": False, "weight": 0}]
                bp["tol"] = [dict(TOL_ALL)]
                pods.append(bp)
            for d in dss:
                if rng.random() < 0.5 and daemon_fits(d, n):
                    dp = plain_pod("%s-%s" % (d["name"], n["name"]), d["cpu"], d["mem"])
                    dp.update({"ns": d["ns"], "node": n["name"], "owner": "ds:" + d["name"], "sel": dict(d["sel"]),
                               "terms": copy.deepcopy(d["terms"]), "tol": copy.deepcopy(d["tol"]), "ports": copy.deepcopy(d["ports"])})
                    pods.append(dp)
    return nodes, pods


def holds(e, labels):
    v = labels.get(e["key"])
    op = e["op"]
    if op == "In":
        return v is not None and v in e["vals"]
    if op == "NotIn":
        return v is None or v not in e["vals"]
    if op == "Exists":
        return v is not None
    if op == "DoesNotExist":
        return v is None
    try:
        x = int(v)
    except (TypeError, ValueError):
        return False
    return x > e["n"] if op == "Gt" else x < e["n"]


def tolerated(tols, taints):
    def tol_ok(t, x):
        return (t["effect"] in ("", x["effect"])) and ((t["key"] == "" and t["op"] == "Exists") or
                                                        (t["key"] == x["key"] and (t["op"] == "Exists" or t["value"] == x["value"])))
    return all(any(tol_ok(t, x) for t in tols) for x in taints if x["effect"] in ("NoSchedule", "NoExecute"))


def daemon_fits(d, n):
    """generator-side only (keeps bound daemon pods on nodes their daemonset really selects)"""
    lab = dict(n["labels"], host=n["name"])
    return (all(lab.get(k) == v for k, v in d["sel"].items()) and
            (not d["terms"] or any(all(holds(e, lab) for e in t) for t in d["terms"])) and tolerated(d["tol"], n["taints"]))


def gen_daemonsets(rng):
    out = []
    for i in range(rng.choice([0, 1, 1, 2])):
        d = {"name": "ds%d" % i, "ns": "kube-system", "cpu": rng.choice([100, 200, 300]), "mem": rng.choice([64, 128, 512]),
             "sel": {}, "terms": [], "tol": [dict(TOL_ALL)] if rng.random() < 0.7 else [], "ports": []}
        r = rng.random()
        if r < 0.15:
            d["sel"] = {"zone": rng.choice(ZONES)}
        elif r < 0.3:
            d["terms"] = [[expr("arch", "In", [rng.choice(["amd64", "arm64"])])]]
        elif r < 0.4:
            d["terms"] = [[expr("it", "NotIn", ["t0"])]]
        elif r < 0.5:
            d["terms"] = [[expr("gen", "Gt", n=rng.choice([1, 2, 3]))]]
        elif r < 0.56:
            d["sel"] = {"team": "x"}
        if rng.random() < 0.25:
            d["ports"] = [{"port": rng.choice([80, 9100]), "ip": "", "proto": "TCP"}]
        out.append(d)
    return out


def gen_storage(rng):
    scs = [{"name": "sc-ab", "provisioner": "csi.example", "mode": "WaitForFirstConsumer",
            "topologies": [[{"key": "zone", "vals": ["a"]}], [{"key": "zone", "vals": ["b"]}]]},
           {"name": "sc-any", "provisioner": "csi.example", "mode": "WaitForFirstConsumer", "topologies": []}]
    pvs = [{"name": "pv-b", "driver": "csi.example", "terms": [[expr("zone", "In", ["b"])]]},
           {"name": "pv-ac", "driver": "csi.example", "terms": [[expr("zone", "In", ["a"])], [expr("zone", "In", ["c"])]]}]
    pvcs = [{"name": "c-b", "ns": "default", "pv": "pv-b", "sc": "sc-any"}, {"name": "c-ac", "ns": "default", "pv": "pv-ac", "sc": "sc-any"},
            {"name": "c-ab", "ns": "default", "pv": "", "sc": "sc-ab"}, {"name": "c-any", "ns": "default", "pv": "", "sc": "sc-any"},
            {"name": "c-any2", "ns": "default", "pv": "", "sc": "sc-any"}]
    return scs, pvs, pvcs


def plain_pod(name, cpu, mem):
    return {"name": name, "ns": "default", "node": "", "owner": "", "cpu": cpu, "mem": mem, "created": 0, "labels": {}, "sel": {},
            "terms": [], "pref": [], "tol": [], "ports": [], "vols": [], "aff": [], "anti": [], "prefAff": [], "prefAnti": [], "spread": []}


def node_archetypes(rng, types):
    """node-level constraint archetypes (DESIGN Appendix D), each a function mutating a plain pod"""
    tn = [t["name"] for t in types]

    def sel_zone(p): p["sel"]["zone"] = rng.choice(ZONES)
    def two_terms(p): p["terms"] = [[expr("zone", "In", [rng.choice(ZONES)])], [expr("zone", "In", [rng.choice(ZONES)])]]
    def three_terms(p): p["terms"] = [[expr("zone", "In", ["c"]), expr("ct", "In", ["spot"])], [expr("arch", "In", ["arm64"])], [expr("zone", "In", ["a", "b"])]]
    def notin_spot(p): p["terms"] = [[expr("ct", "NotIn", ["spot"])]]
    def team_in(p): p["terms"] = [[expr("team", "In", [rng.choice(["x", "y"])])]]
    def team_sel(p): p["sel"]["team"] = rng.choice(["x", "y"])
    def team_notin(p): p["terms"] = [[expr("team", "NotIn", [rng.choice(["x", "y"])])]]
    def team_dne(p): p["terms"] = [[expr("team", "DoesNotExist")]]
    def team_exists(p): p["terms"] = [[expr("team", "Exists")]]
    def gen_gt(p): p["terms"] = [[expr("gen", "Gt", n=rng.choice([1, 2, 3]))]]
    def gen_lt(p): p["terms"] = [[expr("gen", "Lt", n=rng.choice([2, 3, 4]))]]
    def pref_zone_req_arch(p):
        p["pref"] = [{"weight": rng.choice([1, 50]), "exprs": [expr("zone", "In", [rng.choice(ZONES)])]}]
        p["terms"] = [[expr("arch", "In", [rng.choice(["amd64", "arm64"])])]]
    def pref_two(p):
        p["pref"] = [{"weight": 10, "exprs": [expr("zone", "In", ["c"])]}, {"weight": 20, "exprs": [expr("it", "In", [rng.choice(tn)])]}]
    def it_in(p): p["sel"]["it"] = rng.choice(tn)
    def tolerate(p): p["tol"] = [dict(TOL_TAINT, effect=rng.choice(["NoSchedule", "NoSchedule", ""]))]
    def tolerate_all(p): p["tol"] = [dict(TOL_ALL)]
    def port80(p): p["ports"] = [{"port": 80, "ip": "", "proto": "TCP"}]
    def port80ip(p): p["ports"] = [{"port": 80, "ip": rng.choice(["10.0.0.1", "10.0.0.2"]), "proto": "TCP"}]
    def port81(p): p["ports"] = [{"port": 81, "ip": "", "proto": rng.choice(["TCP", "UDP"])}]
    def port9100(p): p["ports"] = [{"port": 9100, "ip": "", "proto": "TCP"}]
    def vol_b(p): p["vols"] = ["c-b"]
    def vol_ab(p): p["vols"] = ["c-ab"]
    def vol_ac(p): p["vols"] = ["c-ac"]
    def vol_any(p): p["vols"] = [rng.choice(["c-any", "c-any2"])]
    def vol_two(p): p["vols"] = ["c-ab", "c-ac"]
    def host_sel(p): p["sel"]["host"] = "n0"
    def pool_sel(p): p["sel"]["pool"] = rng.choice(["p0", "p1"])
    def tol_node_taint(p):
        t = rng.choice(NODE_TAINTS)
        p["tol"] = p["tol"] + [{"key": t["key"], "op": "Exists", "value": "", "effect": rng.choice(["", t["effect"]])}]
    def tol_notready(p): p["tol"] = p["tol"] + [{"key": "node.kubernetes.io/not-ready", "op": "Exists", "value": "", "effect": ""}]
    def ct_sel(p): p["sel"]["ct"] = rng.choice(["od", "spot"])
    def zone_notin(p): p["terms"] = [[expr("zone", "NotIn", [rng.choice(ZONES)])]]
    def zone_dne(p): p["terms"] = [[expr("zone", "DoesNotExist")], [expr("zone", "In", [rng.choice(ZONES)])]]
    def arch_exists(p): p["terms"] = [[expr("arch", "Exists")]]
    def arch_sel(p): p["sel"]["arch"] = rng.choice(["amd64", "arm64"])
    def gen_sel(p): p["sel"]["gen"] = str(rng.choice([1, 2, 3, 4]))
    return [tol_node_taint, tol_notready, ct_sel, zone_notin, zone_dne, arch_exists, arch_sel, gen_sel, sel_zone, two_terms, three_terms, notin_spot, team_in, team_sel, team_notin, team_dne, team_exists, gen_gt, gen_lt,
            pref_zone_req_arch, pref_two, it_in, tolerate, tolerate_all, port80, port80ip, port81, port9100, vol_b, vol_ab, vol_ac,
            vol_any, vol_two, host_sel, pool_sel]


def interpod_archetypes(rng):
    def term(key, app, **kw):
        t = {"key": key, "sel": {"app": app}, "ns": [], "nsAll": False, "weight": 0}
        t.update(kw)
        return t

    def self_anti_host(p): p["labels"]["app"] = "x"; p["anti"] = [term("host", "x")]
    def self_anti_zone(p): p["labels"]["app"] = "y"; p["anti"] = [term("zone", "y")]
    def anti_x(p): p["anti"] = [term(rng.choice(["zone", "host"]), "x")]
    def aff_x(p): p["aff"] = [term(rng.choice(["zone", "host"]), "x")]
    def self_aff_zone(p): p["labels"]["app"] = "z"; p["aff"] = [term("zone", "z")]
    def pref_anti(p): p["prefAnti"] = [term("zone", "x", weight=10)]
    def pref_aff(p): p["prefAff"] = [term("host", "x", weight=10)]
    def spread(key, skew=1, when="DoNotSchedule", **kw):
        s = {"key": key, "maxSkew": skew, "minDomains": 0, "when": when, "sel": {"app": "s"}, "affPol": "", "taintPol": "", "matchKeys": []}
        s.update(kw)
        return s
    def spread_zone(p): p["labels"]["app"] = "s"; p["spread"] = [spread("zone")]
    def spread_zone_min(p): p["labels"]["app"] = "s"; p["spread"] = [spread("zone", minDomains=3)]
    def spread_host(p): p["labels"]["app"] = "s"; p["spread"] = [spread("host")]
    def spread_ignore(p): p["labels"]["app"] = "s"; p["spread"] = [spread("zone", affPol="Ignore")]; p["sel"]["zone"] = rng.choice(ZONES)
    def spread_honor(p): p["labels"]["app"] = "s"; p["spread"] = [spread("zone", taintPol="Honor")]
    def spread_anyway(p): p["labels"]["app"] = "s"; p["spread"] = [spread("zone", when="ScheduleAnyway")]
    def spread_ct(p): p["labels"]["app"] = "s"; p["spread"] = [spread("ct", skew=rng.choice([1, 2]))]
    def other_ns(p): p["ns"] = "other"; p["labels"]["app"] = "x"
    def anti_ns(p): p["anti"] = [term("zone", "x", ns=["other"])]
    def anti_allns(p): p["anti"] = [term("host", "x", nsAll=True)]
    return [self_anti_host, self_anti_zone, anti_x, aff_x, self_aff_zone, pref_anti, pref_aff, spread_zone, spread_zone_min, spread_host,
            spread_ignore, spread_honor, spread_anyway, spread_ct, other_ns, anti_ns, anti_allns]


def explore(rng, profile="basic", name="x"):
    if profile == "weights":      # C19 / C13(b-d): the sub-alphabet with an exact fresh-node oracle (checks/weights_common.py)
        from checks import weights_common
        return weights_common.explore(rng, name)
    if profile == "topo":
        return explore_topo(rng, name)      # C02: constraint-heavy batches over a friendly catalog (below)
    types = gen_catalog(rng, profile)
    pools = gen_pools(rng, types, profile)
    dss = gen_daemonsets(rng)
    nodes, bound = gen_nodes(rng, types, pools, dss, profile)
    scs, pvs, pvcs = gen_storage(rng)
    arch = node_archetypes(rng, types)
    inter = interpod_archetypes(rng) if profile == "interpod" else []
    pods = []
    for i in range(rng.choice([1, 2, 3, 3, 4, 5, 6, 8, 12])):
        p = plain_pod("w%d" % i, rng.choice(CPUS), rng.choice([64, 256, 1024, 3000]))
        p["created"] = rng.randrange(3)
        for _ in range(rng.choice([0, 1, 1, 1, 2, 3])):
            rng.choice(arch)(p)
        if inter and rng.random() < 0.6:
            rng.choice(inter)(p)
        if p["ns"] != "default":
            p["vols"] = []
        pods.append(p)
    opts = {"preference": rng.choice(["Respect", "Ignore"]), "minValues": rng.choice(["Strict", "BestEffort"]),
            "reserved": rng.choice(["strict", "strict", "fallback"]) if profile == "reserved" else "strict",
            "workers": rng.choice([1, 2, 8]), "maxTypes": 0, "create": False}
    return {"name": name, "options": opts, "types": types, "pools": pools, "nodes": nodes, "ds": dss, "scs": scs, "pvs": pvs,
            "pvcs": pvcs, "pods": bound + pods}


# ---------------------------------------------------------------------------------------------------------------------
# profile "topo" (C02, spec/Topology.tla): inter-pod constraint heavy batches.  The catalog and pools are friendly (every
# zone on offer, big nodes, few node-level constraints) so that most pods ARE placed and the C02 guards get evaluated;
# what varies is the constraint mix, the pre-bound pod distribution, the node/domain layout and the dequeue order
# (induced through request sizes and creation timestamps - the queue sorts by cpu, memory, creation time).
APPS = ["x", "s", "z", "f", "h"]


def topo_term(key, app, **kw):
    t = {"key": key, "sel": {"app": app}, "ns": [], "nsAll": False, "nsSel": {}, "weight": 0}
    t.update(kw)
    return t


def topo_spread(key, app="s", skew=1, when="DoNotSchedule", **kw):
    s = {"key": key, "maxSkew": skew, "minDomains": 0, "when": when, "sel": {"app": app}, "affPol": "", "taintPol": "", "matchKeys": []}
    s.update(kw)
    return s


def topo_archetypes(rng, zones):
    """each archetype mutates a plain pod; (name, fn)"""
    z = lambda: rng.choice(zones)
    def plain_x(p): p["labels"]["app"] = "x"
    def plain_s(p): p["labels"]["app"] = "s"                                  # matches the spread selector, carries nothing
    def plain_s_zone(p): p["labels"]["app"] = "s"; p["sel"]["zone"] = z()
    def self_anti_host(p): p["labels"]["app"] = "h"; p["anti"] = [topo_term("host", "h")]
    def self_anti_zone(p): p["labels"]["app"] = "z"; p["anti"] = [topo_term("zone", "z")]
    def anti_x(p): p["anti"] = [topo_term(rng.choice(["zone", "zone", "host"]), "x")]
    def anti_x_labelled(p): p["labels"]["app"] = "y"; p["anti"] = [topo_term("zone", "x")]
    def aff_x(p): p["aff"] = [topo_term(rng.choice(["zone", "zone", "host"]), "x")]
    def self_aff_zone(p): p["labels"]["app"] = "f"; p["aff"] = [topo_term("zone", "f")]
    def self_aff_host(p): p["labels"]["app"] = "f"; p["aff"] = [topo_term("host", "f")]
    def self_aff_zone_sel(p): p["labels"]["app"] = "f"; p["aff"] = [topo_term("zone", "f")]; p["sel"]["zone"] = z()
    def aff_and_anti(p): p["labels"]["app"] = "h"; p["aff"] = [topo_term("zone", "x")]; p["anti"] = [topo_term("host", "h")]
    def pref_anti(p): p["labels"]["app"] = "x"; p["prefAnti"] = [topo_term("zone", "x", weight=10)]
    def pref_aff(p): p["prefAff"] = [topo_term(rng.choice(["zone", "host"]), "x", weight=10)]
    def spread_zone(p): p["labels"]["app"] = "s"; p["spread"] = [topo_spread("zone")]
    def spread_zone2(p): p["labels"]["app"] = "s"; p["spread"] = [topo_spread("zone", skew=2)]
    def spread_zone_min(p): p["labels"]["app"] = "s"; p["spread"] = [topo_spread("zone", minDomains=rng.choice([2, 3, 3, 4]))]
    def spread_zone_min_limited(p):      # fewer ELIGIBLE domains than minDomains although more are registered
        p["labels"]["app"] = "s"; p["spread"] = [topo_spread("zone", minDomains=len(zones))]
        p["terms"] = [[expr("zone", "In", rng.sample(zones, max(1, len(zones) - 1)))]]
    def spread_host(p): p["labels"]["app"] = "s"; p["spread"] = [topo_spread("host", skew=rng.choice([1, 1, 2]))]
    def spread_zone_host(p): p["labels"]["app"] = "s"; p["spread"] = [topo_spread("zone"), topo_spread("host")]
    def spread_limited(p): p["labels"]["app"] = "s"; p["spread"] = [topo_spread("zone")]; p["sel"]["zone"] = z()
    def spread_limited_terms(p):
        p["labels"]["app"] = "s"; p["spread"] = [topo_spread("zone")]
        p["terms"] = [[expr("zone", "In", rng.sample(zones, min(2, len(zones))))]]
    def spread_two_terms(p):
        p["labels"]["app"] = "s"; p["spread"] = [topo_spread("zone")]
        p["terms"] = [[expr("zone", "In", [z()])], [expr("zone", "In", [z()])]]
    # spread pods with several DIFFERENT required node-affinity terms (OR): a first term of two zones + another zone (disjoint), overlapping
    # terms, one unsatisfiable term (first or last), under both nodeAffinityPolicy values
    def _or_terms(p, terms): p["labels"]["app"] = "s"; p["spread"] = [topo_spread("zone", affPol=rng.choice(["", "", "Ignore"]))]; p["terms"] = terms
    def spread_or_disjoint(p):
        zs = rng.sample(zones, len(zones)) if len(zones) >= 2 else zones * 2
        _or_terms(p, [[expr("zone", "In", zs[:2] if len(zones) > 2 else zs[:1])], [expr("zone", "In", zs[-1:])]])
    def spread_or_overlap(p):
        zs = rng.sample(zones, len(zones)) if len(zones) >= 2 else zones * 2
        _or_terms(p, [[expr("zone", "In", zs[:2])], [expr("zone", "In", zs[1:])]])
    def spread_or_unsat(p):
        t = [[expr("zone", "In", ["nozone"])], [expr("zone", "In", list(zones))]]
        _or_terms(p, t if rng.random() < 0.5 else t[::-1])
    def spread_or_three(p): _or_terms(p, [[expr("zone", "In", [zn])] for zn in rng.sample(zones, len(zones))] + [[expr("zone", "In", ["nozone"])]])
    def spread_ignore(p): p["labels"]["app"] = "s"; p["spread"] = [topo_spread("zone", affPol="Ignore")]; p["sel"]["zone"] = z()
    def spread_honor_taints(p): p["labels"]["app"] = "s"; p["spread"] = [topo_spread("zone", taintPol="Honor")]
    def spread_honor_tol(p): p["labels"]["app"] = "s"; p["spread"] = [topo_spread("zone", taintPol="Honor")]; p["tol"] = [dict(TOL_TAINT)]
    def spread_matchkeys(p):
        p["labels"]["app"] = "s"; p["labels"]["rev"] = rng.choice(["1", "2", "2"])
        p["spread"] = [topo_spread("zone", matchKeys=["rev"])]
    def spread_anyway(p): p["labels"]["app"] = "s"; p["spread"] = [topo_spread("zone", when="ScheduleAnyway")]
    def spread_ct(p): p["labels"]["app"] = "s"; p["spread"] = [topo_spread("ct", skew=rng.choice([1, 2]))]
    def spread_other_sel(p): p["labels"]["app"] = "x"; p["spread"] = [topo_spread("zone", app="x")]
    def spread_not_self(p): p["labels"]["app"] = "y"; p["spread"] = [topo_spread("zone", app="s")]   # does not match its own selector
    def spread_pref_zone(p):
        p["labels"]["app"] = "s"; p["spread"] = [topo_spread("zone")]
        p["pref"] = [{"weight": 10, "exprs": [expr("zone", "In", [z()])]}]
    def other_ns_x(p): p["ns"] = "other"; p["labels"]["app"] = "x"
    def other_ns_spread(p): p["ns"] = "other"; p["labels"]["app"] = "s"; p["spread"] = [topo_spread("zone")]
    def anti_ns(p): p["anti"] = [topo_term("zone", "x", ns=["other"])]
    def anti_allns(p): p["anti"] = [topo_term(rng.choice(["zone", "host"]), "x", nsAll=True)]
    def anti_nssel(p): p["anti"] = [topo_term("zone", "x", nsSel={"tier": "prod"})]
    def anti_ns_and_sel(p): p["anti"] = [topo_term("zone", "x", ns=["other"], nsSel={"tier": "dev"})]
    def aff_ns(p): p["aff"] = [topo_term("zone", "x", ns=["other", "default"])]
    def aff_nssel(p): p["aff"] = [topo_term("zone", "x", nsSel={"tier": "prod"})]
    def daemon_shaped(p): p["owner"] = "ds:dsx"; p["labels"]["app"] = "x"
    # ONE term (same key, selector, namespace = one topology group) carried by pods with DIFFERENT labels: the carrier is matched by it
    # (db_*), is not (guard_*), or a matcher carries nothing (plain_d)
    def guard_host(p): p["labels"]["app"] = "g"; p["anti"] = [topo_term("host", "d")]
    def db_host(p): p["labels"]["app"] = "d"; p["anti"] = [topo_term("host", "d")]
    def guard_zone(p): p["labels"]["app"] = "g"; p["anti"] = [topo_term("zone", "d")]
    def db_zone(p): p["labels"]["app"] = "d"; p["anti"] = [topo_term("zone", "d")]
    def plain_d(p): p["labels"]["app"] = "d"
    def aff_g_d(p): p["labels"]["app"] = "g"; p["aff"] = [topo_term(rng.choice(["zone", "host"]), "d")]
    def aff_d_d(p): p["labels"]["app"] = "d"; p["aff"] = [topo_term("zone", "d")]
    # (the OR-term spread archetypes are not mixed into arbitrary batches: explore_topo submits them as a deployment - replicas with
    #  identical terms - see topo_or_terms)
    topo_archetypes.or_terms = [spread_or_disjoint, spread_or_disjoint, spread_or_overlap, spread_or_unsat, spread_or_three]
    fns = [spread_zone_min_limited, guard_host, db_host, guard_zone, db_zone, plain_d, aff_g_d, aff_d_d,
           plain_x, plain_s, plain_s_zone, self_anti_host, self_anti_zone, anti_x, anti_x_labelled, aff_x, self_aff_zone, self_aff_host,
           self_aff_zone_sel, aff_and_anti, pref_anti, pref_aff, spread_zone, spread_zone2, spread_zone_min, spread_host, spread_zone_host,
           spread_limited, spread_limited_terms, spread_two_terms, spread_ignore, spread_honor_taints, spread_honor_tol, spread_matchkeys,
           spread_anyway, spread_ct, spread_other_sel, spread_not_self, spread_pref_zone, other_ns_x, other_ns_spread, anti_ns, anti_allns,
           anti_nssel, anti_ns_and_sel, aff_ns, aff_nssel, daemon_shaped]
    return fns


def topo_catalog(rng, zones):
    types = []
    for i in range(rng.choice([1, 2, 2, 3])):
        cpu, mem = rng.choice([(2000, 4096), (4000, 8192), (4000, 8192), (8000, 16384)])
        t = {"name": "t%d" % i, "cpu": cpu, "mem": mem, "pods": rng.choice([110, 110, 110, 3, 2]),
             "labels": {"arch": "amd64", "os": "linux", "gen": str(rng.choice([1, 2, 3]))}, "ovCpu": rng.choice([0, 100]), "ovMem": 0, "offerings": []}
        for zn in zones:
            if len(zones) > 2 and rng.random() < 0.1:
                continue
            for ct in ("spot", "od"):
                if rng.random() < 0.15:
                    continue
                t["offerings"].append({"zone": zn, "ct": ct, "price": (60 if ct == "spot" else 100) * cpu // 1000 + rng.randrange(5),
                                       "available": rng.random() < 0.93, "rid": "", "rcap": 0, "cpuOv": 0, "memOv": 0})
        if not t["offerings"]:
            t["offerings"].append({"zone": zones[0], "ct": "od", "price": 100, "available": True, "rid": "", "rcap": 0, "cpuOv": 0, "memOv": 0})
        types.append(t)
    return types


def topo_pools(rng, zones):
    pools = []
    for i in range(rng.choice([1, 1, 1, 2, 2])):
        p = {"name": "p%d" % i, "weight": rng.choice([0, 0, 10]), "reqs": [], "labels": {}, "taints": [], "startup": [],
             "limits": {"cpu": 0, "mem": 0, "nodes": -1}, "types": []}
        r = rng.random()
        if r < 0.25 and len(zones) > 1:
            p["reqs"].append({"key": "zone", "op": "In", "vals": rng.sample(zones, len(zones) - 1), "n": 0, "min": 0})
        elif r < 0.32:
            p["reqs"].append({"key": "zone", "op": "NotIn", "vals": [rng.choice(zones)], "n": 0, "min": 0})
        if rng.random() < 0.15:
            p["reqs"].append({"key": "ct", "op": "In", "vals": [rng.choice(["spot", "od"])], "n": 0, "min": 0})
        if rng.random() < 0.2:
            p["labels"]["team"] = rng.choice(["x", "y"])
        if i > 0 and rng.random() < 0.5:
            p["taints"].append(dict(TAINT))
        if rng.random() < 0.15:
            p["taints"].append(dict(PREFER))
        if rng.random() < 0.1:
            p["limits"]["nodes"] = rng.choice([1, 2, 3])
        pools.append(p)
    return pools


def topo_bound_pod(rng, name, node, zones):
    bp = plain_pod(name, rng.choice([100, 200, 300]), 64)
    bp.update({"node": node, "owner": "rs", "tol": [dict(TOL_ALL)]})
    r = rng.random()
    if r < 0.3:
        bp["labels"] = {"app": "x"}
    elif r < 0.6:
        bp["labels"] = {"app": "s"}
        if rng.random() < 0.6:
            bp["spread"] = [topo_spread("zone")]
        if rng.random() < 0.3:
            bp["labels"]["rev"] = rng.choice(["1", "2"])
    elif r < 0.7:
        bp["labels"] = {"app": rng.choice(["z", "h"])}
        bp["anti"] = [topo_term("zone" if bp["labels"]["app"] == "z" else "host", bp["labels"]["app"])]
    elif r < 0.85:                                   # running pod whose anti-affinity binds newcomers (inverse direction)
        bp["labels"] = {"app": rng.choice(["q", "x"])}
        bp["anti"] = [topo_term(rng.choice(["zone", "zone", "host"]), rng.choice(["x", "s", "f"]),
                                **rng.choice([{}, {}, {"nsAll": True}, {"ns": ["other"]}]))]
    elif r < 0.92:
        bp["labels"] = {"app": "f"}
    else:                                            # running carrier of a term shared with batch members of another label (guard / db)
        bp["labels"] = {"app": rng.choice(["g", "g", "d"])}
        bp["anti"] = [topo_term(rng.choice(["host", "zone"]), "d")]
    if rng.random() < 0.12:
        bp["ns"] = "other"
    r = rng.random()
    if r < 0.1:
        bp["terminating"] = True
    elif r < 0.15:
        bp["phase"] = rng.choice(["Succeeded", "Failed"])
    return bp


def topo_nodes(rng, types, pools, zones):
    nodes, pods = [], []
    for i in range(rng.choice([0, 1, 1, 2, 2, 3, 4])):
        t = rng.choice(types)
        o = rng.choice(t["offerings"])
        pool = rng.choice(pools)
        stage = rng.choice(["initialized"] * 6 + ["registered", "claimonly", "unmanaged", "unmanaged"])
        labels = {"zone": o["zone"], "ct": o["ct"], "it": t["name"]}
        labels.update(t["labels"])
        n = {"name": "n%d" % i, "stage": stage, "pool": pool["name"], "labels": labels, "taints": [], "startup": [], "ephemeral": False,
             "alloc": {"cpu": t["cpu"] - t["ovCpu"], "mem": t["mem"], "pods": rng.choice([110, 110, 4])}, "cap": {"cpu": t["cpu"], "mem": t["mem"], "pods": 110},
             "marked": False, "deleting": False, "csi": []}
        if stage == "unmanaged":
            n["pool"] = ""
            if rng.random() < 0.3:
                n["taints"].append(dict(TAINT))
            if rng.random() < 0.2:
                del labels["ct"]
            if rng.random() < 0.15:
                labels["zone"] = "u"                    # a zone no pool can provision
        else:
            labels["pool"] = pool["name"]
            labels.update(pool["labels"])
            n["taints"] = copy.deepcopy(pool["taints"])
            if stage == "registered" and rng.random() < 0.5:
                n["ephemeral"] = True
        r = rng.random()
        if r < 0.12:
            n["marked"] = True
        elif r < 0.2 and stage in ("initialized", "unmanaged"):
            n["deleting"] = True
        nodes.append(n)
        if stage != "claimonly":
            for j in range(rng.choice([0, 1, 1, 2, 3])):
                pods.append(topo_bound_pod(rng, "b%d%d" % (i, j), n["name"], zones))
    if nodes and rng.random() < 0.08:
        pods.append(dict(topo_bound_pod(rng, "bgone", "vanished", zones)))     # leaked pod: its node no longer exists
    return nodes, pods


def explore_topo(rng, name="x"):
    zones = rng.choice([["a", "b"], ["a", "b"], ["a", "b", "c"], ["a", "b", "c"], ["a"]])
    types = topo_catalog(rng, zones)
    pools = topo_pools(rng, zones)
    nodes, bound = topo_nodes(rng, types, pools, zones)
    arch = topo_archetypes(rng, zones)
    # a batch = 1-3 "deployments" (replicas of one archetype) + a few singletons
    pods = []
    focus = rng.sample(arch, rng.choice([1, 2, 2, 3]))
    n = rng.choice([2, 3, 3, 4, 4, 5, 6, 8])
    big = max(t["cpu"] for t in types)
    deployment = None
    if rng.random() < 0.15:
        # a deployment of spread pods with several DIFFERENT required node-affinity terms (OR): every replica carries the same terms; the
        # other pods of the batch carry no spread constraint of their own (nothing else whose node filter could be confused with theirs)
        deployment = plain_pod("proto", 0, 0)
        rng.choice(topo_archetypes.or_terms)(deployment)
        focus = [f for f in arch if f.__name__ in ("plain_x", "plain_s", "self_anti_host", "anti_x", "aff_x", "self_aff_zone", "plain_d", "guard_host", "db_host")][:]
        n = max(n, 4)
    for i in range(n):
        p = plain_pod("w%d" % i, rng.choice([100, 200, 300, 400, 500, 700, 900, 1100, big // 2 + 100]), rng.choice([64, 128, 256]))
        p["created"] = rng.randrange(3)
        if deployment is not None and (i < 3 or rng.random() < 0.6):
            p["labels"], p["spread"], p["terms"] = copy.deepcopy(deployment["labels"]), copy.deepcopy(deployment["spread"]), copy.deepcopy(deployment["terms"])
            pods.append(p)
            continue
        (rng.choice(focus) if rng.random() < 0.75 or deployment is not None else rng.choice(arch))(p)
        r = rng.random()
        if r < 0.08 and not p["sel"]:
            p["sel"]["zone"] = rng.choice(zones)
        elif r < 0.14 and not p["terms"]:
            p["terms"] = [[expr("zone", "In", [rng.choice(zones)])], [expr("zone", "In", [rng.choice(zones)])]]
        elif r < 0.2 and not p["pref"]:
            p["pref"] = [{"weight": 10, "exprs": [expr("zone", "In", [rng.choice(zones)])]}]
        elif r < 0.26 and not p["tol"]:
            p["tol"] = [dict(TOL_TAINT)]
        pods.append(p)
    dss = []
    if any(p["owner"] == "ds:dsx" for p in pods):
        dss.append({"name": "dsx", "ns": "default", "cpu": 100, "mem": 64, "sel": {}, "terms": [], "tol": [dict(TOL_ALL)], "ports": []})
    nss = [{"name": "default", "labels": {"tier": rng.choice(["prod", "dev"])}}, {"name": "other", "labels": {"tier": rng.choice(["prod", "prod", "dev"])}}]
    opts = {"preference": rng.choice(["Respect", "Respect", "Ignore"]), "minValues": "Strict", "reserved": "strict",
            "workers": rng.choice([1, 2, 8]), "maxTypes": 0, "create": False}
    return {"name": name, "options": opts, "types": types, "pools": pools, "nodes": nodes, "ds": dss, "scs": [], "pvs": [], "pvcs": [],
            "pods": bound + pods, "nss": nss}


OPTION_GRID = [{"preference": pr, "minValues": mv, "workers": w} for pr in ("Respect", "Ignore") for mv in ("Strict", "BestEffort")
               for w in (1, 2, 8)]


def with_options(sc, o, suffix):
    s = copy.deepcopy(sc)
    s["options"] = dict(s.get("options") or {}, **o)
    s["name"] = "%s/%s" % (sc["name"], suffix)
    return s


def write_scenarios(path, scenarios):
    with open(path, "w") as f:
        for s in scenarios:
            f.write(json.dumps(s, separators=(",", ":")) + "\n")


if __name__ == "__main__":
    import sys
    r = random.Random(int(sys.argv[1]) if len(sys.argv) > 1 else 0)
    n = int(sys.argv[2]) if len(sys.argv) > 2 else 10
    prof = sys.argv[3] if len(sys.argv) > 3 else "basic"
    for i in range(n):
        print(json.dumps(explore(r, prof, "x%d" % i), separators=(",", ":")))
