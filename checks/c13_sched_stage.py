"""C13 stage (b)-(d): the NodeClaim object stored by CreateNodeClaims carries the scheduler's decision.

`stage(run)` is called by checks/C13.py after its own stages (a),(e).  Scenarios of the `weights` alphabet
(checks/weights_common.py: weighted pools, limits, minValues with both policies, a reduced scheduling.MaxInstanceTypes, daemonsets
selected per instance type, startup taints, stale hash annotations, several pods per NodeClaim; minValues floors on arch / gen / zone
with more compatible types than the cap and provider orders unrelated to the price order: cells `cell/truncate-floor/*`) - TLC-enumerated from Weights.tla,
hand-made cells and seeded explorer scenarios - run through the real Provisioner.Schedule + CreateNodeClaims; the stored NodeClaim
(Created event, read back through the API) is judged next to the in-memory Results and the scheduler's option list (hook H1
`final`) by Weights_Trace.tla:

  G_C13_TypesSubsetMinValues  (b) instance-type list: non-empty, a subset of the scheduler's options, every minValues floor kept (strict)
  G_C13_Requests              (c) requests between pods + the daemonsets that certainly run (min over options) and pods + every
                                  tolerating daemonset counted once
  G_C13_Template              (d) labels (template labels, nodepool, nodeclass), taints, startup taints, hash of the pool as stored
                                  NOW + hash version, no simulation-only key among labels / requirements (incl. the placeholder
                                  hostname requirement FinalizeScheduling removes); judged on EVERY created NodeClaim, also on those the
                                  real static provisioning controller builds for a static pool (StaticCreated), where in addition the
                                  NodePool object handed to the reconciler and the stored one must be unchanged (StaticPool)

Scenario extensions for the seeded regressions of round 2: same-named daemonsets in different namespaces that split the catalog into
overhead groups (arch / gen / it / zone), static pools (replicas 2-3) with template labels, and `options.deadlineAfter = k` (the context
handed to Provisioner.Schedule expires, synchronously, right after the k-th placement; the NodeClaims of the interrupted pass are still
created, as the provisioner does).

The closed model behind these guards is Weights.tla (invariants Inv_C13_*; spec mutations truncMin, truncMinOrder, ovhPerPod, ovhNone, ovhByName, staleHash, hashSecond, noFinalize,
simKeys, noStartup rejected in checks/C19.py's model stage and again here)."""
import os
import random
import re

from checks import sched_common as sc
from checks import weights_common as wc
import vlib

SCOPE = {"quick": dict(replay=200, explore=500), "thorough": dict(replay=4000, explore=8000)}
C13_WEAK = ("truncMin", "truncMinOrder", "ovhPerPod", "ovhNone", "ovhByName", "staleHash", "hashSecond", "simKeys", "noStartup", "noFinalize")


def stage(run):
    tier = SCOPE[run.tier]
    rng = random.Random(run.seed + 13)
    dev = os.environ.get("VERIF_DEV")
    procs, par = (4, 4) if dev else (min(12, vlib.NCPU), None)
    import concurrent.futures as cf
    skip = bool(os.environ.get("VERIF_SKIP_MODEL"))         # developer aid for mutation runs
    # the closed model of the (b)-(d) guards, its spec mutations (small scope; checks/C19.py runs the full ones), the scenario
    # generation and the harness build run concurrently (Run.tlc is thread-safe)
    with cf.ThreadPoolExecutor(max_workers=4) as ex:
        f_build = ex.submit(run.build_drv)
        f_gen = ex.submit(run.tlc, "Weights", "Weights_GenC13.cfg", workers=2, timeout=3600, heap="4g", collect_beh=True)
        f_mc = None if skip else ex.submit(run.tlc, "Weights", "Weights_MC_C13.cfg", workers=4, timeout=1800)
        f_weak = None if skip else ex.submit(run.tlc, "Weights", "Weights_WeakC13.cfg", workers=2, timeout=3600, heap="4g")
        gen = f_gen.result()
        if gen.violated or gen.error or not gen.printed:
            raise vlib.InfraError("scenario generation Weights_GenC13.cfg failed: %s" % (gen.violated or gen.error or "no scenarios"))
        enum = [wc.fix_maps(s) for s in gen.printed]
        enum = rng.sample(enum, min(tier["replay"], len(enum)))
        scenarios = [sc.with_options(s, wc.OPTION_GRID[i % len(wc.OPTION_GRID)], "o%d" % (i % len(wc.OPTION_GRID))) for i, s in enumerate(enum)]
        scenarios += wc.cells()
        scenarios += [sc.explore(rng, "weights", "x-c13bd-%d-%d" % (run.seed, i)) for i in range(tier["explore"])]
        f_build.result()
        viol, cases, sums = wc.replay_and_validate(run, scenarios, "c13bd", procs, par)
        if not skip:
            r = f_mc.result()
            run.states += r.distinct
            run.transitions += r.generated
            run.models.append({"module": "Weights", "cfg": "Weights_MC_C13.cfg", "distinct": r.distinct, "generated": r.generated, "depth": r.depth,
                               "wall_s": round(r.wall, 1), "violated": r.violated})
            if not r.ok:
                raise vlib.InfraError("closed model Weights/Weights_MC_C13.cfg does not satisfy its invariants (%s)" % (r.violated or r.error))
            wr = f_weak.result()
            seen = {rule for rule, guard in re.findall(r'<<"REJ", "(\w+)", "(\w+)">>', wr.stdout) if guard.startswith("G_C13_")}
            missing = [x for x in C13_WEAK if x not in seen]
            if missing or not wr.ok:
                raise vlib.InfraError("C13 (b)-(d) spec mutations not rejected by TLC: %s" % (missing or wr.error))
            run.notes.append("C13 (b)-(d) spec mutations rejected: " + ", ".join(C13_WEAK))
    wc.split_fidelity(run, viol)
    created = sum(c["created"] for c in cases)
    if created == 0:
        raise vlib.InfraError("vacuous C13 (b)-(d) stage: no NodeClaim was created in %d traces" % len(cases))
    for c in cases:
        run.note_case("sched:" + c["name"], c["created"] > 0)
    run.extra_cov.update({"sched_stage_traces": len(cases), "sched_stage_created_nodeclaims_judged": created,
                          "sched_stage_option_lists_really_truncated": sum(c["truncated"] for c in cases),
                          "sched_stage_panics": sum(1 for s in sums if s.get("panic"))})
    run.assumptions += [
        "(b)-(d): the scheduler's options of a NodeClaim are its instance types after FinalizeScheduling (hook H1 `final`); the expected "
        "NodePool hash is Hash() of the pool stored in the API when the NodeClaim was created (computed by the driver); requests may lie "
        "between pods + certainly running daemonsets (minimum over the options) and pods + every tolerating daemonset counted once",
    ]
    return viol


def replay_stage(run, scn):
    """re-run one scenario (Cfg of a replay file) through this stage's pipeline"""
    viol, cases, sums = wc.replay_and_validate(run, [scn], "replay", 1, 1)
    wc.split_fidelity(run, viol)
    run.samples = [{"scenario": scn.get("name"), "summary": sums[0]}]
