---------------------------- MODULE DriftGuards ----------------------------
(***************************************************************************)
(* Guards of C15 (drift) over the *logged* record shapes of the drift      *)
(* driver (harness/drivers/drift).  No variables: EXTENDed by the closed   *)
(* model Drift.tla and by the trace specification Drift_Trace.tla.         *)
(*                                                                         *)
(* The oracle for "labels satisfy the NodePool's requirements" is written  *)
(* from Kubernetes node-selector semantics (one NodeSelectorRequirement    *)
(* at a time, conjunction over the list) - not from Karpenter's            *)
(* Requirements algebra:                                                   *)
(*   In            label present and its value listed                      *)
(*   NotIn         label absent, or its value not listed                   *)
(*   Exists        label present         DoesNotExist   label absent       *)
(*   Gt / Lt       label present, a base-10 integer, and > / < the operand *)
(*   Gte / Lte     Karpenter's extension of the above (>= / <=)            *)
(* minValues is a scheduling-flexibility hint and says nothing about one   *)
(* node's labels.                                                          *)
(*                                                                         *)
(* Shapes:  requirement r = [key, op, vals: Seq(STRING), n: Int]  (n = the *)
(* integer operand of Gt/Lt/Gte/Lte, -1 otherwise);  L = label map         *)
(* (function key -> value);  IL = function key -> Int, the value as an     *)
(* integer, -1 if it is not one.  Annotation values are logged as "-"      *)
(* (absent) or "=" \o value (present).                                     *)
(***************************************************************************)
EXTENDS Naturals, Integers, Sequences, FiniteSets, TLC

\* Deprecated spellings of well-known node labels denote the same label as their stable successor (Kubernetes' label
\* deprecation table; the kubelet / cloud provider publish both with equal values).  Requirement keys are read modulo it.
Alias == [k \in {"beta.kubernetes.io/arch", "beta.kubernetes.io/os", "beta.kubernetes.io/instance-type",
                 "failure-domain.beta.kubernetes.io/zone", "failure-domain.beta.kubernetes.io/region"} |->
            CASE k = "beta.kubernetes.io/arch" -> "kubernetes.io/arch"
              [] k = "beta.kubernetes.io/os" -> "kubernetes.io/os"
              [] k = "beta.kubernetes.io/instance-type" -> "node.kubernetes.io/instance-type"
              [] k = "failure-domain.beta.kubernetes.io/zone" -> "topology.kubernetes.io/zone"
              [] k = "failure-domain.beta.kubernetes.io/region" -> "topology.kubernetes.io/region"]
Norm(k) == IF k \in DOMAIN Alias THEN Alias[k] ELSE k
Has(L, k) == k \in DOMAIN L
InVals(r, v) == \E i \in DOMAIN r.vals : r.vals[i] = v
IntOf(IL, k) == IF k \in DOMAIN IL THEN IL[k] ELSE -1
IsInt(IL, k) == IntOf(IL, k) >= 0 /\ TRUE

Admits(r, L, IL) ==
    LET k == Norm(r.key) IN
    CASE r.op = "In"           -> Has(L, k) /\ InVals(r, L[k])
      [] r.op = "NotIn"        -> ~Has(L, k) \/ ~InVals(r, L[k])
      [] r.op = "Exists"       -> Has(L, k)
      [] r.op = "DoesNotExist" -> ~Has(L, k)
      [] r.op = "Gt"           -> Has(L, k) /\ IsInt(IL, k) /\ r.n >= 0 /\ IntOf(IL, k) > r.n
      [] r.op = "Lt"           -> Has(L, k) /\ IsInt(IL, k) /\ r.n >= 0 /\ IntOf(IL, k) < r.n
      [] r.op = "Gte"          -> Has(L, k) /\ IsInt(IL, k) /\ r.n >= 0 /\ IntOf(IL, k) >= r.n
      [] r.op = "Lte"          -> Has(L, k) /\ IsInt(IL, k) /\ r.n >= 0 /\ IntOf(IL, k) <= r.n
      [] OTHER                 -> FALSE

\* requirements as a sequence (trace) / as a set (closed model)
Sat(L, IL, reqs) == \A i \in DOMAIN reqs : Admits(reqs[i], L, IL)
SatSet(L, IL, R) == \A r \in R : Admits(r, L, IL)
Violated(L, IL, reqs) == {i \in DOMAIN reqs : ~Admits(reqs[i], L, IL)}
FirstViolated(L, IL, reqs) == CHOOSE i \in Violated(L, IL, reqs) : \A j \in Violated(L, IL, reqs) : i <= j

\* ---------------------------------------------------------------- the drift decision
\* p = NodePool projection [exists, hashAnn, verAnn, specHash, reqs], c = NodeClaim projection
\* [exists, deleting, launched, pool, hashAnn, verAnn, labels, ilabels, provDrift, drifted, ...]
Present(a) == a # "-"
StaticDrift(p, c) ==
    /\ Present(p.hashAnn) /\ Present(p.verAnn) /\ Present(c.hashAnn) /\ Present(c.verAnn)
    /\ p.verAnn = c.verAnn          \* judged iff the two ANNOTATION versions are equal, whatever they are (current or
                                    \* older); hashes of different hash versions are never compared
    /\ p.hashAnn # c.hashAnn
ReqDrift(p, c) == ~Sat(c.labels, c.ilabels, p.reqs)

\* the NodeClaim's instance type left the catalog, or no offering of it matches the claim's zone / capacity type
\* (a reserved claim may have been demoted to on-demand)
OfferingMatches(o, L, k) ==
    /\ (Has(L, k.zoneKey) => o.zone = L[k.zoneKey])
    /\ (Has(L, k.ctKey) => (o.ct = L[k.ctKey] \/ (L[k.ctKey] = "reserved" /\ o.ct = "on-demand")))
TypeUnknown(c, types, k) ==
    \/ ~Has(c.labels, k.typeKey)
    \/ ~\E i \in DOMAIN types :
           /\ types[i].name = c.labels[k.typeKey]
           /\ \E j \in DOMAIN types[i].offs : OfferingMatches(types[i].offs[j], c.labels, k)

\* the drift controller evaluates a claim only when it is launched, not deleting, and its pool exists
Evaluated(p, c, poolName) == p.exists /\ c.exists /\ ~c.deleting /\ c.launched = "True" /\ c.pool = poolName

\* statement: "it IS reported Drifted when its labels stop satisfying the NodePool's requirements or its hash
\* differs under the same hash version"
MustDrift(p, c, poolName) == Evaluated(p, c, poolName) /\ (StaticDrift(p, c) \/ ReqDrift(p, c))
\* ... and for no other reason than those two, the provider's own verdict, or an unknown instance type
MayDrift(p, c, types, k) == StaticDrift(p, c) \/ ReqDrift(p, c) \/ c.provDrift \/ TypeUnknown(c, types, k)

G_C15_DriftDecision(p, c, post, poolName) == MustDrift(p, c, poolName) => post.drifted = "True"
G_C15_NoSpuriousDrift(p, c, post, types, k, poolName) ==
    (Evaluated(p, c, poolName) /\ post.drifted = "True") => MayDrift(p, c, types, k)

\* the pool's hash annotations are up to date (the hash controller has reconciled since the last edit)
Quiescent(p, cur) == p.exists /\ p.hashAnn = p.specHash /\ p.verAnn = cur

\* ---------------------------------------------------------------- the hash axioms (Call events of the reflection walker)
\* ev = [path, kind, cls \in {"documented","template","outside"}, changed, before, after]
G_C15_HashInvariant(ev) == (ev.kind = "reorder" \/ ev.cls = "documented") => ev.before = ev.after
G_C15_HashSensitive(ev) == (ev.cls = "template" /\ ev.kind # "reorder" /\ ev.changed) => ev.before # ev.after
=============================================================================
