\* the same-type rule of multi-node consolidation needs two removed nodes
CONSTANTS NTypes = 2  Prices = {1, 2}  ZMods = {"dear"}  MaxCands = 2  MinS2S = 2  Focus = "price"  UnavCTs = {}  Weak = "sameType"  GenMod = 1  GenRes = 0
SPECIFICATION Spec
INVARIANTS WeakDetect
