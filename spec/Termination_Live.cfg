\* liveness under fairness: once deletion has started and faults stop, both finalizers are eventually removed
CONSTANTS Pods = {"p1"}  Tol = {}  Late = {}
  Starts = {"registered", "launched"}
  VaOwners = {"p1"}  TGPs <- BoolT  Instants <- BoolF
  MaxFaults = 1  MaxRestarts = 0  MaxLen = 1000  MaxSpont = 0
  Atomic = TRUE  FinalizeMode = "cache"  Weak = ""
SPECIFICATION FairSpec
VIEW view
PROPERTIES Live_C09_ClaimFinalized Live_C09_NodeFinalized
