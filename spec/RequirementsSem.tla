---------------------------- MODULE RequirementsSem ----------------------------
(***************************************************************************)
(* Kubernetes / set semantics of node-selector requirements (C12, C13a).   *)
(* Variable-free; EXTENDed by the closed model Requirements.tla and by the *)
(* trace specification Requirements_Trace.tla.  Nothing here mentions      *)
(* Karpenter's representation (complement/values/gte/lte): this is the     *)
(* oracle.                                                                 *)
(*                                                                         *)
(* VALUES.  A label value is a record [s, i, n]: its spelling `s`, whether *)
(* Kubernetes reads it as an integer (`i`: strconv.ParseInt(s, 10, 64)     *)
(* succeeds - so "01", "+2", "-01" are integers, "a" and "" are not) and   *)
(* the integer `n` (0 when ~i).  In / NotIn compare spellings; Gt / Lt     *)
(* (k8s.io/apimachinery labels.Requirement.Matches) and Karpenter's        *)
(* inclusive Gte / Lte compare integers and reject non-integers.           *)
(*                                                                         *)
(* ATOMS.  One node-selector requirement on a fixed key:                   *)
(*   [op, S, b, mv]  S = set of value spellings (In/NotIn; for a bound the *)
(*   one spelling of the operand), b = integer reading of a bound operand, *)
(*   mv = minValues (0 = unset).                                           *)
(* A chain of Adds on one key means the conjunction of its atoms.          *)
(*                                                                         *)
(* WITNESS COMPLETENESS.  Let the atoms of a case use In/NotIn spellings   *)
(* from a finite set Arg and bound operands whose *effective inclusive     *)
(* thresholds* (Gt b -> b+1, Lt b -> b-1) lie in lo..hi.  Two spellings    *)
(* outside Arg are indistinguishable by every such atom iff both are       *)
(* non-integers, or both are integers falling in the same class of         *)
(*     (-inf, lo-1], {lo}, {lo+1}, ..., {hi}, [hi+1, +inf).                *)
(* (every bound atom is "n >= t" or "n <= t" with t in lo..hi, and In /    *)
(* NotIn cannot name a spelling outside Arg).  Hence if the universe U contains  *)
(* Arg, one non-integer outside Arg and, for every class, one spelling     *)
(* outside Arg ("fresh": "00", "001", "+2", "-01", ...), then a            *)
(* conjunction of atoms admits some string of the infinite universe iff it *)
(* admits some v \in U.  `WitnessComplete` states the side condition; the  *)
(* closed model ASSUMEs it and the trace spec guards it for the logged     *)
(* universe (a failure is a malformed scenario, not a verdict).            *)
(***************************************************************************)
EXTENDS Integers, Sequences, FiniteSets

Val(s, i, n) == [s |-> s, i |-> i, n |-> n]

SetOps   == {"In", "NotIn"}
BoundOps == {"Gt", "Lt", "Gte", "Lte"}
Ops      == SetOps \cup BoundOps \cup {"Exists", "DoesNotExist"}

\* ---------------------------------------------------------------- Kubernetes operator semantics
Admits(a, v) ==
    CASE a.op = "In"           -> v.s \in a.S
      [] a.op = "NotIn"        -> v.s \notin a.S
      [] a.op = "Exists"       -> TRUE
      [] a.op = "DoesNotExist" -> FALSE
      [] a.op = "Gt"           -> v.i /\ v.n > a.b
      [] a.op = "Lt"           -> v.i /\ v.n < a.b
      [] a.op = "Gte"          -> v.i /\ v.n >= a.b
      [] a.op = "Lte"          -> v.i /\ v.n <= a.b

\* does a node *without* the label satisfy the requirement?
AbsentOK(a) == a.op \in {"NotIn", "DoesNotExist"}

\* ---------------------------------------------------------------- normalised (key, value) pairs
\* Requirements are read over NORMALISED pairs: a deprecated key spelling stands for its stable key (CanonKey below), and
\* a cloud provider may register, per stable key, a translation of value spellings (v1.NormalizedLabelValues, e.g. a
\* CSI driver's "" for the provider's "0").  The translation belongs to the *stable* key, whichever spelling of the key
\* the requirement was written with; node label values are in the provider's vocabulary and are not translated.
\* `vm` is a function spelling -> spelling (empty = nothing registered for the key).
NormVal(vm, s)  == IF s \in DOMAIN vm THEN vm[s] ELSE s
NormAtom(vm, a) == [a EXCEPT !.S = {NormVal(vm, s) : s \in a.S}]

\* ---------------------------------------------------------------- conjunctions (a chain of Adds on one key)
AdmitsAll(as, v) == \A j \in DOMAIN as : Admits(as[j], v)
AbsentAll(as)    == \A j \in DOMAIN as : AbsentOK(as[j])
Den(as, U)       == {v \in U : AdmitsAll(as, v)}
\* some labelling of the key (a value or no label) satisfies the conjunction
SatK(as, U)      == Den(as, U) # {} \/ AbsentAll(as)
Unsat(as, U)     == ~SatK(as, U)
MaxMV(as)        == LET M == {as[j].mv : j \in DOMAIN as} \cup {0}
                    IN CHOOSE m \in M : \A x \in M : x <= m

HasBound(as) == \E j \in DOMAIN as : as[j].op \in BoundOps
HasNotIn(as) == \E j \in DOMAIN as : as[j].op = "NotIn" /\ as[j].S # {}
\* inputs Kubernetes itself rejects (labels.NewRequirement: "values set can't be empty"); their treatment of an
\* absent label is not defined by Kubernetes, so the compatibility guard is not applied to chains containing them
K8sDefined(as) == \A j \in DOMAIN as : (as[j].op \in SetOps => as[j].S # {})

\* ---------------------------------------------------------------- labellings over several keys (Sat), used for documentation
\* and by the multi-key compatibility guard.  A requirement set R is a function key -> sequence of atoms; a labelling
\* L is a function from a subset of the keys to values.
Sat(L, R, U) == \A k \in DOMAIN R :
                   IF k \in DOMAIN L THEN AdmitsAll(R[k], L[k]) ELSE AbsentAll(R[k])

\* ---------------------------------------------------------------- compatibility, per key (statement, fourth clause)
\* "Compatible(A, B) iff some node labelling allowed by A satisfies B, where a key B constrains and A does not
\*  define is absent from the labelling unless it is listed in AllowUndefined (then it is unconstrained)".
\* Keys are independent, so the existential over labellings factors into one existential per key:
SemCompatKey(defA, A, defB, B, allow, U) ==
    IF defA /\ defB THEN (\E v \in U : AdmitsAll(A, v) /\ AdmitsAll(B, v)) \/ (AbsentAll(A) /\ AbsentAll(B))
    ELSE IF defA THEN SatK(A, U)                     \* B does not constrain the key: A's own labelling must exist
    ELSE IF ~defB THEN TRUE
    ELSE IF allow THEN SatK(B, U)                     \* undefined on the left and listed in AllowUndefined: unconstrained
    ELSE AbsentAll(B)                                 \* undefined custom key: the label is absent

\* witness class of a compatibility disagreement (for known-finding signatures).  A chain "requires presence with
\* exclusions" when it has a non-empty NotIn atom, some other atom that a node without the label does not satisfy,
\* and no In atom (so the admitted set stays co-finite): Exists /\ NotIn, Gt /\ NotIn, ...
HasIn(as)         == \E j \in DOMAIN as : as[j].op = "In"
PresenceNotIn(as) == HasNotIn(as) /\ ~AbsentAll(as) /\ ~HasIn(as)
OperandClass(def, X, U) ==
    IF ~def THEN "other"
    ELSE IF Unsat(X, U) THEN "unsat-operand"
    ELSE IF PresenceNotIn(X) /\ HasBound(X) THEN "bounded-notin"
    ELSE IF PresenceNotIn(X) THEN "exists-notin"
    ELSE "other"
ClassRank(c) == CASE c = "unsat-operand" -> 3 [] c = "bounded-notin" -> 2 [] c = "exists-notin" -> 1 [] OTHER -> 0
\* A wrong "compatible" verdict on a key can only come from believing that an operand accepts an absent label (or has
\* a value) when it does not; the culprits are the defined operands that do not accept an absent label.  The class of
\* the disagreement is the highest-ranked class among the culprits ("other" when there is none).
CompatClass(defA, A, defB, B, U) ==
    LET ca == IF defA /\ ~AbsentAll(A) THEN OperandClass(defA, A, U) ELSE "other"
        cb == IF defB /\ ~AbsentAll(B) THEN OperandClass(defB, B, U) ELSE "other"
    IN IF ClassRank(ca) >= ClassRank(cb) THEN ca ELSE cb

\* ---------------------------------------------------------------- witness completeness of a universe
Thresholds(as) == {(IF as[j].op = "Gt" THEN as[j].b + 1 ELSE IF as[j].op = "Lt" THEN as[j].b - 1 ELSE as[j].b)
                     : j \in {x \in DOMAIN as : as[x].op \in BoundOps}}
ArgsOf(as)     == UNION {as[j].S : j \in {x \in DOMAIN as : as[x].op \in SetOps}}
\* U is witness complete for chains whose thresholds lie in lo..hi and whose In/NotIn spellings lie in Arg
WitnessComplete(U, Arg, lo, hi) ==
    /\ \E v \in U : ~v.i /\ v.s \notin Arg
    /\ \E v \in U : v.i /\ v.n <= lo - 1 /\ v.s \notin Arg
    /\ \E v \in U : v.i /\ v.n >= hi + 1 /\ v.s \notin Arg
    /\ \A n \in lo..hi : \E v \in U : v.i /\ v.n = n /\ v.s \notin Arg

\* ---------------------------------------------------------------- label aliases (Kubernetes deprecated -> stable label keys)
AliasTable == [ a \in {"failure-domain.beta.kubernetes.io/zone", "failure-domain.beta.kubernetes.io/region",
                       "beta.kubernetes.io/arch", "beta.kubernetes.io/os", "beta.kubernetes.io/instance-type"} |->
                CASE a = "failure-domain.beta.kubernetes.io/zone"   -> "topology.kubernetes.io/zone"
                  [] a = "failure-domain.beta.kubernetes.io/region" -> "topology.kubernetes.io/region"
                  [] a = "beta.kubernetes.io/arch"                  -> "kubernetes.io/arch"
                  [] a = "beta.kubernetes.io/os"                    -> "kubernetes.io/os"
                  [] a = "beta.kubernetes.io/instance-type"         -> "node.kubernetes.io/instance-type" ]
CanonKey(k) == IF k \in DOMAIN AliasTable THEN AliasTable[k] ELSE k
=============================================================================
