---------------------------- MODULE BudgetGuards ----------------------------
(***************************************************************************)
(* NodePool disruption budgets (property C05): the pure definitions and    *)
(* the guards.  No variables - EXTENDed by the closed models Budgets.tla   *)
(* (case space of the arithmetic), BudgetRounds.tla (disruption rounds)    *)
(* and by the trace specification Budgets_Trace.tla.                       *)
(*                                                                         *)
(* Written from the statement, not from the code:                          *)
(*   - a budget is active during [hit, hit + duration) after each hit of   *)
(*     its cron schedule, always if it has no schedule.  A schedule is     *)
(*     abstracted to its HIT SET (instants, any integer time unit);        *)
(*   - a percentage is taken of the pool's initialized nodes, rounding up; *)
(*   - a budget applies to a reason iff it lists it or lists none (an      *)
(*     empty list lists none);                                             *)
(*   - the allowance of a pool is that of its most restrictive active      *)
(*     applicable budget; a malformed budget allows zero;                  *)
(*   - the nodes newly selected for voluntary disruption plus the pool's   *)
(*     nodes that are already not ready or being deleted never exceed it.  *)
(*                                                                         *)
(* A budget is a record                                                    *)
(*   [cron    : STRING   schedule text, "-" if the budget has none,        *)
(*    hits    : Seq(Int) hit set of the schedule (any order),              *)
(*    dur     : Int      duration, same unit as hits, -1 if none,          *)
(*    kind    : "count" | "pct",   val : Nat,                              *)
(*    reasons : Seq(STRING), rstate : "nil" | "empty" | "set"              *)
(*              (rstate only tells an absent list from an empty one - the  *)
(*              statement gives both the same meaning),                    *)
(*    mal     : "-" | "cron" | "nodes" | "duration-only"  (malformed)      *)
(*              | "nohit" | "sched-only"  (inputs on which the statement   *)
(*              is silent; several readings are accepted, see Readings),   *)
(*    txt     : STRING   the concrete malformed text, "-" otherwise]       *)
(***************************************************************************)
EXTENDS Integers, Sequences, FiniteSets

CONSTANTS Rounding,      \* "up" = the statement; "down" = spec mutation
          WindowEnd,     \* "open" = the statement [hit, hit+dur); "closed" / "startexcl" = spec mutations
          EmptyReasons   \* "all" = the statement (lists none => every reason); "none" = spec mutation

Unbounded == 2147483647          \* "no active applicable budget": nothing restricts the pool

Hits(b) == {b.hits[i] : i \in DOMAIN b.hits}
ReasonSet(b) == {b.reasons[i] : i \in DOMAIN b.reasons}
HasSchedule(b) == b.cron # "-"
MalKinds == {"cron", "nodes", "duration-only"}
Malformed(b) == b.mal \in MalKinds

InWindow(h, d, now, wend) ==
    CASE wend = "open"      -> h <= now /\ now < h + d
      [] wend = "closed"    -> h <= now /\ now <= h + d
      [] wend = "startexcl" -> h < now /\ now < h + d
ActiveX(b, now, wend) == ~HasSchedule(b) \/ \E h \in Hits(b) : InWindow(h, b.dur, now, wend)

CeilDiv(a, d) == (a + d - 1) \div d
ValueX(b, n, rnd) == IF b.kind = "count" THEN b.val
                     ELSE IF rnd = "up" THEN CeilDiv(b.val * n, 100) ELSE (b.val * n) \div 100

AppliesX(b, reason, er) ==
    \/ reason \in ReasonSet(b)
    \/ ReasonSet(b) = {} /\ (er = "all" \/ b.rstate = "nil")

MinOf(S) == CHOOSE x \in S : \A y \in S : x <= y
MaxOf(S) == CHOOSE x \in S : \A y \in S : x >= y
Binding(bs, now, reason, wend, er) ==
    {i \in DOMAIN bs : ActiveX(bs[i], now, wend) /\ AppliesX(bs[i], reason, er)}
AllowedX(bs, now, n, reason, rnd, wend, er) ==
    IF \E i \in DOMAIN bs : Malformed(bs[i]) THEN 0
    ELSE MinOf({ValueX(bs[i], n, rnd) : i \in Binding(bs, now, reason, wend, er)} \cup {Unbounded})

\* the operators of the statement (the switches are "up", "open", "all" in every real configuration)
Active(b, now) == ActiveX(b, now, WindowEnd)
Value(b, n) == ValueX(b, n, Rounding)
Applies(b, reason) == AppliesX(b, reason, EmptyReasons)
Allowed(bs, now, n, reason) == AllowedX(bs, now, n, reason, Rounding, WindowEnd, EmptyReasons)

\* ---------------------------------------------------------------- readings
\* Two kinds of input are outside what the statement determines (and outside what the CRD schema
\* admits or a cron user would write); each is given two readings and a result is accepted when it
\* agrees with SOME reading:
\*   "nohit"      a schedule that parses but never fires (0 0 31 2 *): never active (no hit, the
\*                literal reading) or always active (what the look-back does with the library's
\*                zero time - the restrictive side);
\*   "sched-only" a schedule without a duration: never active (empty window) or malformed (zero).
Lenient(b) == b.mal \in {"nohit", "sched-only"}
Resolve(b, k) ==
    IF b.mal = "nohit" THEN (IF k = 1 THEN [b EXCEPT !.mal = "-", !.hits = <<>>]
                                      ELSE [b EXCEPT !.mal = "-", !.cron = "-"])
    ELSE IF b.mal = "sched-only" THEN (IF k = 1 THEN [b EXCEPT !.mal = "-", !.hits = <<>>]
                                                ELSE [b EXCEPT !.mal = "cron"])
    ELSE b
Readings(bs) ==
    LET L == {i \in DOMAIN bs : Lenient(bs[i])} IN
    {[i \in DOMAIN bs |-> IF i \in L THEN Resolve(bs[i], f[i]) ELSE bs[i]] : f \in [L -> {1, 2}]}

\* ---------------------------------------------------------------- guards (shared with the trace spec)
\* `res` is what the code returned.  When nothing restricts the pool the statement only needs a value
\* that can never bind (>= the pool size); a malformed budget "allows zero": no disruption is allowed
\* (a value <= 0).
AgreesWith(res, a, n) == IF a = Unbounded THEN res >= n ELSE IF a = 0 THEN res <= 0 ELSE res = a
G_C05_Allowed(res, bs, now, n, reason) ==
    \E rb \in Readings(bs) : AgreesWith(res, Allowed(rb, now, n, reason), n)
\* the error-returning variant: an error is expected for a malformed list (its value is then unspecified:
\* every caller goes through the fail-closed wrapper) and must not be raised for a well-formed one
G_C05_ByReason(res, err, bs, now, n, reason) ==
    \E rb \in Readings(bs) :
        IF \E i \in DOMAIN rb : Malformed(rb[i]) THEN err \/ res <= 0
        ELSE ~err /\ AgreesWith(res, Allowed(rb, now, n, reason), n)
\* one budget: activity ("T" / "F" / "E" = error) and value
G_C05_IsActive(act, b, now) ==
    \E k \in {1, 2} : LET r == Resolve(b, k) IN
        IF r.mal \in {"cron", "duration-only"} THEN act = "E"
        ELSE act = (IF Active(r, now) THEN "T" ELSE "F")
G_C05_BudgetValue(res, err, b, now, n) ==
    \E k \in {1, 2} : LET r == Resolve(b, k) IN
        IF Malformed(r) THEN err /\ res <= 0
        ELSE ~err /\ (IF Active(r, now) THEN res = Value(r, n) ELSE res >= n)

\* witness class of a failing Allowed result (known-finding matching): is the result explained by
\* treating an empty (non-nil) reason list as "applies to no reason"?
AllowedSig(res, bs, now, n, reason, fam) ==
    IF (\E i \in DOMAIN bs : bs[i].rstate = "empty")
       /\ \E rb \in Readings(bs) : AgreesWith(res, AllowedX(rb, now, n, reason, Rounding, WindowEnd, "none"), n)
    THEN "empty-reasons-list-skipped"
    ELSE "fam=" \o fam

\* ---------------------------------------------------------------- mapping level and rounds
\* A node (of one pool) as the property sees it:
\*   [pool, managed, initialized, ready : BOOLEAN (Ready condition is True), marked (selected by an
\*    earlier command that is still in flight), deleting (its NodeClaim has a deletion timestamp),
\*    nodeDeleting (only the Node object has one), terminating (InstanceTerminating condition True)]
\* Two classes are counted differently by different readings of "being deleted"/"initialized nodes":
\*   terminating nodes  - reading "out": left out of both the pool size and the disrupting count (their
\*                        instance is already gone; Karpenter's documented choice); reading "in": counted in both;
\*   nodeDeleting only  - the Node object is being deleted but the NodeClaim not yet: counted as being
\*                        deleted or not.
MapReadings == {"out", "in"} \X {"claim", "node"}
Counted(x, rd) == x.managed /\ x.initialized /\ (rd[1] = "in" \/ ~x.terminating)
Disrupting(x, rd) == Counted(x, rd) /\ (~x.ready \/ x.marked \/ x.deleting \/ x.terminating
                                         \/ (rd[2] = "node" /\ x.nodeDeleting))
PoolNodes(nodes, p) == {i \in DOMAIN nodes : nodes[i].pool = p}
PoolSize(nodes, p, rd) == Cardinality({i \in PoolNodes(nodes, p) : Counted(nodes[i], rd)})
PoolDisrupting(nodes, p, rd) == Cardinality({i \in PoolNodes(nodes, p) : Disrupting(nodes[i], rd)})
Max0(x) == IF x < 0 THEN 0 ELSE x
\* remaining allowance of pool p for `reason` at `now`
Remaining(bs, nodes, p, now, reason, rd) ==
    LET a == Allowed(bs, now, PoolSize(nodes, p, rd), reason) IN
    IF a = Unbounded THEN Unbounded ELSE Max0(a - PoolDisrupting(nodes, p, rd))
\* the mapping the code computed agrees with some reading (unbounded: any value that cannot bind)
G_C05_Mapping(res, bs, nodes, p, now, reason) ==
    \E rd \in MapReadings : \E rb \in Readings(bs) :
        LET a == Allowed(rb, now, PoolSize(nodes, p, rd), reason) IN
        IF a = Unbounded THEN res >= PoolSize(nodes, p, rd)
        ELSE res = Max0(a - PoolDisrupting(nodes, p, rd))
\* a command starts: the newly selected nodes `sel` (indices) plus the nodes already not ready or being
\* deleted stay within the allowance computed at instant t
G_C05_StartWithinBudget(sel, bs, nodes, p, t, reason) ==
    LET mine == sel \cap PoolNodes(nodes, p) IN
    mine = {} \/ \E rd \in MapReadings : \E rb \in Readings(bs) :
        LET already == {i \in PoolNodes(nodes, p) \ mine : Disrupting(nodes[i], rd)} IN
        Cardinality(mine) + Cardinality(already) <= Allowed(rb, t, PoolSize(nodes, p, rd), reason)
=============================================================================
