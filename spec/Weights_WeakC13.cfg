\* the six spec mutations behind C13 (b)-(d) in one TLC run (checks/c13_sched_stage.py); WeakDetect prints <<"REJ", rule, guard>>
CONSTANTS WeightVecs = {6}  FeatDiag = TRUE  NPods = 2  PodArchs = {1, 2, 8}
CONSTANTS Feats = {"plain", "min2", "archMin2", "teamX", "startup"}
CONSTANTS Catalogs = {2}  DaemonSets = {2, 3}  MaxTypesSet = {1, 2}  Policies = {"Strict"}  Weak = "c13"
SPECIFICATION Spec
INVARIANTS WeakDetect
