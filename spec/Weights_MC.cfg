\* exhaustive check of the closed model (quick scope): every scenario x every tie order x every sequence of commitments
CONSTANTS WeightVecs = {6, 12}  FeatDiag = TRUE  NPods = 2  PodArchs = {1, 2, 3, 6, 7}
CONSTANTS Feats = {"plain", "taint", "prefer", "limit", "limit16", "zoneA", "teamX", "min2", "archMin2", "notReady", "startup"}
CONSTANTS Catalogs = {1}  DaemonSets = {2}  MaxTypesSet = {2}  Policies = {"Strict"}  Weak = ""
SPECIFICATION Spec
INVARIANTS Inv_C19_HighestWeightFeasible Inv_C19_CheapestPrefix Inv_C13_TypesSubsetMinValues Inv_C13_Requests Inv_C13_Template
