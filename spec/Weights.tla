------------------------------ MODULE Weights ------------------------------
(***************************************************************************)
(* Closed model for C19 (NodePool weight and price ordering) and the        *)
(* scheduler-level part of C13 (b)-(d).                                     *)
(*                                                                         *)
(* A scenario `cfg` (same record shape as the scenario JSON of the sched    *)
(* driver, spec/SCHED_TRACE.md) is chosen at Init: three NodePools whose    *)
(* weights are a permutation of three of {unset, 1, 10, 10} (ties!), each   *)
(* with one FEATURE (taint, PreferNoSchedule taint, cpu limit, zone / team  *)
(* requirement, minValues, not Ready, startup taint + stale hash), a        *)
(* three-type catalog whose price order depends on the zone and on which    *)
(* offerings are available, 0-2 daemonsets, NPods pods from six archetypes, *)
(* a minValues policy and a scheduling.MaxInstanceTypes (archetype 7 carries *)
(* a preferred node-affinity term).                                         *)
(*                                                                         *)
(* The MECHANISM is Karpenter's (scheduler.go / nodeclaim.go /              *)
(* nodeclaimtemplate.go / cloudprovider/types.go), one action per           *)
(* commitment: templates ordered by weight (ties in ANY order - they are    *)
(* free in the statement), per pod the relaxation ladder (drop the first    *)
(* of several required terms, finally tolerate PreferNoSchedule), per       *)
(* template a requirement-set intersection, an instance-type filter         *)
(* (limits left, requirement overlap, available compatible offering, fit    *)
(* of pods + per-type daemon overhead) and the strict minValues floor, the  *)
(* LOWEST admissible template index (ParallelMin.tla shows that the         *)
(* parallel evaluation computes exactly that), the pool charged with the    *)
(* largest capacity of the new NodeClaim; at the end FinalizeScheduling     *)
(* (daemon overhead once), OrderByPrice + Truncate + minValues validation   *)
(* and ToNodeClaim.  TLC checks that this mechanism implies the ORACLE of   *)
(* WeightsGuards.tla (set semantics over launch options) at every           *)
(* commitment.  `wk` weakens one mechanism rule (Weights_Weak*.cfg): TLC    *)
(* must then break an invariant.                                            *)
(***************************************************************************)
EXTENDS WeightsGuards, Json

CONSTANTS
    WeightVecs,     \* subset of WeightPerms (index into it)
    Feats,          \* features a pool may carry (subset of AllFeats)
    FeatDiag,       \* TRUE: at most one pool of the three carries a feature other than "plain"
    NPods, PodArchs,
    Catalogs,       \* subset of 1..2
    DaemonSets,     \* subset of 0..3
    MaxTypesSet,    \* scheduling.MaxInstanceTypes values (0 = default 600)
    Policies,       \* subset of {"Strict", "BestEffort"}
    Weak            \* "" | "*" (every rule of AllWeak in one run) | "c13" (C13Weak) | one of AllWeak

VARIABLES cfg, wk, pre, order, eff, left, oleft, claims, state, bad
vars == <<cfg, wk, pre, order, eff, left, oleft, claims, state, bad>>

AllWeak == {"order", "lowest", "ready", "chargeSum", "truncFirst", "rankDearest", "rankUnavailable", "truncMin", "ovhPerPod", "ovhNone",
            "staleHash", "simKeys", "noStartup", "noRelax", "truncMinOrder", "ovhByName", "hashSecond", "noFinalize", "chargeTemplate", "volShared"}
C13Weak == {"truncMin", "truncMinOrder", "ovhPerPod", "ovhNone", "staleHash", "simKeys", "noStartup", "ovhByName", "hashSecond", "noFinalize"}     \* the rules behind C13 (b)-(d)
AllFeats == {"plain", "taint", "prefer", "limit", "limit8", "limit16", "zoneA", "teamX", "min2", "archMin2", "notReady", "startup"}

----------------------------------------------------------------------------
(* scenario space *)
U == [zone |-> <<"a", "b", "c", "~">>, ct |-> <<"od", "spot", "~">>, it |-> <<"T1", "T2", "T3", "~">>, team |-> <<"x", "y", "~">>,
      arch |-> <<"amd64", "arm64", "~">>, pool |-> <<"P1", "P2", "P3", "~">>, host |-> <<"~">>, rid |-> <<"~">>]
UNum == [k \in DOMAIN U |-> [i \in DOMAIN U[k] |-> NoInt]]
Custom == {"team"}

\* the 12 permutations of three of {unset (0), 1, 10, 10}
WeightPerms == <<<<0, 1, 10>>, <<0, 10, 1>>, <<1, 0, 10>>, <<1, 10, 0>>, <<10, 0, 1>>, <<10, 1, 0>>,
                 <<0, 10, 10>>, <<10, 0, 10>>, <<10, 10, 0>>, <<1, 10, 10>>, <<10, 1, 10>>, <<10, 10, 1>>>>

Off(z, c, price, av) == [zone |-> z, ct |-> c, price |-> price, available |-> av, rid |-> "", rcap |-> 0, cpuOv |-> 0, memOv |-> 0, podsOv |-> 0, ohCpu |-> 0, ohMem |-> 0]
Ty(n, cpu, mem, arch, offs) == [name |-> n, cpu |-> cpu, mem |-> mem, pods |-> 110, labels |-> [arch |-> arch], ovCpu |-> 100, ovMem |-> 0, offerings |-> offs]
\* T1 small, T2 large, T3 medium; the price order depends on the zone, on the capacity type and on availability:
\*   any zone:  T3 (a/spot 90) < T1 (100) < T2 (300)      zone b:  T1 (120) < T3 (250) < T2 (300)
\*   catalog 2: T3's cheap spot offering is NOT available: T1 (100) < T3 (150) < T2 (300); by DEAREST offering T1 < T3 < T2 / T1 < T2 < T3
\* architecture: the only arm64 type (T2) is SECOND in provider order and the dearest - the two cheapest types are both amd64
Catalog(i) ==
    <<Ty("T1", 2000, 4096, "amd64", <<Off("a", "od", 100, TRUE), Off("b", "od", 120, TRUE)>>),
      Ty("T2", 8000, 16384, "arm64", <<Off("a", "od", 400, TRUE), Off("b", "od", 300, TRUE)>>),
      Ty("T3", 4000, 8192, "amd64", <<Off("a", "spot", 90, i = 1), Off("a", "od", 150, TRUE), Off("b", "od", 250, TRUE), Off("b", "spot", 900, TRUE)>>)>>

Dedicated == [key |-> "dedicated", value |-> "infra", effect |-> "NoSchedule"]
Soft == [key |-> "soft", value |-> "x", effect |-> "PreferNoSchedule"]
Startup == [key |-> "startup.example/agent", value |-> "", effect |-> "NoSchedule"]
PR(k, op, vals, min) == [key |-> k, op |-> op, vals |-> vals, n |-> 0, min |-> min]
Pool(n, w, f) ==
    [name |-> n, weight |-> w,
     reqs |-> (CASE f = "zoneA" -> <<PR("zone", "In", <<"a">>, 0)>> [] f = "min2" -> <<PR("it", "In", <<"T1", "T2">>, 2)>>
                    [] f = "archMin2" -> <<PR("arch", "Exists", <<>>, 2)>> [] OTHER -> <<>>),
     labels |-> (IF f = "teamX" THEN [team |-> "x"] ELSE <<>>),
     taints |-> (CASE f = "taint" -> <<Dedicated>> [] f = "prefer" -> <<Soft>> [] OTHER -> <<>>),
     startup |-> (IF f = "startup" THEN <<Startup>> ELSE <<>>),
     limits |-> [cpu |-> (CASE f = "limit" -> 2000 [] f = "limit8" -> 8000 [] f = "limit16" -> 16000 [] OTHER -> 0), mem |-> 0, nodes |-> -1],
     types |-> <<>>, notReady |-> (f = "notReady"), deleting |-> FALSE, replicas |-> 0,
     hashAnn |-> (IF f = "startup" THEN "stale" ELSE "")]
PoolNamesSeq == <<"P1", "P2", "P3">>

P0(name, cpu) == [name |-> name, ns |-> "default", node |-> "", owner |-> "", cpu |-> cpu, mem |-> 64, created |-> 0, labels |-> <<>>,
                  sel |-> <<>>, terms |-> <<>>, pref |-> <<>>, tol |-> <<>>, ports |-> <<>>, vols |-> <<>>, aff |-> <<>>, anti |-> <<>>,
                  prefAff |-> <<>>, prefAnti |-> <<>>, spread |-> <<>>]
E(k, op, vals) == [key |-> k, op |-> op, vals |-> vals, n |-> 0]
TolDedicated == [key |-> "dedicated", op |-> "Equal", value |-> "infra", effect |-> "NoSchedule"]
Arch(a, name) ==
    CASE a = 1 -> P0(name, 500)                                                      \* small
      [] a = 2 -> P0(name, 3000)                                                     \* needs a medium / large type
      [] a = 3 -> [P0(name, 1500) EXCEPT !.tol = <<TolDedicated>>]                   \* tolerates the dedicated taint
      [] a = 4 -> [P0(name, 500) EXCEPT !.sel = [zone |-> "b"]]                      \* zone b only
      [] a = 5 -> [P0(name, 1500) EXCEPT !.terms = <<<<E("team", "In", <<"x">>)>>>>]  \* needs the team label
      [] a = 6 -> [P0(name, 500) EXCEPT !.terms = <<<<E("team", "In", <<"x">>)>>, <<E("zone", "In", <<"b">>)>>>>]   \* two OR-terms
      [] a = 7 -> [P0(name, 500) EXCEPT !.pref = <<[weight |-> 10, exprs |-> <<E("zone", "In", <<"b">>)>>]>>]         \* PREFERS zone b
      [] a = 8 -> [P0(name, 500) EXCEPT !.sel = [arch |-> "arm64"]]                                                    \* arm64 only (T2)
      [] a = 9 -> [P0(name, 1500) EXCEPT !.sel = [arch |-> "amd64"]]                                                   \* amd64 only (T1, T3: never the largest type)
      [] a = 10 -> [P0(name, 500) EXCEPT !.vols = <<"c-cb">>]           \* a volume with two topology alternatives: zone c (no type lives there) | zone b
PodName(i) == "w" \o ToString(i)
Batches == {s \in [1..NPods -> PodArchs] : \A i \in 1..(NPods - 1) : s[i] <= s[i + 1]}

TolAll == [key |-> "", op |-> "Exists", value |-> "", effect |-> ""]
DS(name, ns, cpu, sel) == [name |-> name, ns |-> ns, cpu |-> cpu, mem |-> 64, sel |-> sel, terms |-> <<>>, tol |-> <<TolAll>>, ports |-> <<>>]
\* 3: two daemonsets with the SAME NAME in different namespaces that split the catalog by architecture, the dearer one on arm64
DaemonSet(i) == CASE i = 0 -> <<>> [] i = 1 -> <<DS("ds0", "kube-system", 200, <<>>)>>
                  [] i = 2 -> <<DS("ds0", "kube-system", 200, <<>>), DS("ds1", "kube-system", 300, [it |-> "T2"])>>
                  [] i = 3 -> <<DS("agent", "team-a", 100, [arch |-> "amd64"]), DS("agent", "team-b", 300, [arch |-> "arm64"])>>

Scenario(wv, fs, cat, dm, batch, mt, pol) ==
    [name |-> "tlcw-" \o ToString(wv) \o "-" \o ToString(fs) \o "-" \o ToString(cat) \o "-" \o ToString(dm) \o "-" \o ToString(batch)
              \o "-" \o ToString(mt) \o "-" \o pol,
     universe |-> U, unum |-> UNum,
     options |-> [preference |-> "Respect", minValues |-> pol, reserved |-> "strict", workers |-> 1, maxTypes |-> mt, create |-> TRUE],
     types |-> Catalog(cat), pools |-> [i \in 1..3 |-> Pool(PoolNamesSeq[i], WeightPerms[wv][i], fs[i])],
     nodes |-> <<>>, ds |-> DaemonSet(dm),
     scs |-> <<[name |-> "sc-cb", provisioner |-> "csi.example", mode |-> "WaitForFirstConsumer",
                topologies |-> <<<<[key |-> "zone", vals |-> <<"c">>]>>, <<[key |-> "zone", vals |-> <<"b">>]>>>>]>>,
     pvs |-> <<>>, pvcs |-> <<[name |-> "c-cb", ns |-> "default", pv |-> "", sc |-> "sc-cb"]>>,
     pods |-> [i \in 1..NPods |-> Arch(batch[i], PodName(i))]]
FeatVecs == IF FeatDiag THEN {f \in [1..3 -> Feats] : Cardinality({i \in 1..3 : f[i] # "plain"}) <= 1} ELSE [1..3 -> Feats]
ScenarioSpace == {Scenario(wv, fs, cat, dm, b, mt, pol) : wv \in WeightVecs, fs \in FeatVecs, cat \in Catalogs, dm \in DaemonSets,
                                                           b \in Batches, mt \in MaxTypesSet, pol \in Policies}

----------------------------------------------------------------------------
(* the mechanism: requirement sets per key (admitted values, missing label admitted, defined) *)
UVals(k) == Range(U[k])
MkReq(k, S, ab, def) ==
    [defined |-> def,
     op |-> IF ~def THEN "-" ELSE IF ab THEN (IF S = {} THEN "DoesNotExist" ELSE "NotIn") ELSE (IF S = UVals(k) THEN "Exists" ELSE "In"),
     vals |-> <<>>, has |-> [i \in DOMAIN U[k] |-> U[k][i] \in S], absent |-> ab, min |-> -1]
AnyReq(k) == MkReq(k, UVals(k), TRUE, FALSE)
RVals(r, k) == {U[k][i] : i \in {j \in DOMAIN U[k] : r.has[j]}}
NonEmpty(r, k) == RVals(r, k) # {} \/ r.absent
Meet(r1, r2, k) == IF ~r1.defined /\ ~r2.defined THEN AnyReq(k) ELSE MkReq(k, RVals(r1, k) \cap RVals(r2, k), r1.absent /\ r2.absent, TRUE)
ExprReq(e) == MkReq(e.key, {v \in UVals(e.key) : Admits(cfg, e, (e.key :> v))}, Admits(cfg, e, <<>>), TRUE)
RECURSIVE MeetAll(_, _)
MeetAll(rs, k) == IF rs = <<>> THEN AnyReq(k) ELSE Meet(Head(rs), MeetAll(Tail(rs), k), k)
ExprsOn(es, k) == SelectSeq(es, LAMBDA e : e.key = k)
ReqsOfExprs(es) == [k \in DOMAIN U |-> MeetAll([i \in DOMAIN ExprsOn(es, k) |-> ExprReq(ExprsOn(es, k)[i])], k)]
RECURSIVE SelExprsOf(_, _)
SelExprsOf(sel, S) == IF S = {} THEN <<>> ELSE LET k == CHOOSE x \in S : TRUE IN <<E(k, "In", <<sel[k]>>)>> \o SelExprsOf(sel, S \ {k})
SelExprs(sel) == SelExprsOf(sel, DOMAIN sel)
MeetMap(a, b) == [k \in DOMAIN U |-> Meet(a[k], b[k], k)]
AllNonEmpty(m) == \A k \in DOMAIN U : NonEmpty(m[k], k)
\* the pod as Karpenter schedules it now: node selector, the FIRST required term and the HEAVIEST preferred term
PodReqs(e) == ReqsOfExprs(SelExprs(e.sel) \o (IF e.terms = <<>> THEN <<>> ELSE e.terms[1]) \o PrefInForce(cfg, e))
\* template of a pool; a custom key it does not define is MISSING on its nodes
TemplateReqs(q) ==
    LET m == MeetMap(ReqsOfExprs([i \in DOMAIN q.reqs |-> E(q.reqs[i].key, q.reqs[i].op, q.reqs[i].vals)]),
                     ReqsOfExprs(SelExprs(q.labels) \o <<E("pool", "In", <<q.name>>)>>))
    IN [k \in DOMAIN U |-> IF k \in Custom /\ ~m[k].defined THEN MkReq(k, {}, TRUE, TRUE) ELSE m[k]]

TypeReq(it, k) == IF k = "it" THEN MkReq(k, {it.name}, FALSE, TRUE)
                  ELSE IF k = "zone" THEN MkReq(k, {it.offerings[i].zone : i \in DOMAIN it.offerings}, FALSE, TRUE)
                  ELSE IF k = "ct" THEN MkReq(k, {it.offerings[i].ct : i \in DOMAIN it.offerings}, FALSE, TRUE)
                  ELSE IF k \in DOMAIN it.labels THEN MkReq(k, {it.labels[k]}, FALSE, TRUE)
                  ELSE AnyReq(k)
ItCompat(it, reqs) == \A k \in DOMAIN U : NonEmpty(Meet(TypeReq(it, k), reqs[k], k), k)
OffCompat(o, reqs) == o.zone \in RVals(reqs["zone"], "zone") /\ o.ct \in RVals(reqs["ct"], "ct")
\* daemonsets charged to a type of a pool: decided at TEMPLATE level
DaemonsFor(q, it) ==
    LET tr == TemplateReqs(q) IN
    {d \in Range(cfg.ds) : /\ TaintsTolerated(d.tol, q.taints)
                           /\ LET dr == ReqsOfExprs(SelExprs(d.sel)) IN AllNonEmpty(MeetMap(tr, dr)) /\ ItCompat(it, dr)}
\* pre (computed once per scenario, TLC does not memoise): pre.treqs[pool] = TemplateReqs, pre.ovh[pool][type] = summed requests of DaemonsFor
\* the daemon overhead of a type is that of its overhead GROUP = the types with the same set of daemonsets (weak "ovhByName": the group
\* is keyed by the daemonsets' NAMES only and keeps the overhead of its first type in provider order)
NameSet(q, t) == {d.name : d \in DaemonsFor(q, TypeByName(cfg, t))}
GroupType(q, t) ==
    IF wk # "ovhByName" THEN t
    ELSE cfg.types[MinOf({i \in DOMAIN cfg.types : NameSet(q, cfg.types[i].name) = NameSet(q, t)})].name
Fits(q, it, reqs, P) ==
    LET need == AddRes(SumReq(P), pre.ovh[q.name][it.name]) IN
    \E i \in DOMAIN it.offerings :
        /\ it.offerings[i].available /\ OffCompat(it.offerings[i], reqs)
        /\ LeqRes(need, OfferingAlloc(it, it.offerings[i]))
MechWithin(q, it, lft) == (q.limits.cpu > 0 => it.cpu <= lft.cpu) /\ (q.limits.mem > 0 => it.mem <= lft.mem) /\ (q.limits.nodes >= 0 => lft.nodes >= 1)
Floor(q, T) == cfg.options.minValues = "Strict" => MinValuesMet(q, T)

Orig(k) == PodByKey(cfg, k)
OrigPods(ks) == {Orig(k) : k \in Range(ks)}
QOf(n) == PoolByName(cfg, n)
\* all three taint effects block until the pod (as relaxed) tolerates them
MechTolerates(e, q) == \A t \in Range(q.taints) : \E x \in Range(e.tol) : Tolerates(x, t)

\* add pod k (current form e) to requirements reqs / options its (a set of names) holding pods ks, in pool q
\* volume-topology alternatives of the pod as requirement maps, in order (no constrained volume: one alternative that admits everything)
AltsOf(e) ==
    IF e.vols = <<>> THEN <<ReqsOfExprs(<<>>)>>
    ELSE LET tops == ScOf(cfg, PvcOf(cfg, e, e.vols[1]).sc).topologies IN [i \in DOMAIN tops |-> ReqsOfExprs(<<E("zone", "In", tops[i][1].vals)>>)]
RECURSIVE CumAlt(_, _)
CumAlt(A, i) == IF i = 1 THEN A[1] ELSE MeetMap(CumAlt(A, i - 1), A[i])
NarrowAlt(q, base, its, ks, k, e, lft, fresh, alt) ==
    LET nr == MeetMap(base, alt)
        keep == {n \in its : LET it == TypeByName(cfg, n) IN
                             /\ (fresh => MechWithin(q, it, lft))
                             /\ ItCompat(it, nr) /\ Fits(q, it, nr, OrigPods(ks) \cup {Orig(k)})}
    IN [ok |-> MechTolerates(e, q) /\ AllNonEmpty(nr) /\ keep # {} /\ Floor(q, {TypeByName(cfg, n) : n \in keep}), reqs |-> nr, its |-> keep]
\* CanAdd: the alternatives are tried in order on a PRIVATE copy of the requirements each; the first admissible one wins
\* (weak "volShared": one shared copy - every alternative tried before leaves its zone behind)
Narrow(q, reqs, its, ks, k, e, lft, fresh) ==
    LET base == MeetMap(reqs, PodReqs(e))
        A == AltsOf(e)
        R(i) == NarrowAlt(q, base, its, ks, k, e, lft, fresh, IF wk = "volShared" THEN CumAlt(A, i) ELSE A[i])
        I == {i \in DOMAIN A : R(i).ok}
    IN IF Len(A) = 1 THEN NarrowAlt(q, base, its, ks, k, e, lft, fresh, A[1])
       ELSE IF I = {} THEN [ok |-> FALSE, reqs |-> base, its |-> {}] ELSE R(MinOf(I))
Fresh(k, e, pn) == Narrow(QOf(pn), pre.treqs[pn], {t.name : t \in PoolTypes(cfg, QOf(pn))}, <<>>, k, e, left[pn], TRUE)

\* template order: by weight, heaviest first; equal weights in any order (the code breaks ties by name - the statement leaves them free)
Usable(q) == wk = "ready" \/ PoolUsable(q)
Templates == {q.name : q \in {x \in Range(cfg.pools) : Usable(x)}}
Orders == {s \in [1..Cardinality(Templates) -> Templates] :
             /\ \A i, j \in DOMAIN s : i # j => s[i] # s[j]
             /\ \A i, j \in DOMAIN s : i < j => (IF wk = "order" THEN QOf(s[i]).weight <= QOf(s[j]).weight ELSE QOf(s[i]).weight >= QOf(s[j]).weight)}

\* multi-mutation runs (Weak = "*" / "c13") only start from the scenarios in which the weakened rule can matter at all
Relevant(w, c) ==
    LET P == Range(c.pools)
        notReady == \E q \in P : q.notReady
        startup == \E q \in P : q.startup # <<>>
        limit16 == \E q \in P : q.limits.cpu = 16000
        itMin == \E q \in P : \E r \in Range(q.reqs) : r.key = "it" /\ r.min > 0
        archMin == \E q \in P : \E r \in Range(q.reqs) : r.key = "arch" /\ r.min > 0
        labelled == \E q \in P : q.labels # <<>>
        twins == \E i, j \in DOMAIN c.ds : i # j /\ c.ds[i].name = c.ds[j].name
        armPod == \E p \in Range(c.pods) : "arch" \in DOMAIN p.sel
        limit8 == \E q \in P : q.limits.cpu = 8000
        volPod == \E p \in Range(c.pods) : p.vols # <<>>
        plain == ~notReady /\ ~startup /\ ~limit16 /\ ~limit8 /\ ~itMin /\ ~archMin /\ ~labelled /\ ~twins /\ ~armPod /\ ~volPod
        mt == c.options.maxTypes
        only(x) == x /\ ~twins /\ ~armPod /\ ~volPod
    IN CASE w = "ready" -> only(notReady)
         [] w \in {"staleHash", "noStartup"} -> only(startup)
         [] w = "chargeSum" -> only(limit16)
         [] w = "truncMin" -> only(itMin) /\ mt = 1
         [] w = "truncMinOrder" -> only(archMin) /\ mt = 2
         [] w = "hashSecond" -> only(labelled) /\ mt = 2
         [] w = "chargeTemplate" -> limit8 /\ armPod /\ ~twins /\ ~volPod /\ mt = 2
         [] w = "volShared" -> volPod /\ ~notReady /\ ~startup /\ ~limit16 /\ ~limit8 /\ ~itMin /\ ~archMin /\ ~labelled /\ ~twins /\ ~armPod /\ mt = 2
         [] w = "ovhByName" -> twins /\ armPod /\ ~notReady /\ ~startup /\ ~limit16 /\ ~itMin /\ ~archMin /\ ~labelled /\ mt = 2
         [] w \in {"truncFirst", "rankDearest"} -> plain /\ mt = 2
         [] w = "rankUnavailable" -> plain /\ mt = 1
         [] OTHER -> plain /\ mt = 2

----------------------------------------------------------------------------
Batch == {PKey(p) : p \in Range(cfg.pods)}
Pending == {k \in Batch : state[k] = "pending"}

Init ==
    /\ cfg \in ScenarioSpace
    /\ wk \in (IF Weak = "*" THEN AllWeak ELSE IF Weak = "c13" THEN C13Weak ELSE {Weak})
    /\ (Weak \in {"*", "c13"} => Relevant(wk, cfg))
    /\ pre = [treqs |-> [n \in {"P1", "P2", "P3"} |-> TemplateReqs(QOf(n))],
              ovh |-> [n \in {"P1", "P2", "P3"} |-> [t \in {"T1", "T2", "T3"} |-> SumReq(DaemonsFor(QOf(n), TypeByName(cfg, GroupType(QOf(n), t))))]]]
    /\ order \in Orders
    /\ eff = [k \in Batch |-> PodByKey(cfg, k)]
    /\ left = [n \in {"P1", "P2", "P3"} |-> InitLeft(cfg, QOf(n))]
    /\ oleft = left
    /\ claims = <<>>
    /\ state = [k \in Batch |-> "pending"]
    /\ bad = ""

Note(ok, g) == IF bad # "" THEN bad ELSE IF ok THEN "" ELSE g
OkIdx(k) == {i \in DOMAIN order : Fresh(k, eff[k], order[i]).ok}
SeqOf(S) == SelectSeq([i \in DOMAIN cfg.types |-> cfg.types[i].name], LAMBDA n : n \in S)      \* catalog order
MaxCap(S) == [cpu |-> MaxOf({TypeByName(cfg, n).cpu : n \in S}), mem |-> MaxOf({TypeByName(cfg, n).mem : n \in S})]
SumCap(S) == [cpu |-> SumSeq([i \in DOMAIN SeqOf(S) |-> TypeByName(cfg, SeqOf(S)[i]).cpu]), mem |-> SumSeq([i \in DOMAIN SeqOf(S) |-> TypeByName(cfg, SeqOf(S)[i]).mem])]

\* addToNewNodeClaim: the LOWEST admissible template (weak "lowest": whichever evaluation finishes last)
OpenNew(k, ok) ==
    /\ bad = "" /\ ok # {}
    /\ \E i \in ok :
        /\ (wk # "lowest" => \A j \in ok : i <= j)
        /\ LET pn == order[i]
               r == Fresh(k, eff[k], pn)
               \* (weak "chargeTemplate": charged BEFORE the pod narrowed the NodeClaim - with the largest type of the pool that is inside the limits)
               cap == IF wk = "chargeSum" THEN SumCap(r.its)
                      ELSE IF wk = "chargeTemplate" THEN MaxCap({t.name : t \in {x \in PoolTypes(cfg, QOf(pn)) : MechWithin(QOf(pn), x, left[pn])}})
                      ELSE MaxCap(r.its)
           IN /\ claims' = Append(claims, [idx |-> Len(claims), pool |-> pn, pods |-> <<k>>, reqs |-> r.reqs, its |-> SeqOf(r.its),
                                           taints |-> QOf(pn).taints, reserved |-> <<>>])
              /\ left' = [left EXCEPT ![pn] = [cpu |-> @.cpu - cap.cpu, mem |-> @.mem - cap.mem, nodes |-> @.nodes - 1]]
              /\ oleft' = [oleft EXCEPT ![pn] = ChargeOpen(cfg, @, SeqOf(r.its))]
              /\ bad' = Note(G_C19_HighestWeightFeasible(cfg, eff[k], pn, oleft), "G_C19_HighestWeightFeasible")
    /\ state' = [state EXCEPT ![k] = "placed"]
    /\ UNCHANGED <<cfg, wk, pre, order, eff>>

\* addToInflightNode: the pod joins a NodeClaim of this pass
Join(k, i) ==
    LET c == claims[i]
        r == Narrow(QOf(c.pool), c.reqs, Range(c.its), c.pods, k, eff[k], left[c.pool], FALSE) IN
    /\ bad = "" /\ r.ok
    /\ claims' = [claims EXCEPT ![i] = [c EXCEPT !.pods = Append(c.pods, k), !.reqs = r.reqs, !.its = SeqOf(r.its)]]
    /\ state' = [state EXCEPT ![k] = "placed"]
    /\ UNCHANGED <<cfg, wk, pre, order, eff, left, oleft, bad>>

\* Preferences.Relax: drop the first of several required terms; then the heaviest preferred term; finally tolerate PreferNoSchedule
HasSoft == \E q \in Range(cfg.pools) : \E t \in Range(q.taints) : t.effect = "PreferNoSchedule"
SoftTol == [key |-> "", op |-> "Exists", value |-> "", effect |-> "PreferNoSchedule"]
CanRelax(e) == Len(e.terms) > 1 \/ e.pref # <<>> \/ (HasSoft /\ SoftTol \notin Range(e.tol))
Relax(k, ok) ==
    LET e == eff[k] IN
    /\ bad = "" /\ ok = {} /\ CanRelax(e)
    /\ eff' = [eff EXCEPT ![k] = IF Len(e.terms) > 1 THEN [e EXCEPT !.terms = Tail(e.terms)]
                                 ELSE IF e.pref # <<>> THEN [e EXCEPT !.pref = SelectSeq(e.pref, LAMBDA x : x # e.pref[Heaviest(e.pref)])]
                                 ELSE [e EXCEPT !.tol = Append(e.tol, SoftTol)]]
    /\ UNCHANGED <<cfg, wk, pre, order, left, oleft, claims, state, bad>>

\* the pod ends the pass without a home
Fail(k, ok) ==
    /\ bad = "" /\ ok = {} /\ (wk = "noRelax" \/ ~CanRelax(eff[k]))        \* weak "noRelax": gives up without trying the other required terms
    /\ \A i \in DOMAIN claims : ~Narrow(QOf(claims[i].pool), claims[i].reqs, Range(claims[i].its), claims[i].pods, k, eff[k], left[claims[i].pool], FALSE).ok
    /\ state' = [state EXCEPT ![k] = "failed"]
    /\ bad' = Note(~\E q \in Range(cfg.pools) : FeasibleLadder(cfg, Orig(k), q, oleft[q.name]), "G_C19_HighestWeightFeasible")
    /\ UNCHANGED <<cfg, wk, pre, order, eff, left, oleft, claims>>

----------------------------------------------------------------------------
(* the end of the pass: FinalizeScheduling, TruncateInstanceTypes, ToNodeClaim / CreateNodeClaims *)
MechPrice(c, n) ==
    LET it == TypeByName(cfg, n)
        P == {it.offerings[i].price : i \in {j \in DOMAIN it.offerings : (wk = "rankUnavailable" \/ it.offerings[j].available) /\ OffCompat(it.offerings[j], c.reqs)}}
    IN IF P = {} THEN Inf ELSE IF wk = "rankDearest" THEN MaxOf(P) ELSE MinOf(P)
ByPrice(c, s) == SortSeq(s, LAMBDA x, y : MechPrice(c, x) < MechPrice(c, y))
Cut(s) == SubSeq(s, 1, Min2(Len(s), MaxTypes(cfg)))
Emitted(c) == IF wk = "truncFirst" THEN ByPrice(c, Cut(c.its)) ELSE Cut(ByPrice(c, c.its))
\* Truncate fails (the NodeClaim is dropped, its pods get an error) when the truncated list breaks a floor under the strict policy
\* (weak "truncMin": validates the untruncated list; weak "truncMinOrder": accepts when the floors are reached within the first
\* MaxInstanceTypes options in PROVIDER order - and then sends the cheapest ones)
ReachedEarly(c) == \E n \in 0..Min2(Len(c.its), MaxTypes(cfg)) : Floor(QOf(c.pool), {TypeByName(cfg, c.its[i]) : i \in 1..n})
Sent(c) == IF wk = "truncMinOrder" THEN ReachedEarly(c)
           ELSE Floor(QOf(c.pool), {TypeByName(cfg, n) : n \in Range(IF wk = "truncMin" THEN c.its ELSE Emitted(c))})
MinOverhead(c) == MinRes({pre.ovh[c.pool][n] : n \in Range(c.its)})
MechRequests(c) ==
    LET pods == SumReq(OrigPods(c.pods))
        ov == MinOverhead(c) IN
    IF wk \in {"ovhNone", "noFinalize"} THEN pods
    ELSE IF wk = "ovhPerPod" THEN [cpu |-> pods.cpu + Len(c.pods) * ov.cpu, mem |-> pods.mem + Len(c.pods) * ov.mem, pods |-> pods.pods + Len(c.pods) * ov.pods]
    ELSE AddRes(pods, ov)
HashOf(q) == "hash-of-" \o q.name
NcKey == "karpenter.test.sh/testnodeclass"
Created(c) ==
    LET q == QOf(c.pool)
        lbl == [k \in DOMAIN q.labels \cup {"pool"} |-> IF k = "pool" THEN q.name ELSE q.labels[k]]
        all == IF wk = "simKeys" THEN (NcKey :> "default") @@ ("karpenter.sh/registered" :> "true") ELSE (NcKey :> "default")
    IN [e |-> "Created", idx |-> c.idx, name |-> "nc", pool |-> q.name,
        reqs |-> <<[key |-> "it", op |-> "In", vals |-> Emitted(c), min |-> -1]>>
                 \o (IF wk = "noFinalize" THEN <<[key |-> "host", op |-> "In", vals |-> <<"hostname-placeholder-0001">>, min |-> -1]>> ELSE <<>>),
        requests |-> MechRequests(c), labels |-> lbl, allLabels |-> all,
        \* (weak "hashSecond": building a template pollutes the pool object's label map, every later template hashes the polluted object)
        annotations |-> (HashKey :> (IF wk = "staleHash" /\ q.hashAnn # "" THEN q.hashAnn
                                     ELSE IF wk = "hashSecond" /\ q.labels # <<>> /\ (\E j \in 1..c.idx : claims[j].pool = c.pool) THEN "hash-of-polluted-" \o q.name
                                     ELSE HashOf(q))) @@ (HashVersionKey :> "v3"),
        taints |-> q.taints, startup |-> (IF wk = "noStartup" THEN <<>> ELSE q.startup),
        expHash |-> HashOf(q), expHashVersion |-> "v3", ncKey |-> NcKey, ncVal |-> "default"]
Judge(c) ==
    LET q == QOf(c.pool)
        cr == Created(c) IN
    IF ~Sent(c) THEN ""
    ELSE IF ~G_C19_CheapestPrefix(cfg, c, c.its, Emitted(c)) THEN "G_C19_CheapestPrefix"
    ELSE IF ~G_C13_TypesSubsetMinValues(cfg, q, c.its, cr) THEN "G_C13_TypesSubsetMinValues"
    ELSE IF ~G_C13_Requests(cfg, q, c, c.its, cr) THEN "G_C13_Requests"
    ELSE IF ~G_C13_Template(q, cr) THEN "G_C13_Template"
    ELSE ""
RECURSIVE FirstBad(_)
FirstBad(i) == IF i > Len(claims) THEN "" ELSE IF Judge(claims[i]) # "" THEN Judge(claims[i]) ELSE FirstBad(i + 1)
Emit ==
    /\ bad = "" /\ Pending = {} /\ \E k \in Batch : state[k] # "emitted"
    /\ bad' = (IF bad # "" THEN bad ELSE FirstBad(1))
    /\ state' = [k \in Batch |-> "emitted"]
    /\ UNCHANGED <<cfg, wk, pre, order, eff, left, oleft, claims>>

\* a broken guard ends the behaviour (bad = "" in every action; the invariants report it)
Next ==
    \/ \E k \in Pending : LET ok == OkIdx(k) IN OpenNew(k, ok) \/ Relax(k, ok) \/ Fail(k, ok) \/ \E i \in DOMAIN claims : Join(k, i)
    \/ Emit
Spec == Init /\ [][Next]_vars
\* the same next-state relation with one named disjunct per action (TLC's -coverage reports per disjunct; the LET above shares the
\* template evaluation between the actions of a pod, which TLC does not memoise)
NextCov ==
    \/ \E k \in Pending : OpenNew(k, OkIdx(k))
    \/ \E k \in Pending : Relax(k, OkIdx(k))
    \/ \E k \in Pending : Fail(k, OkIdx(k))
    \/ \E k \in Pending : \E i \in DOMAIN claims : Join(k, i)
    \/ Emit
SpecCov == Init /\ [][NextCov]_vars

\* scenario generation: the initial states, printed as JSON
GenSpec == Init /\ [][FALSE]_vars
GenPrint == order # (CHOOSE s \in Orders : TRUE) \/ PrintT(<<"BEH", ToJson(cfg)>>)

----------------------------------------------------------------------------
(* invariants: the oracle of WeightsGuards at every commitment *)
Inv_C19_HighestWeightFeasible == bad # "G_C19_HighestWeightFeasible"
Inv_C19_CheapestPrefix == bad # "G_C19_CheapestPrefix"
Inv_C13_TypesSubsetMinValues == bad # "G_C13_TypesSubsetMinValues"
Inv_C13_Requests == bad # "G_C13_Requests"
Inv_C13_Template == bad # "G_C13_Template"
\* one TLC run for every spec mutation (Weak = "*"): prints the weakened rules under which a guard broke
WeakDetect == bad = "" \/ PrintT(<<"REJ", wk, bad>>)
\* reachability (vacuity): TLC must FIND a fallback to a lighter pool / a real truncation / a failed pod
Reach_NoFallback == ~\E i \in DOMAIN claims : \E q \in Range(cfg.pools) : PoolUsable(q) /\ q.weight > QOf(claims[i].pool).weight
Reach_NoTruncation == ~(\E k \in Batch : state[k] = "emitted") \/ ~\E i \in DOMAIN claims : Sent(claims[i]) /\ Len(Emitted(claims[i])) < Len(claims[i].its)
Reach_NoFailure == ~\E k \in Batch : state[k] = "failed"
ReachDetect == /\ (Reach_NoFallback \/ claims = <<>> \/ state[claims[Len(claims)].pods[Len(claims[Len(claims)].pods)]] = "emitted" \/ PrintT(<<"REACH", "fallback">>))
               /\ (Reach_NoTruncation \/ PrintT(<<"REACH", "truncation">>))
               /\ (Reach_NoFailure \/ (\E k \in Batch : state[k] = "emitted") \/ PrintT(<<"REACH", "failure">>))
=============================================================================
