\* spec mutation (W_Release = FALSE), observable consequence: a pod is deferred although no compatible reservation is exhausted - TLC must violate Inv_C17_DeferJustified
CONSTANTS NPods = 3  PodArchs = {1,3,4}  Layouts = {1}  Caps = {1}  PoolSets = {4}  Modes = {"strict"}  GenMod = 1  GenRes = 0
CONSTANTS W_CanReserve = TRUE  W_Release = FALSE  W_PinAll = TRUE  W_Strict = TRUE  W_KeepHeld = TRUE  W_PoolOrder = TRUE
SPECIFICATION Spec
INVARIANTS Inv_C17_ReservationCapacity Inv_C17_DeferJustified
