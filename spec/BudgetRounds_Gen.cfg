\* behaviour generation by TLC simulation: random behaviours of the closed model (history h)
CONSTANTS Rounding = "up"  WindowEnd = "open"  EmptyReasons = "all"  Variant = "ok"  MaxLen = 14
CONSTANTS N <- MC_N  PoolOf <- MC_PoolOf  KindOf <- MC_KindOf  InitPhase <- MC_InitPhase  Pools <- MC_Pools
          BudgetsOf <- MC_BudgetsOf  EnvOf <- MC_EnvAll  MaxRounds = 6
          Marks <- MC_Marks  T0 <- MC_T0  MaxT <- MC_MaxT
SPECIFICATION GenSpec
INVARIANTS GenPrint
