-------------------------- MODULE MultiPassGuards --------------------------
(***************************************************************************)
(* Variable-free definitions shared by the closed model MultiPass.tla and  *)
(* the trace specification MultiPass_Trace.tla (property C04 and the       *)
(* dynamic-limits half of C03).  Record shapes: spec/MULTIPASS_TRACE.md -  *)
(* `cfg` is the scenario of the multi-pass driver (the sched scenario plus *)
(* `later` pods), a NODE record is the ground truth of one NodeClaim as    *)
(* assembled from the API and the provider's instance table:               *)
(*   [claim, opener, pool, launched, deleting, marked, type, off (0-based  *)
(*    offering index), nodeExists, registered, initialized, nodeTaints      *)
(*    (taints on the Node object), taints (NodeClaim.spec.taints), startup, *)
(*    labels, bound (keys of the pods bound to its node), daemons (names of *)
(*    the daemonsets with a pod on it)].                                    *)
(*                                                                         *)
(* The oracle is written from Kubernetes semantics and the statements, not  *)
(* from Karpenter's code: what a node offers is the allocatable of the     *)
(* (instance type, offering) it was LAUNCHED as - looked up in the         *)
(* scenario's catalog, never the NodeClaim's or the Node's status -, what   *)
(* it carries are the pods bound to it, the pods this pass already put     *)
(* there and the daemonsets that belong on it but have no pod there yet;   *)
(* until it is initialized only its persistent taints count.  Capacity of  *)
(* a pool = the catalog capacity of what its not-deleting nodes were       *)
(* launched as, one `nodes` unit each.                                     *)
(***************************************************************************)
EXTENDS SchedulingGuards

AllPods(cfg) == Range(cfg.pods) \cup Range(cfg.later)
KnownPodMP(cfg, k) == \E p \in AllPods(cfg) : PKey(p) = k
PodOf(cfg, k) == CHOOSE p \in AllPods(cfg) : PKey(p) = k
KnownPool(cfg, n) == \E p \in Range(cfg.pools) : p.name = n
PoolOf(cfg, n) == CHOOSE p \in Range(cfg.pools) : p.name = n
DsOf(cfg, n) == CHOOSE d \in Range(cfg.ds) : d.name = n

\* uniform request records (pods and daemonsets have different shapes)
RQ(k, c, m) == [k |-> k, cpu |-> c, mem |-> m]
PodRQ(cfg, keys) == {RQ(k, PodOf(cfg, k).cpu, PodOf(cfg, k).mem) : k \in {x \in keys : KnownPodMP(cfg, x)}}
DsRQ(D) == {RQ("ds:" \o d.name, d.cpu, d.mem) : d \in D}

(* A pod the C04 guard speaks about: it neither carries nor is targeted by  *)
(* inter-pod constraints and has no preferences.  "Targeted" is decided     *)
(* conservatively: no pod of the scenario carries an inter-pod constraint.  *)
NoInterPod(p) == p.aff = <<>> /\ p.anti = <<>> /\ p.prefAff = <<>> /\ p.prefAnti = <<>> /\ p.spread = <<>>
Simple(cfg, p) == p.pref = <<>> /\ \A q \in AllPods(cfg) : NoInterPod(q)
(* ... and for which admissibility is modelled EXACTLY (the guard runs the  *)
(* predicate in the converse direction, DESIGN 2.5): requests, tolerations, *)
(* node selector / required terms on labels every node carries; no host     *)
(* ports, no volumes.                                                       *)
Exact(cfg, p) == Simple(cfg, p) /\ p.ports = <<>> /\ p.vols = <<>> /\ p.owner # "node" /\ ~(\E d \in Range(cfg.ds) : d.ports # <<>>)

----------------------------------------------------------------------------
(* what a launched node is *)
HasType(cfg, n) == n.launched /\ KnownType(cfg, n.type) /\ n.off >= 0 /\ n.off < Len(TypeByName(cfg, n.type).offerings)
NType(cfg, n) == TypeByName(cfg, n.type)
NOff(cfg, n) == NType(cfg, n).offerings[n.off + 1]
TruthAlloc(cfg, n) == OfferingAlloc(NType(cfg, n), NOff(cfg, n))
Cap(t, o) == [cpu |-> IF o.cpuOv > 0 THEN o.cpuOv ELSE t.cpu, mem |-> IF o.memOv > 0 THEN o.memOv ELSE t.mem, nodes |-> 1]
BaseCap(t, o) == [cpu |-> t.cpu, mem |-> t.mem, nodes |-> 1]
TruthCap(cfg, n) == Cap(NType(cfg, n), NOff(cfg, n))
Stage(n) == IF ~n.launched THEN "created" ELSE IF n.initialized THEN "initialized" ELSE IF n.registered THEN "registered"
            ELSE IF n.nodeExists THEN "appeared" ELSE "launched"
Alive(n) == n.launched /\ ~n.marked /\ ~n.deleting
\* labels the node carries / will carry: logged from the instance the provider created (type, offering, pool, template labels)
NLabels(n) == [k \in DOMAIN n.labels \cup {"host"} |-> IF k = "host" THEN (IF n.nodeExists THEN n.node ELSE n.claim) ELSE n.labels[k]]
\* taints that count: an initialized node shows what is on the Node object; before that only the persistent taints of the
\* NodeClaim count (startup taints and the known ephemeral ones are expected to go away)
MPEffTaints(n) == IF n.initialized THEN n.nodeTaints ELSE n.taints
\* daemonsets that belong on the node and have no pod there yet
Outstanding(cfg, n) == {d \in Range(cfg.ds) : DaemonRuns(cfg, d, NLabels(n), MPEffTaints(n)) /\ ~(\E x \in Range(n.daemons) : x = d.name)}
Running(cfg, n) == {d \in Range(cfg.ds) : \E x \in Range(n.daemons) : x = d.name}
\* everything that is assigned to the node: bound pods, the pods this pass put there, running and outstanding daemons
NodeLoad(cfg, n, placed) == SumReq(PodRQ(cfg, Range(n.bound) \cup placed) \cup DsRQ(Running(cfg, n) \cup Outstanding(cfg, n)))
PodRes(p) == [cpu |-> p.cpu, mem |-> p.mem, pods |-> 1]

NodeParts(cfg, n, placed, p) ==
    [ alive  |-> Alive(n) /\ HasType(cfg, n),
      labels |-> OrigRequired(cfg, p, NLabels(n)),
      taints |-> TaintsTolerated(p.tol, MPEffTaints(n)),
      fit    |-> HasType(cfg, n) /\ LeqRes(AddRes(NodeLoad(cfg, n, placed \ {PKey(p)}), PodRes(p)), TruthAlloc(cfg, n)) ]
(* could node n admit pod p alongside what is already assigned there? *)
AdmitsNode(cfg, n, placed, p) == LET x == NodeParts(cfg, n, placed, p) IN x.alive /\ x.labels /\ x.taints /\ x.fit

----------------------------------------------------------------------------
(* a NodeClaim of THIS pass: c = [target, pool, pods (keys), its (names)]   *)
PoolAdmits(pool, t, o) ==
    \A i \in DOMAIN pool.reqs :
        LET r == pool.reqs[i]
            v == CASE r.key = "zone" -> o.zone [] r.key = "ct" -> o.ct [] r.key = "it" -> t.name
                   [] OTHER -> IF r.key \in DOMAIN t.labels THEN t.labels[r.key] ELSE Absent
        IN CASE r.op = "In" -> v \in Range(r.vals) [] r.op = "NotIn" -> v \notin Range(r.vals) [] OTHER -> TRUE
LaunchLabels(pool, t, o) ==
    [k \in {"zone", "ct", "it", "pool"} \cup DOMAIN t.labels \cup DOMAIN pool.labels |->
        CASE k = "zone" -> o.zone [] k = "ct" -> o.ct [] k = "it" -> t.name [] k = "pool" -> pool.name
          [] OTHER -> IF k \in DOMAIN pool.labels THEN pool.labels[k] ELSE t.labels[k]]
PoolDaemons(cfg, pool, t, o) == {d \in Range(cfg.ds) : DaemonRuns(cfg, d, LaunchLabels(pool, t, o), pool.taints)}
OptionHosts(cfg, pool, t, o, keys) ==
    /\ o.available /\ PoolAdmits(pool, t, o)
    /\ \A k \in keys : OrigRequired(cfg, PodOf(cfg, k), LaunchLabels(pool, t, o))
    /\ LeqRes(SumReq(PodRQ(cfg, keys) \cup DsRQ(PoolDaemons(cfg, pool, t, o))), OfferingAlloc(t, o))
AdmitsClaim(cfg, c, p) ==
    /\ KnownPool(cfg, c.pool)
    /\ LET pool == PoolOf(cfg, c.pool) IN
       /\ TaintsTolerated(p.tol, pool.taints)
       /\ \E tn \in Range(c.its) : KnownType(cfg, tn) /\
             LET t == TypeByName(cfg, tn) IN
             \E i \in DOMAIN t.offerings : OptionHosts(cfg, pool, t, t.offerings[i], Range(c.pods) \cup {PKey(p)})

----------------------------------------------------------------------------
(* C04 *)
(* New capacity is opened for p only if no existing node, no in-flight      *)
(* NodeClaim and no NodeClaim opened earlier in this pass could admit it    *)
(* alongside what is already assigned there.  nodes = ground truth at the   *)
(* start of the pass, placed = {[t, p]} commitments of this pass to         *)
(* existing targets, opens = NodeClaims of this pass before this one.       *)
PlacedOn(placed, claim) == {x.p : x \in {y \in placed : y.t = claim}}
G_C04_OpenOnlyIfNoneAdmits(cfg, nodes, placed, opens, p) ==
    /\ \A i \in DOMAIN nodes : ~AdmitsNode(cfg, nodes[i], PlacedOn(placed, nodes[i].claim), p)
    /\ \A j \in DOMAIN opens : ~AdmitsClaim(cfg, opens[j], p)
SigOpen(cfg, nodes, placed, opens, p) ==
    IF \E i \in DOMAIN nodes : AdmitsNode(cfg, nodes[i], PlacedOn(placed, nodes[i].claim), p)
    THEN LET i == CHOOSE j \in DOMAIN nodes : AdmitsNode(cfg, nodes[j], PlacedOn(placed, nodes[j].claim), p)
             n == nodes[i] IN
         "admitted-by:" \o Stage(n)
           \o (IF Running(cfg, n) # {} THEN ":daemon-running" ELSE "")
           \o (IF ~n.initialized /\ n.nodeExists /\ Range(n.nodeTaints) # Range(n.taints) THEN ":startup-or-ephemeral-taint-present" ELSE "")
           \o (IF Range(n.bound) # {} THEN ":pods-bound" ELSE "")
    ELSE "admitted-by:claim-of-this-pass"

(* An in-flight NodeClaim counts with the allocatable of the instance type  *)
(* it was launched as: what a pass commits to a not yet initialized node    *)
(* must fit that allocatable together with everything assigned there.       *)
G_C04_InflightCountsLaunchedAllocatable(cfg, n, placed) ==
    HasType(cfg, n) /\ LeqRes(NodeLoad(cfg, n, placed), TruthAlloc(cfg, n))
\* nodes marked for deletion (or being deleted) are not counted as capacity
G_C04_MarkedNotCapacity(n) == ~n.marked /\ ~n.deleting
\* no scheduling pass runs while a NodeClaim Karpenter created has not been launched
G_C04_PassOnlyWhenSynced(nodes) == \A i \in DOMAIN nodes : nodes[i].launched \/ nodes[i].deleting
Unlaunched(nodes) == {i \in DOMAIN nodes : ~nodes[i].launched /\ ~nodes[i].deleting}

----------------------------------------------------------------------------
(* C03, dynamic pools.  Limits / usage records: [cpu, mem, nodes], -1 = no  *)
(* limit on that resource.                                                  *)
Zero3 == [cpu |-> 0, mem |-> 0, nodes |-> 0]
Add3(a, b) == [cpu |-> a.cpu + b.cpu, mem |-> a.mem + b.mem, nodes |-> a.nodes + b.nodes]
Max3(a, b) == [cpu |-> IF a.cpu > b.cpu THEN a.cpu ELSE b.cpu, mem |-> IF a.mem > b.mem THEN a.mem ELSE b.mem,
               nodes |-> IF a.nodes > b.nodes THEN a.nodes ELSE b.nodes]
RECURSIVE SumSeq3(_), MaxSeq3(_)
SumSeq3(s) == IF s = <<>> THEN Zero3 ELSE Add3(Head(s), SumSeq3(Tail(s)))
MaxSeq3(s) == IF s = <<>> THEN Zero3 ELSE Max3(Head(s), MaxSeq3(Tail(s)))
Within(lim, x) == (lim.cpu < 0 \/ x.cpu <= lim.cpu) /\ (lim.mem < 0 \/ x.mem <= lim.mem) /\ (lim.nodes < 0 \/ x.nodes <= lim.nodes)
Over(lim, x) == (IF lim.cpu >= 0 /\ x.cpu > lim.cpu THEN "cpu" ELSE "") \o (IF lim.mem >= 0 /\ x.mem > lim.mem THEN "mem" ELSE "")
                \o (IF lim.nodes >= 0 /\ x.nodes > lim.nodes THEN "nodes" ELSE "")
\* the pool's nodes that are not being deleted (launched: a NodeClaim without an instance has no capacity yet)
Counted(n, pool) == n.pool = pool /\ Alive(n)
PoolUsage(cfg, nodes, pool, capOf(_, _)) ==
    SumSeq3([i \in DOMAIN nodes |-> IF Counted(nodes[i], pool) /\ HasType(cfg, nodes[i]) THEN capOf(NType(cfg, nodes[i]), NOff(cfg, nodes[i])) ELSE Zero3])
(* Witness classes of a limit overshoot (one entry per resource, so that a  *)
(* different failure of the same property gets a different signature):      *)
(* x = the total, xb = the same total computed with BASE capacities         *)
(* (capacity overrides of offerings ignored), nodes1 = the node count if    *)
(* the NodeClaims stored by one and the same pass counted once.             *)
OverSigs(lim, x, xb, nodes1) ==
       (IF lim.cpu >= 0 /\ x.cpu > lim.cpu THEN <<IF xb.cpu <= lim.cpu THEN "cpu:capacity-override-offering" ELSE "cpu">> ELSE <<>>)
    \o (IF lim.mem >= 0 /\ x.mem > lim.mem THEN <<IF xb.mem <= lim.mem THEN "mem:capacity-override-offering" ELSE "mem">> ELSE <<>>)
    \o (IF lim.nodes >= 0 /\ x.nodes > lim.nodes THEN <<IF nodes1 <= lim.nodes THEN "nodes:several-nodeclaims-in-one-pass" ELSE "nodes">> ELSE <<>>)

(* Inv_C03_PoolCapacity (PoolCapacityOK): the total capacity of the pool's  *)
(* nodes that are not being deleted is within the pool's limits.            *)
PoolCapacityOK(cfg, nodes, pool, lim) == Within(lim, PoolUsage(cfg, nodes, pool, Cap))
\* passOf = {[claim, pass]}: the pass that stored each NodeClaim (ghost); nodes of unknown origin count one each
CountedIdx(cfg, nodes, pool) == {i \in DOMAIN nodes : Counted(nodes[i], pool) /\ HasType(cfg, nodes[i])}
OriginOf(passOf, n) == IF \E x \in passOf : x.claim = n.claim THEN <<"pass", (CHOOSE x \in passOf : x.claim = n.claim).pass>> ELSE <<"claim", n.claim>>
Nodes1(cfg, nodes, pool, passOf) == Cardinality({OriginOf(passOf, nodes[i]) : i \in CountedIdx(cfg, nodes, pool)})
SigsCapacity(cfg, nodes, pool, lim, passOf) ==
    OverSigs(lim, PoolUsage(cfg, nodes, pool, Cap), PoolUsage(cfg, nodes, pool, BaseCap), Nodes1(cfg, nodes, pool, passOf))

(* G_C03_OpenWithinLimits: when a pass stores its NodeClaims, usage plus    *)
(* the WORST launch choice of every NodeClaim that has no instance yet      *)
(* (opts = the permitted (type, offering) options the provider may pick)    *)
(* stays within the limits - for each resource separately, because the      *)
(* provider chooses per NodeClaim.  pending = sequence of opts sequences.    *)
OptCap(cfg, o, capOf(_, _)) == IF KnownType(cfg, o.type) /\ o.off >= 0 /\ o.off < Len(TypeByName(cfg, o.type).offerings)
                                THEN capOf(TypeByName(cfg, o.type), TypeByName(cfg, o.type).offerings[o.off + 1]) ELSE Zero3
WorstOf(cfg, opts, capOf(_, _)) == MaxSeq3([i \in DOMAIN opts |-> OptCap(cfg, opts[i], capOf)])
WorstTotal(cfg, nodes, pool, pending, capOf(_, _)) ==
    Add3(PoolUsage(cfg, nodes, pool, capOf), SumSeq3([i \in DOMAIN pending |-> WorstOf(cfg, pending[i], capOf)]))
G_C03_OpenWithinLimits(cfg, nodes, pool, lim, pending) == Within(lim, WorstTotal(cfg, nodes, pool, pending, Cap))
SigsWithin(cfg, nodes, pool, lim, pending) ==
    OverSigs(lim, WorstTotal(cfg, nodes, pool, pending, Cap), WorstTotal(cfg, nodes, pool, pending, BaseCap),
             PoolUsage(cfg, nodes, pool, Cap).nodes + (IF pending = <<>> THEN 0 ELSE 1))
\* G_C03_CreateUnderLimit: no NodeClaim is stored for a pool whose usage already exceeds a limit
G_C03_CreateUnderLimit(cfg, nodes, pool, lim) == Within(lim, PoolUsage(cfg, nodes, pool, Cap))
=============================================================================
