----------------------------- MODULE ClusterState -----------------------------
(***************************************************************************)
(* Karpenter's in-memory cluster state (pkg/controllers/state) against the *)
(* API as ground truth - property C11.                                     *)
(*                                                                         *)
(*   api    the API objects (Nodes, NodeClaims, Pods), mutated only by the *)
(*          environment (E-actions below);                                 *)
(*   pend   level-triggered reconcile requests: a delivery hands the       *)
(*          informer controller the object's CURRENT API version or its    *)
(*          absence; deliveries happen in any order and may be repeated    *)
(*          (Redeliver = the 1-minute requeue of every state controller);  *)
(*   C      the cache as state.Cluster keeps it, one operator per update   *)
(*          path of cluster.go / statenode.go / statenodepool.go:          *)
(*            cn    nodes[providerID] -> StateNode (Node, NodeClaim, the   *)
(*                  per-pod maps as pod key -> recorded shape, the volume  *)
(*                  union, markedForDeletion)                              *)
(*            bind  bindings, n2p nodeNameToProviderID,                    *)
(*            c2p   nodeClaimNameToProviderID ("-" absent, "" unlaunched)  *)
(*            pool  nodePoolResources, act/dl/cpm NodePoolState            *)
(*   marks  ghost: the provider ids explicitly marked for deletion         *)
(*   seed   NodeClaims created by the provisioner whose post-create        *)
(*          `cluster.UpdateNodeClaim(created object)` has not landed yet   *)
(*          (Seed); state.nodeclaimgc (a one-shot delivery "ClaimGC" per   *)
(*          created NodeClaim, after the seed) heals an entry seeded for a *)
(*          NodeClaim that is already gone                                 *)
(*                                                                         *)
(* Invariant (per field): pend = {} => view(C) = F(api, marks).            *)
(*                                                                         *)
(* `Defects` selects where the model follows the pinned tree instead of    *)
(* the repaired design:                                                    *)
(*   "costCarry"   newStateFromNodeClaim does not carry podDisruptionCosts *)
(*   "nodeGone"    cleanupNode keeps the pod usage of a StateNode whose    *)
(*                 Node disappeared while its NodeClaim remains            *)
(*   "podUnbound"  UpdatePod ignores an unbound pod although a binding of  *)
(*                 the same name (a deleted predecessor) is still tracked  *)
(*   "volUnion"    VolumeUsage.Add only unions a pod's volumes in, keeping *)
(*                 what the same pod key contributed before                *)
(*   "dsKept"      updateForPod keeps the daemonSetRequests entry of a pod *)
(*                 key that is no longer daemonset-owned, and the          *)
(*                 podDisruptionCosts entry of one that became so          *)
(* and, as pure spec mutations for the vacuity check (X_Weak*.cfg):        *)
(*   "skipOldBindings" cleanupOldBindings omitted                          *)
(*   "hpCarry"         newStateFromNodeClaim drops hostPortUsage           *)
(*   "markCarry"       newStateFromNode drops markedForDeletion            *)
(*   "poolOnPid"       cleanupNode forgets updateNodePoolResources         *)
(*   "noGC"            state.nodeclaimgc does not heal stale seeds         *)
(*   "lateRead"        newStateFromNode reads the CSINode after it updated *)
(*                     the pool totals: a failed, retried delivery counts  *)
(*                     the delta twice                                     *)
(***************************************************************************)
EXTENDS ClusterStateF, TLC, Json

CONSTANTS NodeNames, ClaimNames, PodKeys, Pids, Pools,
          Defects,      \* see above
          MaxMut,       \* bound on environment mutations (closed-model checking)
          MaxDup,       \* bound on repeated deliveries
          MaxLen,       \* generator: length of printed histories
          WithTerm,     \* environment may set InstanceTerminating on a NodeClaim
          WithRestart,  \* Karpenter may restart (empty cache, every object delivered again)
          PodShapes,    \* shapes the environment may give a pod: a subset of {"std", "alt", "bare"}
          Start,        \* "empty", or "full": Node n1/i1 + NodeClaim c1/i1 + pods p1, p2 on n1, all observed
          MaxFail,      \* bound on deliveries that fail at one of their API reads and are retried
          MaxPend       \* generator bias: with this many deliveries outstanding the environment waits for quiescence

VARIABLES api, pend, C, marks, own, gone, seed, nm, nd, nf, ph, h
vars == <<api, pend, C, marks, own, gone, seed, nm, nd, nf, ph, h>>
view == <<api, pend, C, marks, own, gone, seed, nm, nd, nf, ph>>

Keys == Pids \cup NodeNames

\* ---------------------------------------------------------------- pod shapes (by key)
\* A pod name can be (re-)created with its standard or its alternative shape (other requests, volume, deletion
\* cost): "pods recreated under the same name" need not be identical.
Shapes == {"std", "alt", "bare"}
StdAttr == [p \in PodKeys |->
    CASE p = "p1" -> [ds |-> FALSE, cpu |-> 100, mem |-> 64, port |-> "80", vol |-> "va", delCost |-> 134217728, prio |-> 0]
      [] p = "p2" -> [ds |-> TRUE, cpu |-> 50, mem |-> 32, port |-> "-", vol |-> "-", delCost |-> 0, prio |-> 0]
      [] p = "p3" -> [ds |-> FALSE, cpu |-> 200, mem |-> 0, port |-> "81", vol |-> "va", delCost |-> 0 - 268435456, prio |-> 0]
      [] OTHER -> [ds |-> FALSE, cpu |-> 300, mem |-> 128, port |-> "-", vol |-> "vb", delCost |-> 0, prio |-> 33554432]]
AltVol(v) == IF v = "va" THEN "vb" ELSE "va"
\* alt: other requests, another host port, the other volume, another deletion cost
\* bare: no host port, no volume, no deletion cost / priority, other requests, the opposite daemonset ownership
PodAttr == [p \in PodKeys |-> [sh \in Shapes |->
    IF sh = "std" THEN StdAttr[p]
    ELSE IF sh = "alt" THEN [StdAttr[p] EXCEPT !.cpu = @ + 10, !.port = "82", !.vol = AltVol(@), !.delCost = 268435456]
    ELSE [ds |-> ~StdAttr[p].ds, cpu |-> StdAttr[p].cpu + 20, mem |-> 0, port |-> "-", vol |-> "-", delCost |-> 0, prio |-> 0]]]
ShapeOfRec(rec) == IF rec.cpu = StdAttr[rec.name].cpu THEN "std" ELSE IF rec.cpu = StdAttr[rec.name].cpu + 10 THEN "alt" ELSE "bare"
NodeCap0 == [cpu |-> 3900, mem |-> 0]      \* what the kubelet reports at registration
NodeCap1 == [cpu |-> 3900, mem |-> 8000]   \* ... once initialized
ClaimCap == [cpu |-> 4000, mem |-> 8192]   \* the NodeClaim's promise

MkNode(n, pid, pl) == [ex |-> TRUE, name |-> n, pid |-> pid, pool |-> pl, reg |-> FALSE, init |-> FALSE, del |-> FALSE,
                       cap |-> NodeCap0, rv |-> 0]
MkClaim(c, pl) == [ex |-> TRUE, name |-> c, pid |-> "", pool |-> pl, del |-> FALSE, term |-> FALSE, cap |-> ClaimCap, rv |-> 0]
MkPod(p, n, sh) == LET a == PodAttr[p][sh] IN
    [ex |-> TRUE, name |-> p, node |-> n, term |-> FALSE, ds |-> a.ds, cpu |-> a.cpu, mem |-> a.mem, port |-> a.port,
     vol |-> a.vol, delCost |-> a.delCost, prio |-> a.prio, rv |-> 0]

\* ---------------------------------------------------------------- the cache
\* the per-pod maps of a StateNode (podRequests, daemonSetRequests, podDisruptionCosts, hostPortUsage.reserved,
\* volumeUsage.podVolumes): pod key -> the shape recorded for it ("none" = no entry); volu = volumeUsage.volumes
NoPods == [p \in PodKeys |-> "none"]
NewSN == [ex |-> FALSE, node |-> NoNode, claim |-> NoClaim, req |-> NoPods, dreq |-> NoPods, cost |-> NoPods, hp |-> NoPods,
          vol |-> NoPods, volu |-> {}, marked |-> FALSE]
ZeroTot == [cpu |-> 0, mem |-> 0, nodes |-> 0]
C0 == [cn |-> [k \in Keys |-> NewSN], bind |-> [p \in PodKeys |-> "-"], n2p |-> [n \in NodeNames |-> "-"],
       c2p |-> [c \in ClaimNames |-> "-"], pool |-> [pl \in Pools |-> ZeroTot],
       act |-> [pl \in Pools |-> {}], dl |-> [pl \in Pools |-> {}], cpm |-> [c \in ClaimNames |-> "-"], panic |-> FALSE]

SNMarked(s) == s.marked \/ PDeleted(s.node, s.claim)                    \* StateNode.MarkedForDeletion
SNRes(s) == IF ~(s.node.ex \/ s.claim.ex) \/ SNMarked(s) THEN ZeroTot   \* Capacity() + 1 node unless marked
            ELSE LET cp == PCap(s.node, s.claim) IN [cpu |-> cp.cpu, mem |-> cp.mem, nodes |-> 1]
SNPool(s) == IF s.node.ex \/ s.claim.ex THEN PPool(s.node, s.claim) ELSE ""
TotAdd(a, b) == [cpu |-> a.cpu + b.cpu, mem |-> a.mem + b.mem, nodes |-> a.nodes + b.nodes]
TotSub(a, b) == [cpu |-> a.cpu - b.cpu, mem |-> a.mem - b.mem, nodes |-> a.nodes - b.nodes]

\* Cluster.updateNodePoolResources(old, new)
PoolUpd(c, old, new) ==
    LET p1 == IF SNPool(old) \in Pools THEN [c.pool EXCEPT ![SNPool(old)] = TotSub(@, SNRes(old))] ELSE c.pool
        p2 == IF SNPool(new) \in Pools THEN [p1 EXCEPT ![SNPool(new)] = TotAdd(@, SNRes(new))] ELSE p1
    IN [c EXCEPT !.pool = p2]

VolNames(p, sh) == {PodAttr[p][sh].vol} \ {"-"}
VolsOfMap(m) == UNION {VolNames(p, m[p]) : p \in {q \in PodKeys : m[q] # "none"}}
\* StateNode.updateForPod(pod of shape sh) / cleanupForPod
UpdateForPod(s, p, sh) ==
    LET a == PodAttr[p][sh]
        vol2 == [s.vol EXCEPT ![p] = sh]
        other == IF "dsKept" \in Defects THEN "keep" ELSE "none"     \* the map a pod of this ownership does not belong to
    IN [s EXCEPT !.req[p] = sh, !.dreq[p] = IF a.ds THEN sh ELSE (IF other = "keep" THEN @ ELSE "none"),
                 !.cost[p] = IF a.ds THEN (IF other = "keep" THEN @ ELSE "none") ELSE IF EvCost(a) > 0 THEN sh ELSE "none",
                 !.hp[p] = sh, !.vol = vol2,
                 \* VolumeUsage.Add: the pinned tree only unions the new volumes in
                 !.volu = IF "volUnion" \in Defects THEN @ \cup VolNames(p, sh) ELSE VolsOfMap(vol2)]
DropPods(s, R) ==       \* cleanupForPod for every pod of R (VolumeUsage.DeletePod recomputes the union)
    LET cut(m) == [p \in PodKeys |-> IF p \in R THEN "none" ELSE m[p]]
    IN IF R = {} THEN s
       ELSE [s EXCEPT !.req = cut(@), !.dreq = cut(@), !.cost = cut(@), !.hp = cut(@), !.vol = cut(@), !.volu = VolsOfMap(cut(s.vol))]
CleanupForPod(s, p) == DropPods(s, {p})
NoUsage(s) == [s EXCEPT !.req = NoPods, !.dreq = NoPods, !.cost = NoPods, !.hp = NoPods, !.vol = NoPods, !.volu = {}]

\* Cluster.cleanupOldBindings(pod) for a pod now bound to node nn
CleanupOldBindings(c, p, nn) ==
    IF c.bind[p] = "-" \/ c.bind[p] = nn \/ "skipOldBindings" \in Defects THEN c
    ELSE LET k == c.n2p[c.bind[p]]
         IN IF k # "-" /\ c.cn[k].ex THEN [c EXCEPT !.cn[k] = CleanupForPod(@, p), !.bind[p] = "-"] ELSE c

\* NodePoolState.Cleanup(claim)
PoolStateCleanup(c, name) ==
    LET pl == c.cpm[name]
    IN IF pl = "-" THEN c
       ELSE [c EXCEPT !.act[pl] = @ \ {name}, !.dl[pl] = @ \ {name}, !.cpm[name] = "-"]

\* Cluster.cleanupNodeClaim(name)
CleanupClaimOp(c, name) ==
    LET id == c.c2p[name]
        c1 == IF id \in {"-", ""} THEN c
              ELSE IF ~c.cn[id].ex THEN [c EXCEPT !.panic = TRUE]                      \* nil dereference
              ELSE IF ~c.cn[id].node.ex THEN [PoolUpd(c, c.cn[id], NewSN) EXCEPT !.cn[id] = NewSN]
              ELSE LET new == [c.cn[id] EXCEPT !.claim = NoClaim]
                   IN [PoolUpd(c, c.cn[id], new) EXCEPT !.cn[id] = new]
    IN PoolStateCleanup([c1 EXCEPT !.c2p[name] = "-"], name)

\* Cluster.cleanupNode(name)
CleanupNodeOp(c, name) ==
    LET id == c.n2p[name]
    IN IF id = "-" THEN c
       ELSE IF ~c.cn[id].ex THEN [c EXCEPT !.panic = TRUE, !.n2p[name] = "-"]          \* nil dereference
       ELSE IF ~c.cn[id].claim.ex THEN [PoolUpd(c, c.cn[id], NewSN) EXCEPT !.cn[id] = NewSN, !.n2p[name] = "-"]
       ELSE LET keep == [c.cn[id] EXCEPT !.node = NoNode]
                new == IF "nodeGone" \in Defects THEN keep ELSE NoUsage(keep)
            IN [(IF "poolOnPid" \in Defects THEN c ELSE PoolUpd(c, c.cn[id], new)) EXCEPT !.cn[id] = new, !.n2p[name] = "-"]

\* Cluster.UpdateNode(node) incl. newStateFromNode / populateResourceRequests
UpdateNodeOp(c, obj, pods) ==
    IF obj.pid = "" /\ obj.pool # "" THEN c            \* managed node without provider id: ignored
    ELSE
    LET k == IF obj.pid = "" THEN obj.name ELSE obj.pid
        old == c.cn[k]
        S == {p \in PodKeys : pods[p].ex /\ pods[p].node = obj.name /\ ~pods[p].term}
        sh(p) == ShapeOfRec(pods[p])
        \* pods of S previously bound elsewhere leave their old state node (cleanupOldBindings)
        Moved(k2) == IF "skipOldBindings" \in Defects THEN {}
                     ELSE {p \in S : c.bind[p] \notin {"-", obj.name} /\ c.n2p[c.bind[p]] = k2 /\ c.cn[k2].ex}
        c1 == [c EXCEPT !.cn = [k2 \in Keys |-> DropPods(c.cn[k2], Moved(k2))],
                        !.bind = [p \in PodKeys |-> IF p \in S THEN obj.name ELSE c.bind[p]]]
        all == [p \in PodKeys |-> IF p \in S THEN sh(p) ELSE "none"]
        n == [ex |-> TRUE, node |-> obj, claim |-> old.claim, req |-> all,
              dreq |-> [p \in PodKeys |-> IF p \in S /\ pods[p].ds THEN sh(p) ELSE "none"],
              cost |-> [p \in PodKeys |-> IF p \in S /\ ~pods[p].ds /\ EvCost(pods[p]) > 0 THEN sh(p) ELSE "none"],
              hp |-> all, vol |-> all, volu |-> VolsOfMap(all),
              marked |-> old.marked /\ "markCarry" \notin Defects]
        c2 == IF c1.n2p[obj.name] \notin {"-", k} THEN CleanupNodeOp(c1, obj.name) ELSE c1
        c3 == PoolUpd(c2, old, n)
    IN [c3 EXCEPT !.cn[k] = n, !.n2p[obj.name] = k]

\* Cluster.UpdateNodeClaim(nodeClaim) incl. newStateFromNodeClaim and NodePoolState.UpdateNodeClaim
UpdateClaimOp(c, obj) ==
    LET pid == obj.pid
        c1 == IF pid = "" THEN c
              ELSE LET old == c.cn[pid]
                       n == [old EXCEPT !.ex = TRUE, !.claim = obj,
                                        !.cost = IF "costCarry" \in Defects THEN NoPods ELSE @,
                                        !.hp = IF "hpCarry" \in Defects THEN NoPods ELSE @]
                       ca == IF c.c2p[obj.name] \notin {"-", pid} THEN CleanupClaimOp(c, obj.name) ELSE c
                   IN [PoolUpd(ca, old, n) EXCEPT !.cn[pid] = n]
        mk == pid # "" /\ SNMarked(c1.cn[pid])
        pl == obj.pool
    IN [c1 EXCEPT !.cpm[obj.name] = pl,
                  !.act[pl] = IF mk THEN @ \ {obj.name} ELSE @ \cup {obj.name},
                  !.dl[pl] = IF mk THEN @ \cup {obj.name} ELSE @ \ {obj.name},
                  !.c2p[obj.name] = pid]

\* Cluster.updateNodeUsageFromPodCompletion(key)
CompletionOp(c, p) ==
    IF c.bind[p] = "-" THEN c
    ELSE LET k == c.n2p[c.bind[p]]
             c1 == [c EXCEPT !.bind[p] = "-"]
         IN IF k = "-" \/ ~c.cn[k].ex THEN c1 ELSE [c1 EXCEPT !.cn[k] = CleanupForPod(@, p)]

\* Cluster.UpdatePod(pod): result <<cache, requeue>>
UpdatePodOp(c, obj) ==
    IF obj.term THEN <<CompletionOp(c, obj.name), FALSE>>
    ELSE IF obj.node = "" THEN <<IF "podUnbound" \in Defects THEN c ELSE CompletionOp(c, obj.name), FALSE>>
    ELSE LET k == c.n2p[obj.node]
         IN IF k = "-" \/ ~c.cn[k].ex THEN <<c, TRUE>>       \* node unknown: NotFound -> requeue
            ELSE LET c1 == [c EXCEPT !.cn[k] = UpdateForPod(@, obj.name, ShapeOfRec(obj))]
                     c2 == CleanupOldBindings(c1, obj.name, obj.node)
                 IN <<[c2 EXCEPT !.bind[obj.name] = obj.node], FALSE>>

\* Cluster.MarkForDeletion / UnmarkForDeletion (provider id known to the cache)
MarkOp(c, k) ==
    LET old == c.cn[k]  new == [old EXCEPT !.marked = TRUE]  c1 == [PoolUpd(c, old, new) EXCEPT !.cn[k] = new]
    IN IF new.claim.ex THEN [c1 EXCEPT !.dl[new.claim.pool] = @ \cup {new.claim.name}, !.act[new.claim.pool] = @ \ {new.claim.name}]
       ELSE c1
UnmarkOp(c, k) ==
    LET old == c.cn[k]  new == [old EXCEPT !.marked = FALSE]  c1 == [PoolUpd(c, old, new) EXCEPT !.cn[k] = new]
    IN IF new.claim.ex /\ ~new.claim.del
       THEN [c1 EXCEPT !.act[new.claim.pool] = @ \cup {new.claim.name}, !.dl[new.claim.pool] = @ \ {new.claim.name}]
       ELSE c1

\* ---------------------------------------------------------------- what the accessors show (same shape as F)
\* a per-pod map read back: the pods with an entry, each with the attributes of the shape recorded for it
Held(m) == {p \in PodKeys : m[p] # "none"}
AsPods(m) == [p \in PodKeys |-> PodAttr[p][IF m[p] = "none" THEN "std" ELSE m[p]]]
View(c) ==
    [sn |-> [k \in Keys |-> LET s == c.cn[k] IN
               [ex |-> s.ex, node |-> s.node, claim |-> s.claim, req |-> ReqOf(AsPods(s.req), Held(s.req)),
                dreq |-> ReqOf(AsPods(s.dreq), Held(s.dreq)), cost |-> CostOf(AsPods(s.cost), Held(s.cost)),
                ports |-> PortsOf(AsPods(s.hp), Held(s.hp)), vols |-> s.volu, marked |-> s.ex /\ SNMarked(s)]],
     pool |-> c.pool,
     counts |-> [pl \in Pools |-> [active |-> Cardinality(c.act[pl]), deleting |-> Cardinality(c.dl[pl])]]]

\* ---------------------------------------------------------------- behaviour
Step(a, x, y, z) == h' = Append(h, [a |-> a, x |-> x, y |-> y, z |-> z])
Obj(kind, name) == <<kind, name>>
Mut(kind, name) == /\ nm < MaxMut /\ nm' = nm + 1 /\ pend' = pend \cup {Obj(kind, name)} /\ UNCHANGED <<C, marks, nd, nf>>

\* Start = "full": an established managed node - Node n1/i1 (pool a), its NodeClaim c1/i1 and the pods p1, p2 bound to n1,
\* every object observed.  The history begins with the steps that lead there, so a behaviour stays self-contained;
\* the mutation budget counts from here, which lets the bounded search reach histories twice as deep around a live node.
FullPods == {"p1", "p2"} \cap PodKeys
ApiFull == [nodes |-> [n \in NodeNames |-> IF n = "n1" THEN MkNode("n1", "i1", "a") ELSE NoNode],
            claims |-> [c \in ClaimNames |-> IF c = "c1" THEN [MkClaim("c1", "a") EXCEPT !.pid = "i1"] ELSE NoClaim],
            pods |-> [p \in PodKeys |-> IF p \in FullPods THEN MkPod(p, "n1", "std") ELSE NoPod]]
CFull == UpdateClaimOp(UpdateNodeOp(C0, ApiFull.nodes["n1"], ApiFull.pods), ApiFull.claims["c1"])
St(a, x, y, z) == [a |-> a, x |-> x, y |-> y, z |-> z]
HFull == <<St("CreateNode", "n1", "i1", "a"), St("CreateClaim", "c1", "a", "-"), St("SetClaimPid", "c1", "i1", "-")>>
         \o (IF "p1" \in PodKeys THEN <<St("CreatePod", "p1", "n1", "-")>> ELSE <<>>)
         \o (IF "p2" \in PodKeys THEN <<St("CreatePod", "p2", "n1", "-")>> ELSE <<>>)
         \o <<St("Deliver", "Node", "n1", "-"), St("Deliver", "NodeClaim", "c1", "-"), St("Deliver", "ClaimGC", "c1", "-")>>
         \o (IF "p1" \in PodKeys THEN <<St("Deliver", "Pod", "p1", "-")>> ELSE <<>>)
         \o (IF "p2" \in PodKeys THEN <<St("Deliver", "Pod", "p2", "-")>> ELSE <<>>)
Init == /\ api = (IF Start = "full" THEN ApiFull
                  ELSE [nodes |-> [n \in NodeNames |-> NoNode], claims |-> [c \in ClaimNames |-> NoClaim],
                        pods |-> [p \in PodKeys |-> NoPod]])
        /\ pend = {} /\ C = (IF Start = "full" THEN CFull ELSE C0) /\ marks = {} /\ nm = 0 /\ nd = 0 /\ nf = 0
        /\ h = (IF Start = "full" THEN HFull ELSE <<>>)
        /\ own = [i \in Pids |-> IF Start = "full" /\ i = "i1" THEN [node |-> "n1", claim |-> "c1"] ELSE [node |-> "-", claim |-> "-"]]
        /\ gone = {} /\ ph = "env" /\ seed = [c \in ClaimNames |-> "-"]

\* provider ids identify instances: an id is never used by two different Node names / NodeClaim names
NodeMayUse(n, i) == own[i].node \in {"-", n} /\ \A n2 \in NodeNames \ {n} : ~(api.nodes[n2].ex /\ api.nodes[n2].pid = i)
ClaimMayUse(c, i) == own[i].claim \in {"-", c} /\ \A c2 \in ClaimNames \ {c} : ~(api.claims[c2].ex /\ api.claims[c2].pid = i)

\* ---- E-actions: the environment mutates the API
\* A1 (environment assumption): a managed Node that re-uses a name comes without provider id only after the
\* previous Node's deletion was observed (UpdateNode ignores such a Node and would keep the stale entry: lead L1)
CreateNode(n, pid, pl) ==
    /\ ~api.nodes[n].ex /\ (pid # "" => NodeMayUse(n, pid))
    /\ ((pid = "" /\ pl # "") => C.n2p[n] = "-")
    /\ api' = [api EXCEPT !.nodes[n] = MkNode(n, pid, pl)]
    /\ own' = (IF pid = "" THEN own ELSE [own EXCEPT ![pid].node = n]) /\ UNCHANGED <<gone, seed>>
    /\ Mut("Node", n) /\ Step("CreateNode", n, pid, pl)
SetNodePid(n, pid) ==
    /\ api.nodes[n].ex /\ api.nodes[n].pid = "" /\ NodeMayUse(n, pid)
    /\ api' = [api EXCEPT !.nodes[n].pid = pid] /\ own' = [own EXCEPT ![pid].node = n] /\ UNCHANGED <<gone, seed>>
    /\ Mut("Node", n) /\ Step("SetNodePid", n, pid, "-")
RegNode(n) ==
    /\ api.nodes[n].ex /\ api.nodes[n].pool # "" /\ ~api.nodes[n].reg
    /\ api' = [api EXCEPT !.nodes[n].reg = TRUE] /\ UNCHANGED <<own, gone, seed>>
    /\ Mut("Node", n) /\ Step("RegNode", n, "-", "-")
InitNode(n) ==
    /\ api.nodes[n].ex /\ api.nodes[n].reg /\ ~api.nodes[n].init
    /\ api' = [api EXCEPT !.nodes[n].init = TRUE, !.nodes[n].cap = NodeCap1] /\ UNCHANGED <<own, gone, seed>>
    /\ Mut("Node", n) /\ Step("InitNode", n, "-", "-")
NodeDeleting(n) ==
    /\ api.nodes[n].ex /\ ~api.nodes[n].del
    /\ api' = [api EXCEPT !.nodes[n].del = TRUE] /\ UNCHANGED <<own, gone, seed>>
    /\ Mut("Node", n) /\ Step("NodeDeleting", n, "-", "-")
RemoveNode(n) ==
    /\ api.nodes[n].ex
    /\ api' = [api EXCEPT !.nodes[n] = NoNode] /\ UNCHANGED <<own, gone, seed>>
    /\ Mut("Node", n) /\ Step("RemoveNode", n, "-", "-")
\* A2 (environment assumption): NodeClaim names are generated, never re-used (`gone` remembers removed names)
CreateClaim(c, pl, sd) ==
    /\ ~api.claims[c].ex /\ c \notin gone
    /\ api' = [api EXCEPT !.claims[c] = MkClaim(c, pl)] /\ UNCHANGED <<own, gone>>
    /\ seed' = (IF sd THEN [seed EXCEPT ![c] = pl] ELSE seed)
    /\ nm < MaxMut /\ nm' = nm + 1 /\ pend' = pend \cup {Obj("NodeClaim", c), Obj("ClaimGC", c)} /\ UNCHANGED <<C, marks, nd, nf>>
    /\ Step("CreateClaim", c, pl, IF sd THEN "seed" ELSE "-")
\* the provisioner's post-create seed: UpdateNodeClaim with the object as it was created
\* A3 (environment assumption): it lands before the NodeClaim is launched (SetClaimPid waits for it)
Seed(c) ==
    /\ seed[c] # "-" /\ nm < MaxMut /\ nm' = nm + 1
    /\ C' = UpdateClaimOp(C, MkClaim(c, seed[c])) /\ marks' = marks
    /\ seed' = [seed EXCEPT ![c] = "-"]
    /\ UNCHANGED <<api, pend, own, gone, nd, nf>> /\ Step("Seed", c, "-", "-")
SetClaimPid(c, pid) ==
    /\ api.claims[c].ex /\ api.claims[c].pid = "" /\ ClaimMayUse(c, pid) /\ seed[c] = "-"
    /\ api' = [api EXCEPT !.claims[c].pid = pid] /\ own' = [own EXCEPT ![pid].claim = c] /\ UNCHANGED <<gone, seed>>
    /\ Mut("NodeClaim", c) /\ Step("SetClaimPid", c, pid, "-")
ClaimDeleting(c) ==
    /\ api.claims[c].ex /\ ~api.claims[c].del
    /\ api' = [api EXCEPT !.claims[c].del = TRUE] /\ UNCHANGED <<own, gone, seed>>
    /\ Mut("NodeClaim", c) /\ Step("ClaimDeleting", c, "-", "-")
ClaimTerminating(c) ==
    /\ WithTerm /\ api.claims[c].ex /\ api.claims[c].del /\ ~api.claims[c].term
    /\ api' = [api EXCEPT !.claims[c].term = TRUE] /\ UNCHANGED <<own, gone, seed>>
    /\ Mut("NodeClaim", c) /\ Step("ClaimTerminating", c, "-", "-")
RemoveClaim(c) ==
    /\ api.claims[c].ex
    /\ api' = [api EXCEPT !.claims[c] = NoClaim] /\ gone' = gone \cup {c} /\ UNCHANGED <<own, seed>>
    /\ Mut("NodeClaim", c) /\ Step("RemoveClaim", c, "-", "-")
\* pods are created pending or already bound; binding is immutable once set (a pod "moves" by being
\* deleted and recreated under the same name)
CreatePod(p, n, sh) ==
    /\ ~api.pods[p].ex /\ (n # "" => api.nodes[n].ex)
    /\ api' = [api EXCEPT !.pods[p] = MkPod(p, n, sh)] /\ UNCHANGED <<own, gone, seed>>
    /\ Mut("Pod", p) /\ Step("CreatePod", p, n, IF sh = "std" THEN "-" ELSE sh)
BindPod(p, n) ==
    /\ api.pods[p].ex /\ api.pods[p].node = "" /\ ~api.pods[p].term /\ api.nodes[n].ex
    /\ api' = [api EXCEPT !.pods[p].node = n] /\ UNCHANGED <<own, gone, seed>>
    /\ Mut("Pod", p) /\ Step("BindPod", p, n, "-")
PodTerminal(p) ==
    /\ api.pods[p].ex /\ ~api.pods[p].term
    /\ api' = [api EXCEPT !.pods[p].term = TRUE] /\ UNCHANGED <<own, gone, seed>>
    /\ Mut("Pod", p) /\ Step("PodTerminal", p, "-", "-")
\* a graceful deletion starts (deletionTimestamp): the pod keeps counting until it is terminal or gone
PodTerminating(p) ==
    /\ api.pods[p].ex /\ ~api.pods[p].term /\ api.pods[p].node # ""
    /\ UNCHANGED <<api, own, gone, seed>>
    /\ Mut("Pod", p) /\ Step("PodTerminating", p, "-", "-")
RemovePod(p) ==
    /\ api.pods[p].ex
    /\ api' = [api EXCEPT !.pods[p] = NoPod] /\ UNCHANGED <<own, gone, seed>>
    /\ Mut("Pod", p) /\ Step("RemovePod", p, "-", "-")

\* ---- C-actions: in-memory decisions of other controllers
Mark(k) ==
    /\ nm < MaxMut /\ C.cn[k].ex /\ ~C.cn[k].marked
    /\ C' = MarkOp(C, k) /\ marks' = marks \cup {k} /\ nm' = nm + 1
    /\ UNCHANGED <<api, pend, own, gone, seed, nd, nf>> /\ Step("Mark", k, "-", "-")
Unmark(k) ==
    /\ nm < MaxMut /\ C.cn[k].ex /\ C.cn[k].marked
    /\ C' = UnmarkOp(C, k) /\ marks' = marks \ {k} /\ nm' = nm + 1
    /\ UNCHANGED <<api, pend, own, gone, seed, nd, nf>> /\ Step("Unmark", k, "-", "-")

Known(kind, name) == CASE kind = "Node" -> api.nodes[name].ex
                       [] kind = "NodeClaim" -> api.claims[name].ex
                       [] kind = "Pod" -> api.pods[name].ex
                       [] kind = "ClaimGC" -> FALSE           \* one-shot, never repeated
Objs == ({"Node"} \X NodeNames) \cup ({"NodeClaim"} \X ClaimNames) \cup ({"Pod"} \X PodKeys) \cup ({"ClaimGC"} \X ClaimNames)
Restart ==
    /\ WithRestart /\ nm < MaxMut /\ nm' = nm + 1
    /\ C' = C0 /\ marks' = {}
    /\ pend' = {o \in Objs : Known(o[1], o[2])} /\ seed' = [c \in ClaimNames |-> "-"]
    /\ UNCHANGED <<api, own, gone, nd, nf>> /\ Step("Restart", "-", "-", "-")

\* ---- C-actions: the informer controllers reconcile one object (its current version or its absence)
ReconcileEffect(kind, name) ==
    CASE kind = "Node" ->
           <<IF api.nodes[name].ex THEN UpdateNodeOp(C, api.nodes[name], api.pods) ELSE CleanupNodeOp(C, name), FALSE>>
      [] kind = "NodeClaim" ->
           <<IF api.claims[name].ex THEN UpdateClaimOp(C, api.claims[name]) ELSE CleanupClaimOp(C, name), FALSE>>
      [] kind = "Pod" ->
           IF api.pods[name].ex THEN UpdatePodOp(C, api.pods[name]) ELSE <<CompletionOp(C, name), FALSE>>
      [] kind = "ClaimGC" ->       \* nodeclaimgc: an unlaunched entry whose NodeClaim no longer exists is dropped
           <<IF ~api.claims[name].ex /\ C.c2p[name] = "" /\ "noGC" \notin Defects THEN CleanupClaimOp(C, name) ELSE C, FALSE>>
\* the explicit mark lives and dies with the cache entry
MarksAfter(c) == {k \in marks : c.cn[k].ex}
Deliver(kind, name) ==
    /\ Obj(kind, name) \in pend /\ (kind = "ClaimGC" => seed[name] = "-")    \* the grace period outlasts the seed
    /\ LET r == ReconcileEffect(kind, name)
       IN /\ C' = r[1] /\ marks' = MarksAfter(r[1])
          /\ pend' = IF r[2] THEN pend ELSE pend \ {Obj(kind, name)}    \* NotFound -> requeued, still pending
    /\ UNCHANGED <<api, own, gone, seed, nm, nd, nf>> /\ Step("Deliver", kind, name, "-")
\* A delivery one of whose API reads fails with a server error: the reconcile returns the error and is retried (the
\* object stays pending).  `fk` names the read: own = the Get of the object itself, pods = the pod list of a Node
\* reconcile, pvc / sc = a PersistentVolumeClaim / StorageClass lookup while resolving pod volumes, csinode = the
\* CSINode lookup.  Every read precedes every write to shared bookkeeping, so a failed delivery changes nothing
\* (populateResourceRequests may already have re-bound earlier pods of the list; the retry completes that).
CountedOn(n) == {p \in PodKeys : api.pods[p].ex /\ api.pods[p].node = n /\ ~api.pods[p].term}
Fires(kind, name, fk) ==
    CASE fk = "own" -> TRUE
      [] kind = "Node" ->
           /\ api.nodes[name].ex /\ ~(api.nodes[name].pool # "" /\ api.nodes[name].pid = "")
           /\ (fk \in {"pvc", "sc"} => \E p \in CountedOn(name) : api.pods[p].vol # "-")
      [] kind = "Pod" ->
           /\ fk \in {"pvc", "sc"} /\ api.pods[name].ex /\ ~api.pods[name].term /\ api.pods[name].node # ""
           /\ api.pods[name].vol # "-"
           /\ C.n2p[api.pods[name].node] # "-" /\ C.cn[C.n2p[api.pods[name].node]].ex
      [] OTHER -> FALSE
FaultKinds(kind) == IF kind = "Node" THEN {"own", "pods", "pvc", "sc", "csinode"} ELSE IF kind = "Pod" THEN {"own", "pvc", "sc"} ELSE {"own"}
FailDeliver(kind, name, fk) ==
    /\ nf < MaxFail /\ Obj(kind, name) \in pend /\ (kind = "ClaimGC" => seed[name] = "-") /\ Fires(kind, name, fk)
    /\ C' = (IF "lateRead" \in Defects /\ kind = "Node" /\ fk = "csinode"
             THEN [C EXCEPT !.pool = UpdateNodeOp(C, api.nodes[name], api.pods).pool] ELSE C)
    /\ nf' = nf + 1 /\ UNCHANGED <<api, pend, marks, own, gone, seed, nm, nd>> /\ Step("Deliver", kind, name, "fail:" \o fk)
Redeliver(kind, name) ==
    /\ nd < MaxDup /\ Obj(kind, name) \notin pend /\ Known(kind, name)
    /\ LET r == ReconcileEffect(kind, name)
       IN /\ C' = r[1] /\ marks' = MarksAfter(r[1]) /\ ~r[2]
    /\ nd' = nd + 1 /\ UNCHANGED <<api, own, gone, seed, nm, nf, pend>> /\ Step("Deliver", kind, name, "dup")

EnvNext ==
    \/ \E n \in NodeNames : \/ \E pid \in Pids \cup {""}, pl \in Pools \cup {""} : CreateNode(n, pid, pl)
                            \/ \E pid \in Pids : SetNodePid(n, pid)
                            \/ RegNode(n) \/ InitNode(n) \/ NodeDeleting(n) \/ RemoveNode(n)
    \/ \E c \in ClaimNames : \/ \E pl \in Pools, sd \in BOOLEAN : CreateClaim(c, pl, sd)
                             \/ Seed(c)
                             \/ \E pid \in Pids : SetClaimPid(c, pid)
                             \/ ClaimDeleting(c) \/ ClaimTerminating(c) \/ RemoveClaim(c)
    \/ \E p \in PodKeys : \/ \E n \in NodeNames \cup {""}, sh \in PodShapes : CreatePod(p, n, sh)
                          \/ \E n \in NodeNames : BindPod(p, n)
                          \/ PodTerminal(p) \/ PodTerminating(p) \/ RemovePod(p)
    \/ \E k \in Keys : Mark(k) \/ Unmark(k)
    \/ Restart
\* Generator bias (no effect when MaxPend is large): once MaxPend deliveries are outstanding the environment waits
\* (ph = "drain") until none is, unless all that is left are pods waiting for a node the cache does not know.
Blocked(o) == (o[1] = "Pod" /\ ReconcileEffect(o[1], o[2])[2]) \/ (o[1] = "ClaimGC" /\ seed[o[2]] # "-")
EnvOK == ph = "env" \/ \A o \in pend : Blocked(o)
DeliverNext == \E o \in Objs : \/ Deliver(o[1], o[2]) \/ (ph = "env" /\ Redeliver(o[1], o[2]))
                               \/ \E fk \in FaultKinds(o[1]) : FailDeliver(o[1], o[2], fk)
Next == /\ Len(h) < MaxLen /\ ((EnvOK /\ EnvNext) \/ DeliverNext)
        /\ ph' = IF pend' = {} THEN "env" ELSE IF Cardinality(pend') >= MaxPend THEN "drain" ELSE ph
Spec == Init /\ [][Next]_vars

\* ---------------------------------------------------------------- properties
Quiescent == pend = {}
V == View(C)
Inv_C11_NoPanic == ~C.panic
Inv_C11_nodes == Quiescent => G_C11_CacheEqualsF_nodes(V, api, marks, Keys)
Inv_C11_requests == Quiescent => G_C11_CacheEqualsF_requests(V, api, marks, Keys)
Inv_C11_daemonRequests == Quiescent => G_C11_CacheEqualsF_daemonRequests(V, api, marks, Keys)
Inv_C11_hostPorts == Quiescent => G_C11_CacheEqualsF_hostPorts(V, api, marks, Keys)
Inv_C11_volumes == Quiescent => G_C11_CacheEqualsF_volumes(V, api, marks, Keys)
Inv_C11_disruptionCost == Quiescent => G_C11_CacheEqualsF_disruptionCost(V, api, marks, Keys)
Inv_C11_marks == Quiescent => G_C11_CacheEqualsF_marks(V, api, marks, Keys)
Inv_C11_poolTotals == Quiescent => G_C11_CacheEqualsF_poolTotals(V, api, marks, Keys, Pools)
Inv_C11_nodeCounts == Quiescent => G_C11_CacheEqualsF_nodeCounts(V, api, marks, Pools)
\* the environment keeps provider ids unambiguous (sanity of the E-actions, not a claim about Karpenter)
Inv_EnvUnambiguous == FUnambiguous(api, Keys)

\* weak configs print the witness history before failing, so the counterexample can be replayed on the real code
Witness(inv) == inv \/ (PrintT(<<"BEH", ToJson(h)>>) /\ FALSE)
W_C11_nodes == Witness(Inv_C11_nodes)
W_C11_requests == Witness(Inv_C11_requests)
W_C11_daemonRequests == Witness(Inv_C11_daemonRequests)
W_C11_hostPorts == Witness(Inv_C11_hostPorts)
W_C11_volumes == Witness(Inv_C11_volumes)
W_C11_disruptionCost == Witness(Inv_C11_disruptionCost)
W_C11_marks == Witness(Inv_C11_marks)
W_C11_poolTotals == Witness(Inv_C11_poolTotals)
W_C11_nodeCounts == Witness(Inv_C11_nodeCounts)

\* generators.  GenPrint: complete histories of length MaxLen (simulation mode, history part of the state).
\* GenQuiescent: with the history hidden by VIEW, TLC visits every distinct (api, pend, cache) state once; the
\* history that first reached each distinct quiescent state is printed - a tour of all distinct quiescent states.
GenPrint == Len(h) < MaxLen \/ PrintT(<<"BEH", ToJson(h)>>)
GenQuiescent == ~(Quiescent /\ h # <<>> /\ h[Len(h)].a \in {"Deliver", "Mark", "Unmark"}) \/ PrintT(<<"BEH", ToJson(h)>>)
=============================================================================
