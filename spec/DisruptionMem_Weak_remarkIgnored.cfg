\* spec mutation "remarkIgnored": TLC must violate Inv_C07_MemNeverProtected
CONSTANTS W = 20  U = 5  VD = 15  MaxNow = 60  MaxLen = 8  WeakM = "remarkIgnored"
SPECIFICATION Spec
VIEW view
INVARIANTS Inv_C07_MemNeverProtected
