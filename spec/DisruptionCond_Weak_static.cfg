\* spec mutation "static": TLC must violate Inv_C07_ConsolidatableJustified
CONSTANTS MaxNow = 24  MaxLen = 12  Dedupe = 10  WeakC = "static"
SPECIFICATION Spec
VIEW view
INVARIANTS Inv_C07_ConsolidatableJustified
