-------------------------- MODULE TerminationGuards --------------------------
(***************************************************************************)
(* Guards of C09 (finalization order, no leaked instance) and C10 (drain   *)
(* honours PDBs, do-not-disrupt, ordering and the deadline) over the       *)
(* *logged* record shapes of harness/world/abs.go.  No variables: the      *)
(* closed models Termination.tla / Drain.tla abstract their state into     *)
(* these shapes and the trace specification Termination_Trace.tla applies  *)
(* the same operators to every event recorded from the real controllers.   *)
(*                                                                         *)
(* The oracle is written from Kubernetes semantics and the property        *)
(* statements, not from the Go code; where the statement is silent the     *)
(* guard takes the weaker reading (it may demand no more than the          *)
(* statement).                                                             *)
(***************************************************************************)
EXTENDS Naturals, Integers, Sequences, FiniteSets, TLC

DisruptedKey == "karpenter.sh/disrupted"
CriticalClasses == {"system-cluster-critical", "system-node-critical"}

Max2(a, b) == IF a >= b THEN a ELSE b

\* ---------------------------------------------------------------- pods (record p as logged by Abs)
Terminal(p) == p.phase \in {"Succeeded", "Failed"}
\* stuck terminating: still there more than sa seconds after its deletion time (= delete instant + grace)
Stuck(p, now, sa) == p.deleting /\ now - p.deletedAt > sa
Static(p) == p.owner = "node"
\* a pod Karpenter can drain: not tolerating the disruption taint, not a static (node-owned) pod, not stuck terminating
Drainable(p, now, sa) == ~p.toleratesDisruption /\ ~Static(p) /\ ~Stuck(p, now, sa)
\* "every pod Karpenter can drain is gone or stuck terminating": terminal pods do not run any more and are not waited for
WaitingEviction(p, now, sa) == ~Terminal(p) /\ Drainable(p, now, sa)

\* do-not-disrupt: "true" is active for ever, a positive duration is active until the pod has run that long
\* (unknown start: active), anything else is not a valid annotation value and is ignored.  dur maps the
\* annotation strings of the scenario alphabet to seconds (0 for "true", -1 for invalid formats).
DndActive(p, now, dur) ==
    /\ p.dnd # "-"
    /\ \/ p.dnd = "true"
       \/ /\ p.dnd \in DOMAIN dur /\ dur[p.dnd] > 0
          /\ (p.started < 0 \/ now - p.started < dur[p.dnd])

Critical(p) == p.priorityClass \in CriticalClasses
Daemon(p) == p.owner = "daemonset"
\* the statement orders two classes: non-critical non-daemon pods first, daemon and critical pods afterwards
ClassB(p) == Critical(p) \/ Daemon(p)

\* ---------------------------------------------------------------- nodes / volumes
HasDisruptedTaint(n) == \E i \in DOMAIN n.taints : n.taints[i].key = DisruptedKey /\ n.taints[i].effect = "NoSchedule"

\* VolumeAttachments of the node that block termination: those whose volume does not belong to a pod that
\* Karpenter cannot drain anyway (pods: set of pod records on the node, podPV: pod name -> pv name or "-")
BlockingAttachments(vas, pods, podPV, now, sa) ==
    LET kept == {podPV[p.name] : p \in {q \in pods : q.name \in DOMAIN podPV /\ ~Drainable(q, now, sa)}}
    IN {v \in vas : v.pv # "-" /\ v.pv \notin kept}

\* ---------------------------------------------------------------- C09
\* n: the Node as stored just before the finalizer-removing write; c: its NodeClaim as stored; podsD: the pods bound to
\* the node that the drain has to answer for (bound before the finalizer-removing reconcile looked at the node's pods);
\* podsV / vas: the pods / VolumeAttachment objects of the node when the volumes were judged (an attachment blocks as long
\* as the OBJECT exists - a deletionTimestamp alone means the detach is still in progress); gonePids: provider ids for
\* which the provider answered NotFound to Karpenter; now: the instant of the write; c.terminationAt: -1 = none.
\* ">= terminationAt" is the weaker reading of "the termination grace period has expired".
NodeFinalizerParts(n, c, podsD, podsV, vas, podPV, gonePids, now, sa) ==
    [cordoned |-> HasDisruptedTaint(n),
     drained |-> \A p \in podsD : ~WaitingEviction(p, now, sa),
     volumes |-> \/ BlockingAttachments(vas, podsV, podPV, now, sa) = {}
                 \/ (c.terminationAt >= 0 /\ now >= c.terminationAt),
     instanceGone |-> n.providerID \in gonePids,
     notReady |-> n.ready # "True"]
G_C09_NodeFinalizer(n, c, podsD, podsV, vas, podPV, gonePids, now, sa) ==
    LET q == NodeFinalizerParts(n, c, podsD, podsV, vas, podPV, gonePids, now, sa) IN
    \/ (q.notReady /\ q.instanceGone)
    \/ (q.cordoned /\ q.drained /\ q.volumes /\ q.instanceGone)
\* the first conjunct that fails (witness class for known-finding matching)
NodeFinalizerSig(n, c, podsD, podsV, vas, podPV, gonePids, now, sa) ==
    LET q == NodeFinalizerParts(n, c, podsD, podsV, vas, podPV, gonePids, now, sa) IN
    IF ~q.instanceGone THEN "instance-not-confirmed-gone"
    ELSE IF ~q.cordoned THEN "not-cordoned"
    ELSE IF ~q.drained THEN "pods-waiting-eviction"
    ELSE IF ~q.volumes THEN "volumes-attached-before-deadline"
    ELSE "ok"

\* c: the NodeClaim as stored just before the write; nodePids: provider ids of the Nodes in the store;
\* created: provider ids the provider created for this claim (ghost from provider events, NOT status.providerID)
ClaimFinalizerParts(c, nodePids, created, gonePids) ==
    [nodesGone |-> (c.registered = "True" => c.providerID \notin nodePids),
     instancesGone |-> created \subseteq gonePids]
G_C09_ClaimFinalizer(c, nodePids, created, gonePids) ==
    LET q == ClaimFinalizerParts(c, nodePids, created, gonePids) IN q.nodesGone /\ q.instancesGone
\* the user-visible statement: a completed deletion never orphans a cloud instance.
\* inst: the provider's instance table (sequence of [pid, state, ...]) at the instant the object disappears
NoLeak(created, inst) ==
    \A i \in DOMAIN inst : inst[i].pid \in created => inst[i].state = "gone"

\* ---------------------------------------------------------------- C10
\* deadlines: -1 = none (plus infinity)
DlLe(a, b) == b < 0 \/ (a >= 0 /\ a <= b)
DlMin(a, b) == IF DlLe(a, b) THEN a ELSE b
\* p may be deleted directly under deadline d: no earlier than d minus its own grace period, or it is already
\* terminating with a deletion time beyond the deadline (its remaining grace period is being shortened)
ForceEligible(p, d, now) ==
    /\ d >= 0
    /\ \/ now >= d - p.tgps
       \/ (p.deleting /\ p.deletedAt > d)

\* eviction (attempt) of p: never a static pod, a pod tolerating the disruption taint or one with an active annotation
G_C10_EvictOnlyEvictable(p, now, dur) == ~p.toleratesDisruption /\ ~Static(p) /\ ~DndActive(p, now, dur)
EvictSig(p, now, dur) == IF Static(p) THEN "static-pod" ELSE IF p.toleratesDisruption THEN "tolerates-disruption-taint"
                         ELSE IF DndActive(p, now, dur) THEN "do-not-disrupt-active" ELSE "ok"

\* non-critical non-daemon pods that Karpenter still has to evict gracefully: running, evictable and not (yet)
\* subject to direct deletion under the deadline dl(q)
GracefulFirstClass(pods, dl(_), now, sa, dur) ==
    {q \in pods : /\ ~ClassB(q) /\ ~Terminal(q) /\ ~q.deleting
                  /\ ~q.toleratesDisruption /\ ~Static(q) /\ ~DndActive(q, now, dur)
                  /\ ~ForceEligible(q, dl(q), now)}
\* a daemon / critical pod is handed to graceful eviction only when no first-class pod is left to evict first
G_C10_TierOrder(p, d, pods, dl(_), now, sa, dur) ==
    (ClassB(p) /\ ~ForceEligible(p, d, now)) => GracefulFirstClass(pods, dl, now, sa, dur) = {}

\* direct deletion of p under the earliest deadline d it was queued with; tgpSet: the NodeClaim has a
\* termination grace period
G_C10_ForceOnlyWithTgpAfterThreshold(p, d, tgpSet, now) == tgpSet /\ ForceEligible(p, d, now)
ForceSig(p, d, tgpSet, now) == IF ~tgpSet THEN "no-termination-grace-period" ELSE IF d < 0 THEN "no-deadline"
                               ELSE "before-deadline-minus-grace"
\* a pod that Karpenter must not evict because it cannot drain it (static, tolerating the taint) must not be deleted
\* directly either; an active do-not-disrupt annotation does NOT protect against the deadline
G_C10_DeleteOnlyDrainable(p) == ~p.toleratesDisruption /\ ~Static(p)
DeleteSig(p) == IF Static(p) THEN "static-pod" ELSE "tolerates-disruption-taint"
\* g: grace period of the delete call (-1 = not given: the pod's own)
EffGrace(p, g) == IF g < 0 THEN p.tgps ELSE g
G_C10_GraceAtLeastOne(p, g) == EffGrace(p, g) >= 1
\* handled under the deadline it was queued with, not a later one: the grace period does not reach beyond it
G_C10_GraceWithinDeadline(p, g, d, now) == d >= 0 => EffGrace(p, g) <= Max2(1, d - now)
\* queue entry: a re-added pod keeps the earlier deadline (new <= old)
G_C10_EarliestDeadline(old, new) == DlLe(new, old)

=============================================================================
