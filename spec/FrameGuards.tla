---------------------------- MODULE FrameGuards ----------------------------
(***************************************************************************)
(* C18 - frame conditions of scheduling simulations and provisioning       *)
(* passes, over the NORMAL FORM of a world snapshot:                       *)
(*                                                                         *)
(*   snapshot = [section -> [item -> [v |-> value, c |-> class]]]          *)
(*                                                                         *)
(*   api        one item per API object         v = <<resourceVersion, digest of the canonical JSON>>, c = kind        *)
(*   node       one item per (state node, field) v = digest of the field,  c = the field's name                       *)
(*              (every field of state.StateNode, found by reflection)       *)
(*   cache      one item per other field of state.Cluster,                  c = the field's name                       *)
(*   catalog    provider instance types: slice orders, per type content /  c = order | pool-order | type-content |     *)
(*              requirement contents / capacity / offerings in order            requirements | capacity | offerings     *)
(*   instances  the provider's instance table                                                                           *)
(*   x          what the driver handed to the simulation (candidates and their pods)                                   *)
(*                                                                         *)
(* No variables: used by the closed model Frame.tla (snapshots of its      *)
(* abstract world) and by Frame_Trace.tla (snapshots the drivers logged    *)
(* around every real SimulateScheduling / ComputeCommands / Schedule call).*)
(***************************************************************************)
EXTENDS Naturals, Sequences, FiniteSets

Sections == {"api", "node", "cache", "catalog", "instances", "x"}

Differs(a, b, i) == \/ i \notin DOMAIN a \/ i \notin DOMAIN b \/ a[i].v # b[i].v
Diff(a, b) == {i \in (DOMAIN a) \cup (DOMAIN b) : Differs(a, b, i)}
ClassOf(a, b, i) == IF i \in DOMAIN b THEN b[i].c ELSE a[i].c

\* Pod bookkeeping of the provisioner kept in state.Cluster (second sentence of the statement).
PodBookkeeping == {"podAcks", "podsSchedulingAttempted", "podsSchedulableTimes", "podHealthyNodePoolScheduledTime",
                   "podToNodeClaim"}
\* Not part of "cluster state (node usage, host ports, volumes, deletion marks, nominations)": the consolidation
\* timestamp (Cluster.ConsolidationState() refreshes it every 5 minutes when a method merely READS it) and the
\* timers of the "not synced" log line.  A guard may demand no more than the statement.
Housekeeping == {"clusterState", "unsyncedStartTime", "lastUnsyncedLogTime", "hasSynced"}

\* classes that may differ across a SIMULATION: none of the statement's list.  (GetPendingPods, which every simulation
\* calls, deliberately records a scheduling decision for pending pods that fail validation - pod bookkeeping.)
SimLenient == [s \in Sections |-> IF s = "cache" THEN PodBookkeeping \cup Housekeeping ELSE {}]
\* StaticDrift.ComputeCommands simulates nothing but reserves static capacity in Cluster.NodePoolState (C03's protocol)
ReservingLenient == [s \in Sections |-> IF s = "cache" THEN SimLenient[s] \cup {"NodePoolState"} ELSE SimLenient[s]]
\* classes that may differ across a PROVISIONING PASS before it creates NodeClaims: nominations and pod bookkeeping
\* (incl. the capacity-buffer placement counts, which the pass rebuilds wholesale)
PassAllowed == [s \in Sections |-> CASE s = "cache" -> PodBookkeeping \cup Housekeeping \cup {"bufferPodCounts"}
                                     [] s = "node"  -> {"nominatedUntil"}
                                     [] OTHER       -> {}]

\* the classes that changed although they must not, per section
Failing(pre, post, lenient) ==
    [s \in Sections |-> {ClassOf(pre[s], post[s], i) : i \in Diff(pre[s], post[s])} \ lenient[s]]
FrameHolds(pre, post, writes, lenient) ==
    /\ writes = <<>>                                     \* no API write / provider mutation in between
    /\ \A s \in Sections : Failing(pre, post, lenient)[s] = {}

G_C18_SimulationFrame(pre, post, writes) == FrameHolds(pre, post, writes, SimLenient)
G_C18_ProvisionFrame(pre, post, writes)  == FrameHolds(pre, post, writes, PassAllowed)
=============================================================================
