CONSTANTS Cap = 2  MaxLen = 6  Weak = ""
SPECIFICATION Spec
VIEW view
INVARIANTS TypeOK Inv_C18_SimulationFrame Inv_C18_ProvisionFrame Inv_C18_CacheIsFunctionOfApi Inv_C18_ProviderOrderKept Inv_C18_NominationsJustified Inv_C18_HeldPodsIntact Inv_C18_ClaimsFromPasses
