\* exhaustive check of the closed model (history hidden by VIEW), semantics the statements need
CONSTANTS Catalogs = {1, 2, 3}  Limits = {0, 1, 2, 3, 4}  Daemons = {0, 1}  Batches = {1, 2, 3, 4}  Laters = {0, 1, 2}
CONSTANTS MaxRounds = 3  MaxClaims = 3  MaxSteps = 8  AllowForeign = TRUE  Resyncs = {FALSE}  EphForms = {2}  StForms = {2}
CONSTANTS W_NoSyncGate = FALSE  W_SubMin = FALSE  W_SubDominating = FALSE  W_StartupBlocks = FALSE  W_CountMarked = FALSE  W_ZeroSkips = FALSE
          W_NoZeroFallback = FALSE  W_DaemonTwice = FALSE  W_SyncBeforeBatch = FALSE  C_NodesPerPass = FALSE  C_OverrideBase = FALSE
SPECIFICATION Spec
VIEW view
INVARIANTS TypeOK Inv_C04_NoNeedlessOpen Inv_C04_Idempotent Inv_C04_InflightFits Inv_C04_MarkedNotCapacity Inv_C04_PassOnlyWhenSynced
           Inv_C03_PoolCapacity Inv_C03_OpenWithinLimits
