\* spec mutation: one dominating type instead of the per-resource maximum is charged
CONSTANTS Catalogs = {1}  Limits = {2}  Daemons = {1}  Batches = {2}  Laters = {0}
CONSTANTS MaxRounds = 3  MaxClaims = 3  MaxSteps = 4  AllowForeign = TRUE  Resyncs = {FALSE}  EphForms = {2}  StForms = {2}
CONSTANTS W_NoSyncGate = FALSE  W_SubMin = FALSE  W_SubDominating = TRUE  W_StartupBlocks = FALSE  W_CountMarked = FALSE  W_ZeroSkips = FALSE  W_NoZeroFallback = FALSE  W_DaemonTwice = FALSE  W_SyncBeforeBatch = FALSE  C_NodesPerPass = FALSE  C_OverrideBase = FALSE
SPECIFICATION Spec
VIEW view
INVARIANTS Cex_C04_NoNeedlessOpen Cex_C04_Idempotent Cex_C04_InflightFits Cex_C04_MarkedNotCapacity Cex_C04_PassOnlyWhenSynced Cex_C03_PoolCapacity Cex_C03_OpenWithinLimits
