\* exhaustive, thorough tier: every triple of the three-tier sub-alphabet (plain with PDB, do-not-disrupt, critical), with a termination grace period
CONSTANTS Pods = {"p1", "p2", "p3"}  Archetypes <- ArchDl  TGPs <- BoolT  TGP = 3
  MaxNow = 4  MaxFaults = 0  MaxRestarts = 0  MaxDlChanges = 0  MaxLen = 1000  MaxSpont = 99
  EarlierMode = "earlier"  GateTiers = TRUE  MinGrace = 1  DndMode = "honour"  ThresholdSlack = 0  DropMode = "keep"  SplitMode = "waiting"
SPECIFICATION Spec
VIEW view
INVARIANTS TypeOK Inv_C10_Guards
