\* closed model behind the C13 (b)-(d) guards, small scope (checks/c13_sched_stage.py; checks/C19.py runs the full scopes)
CONSTANTS WeightVecs = {6}  FeatDiag = TRUE  NPods = 2  PodArchs = {1, 2}
CONSTANTS Feats = {"plain", "min2", "archMin2", "startup"}
CONSTANTS Catalogs = {2}  DaemonSets = {2}  MaxTypesSet = {1, 2}  Policies = {"Strict", "BestEffort"}  Weak = ""
SPECIFICATION Spec
INVARIANTS Inv_C19_HighestWeightFeasible Inv_C19_CheapestPrefix Inv_C13_TypesSubsetMinValues Inv_C13_Requests Inv_C13_Template
