\* spec mutation "intersects-stops-at-first": TLC must reject it (expected: Inv_C12_MultiKey)
CONSTANTS MaxAdds = 2  MVs = {0}  Extra = FALSE  Mut = "intersects-stops-at-first"
SPECIFICATION Spec
INVARIANTS TypeOK Inv_C12_Refines Inv_C12_MinValues Inv_C12_Overlap Inv_C12_Commutative Inv_C12_Associative
           Inv_C12_Idempotent Inv_C12_Compatible Inv_C12_MultiKey Inv_C13_Serialization Inv_C13_Any
