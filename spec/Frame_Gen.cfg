\* behaviour generation by TLC simulation (checks/C18.py maps the steps onto the disruption driver)
CONSTANTS Cap = 2  MaxLen = 8  Weak = ""
SPECIFICATION Spec
INVARIANTS GenPrint
