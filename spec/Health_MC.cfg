\* exhaustive check of the closed model (history hidden by VIEW)
CONSTANTS Size = 4  DryRunWalk = "logical"  MaxLen = 60
SPECIFICATION Spec
VIEW view
INVARIANTS TypeOK Inv_C20_Refines Inv_C20_DryRunAgrees
PROPERTIES Act_C20_StepRule
