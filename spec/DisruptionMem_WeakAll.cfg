\* all spec mutations of DisruptionMem_Weak_*.cfg in one run (see Disruption_WeakAll.cfg)
CONSTANTS W = 20  U = 5  VD = 15  MaxNow = 60  MaxLen = 8  WeakM = "*"
SPECIFICATION Spec
VIEW view
INVARIANTS WeakDetect
