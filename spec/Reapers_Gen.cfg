\* behaviour generation by TLC simulation: random deep behaviours of the closed model (h is part of the state)
CONSTANTS Claims = {"c1", "c2", "c3"}  MaxNow = 1000  MaxFaults = 3  MaxEnv = 8  MaxLen = 16  NoopEvery = 3  OffBefore = {1, 500, 501, 1000}  OffAfter = {0, 1, 500}
          EA = 600  LT = 300  RT = 900  TolReady = 120  TolUnk = 90  TolDisk = 60  UnknownFirst = TRUE
          PoolBg = {0, 4, 5, 9, 10}  OtherBg = {0, 3}  MaxBad = 3  MaxDel = 2  ReadyVals = {"True", "False", "Unknown"}
          RoundedClock = {}  ExpireSlack = 0  ExpireNever = "check"  GcOnProvListError = "abort"  GcOnLookupError = "skip"  GcReady = "check"  NotFoundAsEmpty = {}  GcReadOrder = "claimsFirst"  LiveGate = "registered"
          LiveSlack = 0  RepairSlack = 0  RepairTolBy = "policy"  RepairAnnotated = "check"  RepairExtra = 0  RepairScope = "pool"  RepairOnListError = "abort"  RepairTerminating = "count"
SPECIFICATION Spec
INVARIANTS GenPrint
