\* behaviour generation by TLC simulation: random deep behaviours of the closed model (h is part of the state)
CONSTANTS Claims = {"c1", "c2", "c3"}  MaxNow = 1000  MaxFaults = 3  MaxEnv = 8  MaxLen = 16  NoopEvery = 3
          EA = 600  LT = 300  RT = 900  TolReady = 120  TolDisk = 60  PoolBg = {0, 4, 5, 9, 10}  OtherBg = {0, 3}  MaxBad = 3  ReadyVals = {"True", "False", "Unknown"}
          ExpireSlack = 0  ExpireNever = "check"  GcOnProvListError = "abort"  GcOnLookupError = "skip"  GcReady = "check"
          LiveSlack = 0  RepairSlack = 0  RepairExtra = 0  RepairScope = "pool"  RepairOnListError = "abort"
SPECIFICATION Spec
INVARIANTS GenPrint
