\* world generation: every world of the scope (initial states only), printed as JSON
CONSTANTS NCs = {"N1", "N2"}  NClaims = 3  Kinds = {"net", "net2", "shm1", "shm2", "shm3", "gpu", "tshm"}  Pres = {0, 1, 2, 3, 4, 5}  Slots = {0, 1, 2}
CONSTANTS W_OtherNC = TRUE  W_SameType = TRUE  W_Prealloc = TRUE  W_RefCount = TRUE  W_CapInflight = TRUE  W_CapDelta = TRUE  W_Counters = TRUE  W_Template = TRUE  W_Releasable = TRUE
SPECIFICATION GenSpec
INVARIANTS GenPrint
