CONSTANTS MaxNow = 4  LT = 1  RT = 3  MaxFaults = 2  MaxLen = 40  StartupTaint = TRUE  ExtRes = TRUE  CacheMode = "code"
SPECIFICATION Spec
VIEW view
INVARIANTS TypeOK Inv_C14_CreateOnce Inv_C14_Order Inv_C14_FinalizerBeforeCreate
PROPERTIES Act_C14_Monotone Act_C14_Preconditions Act_C16_LivenessOnlyAfterTimeout
