------------------------ MODULE Consolidation_Trace ------------------------
(***************************************************************************)
(* Trace validation for C06 on traces of harness/drivers/disruption        *)
(* recorded with options.project = "c06" (format: spec/DISRUPT_TRACE.md,   *)
(* section 5).                                                             *)
(*                                                                         *)
(* Every consolidation command (Cmd: returned by a method's                *)
(* ComputeCommands after its validation; QCmd: started by the real         *)
(* Controller.Reconcile) is judged at the instant it was issued:           *)
(*   observed  the API store at that instant - the latest World snapshot   *)
(*             (pod classification: reschedulable, eviction cost, PDBs)    *)
(*             and the command's `sg` projection (the same store and the   *)
(*             provider's price table in the record shapes of C01's        *)
(*             admissibility oracle), the command itself (candidates,      *)
(*             replacement requirement Has-vectors, options, placements)   *)
(*   ghost     nodes marked for deletion / in flight (Env, QCmd events)    *)
(* The price view and the home view of ConsolidationGuards are derived     *)
(* from these with Kubernetes / price-table semantics: node prices and     *)
(* offering prices come from the CURRENT price table, never from the       *)
(* numbers or instance-type objects the command carries.                   *)
(***************************************************************************)
EXTENDS ConsolidationGuards, Json, IOUtils

DG == INSTANCE DisruptionGuards

VARIABLES l, st, viol, ntr, ncmd, done
tvars == <<l, st, viol, ntr, ncmd, done>>

Trace == ndJsonDeserialize(IOEnv.TRACE)
Ev == Trace[l]
V(guard, sig) == [line |-> l, guard |-> guard, sig |-> sig]
Chk(ok, guard, sig) == IF ok THEN <<>> ELSE <<V(guard, sig)>>

MinS2S == 15
ConsolidationMethods == {"single", "multi", "emptiness"}

NoWorld == [exists |-> FALSE, pools |-> <<>>, claims |-> <<>>, nodes |-> <<>>, pods |-> <<>>, pdbs |-> <<>>]
St0(cfg) == [cfg |-> cfg, world |-> NoWorld, marked |-> {}, inflight |-> {}, tableChanged |-> FALSE]

TraceInit == l = 1 /\ st = St0([spotToSpot |-> FALSE]) /\ viol = <<>> /\ ntr = 0 /\ ncmd = 0 /\ done = FALSE

\* ---------------------------------------------------------------- views of a command
CandNodeNames(cmd) == {cmd.candidates[i].node : i \in DOMAIN cmd.candidates} \ {"-"}
CandNames(cmd) == UNION {{cmd.candidates[i].node, cmd.candidates[i].claim} \ {"-"} : i \in DOMAIN cmd.candidates}
GhostMarked == st.marked \cup st.inflight

\* price of the offering a node runs on, from the current price table (0 = the table has no such offering)
OfferingPrice(sg, typ, zone, ct) ==
    IF ~SG!KnownType(sg, typ) THEN 0
    ELSE LET it == SG!TypeByName(sg, typ)
             I == {i \in DOMAIN it.offerings : it.offerings[i].zone = zone /\ it.offerings[i].ct = ct}
         IN IF I = {} THEN 0 ELSE it.offerings[CHOOSE i \in I : TRUE].price

\* labels of the candidate's Node as stored in the API (fallback: what the command recorded)
LabelOr(sg, c, k, dflt) ==
    IF SG!KnownNode(sg, c.node) /\ k \in DOMAIN SG!NodeByName(sg, c.node).labels
    THEN SG!NodeByName(sg, c.node).labels[k] ELSE dflt

W == st.world
PodsOn(node) == {i \in DOMAIN W.pods : W.pods[i].node = node}
Costly(node) == \E i \in PodsOn(node) :
                   /\ DG!PodView(W.pods[i], W).resched
                   /\ PositiveEvictionCost(W.pods[i].hasDeletionCost, W.pods[i].deletionCost, W.pods[i].hasPriority, W.pods[i].priority)
FullyBlocked(p) == \E j \in DOMAIN W.pdbs :
                      /\ DG!PdbSelects(W.pdbs[j], p)
                      /\ (W.pdbs[j].maxUnavailable \in {"0", "0%"} \/ W.pdbs[j].minAvailable = "100%")
\* pods the command owes a home: reschedulable, and not protected (a protected pod makes the node ineligible: C07)
Owed(p, now) == LET v == DG!PodView(p, W) IN v.resched /\ ~DG!PodDndBlocks(v, now) /\ ~FullyBlocked(p)

CandView(cmd, i) ==
    LET c == cmd.candidates[i]
        typ == LabelOr(cmd.sg, c, "it", c.type)
        zone == LabelOr(cmd.sg, c, "zone", c.zone)
        ct == LabelOr(cmd.sg, c, "ct", c.ct)
    IN [name |-> c.node, type |-> typ, ct |-> ct, price |-> OfferingPrice(cmd.sg, typ, zone, ct), costly |-> Costly(c.node)]

\* the replacement's requirements admit value v of key k (observed Has-vector over the universe)
Admits(sg, c, k, v) == SG!InUniverse(sg, k, v) /\ c.reqs[k].has[SG!Idx(sg, k, v)]
OptView(sg, c, itn) ==
    IF ~SG!KnownType(sg, itn) THEN [name |-> itn, offs |-> <<>>]
    ELSE LET it == SG!TypeByName(sg, itn) IN
         [name |-> itn,
          offs |-> [j \in DOMAIN it.offerings |->
                      LET o == it.offerings[j] IN
                      [zone |-> o.zone, ct |-> o.ct, price |-> o.price,
                       ok |-> o.available /\ Admits(sg, c, "zone", o.zone) /\ Admits(sg, c, "ct", o.ct)
                              /\ (o.rid = "" \/ Admits(sg, c, "rid", o.rid))]]]

PriceView(cmd) ==
    LET hasR == Len(cmd.claims) >= 1
        c == IF hasR THEN cmd.claims[1] ELSE [its |-> <<>>, minKeys |-> <<>>]
    IN [method |-> cmd.method, s2s |-> st.cfg.spotToSpot,
        cands |-> [i \in DOMAIN cmd.candidates |-> CandView(cmd, i)],
        nrepl |-> Len(cmd.replacements),
        opts |-> IF hasR THEN [i \in DOMAIN c.its |-> OptView(cmd.sg, c, c.its[i])] ELSE <<>>,
        minNeed |-> IF hasR THEN MinNeed(c.minKeys, Len(c.its)) ELSE 0]

HomeView(cmd) ==
    LET cn == CandNodeNames(cmd)
        sg == cmd.sg
    IN [owed |-> {W.pods[i].key : i \in {j \in DOMAIN W.pods : W.pods[j].node \in cn /\ Owed(W.pods[j], cmd.t)
                                                               /\ SG!KnownPod(sg, W.pods[j].key)}},
        homes |-> {sg.nodes[i].name : i \in {j \in DOMAIN sg.nodes :
                      /\ sg.nodes[j].initialized /\ ~sg.nodes[j].deleting
                      /\ sg.nodes[j].name \notin cn
                      /\ sg.nodes[j].name \notin GhostMarked /\ ("nc-" \o sg.nodes[j].name) \notin GhostMarked}},
        exist |-> cmd.existing,
        nrepl |-> Len(cmd.replacements),
        claim |-> IF Len(cmd.claims) >= 1 THEN cmd.claims[1] ELSE [pods |-> <<>>]]

\* ---------------------------------------------------------------- signatures (witness classes)
FirstBadOpt(cv, bad(_)) == LET B == {i \in DOMAIN cv.opts : bad(cv.opts[i])} IN cv.opts[CHOOSE i \in B : \A j \in B : i <= j]
Rel(a, b) == IF a = b THEN "equal" ELSE "dearer"
\* witness class of an EQUAL price: prices are logged in 1/100000 $; a price that is not a multiple of 1/8 $ has no exact
\* binary floating-point representation, so a sum of such prices may be off by an ulp in the code's arithmetic
Dyadic(p) == p % 12500 = 0
InexactPrices(cv, it) == \/ \E i \in DOMAIN cv.cands : ~Dyadic(cv.cands[i].price)
                         \/ \E j \in OkOffs(it) : ~Dyadic(it.offs[j].price)
FloatMark(cv, it, a, b) == (IF a = b /\ Len(cv.cands) > 1 /\ InexactPrices(cv, it) THEN ":sum-of-inexact-float-prices" ELSE "")
                           \o (IF st.tableChanged THEN ":price-table-changed-while-waiting" ELSE "")
SigCheaper(cv) ==
    LET it == FirstBadOpt(cv, LAMBDA o : Launchable(o) /\ ~(WorstPrice(o) < CandSum(cv)))
    IN LaunchCt(it) \o ":" \o Rel(WorstPrice(it), CandSum(cv)) \o (IF Len(cv.cands) > 1 THEN ":multi" ELSE ":single")
       \o FloatMark(cv, it, WorstPrice(it), CandSum(cv))
SigOdFallback(cv) ==
    LET it == FirstBadOpt(cv, LAMBDA o : \E j \in OkOffs(o) : o.offs[j].ct = OnDemand /\ ~(o.offs[j].price < CandSum(cv)))
        worstOd == MaxOf({it.offs[j].price : j \in {x \in OkOffs(it) : it.offs[x].ct = OnDemand}})
    IN (IF Spot \in OkCts(it) THEN "spot-or-on-demand" ELSE "on-demand-only") \o (IF Len(cv.cands) > 1 THEN ":multi" ELSE ":single")
       \o FloatMark(cv, it, worstOd, CandSum(cv))
SigSameType(cv) ==
    LET it == FirstBadOpt(cv, LAMBDA o : Launchable(o) /\ SameAs(cv, o) # {}
                                         /\ ~(WorstPrice(o) < MinOf({cv.cands[c].price : c \in SameAs(cv, o)})))
    IN LaunchCt(it) \o ":" \o Rel(WorstPrice(it), MinOf({cv.cands[c].price : c \in SameAs(cv, it)}))
       \o (IF st.tableChanged THEN ":price-table-changed-while-waiting" ELSE "")
SigEmpty(cv) == IF cv.nrepl # 0 THEN "replacement" ELSE "costly-pod"

CmdChecks(cmd) ==
    IF cmd.method \notin ConsolidationMethods \/ "sg" \notin DOMAIN cmd THEN <<>>
    ELSE LET cv == PriceView(cmd)
             hv == HomeView(cmd)
             sg == cmd.sg
             homeOK == cmd.method = "emptiness" \/ G_C06_PodsHaveHome(sg, hv)
             homeSig == IF homeOK THEN "-" ELSE SigHome(sg, hv)
         IN Chk(G_C06_AtMostOneReplacement(cv), "G_C06_AtMostOneReplacement", cmd.method)
            \o Chk(G_C06_StrictlyCheaper(cv), "G_C06_StrictlyCheaper", SigCheaper(cv))
            \o Chk(G_C06_SpotToSpot(cv, MinS2S), "G_C06_SpotToSpot", SigSpotToSpot(cv, MinS2S))
            \o Chk(G_C06_NoOdFallback(cv), "G_C06_NoOdFallback", SigOdFallback(cv))
            \o Chk(G_C06_SameType(cv), "G_C06_SameType", SigSameType(cv))
            \o Chk(G_C06_EmptyMeansNoCost(cv), "G_C06_EmptyMeansNoCost", SigEmpty(cv))
            \o (IF cmd.method # "emptiness" /\ Undecided(sg, hv) THEN <<V("Infra_C06_SearchTooLarge", cmd.method)>>
                ELSE IF homeOK THEN <<>>
                ELSE IF homeSig \in C01KnownSigs THEN <<V("Obs_C06_C01KnownClass", homeSig)>>
                ELSE <<V("G_C06_PodsHaveHome", homeSig)>>)
            \* observations (never verdicts): a replacement no instance type of which can currently be launched
            \o (IF cv.nrepl >= 1 /\ \A i \in DOMAIN cv.opts : ~Launchable(cv.opts[i])
                THEN <<V("Obs_C06_UnlaunchableReplacement", cmd.method)>> ELSE <<>>)
            \* ... and a replacement of spot nodes only whose request could fall back to an on-demand launch that is not
            \* cheaper (the statement forbids this for on-demand nodes only)
            \o (IF cv.nrepl >= 1 /\ ~SomeOnDemand(cv)
                   /\ \E i \in DOMAIN cv.opts : \E j \in OkOffs(cv.opts[i]) :
                         cv.opts[i].offs[j].ct = OnDemand /\ LaunchCt(cv.opts[i]) # OnDemand /\ ~(cv.opts[i].offs[j].price < CandSum(cv))
                THEN <<V("Obs_C06_SpotNodeOdFallback", cmd.method)>> ELSE <<>>)
            \* ... and a node price in the command that differs from the price table (MODEL-DRIFT diagnosis: the verdicts use the table)
            \o (IF \E i \in DOMAIN cmd.candidates : cmd.candidates[i].price # cv.cands[i].price
                THEN <<V("Obs_C06_CandidatePriceDiffers", cmd.method)>> ELSE <<>>)

IsJudged(cmd) == cmd.method \in ConsolidationMethods /\ "sg" \in DOMAIN cmd

TWorld == /\ Ev.e = "World"
          /\ st' = [st EXCEPT !.world = [exists |-> TRUE, pools |-> Ev.pools, claims |-> Ev.claims, nodes |-> Ev.nodes,
                                         pods |-> Ev.pods, pdbs |-> Ev.pdbs]]
          /\ UNCHANGED <<viol, ncmd>>

TCmd == /\ Ev.e = "Cmd"
        /\ viol' = viol \o CmdChecks(Ev)
        /\ ncmd' = ncmd + (IF IsJudged(Ev) THEN 1 ELSE 0)
        /\ UNCHANGED st

TQCmd == /\ Ev.e = "QCmd"
         /\ viol' = viol \o CmdChecks(Ev)
         /\ ncmd' = ncmd + (IF IsJudged(Ev) THEN 1 ELSE 0)
         /\ st' = [st EXCEPT !.inflight = @ \cup CandNames(Ev)]

TEnv == /\ Ev.e = "Env"
        /\ st' = CASE Ev.what = "Mark"   -> [st EXCEPT !.marked = @ \cup {Ev.name}]
                   [] Ev.what = "Unmark" -> [st EXCEPT !.marked = @ \ {Ev.name}]
                   [] Ev.what = "SetOffering" -> [st EXCEPT !.tableChanged = TRUE]
                   [] OTHER -> st
        /\ UNCHANGED <<viol, ncmd>>

\* a decision begins (a method's ComputeCommands / a controller round): from here on a change of the price table happens
\* WHILE the command is computed or waits for its validation (ghost, used for witness classes only)
TBegin == /\ Ev.e = "Begin"
          /\ st' = IF Ev.controller \in {"disruption.method", "disruption"} THEN [st EXCEPT !.tableChanged = FALSE] ELSE st
          /\ UNCHANGED <<viol, ncmd>>

TRestart == /\ Ev.e = "Restart"
            /\ st' = [st EXCEPT !.marked = {}, !.inflight = {}]
            /\ UNCHANGED <<viol, ncmd>>

\* every other event of the (shared, additively growing) disruption trace format is consumed without judgement
TOther == Ev.e \notin {"Cfg", "World", "Cmd", "QCmd", "Env", "Restart", "Begin"} /\ UNCHANGED <<st, viol, ncmd>>

TraceNext ==
    \/ /\ l <= Len(Trace) /\ l' = l + 1 /\ UNCHANGED done
       /\ \/ (Ev.e = "Cfg" /\ st' = St0(Ev) /\ ntr' = ntr + 1 /\ UNCHANGED <<viol, ncmd>>)
          \/ ((TWorld \/ TCmd \/ TQCmd \/ TEnv \/ TBegin \/ TRestart \/ TOther) /\ UNCHANGED ntr)
    \/ /\ l = Len(Trace) + 1 /\ ~done /\ done' = TRUE
       /\ JsonSerialize(IOEnv.OUT, [viol |-> viol, consumed |-> l - 1, traces |-> ntr, commands |-> ncmd])
       /\ UNCHANGED <<l, st, viol, ntr, ncmd>>

TraceSpec == TraceInit /\ [][TraceNext]_tvars
=============================================================================
