CONSTANT Mode = "end"
SPECIFICATION TraceSpec
