\* exhaustive, avail focus, quick tier: the zone-za spot offering of every type available or not, a capacity reservation
\* (none / available / exhausted) on either type, requests admitting every subset of {reserved, spot, on-demand}
CONSTANTS NTypes = 2  Prices = {1, 2}  ZMods = {"same"}  MaxCands = 1  MinS2S = 2  Focus = "avail"  UnavCTs = {"spot"}  Weak = ""  GenMod = 1  GenRes = 0
SPECIFICATION Spec
INVARIANTS TypeOK Inv_C06_CostDecreases Inv_C06_AtMostOneLaunch Inv_C06_SpotToSpotFeature Inv_C06_SpotToSpotAlternatives Inv_C06_SpotToSpotSettles Inv_C06_NotWorseThanKeeping Inv_C06_EmptyHarmless Inv_C06_PodsSchedulable
