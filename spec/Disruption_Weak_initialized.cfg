\* spec mutation: rule "initialized" weakened -> TLC must violate Inv_C07_NeverProtected
CONSTANTS MaxPre = 2  MaxChurn = 1  PairMode = "tgp"  Weak = "initialized"
SPECIFICATION Spec
INVARIANTS Inv_C07_NeverProtected
