\* spec mutation (the tree before fix 1d47e5fbe): the collector continues after a failed Node lookup and deletes -> Inv_C16_GarbageCollection
CONSTANTS Claims = {"c1", "c2", "c3"}  MaxNow = 1000  MaxFaults = 1  MaxEnv = 2  MaxLen = 30  NoopEvery = 1  OffBefore = {1, 500}  OffAfter = {0, 1}
          EA = 600  LT = 300  RT = 900  TolReady = 120  TolUnk = 90  TolDisk = 60  UnknownFirst = TRUE
          PoolBg = {4}  OtherBg = {5}  MaxBad = 1  MaxDel = 1  ReadyVals = {"True", "False"}
          RoundedClock = {}  ExpireSlack = 0  ExpireNever = "check"  GcOnProvListError = "abort"  GcOnLookupError = "delete"  GcReady = "check"  NotFoundAsEmpty = {}  GcReadOrder = "claimsFirst"  LiveGate = "registered"
          LiveSlack = 0  RepairSlack = 0  RepairTolBy = "policy"  RepairAnnotated = "check"  RepairExtra = 0  RepairScope = "pool"  RepairOnListError = "abort"  RepairTerminating = "count"
SPECIFICATION Spec
VIEW view
INVARIANTS Inv_C16_Expiration Inv_C16_GarbageCollection Inv_C16_Liveness Inv_C16_Repair
