\* spec mutation (W_Policies = FALSE  W_Guard = TRUE: ignoring nodeTaintsPolicy / nodeAffinityPolicy): TLC must violate Inv_C02_Admission
CONSTANTS NPods = 2  Archs = {13}  Layouts = {7}  MaxClaims = 1
CONSTANTS W_AllDomains = TRUE  W_Inverse = TRUE  W_Certain = TRUE  W_Bootstrap = TRUE  W_Slack = 0  W_Exclude = TRUE  W_MatchKeys = TRUE  W_MinDomains = TRUE  W_Policies = FALSE  W_Guard = TRUE
SPECIFICATION Spec
INVARIANTS Inv_C02_Admission
