------------------------------ MODULE Termination ------------------------------
(***************************************************************************)
(* Node and NodeClaim finalization (property C09).                         *)
(*                                                                         *)
(* State = what the property talks about: the NodeClaim and the Node as    *)
(* persisted in the API (finalizer, deletion mark, provider id, the        *)
(* termination timestamp, Drained / VolumesDetached / InstanceTerminating),*)
(* the pods bound to the node, a VolumeAttachment, the provider's instance,*)
(* the lifecycle controller's launch cache, the eviction queue (abstract:  *)
(* membership only, Drain.tla has the detail), the clock abstracted into   *)
(* two monotone facts (termination time passed, MinDrainTime passed), and  *)
(* the ghosts everCreated / provGone / lostLaunch.                         *)
(*                                                                         *)
(* Granularity (DESIGN 2.1, fine): every API / provider call of the two    *)
(* finalizers is its own action guarded by a program counter             *)
(*   NodeClaim finalize (lifecycle.finalize):  annotate termination time,  *)
(*     list + delete Nodes, provider Delete until NotFound, patch          *)
(*     InstanceTerminating, remove finalizer;                              *)
(*   Node finalize (termination.finalize): list + delete NodeClaim,        *)
(*     provider Get (not-ready shortcut), taint, drain pass, volume wait,  *)
(*     provider Delete, patch conditions, remove finalizer.                *)
(* Each call may fail (fault budget) or hit an optimistic-lock conflict    *)
(* (snapshot /= store).  With Atomic = FALSE the environment and the other *)
(* controller interleave between the calls; with Atomic = TRUE a reconcile *)
(* runs without foreign steps (the granularity the replay driver realises; *)
(* used for behaviour generation).                                         *)
(*                                                                         *)
(* The guards G_C09_* of TerminationGuards.tla are evaluated on the        *)
(* abstraction of this state into the logged record shapes: TLC checks     *)
(* that the protocol as modelled implies them at every finalizer-removing  *)
(* step and that they imply the user-visible invariant Inv_C09_NoLeak.     *)
(***************************************************************************)
EXTENDS TerminationGuards, Json

CONSTANTS Pods,          \* pod names
          Tol,           \* subset of Pods that tolerate the disruption taint
          Late,          \* subset of Pods that are not on the node at first and may be bound to it at ANY time, tainted or not
                         \* (a pod created with spec.nodeName bypasses kube-scheduler and the NoSchedule taint)
          Starts,        \* subset of {"registered", "launched", "unpersisted", "fresh"}
          VaOwners,      \* subset of Pods \cup {"-", "orphan"}: who owns the node's VolumeAttachment ("-": none)
          TGPs,          \* subset of BOOLEAN: the NodeClaim has a terminationGracePeriod
          Instants,      \* subset of BOOLEAN: provider Delete removes the instance at once
          MaxFaults, MaxRestarts, MaxLen,
          MaxSpont,      \* budget of spontaneous disturbances (a running pod leaves, the instance vanishes, NotReady); 99 = unbounded
          Atomic,        \* TRUE: no foreign step inside a reconcile
          FinalizeMode,  \* "code": finalize trusts status.providerID only; "cache": it also consults the launch cache
          Weak           \* spec mutation: "" | "deleteOkIsGone" | "skipVolumes" | "claimIgnoresNodes" | "skipDrain" | "noTaint"
                         \*   | "drainCached" (no drain pass once Drained=True is persisted) | "skipDetachingVolumes"

VARIABLES nc, node, pod, va, inst, cache, everCreated, provGone, lostLaunch, queued, tgpElapsed, drainOld, lc, nt, faults, restarts, spont, par, h
vars == <<nc, node, pod, va, inst, cache, everCreated, provGone, lostLaunch, queued, tgpElapsed, drainOld, lc, nt, faults, restarts, spont, par, h>>
view == <<nc, node, pod, va, inst, cache, everCreated, provGone, lostLaunch, queued, tgpElapsed, drainOld, lc, nt, faults, restarts, spont, par>>

Pid == "i1"
\* ann: the termination timestamp annotation is set; the clock is abstracted into two monotone facts
\* (tgpElapsed: the termination time has passed; drainOld: MinDrainTime has passed since Drained=Unknown was persisted)
NoClaim == [exists |-> FALSE, fin |-> FALSE, del |-> FALSE, reg |-> FALSE, pid |-> "-", ann |-> FALSE,
            drained |-> "Absent", vdet |-> "Absent", iterm |-> FALSE]
NoNode == [exists |-> FALSE, fin |-> FALSE, del |-> FALSE, tainted |-> FALSE, ready |-> FALSE]
LcIdle == [pc |-> "idle", m |-> NoClaim, lp |-> "-", res |-> "-", patched |-> FALSE]
NoObs == [pods |-> {}, vas |-> {}, elapsed |-> FALSE]
NtIdle == [pc |-> "idle", n |-> NoNode, c0 |-> NoClaim, c |-> NoClaim, res |-> "-", patched |-> FALSE, obs |-> NoObs, obsD |-> {}]

Hist(e) == Len(h) < MaxLen /\ h' = Append(h, e)
Idle == lc.pc = "idle" /\ nt.pc = "idle"

\* ---------------------------------------------------------------- abstraction into the logged record shapes
\* pod states: absent (not bound yet) | run | term (terminating) | stuck (terminating for longer than its grace period
\* plus a minute: Karpenter stops waiting for it) | gone.  "stuck" is reached by the environment step PodStuck
\* (time passing for that pod), not derived from the clock, to keep the state space small.
Stuck_(p) == pod[p].st = "stuck"
Now == 1000
StuckAfter == 60
AbsNode(n) == [exists |-> TRUE, name |-> "node-1", providerID |-> Pid, finalizer |-> n.fin,
               taints |-> IF n.tainted THEN <<[key |-> DisruptedKey, effect |-> "NoSchedule"]>> ELSE <<>>,
               ready |-> IF n.ready THEN "True" ELSE "False"]
AbsClaim(c) == [exists |-> TRUE, providerID |-> c.pid, registered |-> IF c.reg THEN "True" ELSE "Unknown",
                terminationAt |-> IF ~c.ann THEN -1 ELSE IF tgpElapsed THEN Now - 1 ELSE Now + 1, finalizer |-> c.fin]
AbsPod(p) == [name |-> p, phase |-> "Running", deleting |-> pod[p].st \in {"term", "stuck"},
              deletedAt |-> IF pod[p].st = "stuck" THEN Now - StuckAfter - 1 ELSE Now,
              toleratesDisruption |-> p \in Tol, owner |-> "replicaset"]
OnNode(p) == pod[p].st \in {"run", "term", "stuck"}
PodsOnNode == {AbsPod(p) : p \in {q \in Pods : OnNode(q)}}
\* va: "none" | "attached" | "detaching" (deletion requested, the object still exists while the detach runs)
Vas == IF va # "none" THEN {[pv |-> "pv", node |-> "node-1", deleting |-> va = "detaching"]} ELSE {}
PodPV == [p \in Pods |-> IF par.vaOwner = p THEN "pv" ELSE "-"]
GonePids == IF provGone THEN {Pid} ELSE {}
Created == IF everCreated THEN {Pid} ELSE {}
NodePids == IF node.exists THEN {Pid} ELSE {}
\* what a reconcile read: the pods and volume attachments of the node at the instant of its (last) list calls.
\* With Atomic = TRUE this is the current state; with fine interleaving the guard is judged against what the
\* controller could know (check-then-act: a pod finishing between the list and the patch is not its fault).
Obs == [pods |-> PodsOnNode, vas |-> Vas, elapsed |-> tgpElapsed]
InstTable == IF inst = "none" THEN <<>> ELSE <<[pid |-> Pid, state |-> inst]>>

\* ---------------------------------------------------------------- initial states
ClaimAt(kind) == [NoClaim EXCEPT !.exists = TRUE, !.fin = TRUE, !.reg = (kind = "registered"),
                                 !.pid = IF kind \in {"registered", "launched"} THEN Pid ELSE "-"]
Init ==
    \E kind \in Starts, vo \in VaOwners, tgp \in TGPs, instant \in Instants :
      /\ par = [start |-> kind, vaOwner |-> vo, tgp |-> tgp, instant |-> instant]
      /\ nc = ClaimAt(kind)
      /\ node = IF kind = "registered" THEN [exists |-> TRUE, fin |-> TRUE, del |-> FALSE, tainted |-> FALSE, ready |-> TRUE] ELSE NoNode
      /\ pod = [p \in Pods |-> [st |-> IF kind = "registered" /\ p \notin Late THEN "run" ELSE "absent"]]
      /\ va = IF kind = "registered" /\ vo # "-" THEN "attached" ELSE "none"
      /\ inst = IF kind = "fresh" THEN "none" ELSE "running"
      /\ cache = (kind = "unpersisted")
      /\ everCreated = (kind # "fresh")
      /\ provGone = FALSE /\ lostLaunch = FALSE /\ queued = {} /\ tgpElapsed = FALSE /\ drainOld = FALSE /\ lc = LcIdle /\ nt = NtIdle /\ faults = 0 /\ restarts = 0 /\ spont = 0
      /\ h = <<[a |-> "Start", kind |-> kind, vaOwner |-> vo, tgp |-> tgp, instant |-> instant]>>

\* ---------------------------------------------------------------- fault bookkeeping
\* f = "ok" | "err".  A failing call is logged in the history with the address the replay driver needs.
Fault(f, ctl, call, nth) ==
    /\ f \in {"ok", "err"}
    /\ (f = "err" => faults < MaxFaults)
    /\ faults' = IF f = "err" THEN faults + 1 ELSE faults
    /\ (IF f = "err" THEN Hist([a |-> "Fault", ctl |-> ctl, call |-> call, nth |-> nth]) ELSE UNCHANGED h)
NoCall(f) == f = "ok" /\ UNCHANGED <<faults, h>>

\* ---------------------------------------------------------------- NodeClaim finalizer (lifecycle.finalize)
LcBegin ==
    /\ lc.pc = "idle" /\ (Atomic => nt.pc = "idle")
    /\ nc.exists /\ nc.del /\ nc.fin
    /\ lc' = [LcIdle EXCEPT !.pc = "annotate", !.m = nc, !.lp = nc.pid]
    /\ Hist([a |-> "LcRec"])
    /\ UNCHANGED <<nc, node, pod, va, inst, cache, everCreated, provGone, lostLaunch, queued, tgpElapsed, drainOld, nt, faults, restarts, spont, par>>

\* patch with optimistic lock: fails when the copy in hand is not the stored version
LcAnnotate(f) ==
    /\ lc.pc = "annotate"
    /\ IF ~lc.m.ann /\ par.tgp
       THEN /\ Fault(f, "lc", "annotate", 1)
            /\ IF f = "err" \/ lc.m # nc
               THEN lc' = LcIdle /\ UNCHANGED nc
               ELSE /\ nc' = [nc EXCEPT !.ann = TRUE]
                    /\ lc' = [lc EXCEPT !.pc = "nodes", !.m = nc', !.patched = TRUE]
       ELSE NoCall(f) /\ lc' = [lc EXCEPT !.pc = "nodes"] /\ UNCHANGED nc
    /\ UNCHANGED <<node, pod, va, inst, cache, everCreated, provGone, lostLaunch, queued, tgpElapsed, drainOld, nt, restarts, spont, par>>

LcNodes(f) ==
    /\ lc.pc = "nodes"
    /\ IF lc.m.reg /\ Weak # "claimIgnoresNodes"
       THEN /\ Fault(f, "lc", "listNodes", 1)
            /\ lc' = IF f = "err" THEN LcIdle
                     ELSE IF ~node.exists THEN [lc EXCEPT !.pc = "provDelete"]
                     ELSE IF node.del THEN LcIdle          \* wait for the node to finish
                     ELSE [lc EXCEPT !.pc = "deleteNode"]
       ELSE NoCall(f) /\ lc' = [lc EXCEPT !.pc = "provDelete"]
    /\ UNCHANGED <<nc, node, pod, va, inst, cache, everCreated, provGone, lostLaunch, queued, tgpElapsed, drainOld, nt, restarts, spont, par>>

LcDeleteNode(f) ==
    /\ lc.pc = "deleteNode"
    /\ Fault(f, "lc", "deleteNode", 1)
    /\ lc' = LcIdle
    /\ node' = IF f = "err" \/ ~node.exists THEN node
               ELSE IF node.fin THEN [node EXCEPT !.del = TRUE] ELSE NoNode
    /\ UNCHANGED <<nc, pod, va, inst, cache, everCreated, provGone, lostLaunch, queued, tgpElapsed, drainOld, nt, restarts, spont, par>>

LcProvDelete(f) ==
    /\ lc.pc = "provDelete"
    /\ LET lp == IF lc.lp = "-" /\ FinalizeMode = "cache" /\ cache THEN Pid ELSE lc.lp IN
       IF lp = "-"
       THEN NoCall(f) /\ lc' = [lc EXCEPT !.pc = "removeFin"] /\ UNCHANGED <<inst, provGone>>
       ELSE /\ Fault(f, "lc", "provDelete", 1)
            /\ IF f = "err" THEN lc' = LcIdle /\ UNCHANGED <<inst, provGone>>
               ELSE IF inst \in {"running", "terminating"}
               THEN /\ inst' = IF par.instant THEN "gone" ELSE "terminating"
                    /\ lc' = [lc EXCEPT !.pc = "patchIT", !.res = "ok", !.lp = lp] /\ UNCHANGED provGone
               ELSE /\ provGone' = TRUE /\ UNCHANGED inst
                    /\ lc' = [lc EXCEPT !.pc = "patchIT", !.res = "nf", !.lp = lp]
    /\ UNCHANGED <<nc, node, pod, va, cache, everCreated, lostLaunch, queued, tgpElapsed, drainOld, nt, restarts, spont, par>>

LcPatchIT(f) ==
    /\ lc.pc = "patchIT"
    /\ LET cont == IF lc.res = "ok" THEN LcIdle ELSE [lc EXCEPT !.pc = "removeFin"] IN
       IF ~lc.m.iterm \/ lc.m.pid # lc.lp
       THEN /\ Fault(f, "lc", "patchStatus", 1)
            /\ IF f = "err" \/ ~nc.exists \/ lc.m # nc
               THEN lc' = LcIdle /\ UNCHANGED nc
               ELSE /\ nc' = [nc EXCEPT !.iterm = TRUE, !.pid = lc.lp]
                    /\ lc' = [cont EXCEPT !.m = IF cont.pc = "idle" THEN NoClaim ELSE nc']
       ELSE NoCall(f) /\ lc' = cont /\ UNCHANGED nc
    /\ UNCHANGED <<node, pod, va, inst, cache, everCreated, provGone, lostLaunch, queued, tgpElapsed, drainOld, nt, restarts, spont, par>>

LcRemoveFin(f) ==
    /\ lc.pc = "removeFin"
    /\ Fault(f, "lc", "removeFin", IF lc.patched THEN 2 ELSE 1)
    /\ lc' = LcIdle
    /\ nc' = IF f = "err" \/ ~nc.exists \/ lc.m # nc THEN nc ELSE NoClaim
    /\ UNCHANGED <<node, pod, va, inst, cache, everCreated, provGone, lostLaunch, queued, tgpElapsed, drainOld, nt, restarts, spont, par>>

\* the next reconcile of a NodeClaim that is not being deleted persists the cached launch result
LcPersistLaunch ==
    /\ Idle /\ nc.exists /\ ~nc.del /\ nc.pid = "-" /\ cache
    /\ nc' = [nc EXCEPT !.pid = Pid]
    /\ Hist([a |-> "LcRec"])
    /\ UNCHANGED <<node, pod, va, inst, cache, everCreated, provGone, lostLaunch, queued, tgpElapsed, drainOld, lc, nt, faults, restarts, spont, par>>

\* ---------------------------------------------------------------- Node finalizer (node termination controller)
NtBegin ==
    /\ nt.pc = "idle" /\ (Atomic => lc.pc = "idle")
    /\ node.exists /\ node.del /\ node.fin
    /\ nt' = [NtIdle EXCEPT !.pc = "listClaims", !.n = node, !.obs = Obs, !.obsD = PodsOnNode]
    /\ Hist([a |-> "NodeRec"])
    /\ UNCHANGED <<nc, node, pod, va, inst, cache, everCreated, provGone, lostLaunch, queued, tgpElapsed, drainOld, lc, faults, restarts, spont, par>>

NtListClaims(f) ==
    /\ nt.pc = "listClaims"
    /\ Fault(f, "nt", "listClaims", 1)
    /\ LET c == IF nc.exists /\ nc.pid = Pid THEN nc ELSE NoClaim IN
       nt' = IF f = "err" THEN NtIdle
             ELSE [nt EXCEPT !.c0 = c, !.c = c, !.pc = IF c.exists /\ ~c.del THEN "deleteClaim" ELSE "ready"]
    /\ UNCHANGED <<nc, node, pod, va, inst, cache, everCreated, provGone, lostLaunch, queued, tgpElapsed, drainOld, lc, restarts, spont, par>>

NtDeleteClaim(f) ==
    /\ nt.pc = "deleteClaim"
    /\ Fault(f, "nt", "deleteClaim", 1)
    /\ nt' = IF f = "err" THEN NtIdle ELSE [nt EXCEPT !.pc = "ready"]
    /\ nc' = IF f = "err" \/ ~nc.exists \/ nc.del THEN nc
             ELSE IF nc.fin THEN [nc EXCEPT !.del = TRUE] ELSE NoClaim
    /\ UNCHANGED <<node, pod, va, inst, cache, everCreated, provGone, lostLaunch, queued, tgpElapsed, drainOld, lc, restarts, spont, par>>

\* not-ready shortcut: ask the provider; NotFound removes the finalizer at once
NtReady(f) ==
    /\ nt.pc = "ready"
    /\ IF nt.n.ready
       THEN NoCall(f) /\ nt' = [nt EXCEPT !.pc = "taint"] /\ UNCHANGED provGone
       ELSE /\ Fault(f, "nt", "provGet", 1)
            /\ IF f = "err" THEN nt' = NtIdle /\ UNCHANGED provGone
               ELSE IF inst \in {"gone", "none"} THEN nt' = [nt EXCEPT !.pc = "removeFin"] /\ provGone' = TRUE
               ELSE nt' = [nt EXCEPT !.pc = "taint"] /\ UNCHANGED provGone
    /\ UNCHANGED <<nc, node, pod, va, inst, cache, everCreated, lostLaunch, queued, tgpElapsed, drainOld, lc, restarts, spont, par>>

NtTaint(f) ==
    /\ nt.pc = "taint"
    /\ IF nt.n.tainted \/ Weak = "noTaint"
       THEN NoCall(f) /\ nt' = [nt EXCEPT !.pc = "drain"] /\ UNCHANGED node
       ELSE /\ Fault(f, "nt", "taint", 1)
            /\ IF f = "err" \/ ~node.exists \/ nt.n # node
               THEN nt' = NtIdle /\ UNCHANGED node
               ELSE /\ node' = [node EXCEPT !.tainted = TRUE]
                    /\ nt' = [nt EXCEPT !.pc = "drain", !.n = node', !.patched = TRUE]
    /\ UNCHANGED <<nc, pod, va, inst, cache, everCreated, provGone, lostLaunch, queued, tgpElapsed, drainOld, lc, restarts, spont, par>>

\* obsD: the pods the drain pass listed (at the begin of the reconcile if it does not list): the drain answers for these
NtDrain(f) ==
    /\ nt.pc = "drain"
    /\ IF Weak = "drainCached" /\ nt.c.exists /\ nt.c.drained = "True"
       THEN NoCall(f) /\ nt' = [nt EXCEPT !.pc = "volumes"] /\ UNCHANGED queued
       ELSE
       /\ Fault(f, "nt", "listPods", 1)
       /\ LET waiting == IF Weak = "skipDrain" THEN {}
                         ELSE {p \in Pods : p \notin Tol /\ pod[p].st \in {"run", "term"}}
              hasC == nt.c.exists
              \* an Unknown set in this reconcile is new; a persisted one is old once MinDrainTime has passed
              fresh == hasC /\ nt.c.drained = "Absent"
              c1 == IF fresh THEN [nt.c EXCEPT !.drained = "Unknown"] ELSE nt.c
          IN IF f = "err" THEN nt' = NtIdle /\ UNCHANGED queued
             ELSE IF waiting # {}
             THEN queued' = queued \cup waiting /\ nt' = [nt EXCEPT !.c = c1, !.res = "requeue", !.pc = "patch", !.obsD = PodsOnNode]
             ELSE IF hasC /\ c1.drained = "Unknown" /\ (fresh \/ ~drainOld)
             THEN nt' = [nt EXCEPT !.c = c1, !.res = "requeue", !.pc = "patch", !.obsD = PodsOnNode] /\ UNCHANGED queued
             ELSE /\ nt' = [nt EXCEPT !.c = IF hasC THEN [c1 EXCEPT !.drained = "True"] ELSE c1, !.pc = "volumes", !.obsD = PodsOnNode]
                  /\ UNCHANGED queued
    /\ UNCHANGED <<nc, node, pod, va, inst, cache, everCreated, provGone, lostLaunch, tgpElapsed, drainOld, lc, restarts, spont, par>>

NtVolumes(f) ==
    /\ nt.pc = "volumes"
    /\ Fault(f, "nt", "listVolumes", 1)
    /\ LET vo == par.vaOwner
           \* the attachment of a pod that cannot be drained does not block
           blocking == /\ va # "none" /\ Weak # "skipVolumes" /\ ~(Weak = "skipDetachingVolumes" /\ va = "detaching")
                       /\ ~(vo \in Pods /\ OnNode(vo) /\ (vo \in Tol \/ Stuck_(vo)))
           elapsed == nt.c.exists /\ nt.c.ann /\ tgpElapsed
           hasC == nt.c.exists
       IN nt' = IF f = "err" THEN NtIdle
                ELSE IF ~blocking THEN [nt EXCEPT !.c = IF hasC THEN [@ EXCEPT !.vdet = "True"] ELSE @, !.pc = "provDelete", !.obs = Obs]
                ELSE IF ~elapsed THEN [nt EXCEPT !.c = IF hasC THEN [@ EXCEPT !.vdet = "Unknown"] ELSE @, !.res = "requeue", !.pc = "patch"]
                ELSE [nt EXCEPT !.c = IF hasC THEN [@ EXCEPT !.vdet = "False"] ELSE @, !.pc = "provDelete", !.obs = Obs]
    /\ UNCHANGED <<nc, node, pod, va, inst, cache, everCreated, provGone, lostLaunch, queued, tgpElapsed, drainOld, lc, restarts, spont, par>>

NtProvDelete(f) ==
    /\ nt.pc = "provDelete"
    /\ IF ~nt.c.exists
       THEN NoCall(f) /\ nt' = [nt EXCEPT !.pc = "patch"] /\ UNCHANGED <<inst, provGone>>
       ELSE /\ Fault(f, "nt", "provDelete", 1)
            /\ IF f = "err" THEN nt' = [nt EXCEPT !.res = "err", !.pc = "patch"] /\ UNCHANGED <<inst, provGone>>
               ELSE IF inst \in {"running", "terminating"}
               THEN /\ inst' = IF par.instant THEN "gone" ELSE "terminating"
                    /\ nt' = [nt EXCEPT !.c = [@ EXCEPT !.iterm = TRUE], !.pc = "patch",
                                        !.res = IF Weak = "deleteOkIsGone" THEN @ ELSE "requeue"]
                    /\ UNCHANGED provGone
               ELSE /\ provGone' = TRUE /\ UNCHANGED inst
                    /\ nt' = [nt EXCEPT !.c = [@ EXCEPT !.iterm = TRUE], !.pc = "patch"]
    /\ UNCHANGED <<nc, node, pod, va, cache, everCreated, lostLaunch, queued, tgpElapsed, drainOld, lc, restarts, spont, par>>

NtPatch(f) ==
    /\ nt.pc = "patch"
    /\ LET cont == IF nt.res \in {"requeue", "err"} THEN NtIdle ELSE [nt EXCEPT !.pc = "removeFin"]
           write == nt.c.exists /\ nt.c # nt.c0
           okW == write /\ f = "ok" /\ nc.exists /\ nt.c0 = nc
       IN /\ (IF write THEN Fault(f, "nt", "patchStatus", 1) ELSE NoCall(f))
          /\ nt' = IF ~write THEN cont
                   ELSE IF f = "err" THEN NtIdle
                   ELSE IF ~nc.exists THEN cont           \* NotFound is ignored
                   ELSE IF nt.c0 # nc THEN NtIdle        \* conflict: requeue
                   ELSE cont
          /\ nc' = IF okW THEN [nc EXCEPT !.drained = nt.c.drained, !.vdet = nt.c.vdet, !.iterm = nt.c.iterm] ELSE nc
          \* a newly persisted Drained=Unknown starts the MinDrainTime wait
          /\ drainOld' = IF okW /\ nc.drained # "Unknown" /\ nt.c.drained = "Unknown" THEN FALSE ELSE drainOld
    /\ UNCHANGED <<node, pod, va, inst, cache, everCreated, provGone, lostLaunch, queued, tgpElapsed, lc, restarts, spont, par>>

\* strategic merge patch, no optimistic lock
NtRemoveFin(f) ==
    /\ nt.pc = "removeFin"
    /\ Fault(f, "nt", "removeFin", IF nt.patched THEN 2 ELSE 1)
    /\ nt' = NtIdle
    /\ node' = IF f = "err" \/ ~node.exists THEN node ELSE NoNode
    /\ UNCHANGED <<nc, pod, va, inst, cache, everCreated, provGone, lostLaunch, queued, tgpElapsed, drainOld, lc, restarts, spont, par>>

\* ---------------------------------------------------------------- eviction queue (abstract) and environment
EnvOK == Atomic => Idle
Spont == (MaxSpont >= 99 \/ spont < MaxSpont) /\ spont' = IF MaxSpont >= 99 THEN spont ELSE spont + 1
QRec(p) ==
    /\ EnvOK /\ p \in queued
    /\ queued' = queued \ {p}
    /\ pod' = IF pod[p].st = "run" THEN [pod EXCEPT ![p] = [st |-> "term"]] ELSE pod
    /\ Hist([a |-> "QRec", pod |-> p])
    /\ UNCHANGED <<nc, node, va, inst, cache, everCreated, provGone, lostLaunch, tgpElapsed, drainOld, lc, nt, faults, restarts, spont, par>>
UserDeleteClaim ==
    /\ EnvOK /\ nc.exists /\ ~nc.del
    /\ nc' = IF nc.fin THEN [nc EXCEPT !.del = TRUE] ELSE NoClaim
    /\ Hist([a |-> "DeleteClaim"])
    /\ UNCHANGED <<node, pod, va, inst, cache, everCreated, provGone, lostLaunch, queued, tgpElapsed, drainOld, lc, nt, faults, restarts, spont, par>>
UserDeleteNode ==
    /\ EnvOK /\ node.exists /\ ~node.del
    /\ node' = IF node.fin THEN [node EXCEPT !.del = TRUE] ELSE NoNode
    /\ Hist([a |-> "DeleteNode"])
    /\ UNCHANGED <<nc, pod, va, inst, cache, everCreated, provGone, lostLaunch, queued, tgpElapsed, drainOld, lc, nt, faults, restarts, spont, par>>
PodGone(p) ==
    /\ EnvOK /\ OnNode(p)
    /\ pod' = [pod EXCEPT ![p] = [st |-> "gone"]]
    /\ (IF pod[p].st = "run" THEN Spont ELSE UNCHANGED spont)     \* a running pod leaves by itself / the kubelet finishes a terminating one
    /\ Hist([a |-> "PodGone", pod |-> p])
    /\ UNCHANGED <<nc, node, va, inst, cache, everCreated, provGone, lostLaunch, queued, tgpElapsed, drainOld, lc, nt, faults, restarts, par>>
\* kube-scheduler honours the NoSchedule taint, but a pod may be bound directly (spec.nodeName): any Late pod, at any time
PodBinds(p) ==
    /\ EnvOK /\ p \in Late /\ pod[p].st = "absent" /\ node.exists
    /\ pod' = [pod EXCEPT ![p] = [st |-> "run"]]
    /\ Hist([a |-> "PodBinds", pod |-> p])
    /\ UNCHANGED <<nc, node, va, inst, cache, everCreated, provGone, lostLaunch, queued, tgpElapsed, drainOld, lc, nt, faults, restarts, spont, par>>
PodStuck(p) ==
    /\ EnvOK /\ pod[p].st = "term"
    /\ pod' = [pod EXCEPT ![p] = [st |-> "stuck"]]
    /\ Hist([a |-> "PodStuck", pod |-> p])
    /\ UNCHANGED <<nc, node, va, inst, cache, everCreated, provGone, lostLaunch, queued, tgpElapsed, drainOld, lc, nt, faults, restarts, spont, par>>
\* the attach-detach controller deletes the VolumeAttachment; the object stays while the CSI detach runs
VolumeDetachStart ==
    /\ EnvOK /\ va = "attached" /\ va' = "detaching"
    /\ Hist([a |-> "VolumeDetachStart"])
    /\ UNCHANGED <<nc, node, pod, inst, cache, everCreated, provGone, lostLaunch, queued, tgpElapsed, drainOld, lc, nt, faults, restarts, spont, par>>
VolumeDetach ==
    /\ EnvOK /\ va # "none" /\ va' = "none"
    /\ Hist([a |-> "VolumeDetach"])
    /\ UNCHANGED <<nc, node, pod, inst, cache, everCreated, provGone, lostLaunch, queued, tgpElapsed, drainOld, lc, nt, faults, restarts, spont, par>>
InstGone ==
    /\ EnvOK /\ inst = "terminating" /\ inst' = "gone"
    /\ Hist([a |-> "InstanceGone"])
    /\ UNCHANGED <<nc, node, pod, va, cache, everCreated, provGone, lostLaunch, queued, tgpElapsed, drainOld, lc, nt, faults, restarts, spont, par>>
InstVanish ==
    /\ EnvOK /\ inst = "running" /\ inst' = "gone" /\ Spont
    /\ node' = IF node.exists THEN [node EXCEPT !.ready = FALSE] ELSE node      \* no kubelet without an instance
    /\ Hist([a |-> "InstanceVanishes"])
    /\ UNCHANGED <<nc, pod, va, cache, everCreated, provGone, lostLaunch, queued, tgpElapsed, drainOld, lc, nt, faults, restarts, par>>
NotReady ==
    /\ EnvOK /\ node.exists /\ node.ready /\ node' = [node EXCEPT !.ready = FALSE] /\ Spont
    /\ Hist([a |-> "NotReady"])
    /\ UNCHANGED <<nc, pod, va, inst, cache, everCreated, provGone, lostLaunch, queued, tgpElapsed, drainOld, lc, nt, faults, restarts, par>>
\* a kubelet reports Ready only while its instance runs
Ready ==
    /\ EnvOK /\ node.exists /\ ~node.ready /\ inst = "running" /\ node' = [node EXCEPT !.ready = TRUE]
    /\ Hist([a |-> "Ready"])
    /\ UNCHANGED <<nc, pod, va, inst, cache, everCreated, provGone, lostLaunch, queued, tgpElapsed, drainOld, lc, nt, faults, restarts, spont, par>>
\* time passes: the termination time of the NodeClaim / MinDrainTime since Drained=Unknown was persisted
TgpElapses ==
    /\ EnvOK /\ nc.exists /\ nc.ann /\ ~tgpElapsed /\ tgpElapsed' = TRUE
    /\ Hist([a |-> "TgpElapses"])
    /\ UNCHANGED <<nc, node, pod, va, inst, cache, everCreated, provGone, lostLaunch, queued, drainOld, lc, nt, faults, restarts, spont, par>>
DrainTimePasses ==
    /\ EnvOK /\ nc.exists /\ nc.drained = "Unknown" /\ ~drainOld /\ drainOld' = TRUE
    /\ Hist([a |-> "DrainTimePasses"])
    /\ UNCHANGED <<nc, node, pod, va, inst, cache, everCreated, provGone, lostLaunch, queued, tgpElapsed, lc, nt, faults, restarts, spont, par>>
\* process restart: running reconciles, the eviction queue and the launch cache are lost
Restart ==
    /\ restarts < MaxRestarts /\ restarts' = restarts + 1
    /\ lc' = LcIdle /\ nt' = NtIdle /\ queued' = {} /\ cache' = FALSE
    \* the only record of a created instance whose provider id was not persisted dies with the process
    /\ lostLaunch' = (lostLaunch \/ (cache /\ nc.exists /\ nc.pid = "-"))
    /\ Hist([a |-> "Restart", mid |-> ~Idle])      \* mid: the process died inside a reconcile
    /\ UNCHANGED <<nc, node, pod, va, inst, everCreated, provGone, tgpElapsed, drainOld, faults, spont, par>>

Controller ==
    \/ LcBegin \/ NtBegin \/ LcPersistLaunch
    \/ \E f \in {"ok", "err"} :
         \/ LcAnnotate(f) \/ LcNodes(f) \/ LcDeleteNode(f) \/ LcProvDelete(f) \/ LcPatchIT(f) \/ LcRemoveFin(f)
         \/ NtListClaims(f) \/ NtDeleteClaim(f) \/ NtReady(f) \/ NtTaint(f) \/ NtDrain(f) \/ NtVolumes(f)
         \/ NtProvDelete(f) \/ NtPatch(f) \/ NtRemoveFin(f)
Environment ==
    \/ \E p \in Pods : QRec(p) \/ PodGone(p) \/ PodBinds(p) \/ PodStuck(p)
    \/ UserDeleteClaim \/ UserDeleteNode \/ VolumeDetachStart \/ VolumeDetach \/ InstGone \/ InstVanish \/ NotReady \/ Ready \/ TgpElapses \/ DrainTimePasses \/ Restart
Next == Controller \/ Environment
Spec == Init /\ [][Next]_vars

\* fairness for the liveness statement: controllers keep reconciling, calls eventually succeed, the kubelet
\* finishes terminating pods, the cloud finishes terminating instances, volumes detach, time passes
OkStep == \/ LcBegin \/ NtBegin
          \/ LcAnnotate("ok") \/ LcNodes("ok") \/ LcDeleteNode("ok") \/ LcProvDelete("ok") \/ LcPatchIT("ok") \/ LcRemoveFin("ok")
          \/ NtListClaims("ok") \/ NtDeleteClaim("ok") \/ NtReady("ok") \/ NtTaint("ok") \/ NtDrain("ok") \/ NtVolumes("ok")
          \/ NtProvDelete("ok") \/ NtPatch("ok") \/ NtRemoveFin("ok")
FairSpec == /\ Spec
            \* (strong fairness where an action is disabled while the other controller's reconcile is in flight)
            /\ SF_vars(LcBegin) /\ SF_vars(NtBegin)
            /\ \A f \in {"ok"} : /\ WF_vars(LcAnnotate(f)) /\ WF_vars(LcNodes(f)) /\ WF_vars(LcDeleteNode(f))
                                 /\ WF_vars(LcProvDelete(f)) /\ WF_vars(LcPatchIT(f)) /\ WF_vars(LcRemoveFin(f))
                                 /\ WF_vars(NtListClaims(f)) /\ WF_vars(NtDeleteClaim(f)) /\ WF_vars(NtReady(f))
                                 /\ WF_vars(NtTaint(f)) /\ WF_vars(NtDrain(f)) /\ WF_vars(NtVolumes(f))
                                 /\ WF_vars(NtProvDelete(f)) /\ WF_vars(NtPatch(f)) /\ WF_vars(NtRemoveFin(f))
            /\ \A p \in Pods : SF_vars(QRec(p)) /\ SF_vars(pod[p].st \in {"term", "stuck"} /\ PodGone(p))
            /\ SF_vars(InstGone) /\ SF_vars(VolumeDetach) /\ SF_vars(TgpElapses) /\ SF_vars(DrainTimePasses)

\* ---------------------------------------------------------------- properties
TypeOK == /\ inst \in {"none", "running", "terminating", "gone"} /\ faults \in 0..MaxFaults
          /\ queued \subseteq Pods /\ nc.drained \in {"Absent", "Unknown", "True"}

\* a completed NodeClaim deletion never orphans an instance that was ever created for it
\* (lostLaunch: a restart destroyed the only record of the instance - nothing in the API or in memory knows it any
\*  more; that orphan exists whether or not the NodeClaim is deleted and is reported separately, see Termination_DefectRestart.cfg)
Inv_C09_NoLeak == (~nc.exists /\ ~lostLaunch) => NoLeak(Created, InstTable)
Inv_C09_NoLeakStrict == ~nc.exists => NoLeak(Created, InstTable)

\* the protocol implies the guards at the finalizer-removing steps
ClaimOfNode == nc.exists /\ nc.pid = Pid
Act_C09_NodeFinalizer ==
    [][ (node.exists /\ node.fin /\ ~node'.exists /\ nt.pc = "removeFin" /\ ClaimOfNode)
          => G_C09_NodeFinalizer(AbsNode(node), AbsClaim(nc), nt.obsD, nt.obs.pods, nt.obs.vas, PodPV, GonePids, Now, StuckAfter) ]_vars
Act_C09_ClaimFinalizer ==
    [][ (nc.exists /\ nc.fin /\ ~nc'.exists /\ lc.pc = "removeFin" /\ ~lostLaunch)
          => G_C09_ClaimFinalizer(AbsClaim(nc), NodePids, Created, GonePids) ]_vars
\* the guards imply the invariant: a NodeClaim whose finalizer is removed under the guard leaves no instance
Act_C09_GuardImpliesNoLeak ==
    [][ (nc.exists /\ ~nc'.exists /\ G_C09_ClaimFinalizer(AbsClaim(nc), NodePids, Created, GonePids))
          => NoLeak(Created, InstTable) ]_vars
\* ghost sanity: the provider said NotFound only for an instance that is gone
Inv_ProvGoneSound == provGone => inst \in {"gone", "none"}

\* once deletion has started and faults have stopped, both objects eventually disappear
Live_C09_ClaimFinalized == (nc.exists /\ nc.del) ~> ~nc.exists
Live_C09_NodeFinalized == (node.exists /\ node.del) ~> ~node.exists

\* constant sets for the configs (negative numbers / booleans are awkward in .cfg files)
BoolBoth == {TRUE, FALSE}
BoolF == {FALSE}
BoolT == {TRUE}

GenPrint == (Len(h) < MaxLen /\ ENABLED Next) \/ lc.pc # "idle" \/ nt.pc # "idle" \/ PrintT(<<"BEH", ToJson(h)>>)
=============================================================================
