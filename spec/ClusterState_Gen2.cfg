\* behaviour generation, second tour: every distinct quiescent state reachable from an established node (Start = "full":
\* Node n1/i1 + NodeClaim c1/i1 + pods p1, p2 on n1, all observed) AS THE PINNED TREE BEHAVES, with all pod shapes and
\* one failed-and-retried delivery
CONSTANTS NodeNames = {"n1", "n2"}  ClaimNames = {"c1"}  PodKeys = {"p1", "p2"}  Pids = {"i1", "i2"}  Pools = {"a"}
          PortNames = {"80", "81", "82"}
          Defects = {"nodeGone", "podUnbound", "volUnion", "dsKept"}  MaxMut = 3  MaxDup = 1  MaxLen = 1000  WithTerm = FALSE
          WithRestart = FALSE  PodShapes = {"std", "alt", "bare"}  Start = "full"  MaxFail = 1  MaxPend = 2
SPECIFICATION Spec
VIEW view
INVARIANTS GenQuiescent
