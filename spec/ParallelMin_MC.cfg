CONSTANTS Workers = {1, 2, 3}  NPieces = 4  CheckLowerOnly = TRUE
SPECIFICATION Spec
INVARIANTS Inv_SelectionIsLowest
PROPERTIES Live_Terminates
