\* spec mutation (W_Bootstrap = FALSE: letting a self-matching pod start a second domain while a match is reachable): TLC must violate Inv_C02_EndState
CONSTANTS NPods = 2  Archs = {6}  Layouts = {0}  MaxClaims = 2
CONSTANTS W_AllDomains = TRUE  W_Inverse = TRUE  W_Certain = TRUE  W_Bootstrap = FALSE  W_Slack = 0  W_Exclude = TRUE  W_MatchKeys = TRUE  W_MinDomains = TRUE  W_Policies = TRUE  W_Guard = TRUE
SPECIFICATION Spec
INVARIANTS Inv_C02_EndState
