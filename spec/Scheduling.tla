----------------------------- MODULE Scheduling -----------------------------
(***************************************************************************)
(* Closed model of ONE scheduling pass (property C01; the scheduling family *)
(* C02/C03-dynamic/C04/C13/C17/C19 extends this module).                    *)
(*                                                                         *)
(* The scenario `cfg` (same record shape as the driver's scenario JSON /    *)
(* the Cfg line of a trace, spec/SCHED_TRACE.md) is chosen                  *)
(* nondeterministically at Init from a small scope: 2 instance types x     *)
(* 2(+1 empty) zones x 2 capacity types, <=2 pools, <=1 existing + <=1      *)
(* in-flight node, <=1 daemonset, NPods pods drawn from 12 constraint       *)
(* archetypes.  The scheduler is "any sequence of guarded placements" - a   *)
(* superset of the real strategy: any pod order, any target, relaxation at  *)
(* any time.  What is modelled is the MECHANISM Karpenter's design relies   *)
(* on: a NodeClaim is a set of admitted label values per key (narrowed by   *)
(* intersection with the pod's node selector, its FIRST required term, a    *)
(* volume alternative and - until relaxed - its heaviest preference), a     *)
(* set of remaining instance types (filtered by requirement overlap, an     *)
(* available compatible offering and fit of summed requests + per-type      *)
(* daemon overhead into that offering's allocatable) and host-port usage.   *)
(* TLC checks that this mechanism implies the END-STATE oracle of           *)
(* SchedulingGuards.tla (Kubernetes filter semantics over labellings) in    *)
(* every reachable state.  The W_* switches weaken one mechanism conjunct   *)
(* each (Scheduling_Weak*.cfg): TLC must then violate an invariant.         *)
(***************************************************************************)
EXTENDS SchedulingGuards, Json

CONSTANTS
    NPods,        \* pods per batch
    PodArchs,     \* archetype ids the batch is drawn from (subset of 1..13)
    Catalogs,     \* catalog ids (subset of 1..6)
    PoolSets,     \* pool-set ids (subset of 1..5)
    Existings,    \* existing-state ids (subset of 0..5)
    Daemons,      \* daemonset ids (subset of 0..3)
    W_Avail,      \* TRUE: an offering must be available             (FALSE = mutation)
    W_Overhead,   \* TRUE: per-type daemon overhead is added to the requests
    W_Ports,      \* TRUE: host ports are tracked on new NodeClaims
    W_KeepTerm,   \* TRUE: relaxation never drops the last required term
    W_Override,   \* TRUE: fit uses the allocatable of the offering's override group
    W_Refilter,   \* TRUE: instance types are re-filtered when a later pod is added
    W_InitTaints  \* TRUE: ephemeral / startup taints are ignored only on NOT yet initialized managed nodes

VARIABLES cfg, eff, claims, onNode, state
vars == <<cfg, eff, claims, onNode, state>>

----------------------------------------------------------------------------
(* scenario space *)
U == [zone |-> <<"a", "b", "c", "~">>, ct |-> <<"spot", "od", "~">>, it |-> <<"T1", "T2", "~">>,
      team |-> <<"x", "y", "~">>, pool |-> <<"P1", "P2", "~">>, host |-> <<"n1", "n2", "n3", "~">>]
UNum == [k \in DOMAIN U |-> [i \in DOMAIN U[k] |-> NoInt]]
Custom == {"team"}

Off(z, c, av, cov, oh) == [zone |-> z, ct |-> c, price |-> (IF c = "spot" THEN 60 ELSE 100), available |-> av, rid |-> "", rcap |-> 0,
                           cpuOv |-> cov, memOv |-> 0, podsOv |-> 0, ohCpu |-> oh, ohMem |-> 0]
Ty(n, cpu, offs) == [name |-> n, cpu |-> cpu, mem |-> 4096, pods |-> 110, labels |-> <<>>, ovCpu |-> 100, ovMem |-> 0, offerings |-> offs]
\* four offerings; b/od optionally carries a capacity override (cov) and / or an overhead override (oh)
AllOffOv(unav, cov, oh) == <<Off("a", "spot", <<"a", "spot">> \notin unav, 0, 0), Off("a", "od", <<"a", "od">> \notin unav, 0, 0),
                             Off("b", "spot", <<"b", "spot">> \notin unav, 0, 0), Off("b", "od", <<"b", "od">> \notin unav, cov, oh)>>
AllOff(unav, cov) == AllOffOv(unav, cov, 0)
Catalog(i) ==
    CASE i = 1 -> <<Ty("T1", 1000, AllOff({}, 0)), Ty("T2", 2000, AllOff({}, 0))>>
      [] i = 2 -> <<Ty("T1", 1000, AllOff({<<"b", "spot">>, <<"b", "od">>}, 0)), Ty("T2", 2000, AllOff({}, 0))>>
      [] i = 3 -> <<Ty("T1", 1000, AllOff({}, 0)), Ty("T2", 2000, AllOff({<<"a", "od">>, <<"b", "od">>}, 0))>>
      [] i = 4 -> <<Ty("T1", 1000, AllOff({<<"a", "spot">>}, 0)), Ty("T2", 2000, AllOff({<<"a", "od">>}, 1000))>>   \* T2: a/od unavailable, b/od with capacity override 1000
      [] i = 5 -> <<Ty("T1", 1000, AllOff({<<"a", "spot">>}, 0)), Ty("T2", 2000, AllOffOv({<<"a", "od">>}, 0, 1100))>>  \* T2 b/od: OVERHEAD override only (room 900)
      [] i = 6 -> <<Ty("T1", 1000, AllOff({}, 0)), Ty("T2", 2000, AllOffOv({<<"a", "od">>}, 3000, 2100))>>              \* T2 b/od: capacity AND overhead override (room 900)

NoLimits == [cpu |-> 0, mem |-> 0, nodes |-> -1]
PR(k, op, vals) == [key |-> k, op |-> op, vals |-> vals, n |-> 0, min |-> 0]
Dedicated == [key |-> "dedicated", value |-> "infra", effect |-> "NoSchedule", timeAdded |-> FALSE]
NotReady(fx) == [key |-> "node.kubernetes.io/not-ready", value |-> "", effect |-> fx, timeAdded |-> fx = "NoExecute"]
Pool(n, reqs, labels, taints) == [name |-> n, weight |-> 0, reqs |-> reqs, labels |-> labels, taints |-> taints, startup |-> <<>>,
                                  limits |-> NoLimits, types |-> <<>>]
PoolSet(i) ==
    CASE i = 1 -> <<Pool("P1", <<>>, <<>>, <<>>)>>
      [] i = 2 -> <<Pool("P1", <<PR("zone", "In", <<"a">>)>>, <<>>, <<>>), Pool("P2", <<>>, <<>>, <<>>)>>
      [] i = 3 -> <<Pool("P1", <<PR("ct", "In", <<"od">>)>>, <<>>, <<Dedicated>>), Pool("P2", <<>>, <<>>, <<>>)>>
      [] i = 4 -> <<Pool("P1", <<>>, [team |-> "x"], <<>>)>>
      [] i = 5 -> <<Pool("P1", <<PR("it", "In", <<"T1">>)>>, <<>>, <<>>), Pool("P2", <<PR("team", "In", <<"x", "y">>)>>, <<>>, <<>>)>>

Res(c, m, p) == [cpu |-> c, mem |-> m, pods |-> p]
P0(name) == [name |-> name, ns |-> "default", node |-> "", owner |-> "", cpu |-> 400, mem |-> 64, created |-> 0, labels |-> <<>>,
             sel |-> <<>>, terms |-> <<>>, pref |-> <<>>, tol |-> <<>>, ports |-> <<>>, vols |-> <<>>, aff |-> <<>>, anti |-> <<>>,
             prefAff |-> <<>>, prefAnti |-> <<>>, spread |-> <<>>]
E(k, op, vals) == [key |-> k, op |-> op, vals |-> vals, n |-> 0]
Port80 == [port |-> 80, ip |-> "", proto |-> "TCP"]
TolDedicated == [key |-> "dedicated", op |-> "Equal", value |-> "infra", effect |-> "NoSchedule"]
TolAll == [key |-> "", op |-> "Exists", value |-> "", effect |-> ""]
\* the 12 constraint archetypes (DESIGN Appendix D, node-level part)
Arch(a, name) ==
    LET p == P0(name) IN
    CASE a = 1  -> p
      [] a = 2  -> [p EXCEPT !.cpu = 900]
      [] a = 3  -> [p EXCEPT !.sel = [zone |-> "a"]]
      [] a = 4  -> [p EXCEPT !.terms = <<<<E("zone", "In", <<"c">>)>>, <<E("zone", "In", <<"b">>)>>>>]
      [] a = 5  -> [p EXCEPT !.terms = <<<<E("ct", "NotIn", <<"spot">>)>>>>]
      [] a = 6  -> [p EXCEPT !.terms = <<<<E("team", "In", <<"x">>)>>>>]
      [] a = 7  -> [p EXCEPT !.pref = <<[weight |-> 10, exprs |-> <<E("zone", "In", <<"c">>)>>]>>, !.sel = [ct |-> "od"]]
      [] a = 8  -> [p EXCEPT !.tol = <<TolDedicated>>, !.cpu = 900]
      [] a = 9  -> [p EXCEPT !.ports = <<Port80>>]
      [] a = 10 -> [p EXCEPT !.ports = <<Port80>>, !.cpu = 900]
      [] a = 11 -> [p EXCEPT !.vols = <<"c-b">>]
      [] a = 12 -> [p EXCEPT !.terms = <<<<E("team", "NotIn", <<"y">>)>>>>]
      [] a = 13 -> [p EXCEPT !.tol = <<[key |-> "node.kubernetes.io/not-ready", op |-> "Exists", value |-> "", effect |-> ""]>>]
PodName(i) == "w" \o ToString(i)
\* batches: non-decreasing archetype sequences (multisets)
Batches == {s \in [1..NPods -> PodArchs] : \A i \in 1..(NPods - 1) : s[i] <= s[i + 1]}

\* existing state: n1 = initialized T2 node in zone a (od) of pool P1 with a bound pod on port 80,
\*                 n2 = in-flight (NodeClaim only) T1 in zone b (spot) of pool P1
NodeRec(name, stage, tyn, z, c, alloc, pool) ==
    [name |-> name, stage |-> stage, pool |-> pool.name,
     labels |-> [k \in {"zone", "ct", "it", "pool"} \cup DOMAIN pool.labels |->
                   CASE k = "zone" -> z [] k = "ct" -> c [] k = "it" -> tyn [] k = "pool" -> pool.name [] OTHER -> pool.labels[k]],
     taints |-> pool.taints, startup |-> <<>>, ephemeral |-> FALSE, alloc |-> alloc, cap |-> alloc, marked |-> FALSE, deleting |-> FALSE,
     csi |-> <<>>, nodeTaints |-> <<>>]
ExistNodes(i, pool) ==
    LET n1 == NodeRec("n1", "initialized", "T2", "a", "od", Res(1900, 4096, 110), pool)
        n2 == NodeRec("n2", "claimonly", "T1", "b", "spot", Res(900, 4096, 110), pool)
        \* n3 = statically joined (unmanaged) node WITHOUT zone / pool labels: a missing label satisfies only NotIn / DoesNotExist
        n3 == [name |-> "n3", stage |-> "unmanaged", pool |-> "", labels |-> [ct |-> "od", it |-> "T2"], taints |-> <<>>, startup |-> <<>>,
               ephemeral |-> FALSE, alloc |-> Res(1900, 4096, 110), cap |-> Res(1900, 4096, 110), marked |-> FALSE, deleting |-> FALSE, csi |-> <<>>, nodeTaints |-> <<>>]
        \* n1 went NotReady AFTER initialization (not-ready:NoExecute re-acquired): every pod needs a toleration;
        \* n2r = registered but not yet initialized node still carrying not-ready:NoSchedule: expected to clear
        n1e == [n1 EXCEPT !.nodeTaints = <<NotReady("NoExecute")>>]
        n2r == [NodeRec("n2", "registered", "T1", "b", "spot", Res(900, 4096, 110), pool) EXCEPT !.nodeTaints = <<NotReady("NoSchedule")>>]
    IN CASE i = 0 -> <<>> [] i = 1 -> <<n1>> [] i = 2 -> <<n2>> [] i = 3 -> <<n1, n2>> [] i = 4 -> <<n1, n3>> [] i = 5 -> <<n1e, n2r>>
BoundOn(i) == IF i \in {1, 3, 4, 5} THEN <<[P0("b1") EXCEPT !.node = "n1", !.owner = "rs", !.cpu = 900, !.ports = <<Port80>>, !.tol = <<TolAll>>]>> ELSE <<>>

DS0(sel, ports) == [name |-> "ds0", ns |-> "kube-system", cpu |-> 200, mem |-> 64, sel |-> sel, terms |-> <<>>, tol |-> <<TolAll>>, ports |-> ports]
DaemonSet(i) == CASE i = 0 -> <<>> [] i = 1 -> <<DS0(<<>>, <<>>)>> [] i = 2 -> <<DS0([zone |-> "a"], <<>>)>> [] i = 3 -> <<DS0(<<>>, <<Port80>>)>>

Scenario(cat, ps, ex, dm, batch) ==
    [name |-> "tlc-" \o ToString(cat) \o "-" \o ToString(ps) \o "-" \o ToString(ex) \o "-" \o ToString(dm) \o "-" \o ToString(batch),
     universe |-> U, unum |-> UNum, types |-> Catalog(cat), pools |-> PoolSet(ps), nodes |-> ExistNodes(ex, PoolSet(ps)[1]),
     ds |-> DaemonSet(dm), scs |-> <<>>,
     pvs |-> <<[name |-> "pv-b", driver |-> "csi.example", terms |-> <<<<E("zone", "In", <<"b">>)>>>>]>>,
     pvcs |-> <<[name |-> "c-b", ns |-> "default", pv |-> "pv-b", sc |-> ""]>>,
     pods |-> BoundOn(ex) \o [i \in 1..NPods |-> Arch(batch[i], PodName(i))]]
ScenarioSpace == {Scenario(cat, ps, ex, dm, b) : cat \in Catalogs, ps \in PoolSets, ex \in Existings, dm \in Daemons, b \in Batches}

----------------------------------------------------------------------------
(* the mechanism: requirement sets *)
UVals(k) == Range(U[k])
\* a requirement state for key k: admitted values S, whether a missing label is admitted, whether the key is defined
MkReq(k, S, ab, def) ==
    [defined |-> def,
     op |-> IF ~def THEN "-" ELSE IF ab THEN (IF S = {} THEN "DoesNotExist" ELSE "NotIn") ELSE (IF S = UVals(k) THEN "Exists" ELSE "In"),
     vals |-> <<>>, has |-> [i \in DOMAIN U[k] |-> U[k][i] \in S], absent |-> ab, min |-> -1]
AnyReq(k) == MkReq(k, UVals(k), TRUE, FALSE)
RVals(r, k) == {U[k][i] : i \in {j \in DOMAIN U[k] : r.has[j]}}
NonEmpty(r, k) == RVals(r, k) # {} \/ r.absent
Meet(r1, r2, k) == IF ~r1.defined /\ ~r2.defined THEN AnyReq(k) ELSE MkReq(k, RVals(r1, k) \cap RVals(r2, k), r1.absent /\ r2.absent, TRUE)
\* denotation of one expression (Kubernetes semantics, via Admits on one-key labellings)
ExprReq(e) == MkReq(e.key, {v \in UVals(e.key) : Admits(cfg, e, (e.key :> v))}, Admits(cfg, e, <<>>), TRUE)
RECURSIVE MeetAll(_, _)
MeetAll(rs, k) == IF rs = <<>> THEN AnyReq(k) ELSE Meet(Head(rs), MeetAll(Tail(rs), k), k)
ExprsOn(es, k) == SelectSeq(es, LAMBDA e : e.key = k)
ReqsOfExprs(es) == [k \in DOMAIN U |-> MeetAll([i \in DOMAIN ExprsOn(es, k) |-> ExprReq(ExprsOn(es, k)[i])], k)]
RECURSIVE SelExprsOf(_, _)
SelExprsOf(sel, S) == IF S = {} THEN <<>> ELSE LET k == CHOOSE x \in S : TRUE IN <<E(k, "In", <<sel[k]>>)>> \o SelExprsOf(sel, S \ {k})
SelExprs(sel) == SelExprsOf(sel, DOMAIN sel)
\* the requirements Karpenter schedules a (possibly relaxed) pod with: selector, FIRST required term, heaviest preference
Heaviest(pref) == CHOOSE i \in DOMAIN pref : \A j \in DOMAIN pref : pref[j].weight <= pref[i].weight
PodExprs(e) == SelExprs(e.sel) \o (IF e.terms = <<>> THEN <<>> ELSE e.terms[1]) \o (IF e.pref = <<>> THEN <<>> ELSE e.pref[Heaviest(e.pref)].exprs)
PodReqs(e) == ReqsOfExprs(PodExprs(e))
\* volume alternatives of a pod as requirement maps (<<>> = no volume constraint)
VolAltsOf(p) ==
    LET vs == {v \in Range(p.vols) : HasPvc(cfg, p, v) /\ PvcOf(cfg, p, v).pv # ""} IN
    IF vs = {} THEN {ReqsOfExprs(<<>>)}
    ELSE LET v == CHOOSE x \in vs : TRUE     \* archetypes carry at most one constrained volume
             terms == PvOf(cfg, PvcOf(cfg, p, v).pv).terms
         IN {ReqsOfExprs(terms[i]) : i \in DOMAIN terms}
MeetMap(a, b) == [k \in DOMAIN U |-> Meet(a[k], b[k], k)]
AllNonEmpty(m) == \A k \in DOMAIN U : NonEmpty(m[k], k)

\* template of a pool: its requirements and labels; a custom key the pool does not define is MISSING on its nodes
PoolByName(n) == CHOOSE p \in Range(cfg.pools) : p.name = n
TemplateReqs(pool) ==
    LET fromReqs == ReqsOfExprs([i \in DOMAIN pool.reqs |-> E(pool.reqs[i].key, pool.reqs[i].op, pool.reqs[i].vals)])
        fromLbls == ReqsOfExprs(SelExprs(pool.labels) \o <<E("pool", "In", <<pool.name>>)>>)
        m == MeetMap(fromReqs, fromLbls)
    IN [k \in DOMAIN U |-> IF k \in Custom /\ ~m[k].defined THEN MkReq(k, {}, TRUE, TRUE) ELSE m[k]]
PoolTypes(pool) == [i \in DOMAIN cfg.types |-> cfg.types[i].name]

\* instance-type filter
TypeReq(it, k) == IF k = "it" THEN MkReq(k, {it.name}, FALSE, TRUE)
                  ELSE IF k = "zone" THEN MkReq(k, {it.offerings[i].zone : i \in DOMAIN it.offerings}, FALSE, TRUE)
                  ELSE IF k = "ct" THEN MkReq(k, {it.offerings[i].ct : i \in DOMAIN it.offerings}, FALSE, TRUE)
                  ELSE AnyReq(k)
ItCompat(it, reqs) == \A k \in DOMAIN U : NonEmpty(Meet(TypeReq(it, k), reqs[k], k), k)
OffCompat(o, reqs) == o.zone \in RVals(reqs["zone"], "zone") /\ o.ct \in RVals(reqs["ct"], "ct")
\* daemonsets Karpenter charges to a type of a pool: compatible with the TEMPLATE (not the narrowed claim) and the type
DaemonsFor(pool, it) ==
    {d \in Range(cfg.ds) :
        /\ TaintsTolerated(d.tol, pool.taints)
        /\ LET dr == ReqsOfExprs(SelExprs(d.sel)) IN AllNonEmpty(MeetMap(TemplateReqs(pool), dr)) /\ ItCompat(it, dr)}
AllocFor(it, o) == IF W_Override THEN OfferingAlloc(it, o) ELSE OfferingAlloc(it, [o EXCEPT !.cpuOv = 0, !.memOv = 0, !.podsOv = 0, !.ohCpu = 0, !.ohMem = 0])
FitsType(pool, it, reqs, P) ==
    \E i \in DOMAIN it.offerings :
        LET o == it.offerings[i] IN
        /\ (W_Avail => o.available)
        /\ OffCompat(o, reqs)
        /\ LeqRes(AddRes(SumReq(P), IF W_Overhead THEN SumReq(DaemonsFor(pool, it)) ELSE Res(0, 0, 0)), AllocFor(it, o))
PortsFree(pool, it, p, P) ==
    \/ ~W_Ports
    \/ /\ \A q \in P : ~PortsClash(p.ports, q.ports)
       /\ \A d \in DaemonsFor(pool, it) : ~PortsClash(p.ports, d.ports)

Orig(k) == PodByKey(cfg, k)
Batch == {PKey(p) : p \in {x \in Range(cfg.pods) : x.node = ""}}
Unplaced == {k \in Batch : state[k] = "pending"}
OrigPods(ks) == {Orig(k) : k \in Range(ks)}

----------------------------------------------------------------------------
Init ==
    /\ cfg \in ScenarioSpace
    /\ eff = [k \in {PKey(p) : p \in Range(cfg.pods)} |-> PodByKey(cfg, k)]
    /\ claims = <<>>
    /\ onNode = [n \in {cfg.nodes[i].name : i \in DOMAIN cfg.nodes} |-> <<>>]
    /\ state = [k \in {PKey(p) : p \in {x \in Range(cfg.pods) : x.node = ""}} |-> "pending"]

\* add pod k (effective form e) to a claim with requirements reqs / types its / pods ks of pool; result or "none"
Narrow(pool, reqs, its, ks, k, alt, refilter) ==
    LET e  == eff[k]
        nr == MeetMap(MeetMap(reqs, PodReqs(e)), alt)
        P  == OrigPods(ks) \cup {Orig(k)}
        keep == {itn \in Range(its) :
                   LET it == TypeByName(cfg, itn) IN
                   /\ ItCompat(it, nr)
                   /\ (refilter => FitsType(pool, it, nr, P))
                   /\ PortsFree(pool, it, Orig(k), OrigPods(ks))}
    IN [ok |-> TaintsTolerated(e.tol, pool.taints) /\ AllNonEmpty(nr) /\ keep # {},
        reqs |-> nr, its |-> SelectSeq(its, LAMBDA x : x \in keep)]

OpenNew(k, pool, alt) ==
    LET r == Narrow(pool, TemplateReqs(pool), PoolTypes(pool), <<>>, k, alt, TRUE) IN
    /\ r.ok
    /\ claims' = Append(claims, [idx |-> Len(claims), pool |-> pool.name, pods |-> <<k>>, reqs |-> r.reqs, its |-> r.its, taints |-> pool.taints, reserved |-> <<>>])
    /\ state' = [state EXCEPT ![k] = "placed"]
    /\ UNCHANGED <<cfg, eff, onNode>>

PlaceClaim(k, i, alt) ==
    LET c == claims[i]
        r == Narrow(PoolByName(c.pool), c.reqs, c.its, c.pods, k, alt, W_Refilter) IN
    /\ r.ok
    /\ claims' = [claims EXCEPT ![i] = [c EXCEPT !.pods = Append(c.pods, k), !.reqs = r.reqs, !.its = r.its]]
    /\ state' = [state EXCEPT ![k] = "placed"]
    /\ UNCHANGED <<cfg, eff, onNode>>

\* existing / in-flight node: labels are fixed, so the pod's effective requirements are evaluated on them directly
PlaceExisting(k, n) ==
    LET e == eff[k]
        L == NodeLabelling(n)
        bound == BoundPods(cfg, n)
        here == OrigPods(onNode[n.name])
        \* the taints the mechanism filters on (the weak variant forgets that the leniency ends with initialization)
        ts == IF W_InitTaints THEN EffTaints(n) ELSE EffTaints([n EXCEPT !.stage = IF @ = "unmanaged" THEN @ ELSE "registered"])
        outst == {d \in Range(cfg.ds) : DaemonRuns(cfg, d, L, ts) /\ ~\E b \in bound : b.owner = "ds:" \o d.name}
    IN
    /\ ~n.marked /\ ~n.deleting
    /\ TaintsTolerated(e.tol, ts)
    /\ \A i \in DOMAIN PodExprs(e) : Admits(cfg, PodExprs(e)[i], L)
    /\ VolsHold(cfg, Orig(k), L)
    /\ \A q \in bound \cup here : ~PortsClash(e.ports, q.ports)
    /\ LeqRes(AddRes(SumReq(bound \cup here \cup {Orig(k)}), IF W_Overhead THEN SumReq(outst) ELSE Res(0, 0, 0)), n.alloc)
    /\ onNode' = [onNode EXCEPT ![n.name] = Append(@, k)]
    /\ state' = [state EXCEPT ![k] = "placed"]
    /\ UNCHANGED <<cfg, eff, claims>>

\* relaxation: drop the first of several required terms, else the heaviest preference; the weak variant drops the last term
Relax(k) ==
    LET e == eff[k] IN
    /\ \/ (Len(e.terms) > 1 /\ eff' = [eff EXCEPT ![k] = [e EXCEPT !.terms = Tail(e.terms)]])
       \/ (Len(e.terms) <= 1 /\ e.pref # <<>>
           /\ eff' = [eff EXCEPT ![k] = [e EXCEPT !.pref = SelectSeq(e.pref, LAMBDA x : x # e.pref[Heaviest(e.pref)])]])
       \/ (~W_KeepTerm /\ Len(e.terms) = 1 /\ e.pref = <<>> /\ eff' = [eff EXCEPT ![k] = [e EXCEPT !.terms = <<>>]])
    /\ UNCHANGED <<cfg, claims, onNode, state>>

Fail(k) == state' = [state EXCEPT ![k] = "failed"] /\ UNCHANGED <<cfg, eff, claims, onNode>>

Next ==
    \E k \in Unplaced :
        \/ \E i \in DOMAIN cfg.nodes : PlaceExisting(k, cfg.nodes[i])
        \/ \E i \in DOMAIN claims : \E alt \in VolAltsOf(Orig(k)) : PlaceClaim(k, i, alt)
        \/ \E i \in DOMAIN cfg.pools : \E alt \in VolAltsOf(Orig(k)) : OpenNew(k, cfg.pools[i], alt)
        \/ Relax(k)
        \/ Fail(k)
Spec == Init /\ [][Next]_vars

\* scenario generation: only the initial states, printed as JSON
GenSpec == Init /\ [][FALSE]_vars
GenPrint == PrintT(<<"BEH", ToJson(cfg)>>)

----------------------------------------------------------------------------
(* invariants: the end-state oracle of SchedulingGuards on every reachable state *)
Inv_C01_NoOvercommit ==
    \A i \in DOMAIN cfg.nodes : onNode[cfg.nodes[i].name] = <<>> \/ G_C01_Existing(cfg, cfg.nodes[i], OrigPods(onNode[cfg.nodes[i].name]))
Inv_C01_EveryLaunchOptionHostsItsPods == \A i \in DOMAIN claims : G_C01_Claim(cfg, claims[i])
Inv_C01_RequiredTermNeverDropped == \A k \in DOMAIN state : state[k] = "placed" => G_C01_Relax(Orig(k), eff[k])
\* non-vacuity: some scenario places pods on an existing node, on an in-flight node and on a NodeClaim with two pods
=============================================================================
