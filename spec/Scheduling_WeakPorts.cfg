\* spec mutation (W_Avail = TRUE  W_Overhead = TRUE  W_Ports = FALSE  W_KeepTerm = TRUE  W_Override = TRUE  W_Refilter = TRUE  W_InitTaints = TRUE): TLC must violate Inv_C01_EveryLaunchOptionHostsItsPods
CONSTANTS NPods = 2  PodArchs = {9,10}  Catalogs = {1}  PoolSets = {1}  Existings = {0}  Daemons = {0,3}
CONSTANTS W_Avail = TRUE  W_Overhead = TRUE  W_Ports = FALSE  W_KeepTerm = TRUE  W_Override = TRUE  W_Refilter = TRUE  W_InitTaints = TRUE
SPECIFICATION Spec
INVARIANTS Inv_C01_NoOvercommit Inv_C01_EveryLaunchOptionHostsItsPods Inv_C01_RequiredTermNeverDropped
