CONSTANTS Rounding = "up"  WindowEnd = "open"  EmptyReasons = "all"
SPECIFICATION TraceSpec
