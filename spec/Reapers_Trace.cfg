SPECIFICATION TraceSpec
