\* spec mutation (W_Counters = FALSE): TLC must violate Inv_C17_Counters
CONSTANTS NCs = {"N1", "N2"}  NClaims = 2  Kinds = {"net"}  Pres = {0}  Slots = {1}
CONSTANTS W_OtherNC = TRUE  W_SameType = TRUE  W_Prealloc = TRUE  W_RefCount = TRUE  W_CapInflight = TRUE  W_CapDelta = TRUE  W_Counters = FALSE  W_Template = TRUE  W_Releasable = TRUE 
SPECIFICATION Spec
INVARIANTS Inv_C17_DeviceExclusive Inv_C17_SharedCapacity Inv_C17_Counters Inv_C17_TrackerCoversEveryResolution
