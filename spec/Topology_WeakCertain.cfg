\* spec mutation (W_Certain = FALSE: accepting an affinity match whose domain is still undetermined): TLC must violate Inv_C02_EndState
CONSTANTS NPods = 2  Archs = {1,5}  Layouts = {0}  MaxClaims = 2
CONSTANTS W_AllDomains = TRUE  W_Inverse = TRUE  W_Certain = FALSE  W_Bootstrap = TRUE  W_Slack = 0  W_Exclude = TRUE  W_MatchKeys = TRUE  W_MinDomains = TRUE  W_Policies = TRUE  W_Guard = TRUE
SPECIFICATION Spec
INVARIANTS Inv_C02_EndState
