--------------------------- MODULE LifecycleGuards ---------------------------
(***************************************************************************)
(* Guards of C14 / C16-liveness over the *logged* record shapes            *)
(* (harness/world/abs.go).  Shared by the closed model Lifecycle.tla and   *)
(* the trace specification Lifecycle_Trace.tla.                            *)
(***************************************************************************)
EXTENDS Naturals, Integers, Sequences, FiniteSets, TLC

UnregKey == "karpenter.sh/unregistered"
RegisteredLabel == "karpenter.sh/registered"
InitializedLabel == "karpenter.sh/initialized"
EphemeralKeys == {"node.kubernetes.io/not-ready", "node.kubernetes.io/unreachable",
                  "node.cloudprovider.kubernetes.io/uninitialized"}

\* ---------------------------------------------------------------- guards over logged record shapes
\* n is a Node record as logged ([exists |-> FALSE] when absent), c a NodeClaim record as logged
HasTaintKey(n, k) == \E i \in DOMAIN n.taints : n.taints[i].key = k
HasLabel(n, k, v) == k \in DOMAIN n.labels /\ n.labels[k] = v
NodeOf(c, n) == n.exists /\ c.providerID # "-" /\ n.providerID = c.providerID

\* Launched may become True only for an instance the provider really created for this claim
G_C14_Launched(post, createdPids) == post.providerID \in createdPids
\* Registered: after Launched; node present, synced (registered label) and unregistered taint removed
G_C14_Registered(post, n) ==
    /\ post.launched = "True"
    /\ NodeOf(post, n)
    /\ ~HasTaintKey(n, UnregKey)
    /\ HasLabel(n, RegisteredLabel, "true")
\* Initialized: after Registered; node Ready, startup + ephemeral taints gone, requested extended resources reported
G_C14_Initialized(post, n, startupKeys, extResNames) ==
    /\ post.registered = "True"
    /\ NodeOf(post, n)
    /\ n.ready = "True"
    /\ \A k \in startupKeys : ~HasTaintKey(n, k)
    /\ \A k \in EphemeralKeys : ~HasTaintKey(n, k)
    /\ \A r \in extResNames : r \in DOMAIN n.allocatable /\ n.allocatable[r] > 0
\* conditions never leave True
Monotone(pre, post) == \A f \in {"launched", "registered", "initialized"} : pre[f] = "True" => post[f] = "True"
\* liveness may delete only a claim that failed to launch / register within its timeout
G_C16_Liveness(c, t, launchTimeout, regTimeout) ==
    LET since(cn) == IF c.condSince[cn] >= 0 THEN c.condSince[cn] ELSE c.created IN
    /\ c.registered # "True"
    /\ \/ (c.launched # "True" /\ t - since("Launched") >= launchTimeout)
       \/ t - since("Registered") >= regTimeout

=============================================================================
