\* behaviour generation by TLC simulation: random deep behaviours of the closed model
CONSTANTS MaxNow = 4  LT = 1  RT = 3  MaxFaults = 3  MaxLen = 14  StartupTaint = TRUE  ExtRes = TRUE  CacheMode = "code"
SPECIFICATION Spec
INVARIANTS GenPrint
