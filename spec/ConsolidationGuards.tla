----------------------- MODULE ConsolidationGuards -----------------------
(***************************************************************************)
(* Guards of C06 (consolidation keeps pods schedulable and strictly lowers *)
(* cost).  Variable-free; EXTENDed by the closed model Consolidation.tla   *)
(* and by the trace specification Consolidation_Trace.tla.                 *)
(*                                                                         *)
(* The guards talk about two views of one consolidation command:           *)
(*                                                                         *)
(*  price view  cv = [method, s2s (feature flag), cands, nrepl, opts,      *)
(*                    minNeed]                                             *)
(*     cands : Seq([name, type, ct, price, costly])                        *)
(*             price  = price of the offering the node runs on (its type,  *)
(*                      zone, capacity type in the price table; 0 when the *)
(*                      table has no such offering)                        *)
(*             costly = some reschedulable pod of the node has a positive  *)
(*                      eviction cost                                      *)
(*     nrepl : number of replacement NodeClaims                            *)
(*     opts  : Seq([name, offs: Seq([zone, ct, price, ok])]) the instance  *)
(*             type options of the replacement in the request's order;     *)
(*             ok = the offering is available and admitted by the          *)
(*             replacement's requirements, i.e. a launch the request allows*)
(*     minNeed : number of leading options needed to meet every minValues  *)
(*             requirement (0 when there is none)                          *)
(*                                                                         *)
(*  home view   hv = [owed, homes, exist, nrepl, claim] over a cluster sg  *)
(*     in the record shapes of SchedulingGuards (C01's admissibility       *)
(*     oracle: Kubernetes filter semantics, independent of CanAdd)         *)
(*     owed  : keys of the reschedulable pods of the removed nodes         *)
(*     homes : names of the remaining initialized nodes                    *)
(*     exist : Seq([node, pods]) placements of cmd.Results on existing     *)
(*             nodes; claim: the replacement (claims record) when nrepl=1  *)
(***************************************************************************)
EXTENDS Integers, Sequences, FiniteSets, TLC

SG == INSTANCE SchedulingGuards

Rng(s) == {s[i] : i \in DOMAIN s}
MaxOf(S) == CHOOSE x \in S : \A y \in S : y <= x
MinOf(S) == CHOOSE x \in S : \A y \in S : x <= y
Max2(a, b) == IF a > b THEN a ELSE b
RECURSIVE SumTo(_, _)
SumTo(f, n) == IF n = 0 THEN 0 ELSE f[n] + SumTo(f, n - 1)

Spot == "spot"
OnDemand == "on-demand"
Reserved == "reserved"

\* ------------------------------------------------------------------ price algebra
\* the combined price of the nodes a command removes
CandSum(cv) == SumTo([i \in DOMAIN cv.cands |-> cv.cands[i].price], Len(cv.cands))

\* launches the request allows from instance type option it
OkOffs(it) == {i \in DOMAIN it.offs : it.offs[i].ok}
Launchable(it) == OkOffs(it) # {}
OkCts(it) == {it.offs[i].ct : i \in OkOffs(it)}
\* the capacity type that would launch: reserved before spot before on-demand (as the code documents)
LaunchCt(it) == IF Reserved \in OkCts(it) THEN Reserved ELSE IF Spot \in OkCts(it) THEN Spot ELSE OnDemand
\* worst-case launch price: the most expensive allowed offering of that capacity type
WorstPrice(it) == MaxOf({it.offs[i].price : i \in {j \in OkOffs(it) : it.offs[j].ct = LaunchCt(it)}})

AllSpot(cv) == \A i \in DOMAIN cv.cands : cv.cands[i].ct = Spot
SomeOnDemand(cv) == \E i \in DOMAIN cv.cands : cv.cands[i].ct = OnDemand
CanLaunchSpot(cv) == \E i \in DOMAIN cv.opts : Spot \in OkCts(cv.opts[i])
CheaperOpts(cv) == {i \in DOMAIN cv.opts : Launchable(cv.opts[i]) /\ WorstPrice(cv.opts[i]) < CandSum(cv)}

\* ------------------------------------------------------------------ the guards over the price view
G_C06_AtMostOneReplacement(cv) == cv.nrepl <= 1

\* every instance type the replacement may launch as: worst-case launch price strictly below the removed nodes' price
G_C06_StrictlyCheaper(cv) ==
    cv.nrepl >= 1 => \A i \in DOMAIN cv.opts : Launchable(cv.opts[i]) => WorstPrice(cv.opts[i]) < CandSum(cv)

\* spot nodes replaced by a spot-capable request: feature enabled; a single node additionally needs MinS2S strictly
\* cheaper options and the option list cut down to max(MinS2S, what minValues needs)
S2SApplies(cv) == cv.nrepl >= 1 /\ AllSpot(cv) /\ CanLaunchSpot(cv)
S2SFeature(cv) == cv.s2s
S2SEnough(cv, minS2S) == Len(cv.cands) = 1 => Cardinality(CheaperOpts(cv)) >= minS2S
S2STruncated(cv, minS2S) == Len(cv.cands) = 1 => Len(cv.opts) <= Max2(minS2S, cv.minNeed)
G_C06_SpotToSpot(cv, minS2S) ==
    S2SApplies(cv) => (S2SFeature(cv) /\ S2SEnough(cv, minS2S) /\ S2STruncated(cv, minS2S))
SigSpotToSpot(cv, minS2S) ==
    IF ~cv.s2s THEN "feature-disabled"
    ELSE IF Cardinality(CheaperOpts(cv)) < minS2S THEN "too-few-cheaper-options" ELSE "not-truncated"

\* an on-demand node's replacement request allows no on-demand launch that is as expensive or dearer
G_C06_NoOdFallback(cv) ==
    (cv.nrepl >= 1 /\ SomeOnDemand(cv)) =>
        \A i \in DOMAIN cv.opts : \A j \in OkOffs(cv.opts[i]) :
            cv.opts[i].offs[j].ct = OnDemand => cv.opts[i].offs[j].price < CandSum(cv)

\* several nodes replaced by one: no option of the type of a removed node unless strictly cheaper than the cheapest
\* removed node of that type (otherwise keeping that node and deleting the others is the better action)
SameAs(cv, it) == {i \in DOMAIN cv.cands : cv.cands[i].type = it.name}
G_C06_SameType(cv) ==
    (cv.nrepl >= 1 /\ Len(cv.cands) >= 2) =>
        \A i \in DOMAIN cv.opts :
            LET it == cv.opts[i] IN
            (Launchable(it) /\ SameAs(cv, it) # {}) => WorstPrice(it) < MinOf({cv.cands[c].price : c \in SameAs(cv, it)})

\* deleted as empty only if no reschedulable pod has a positive eviction cost (and nothing is launched)
G_C06_EmptyMeansNoCost(cv) ==
    cv.method = "emptiness" => cv.nrepl = 0 /\ \A i \in DOMAIN cv.cands : ~cv.cands[i].costly

\* eviction cost of a pod is positive: 1 + deletionCost / 2^27 + priority / 2^25 > 0 (clamping to [-10, 10] keeps the sign);
\* in integers deletionCost + 4 * priority > -2^27, split so that nothing leaves 32 bits
PositiveEvictionCost(hasDc, dc, hasPrio, prio) ==
    LET d == IF hasDc THEN dc ELSE 0
        p == IF hasPrio THEN prio ELSE 0
        a == d \div 4
        r == d % 4
    IN IF p < -1000000000 THEN FALSE
       ELSE IF r = 0 THEN a + p > -33554432 ELSE a + p >= -33554432

\* ------------------------------------------------------------------ minValues: options needed
\* mk = Seq([min, values: Seq(Seq(STRING))]) : per requirement with minValues the values each option contributes
DistinctUpTo(vals, n) == UNION {Rng(vals[i]) : i \in 1..n}
MinNeed(mk, nopts) ==
    IF mk = <<>> THEN 0
    ELSE LET good == {n \in 1..nopts : \A k \in DOMAIN mk : Cardinality(DistinctUpTo(mk[k].values, n)) >= mk[k].min}
         IN IF good = {} THEN nopts ELSE MinOf(good)

\* ------------------------------------------------------------------ pods have a home
NewHome == "<new>"
NodeOf(sg, name) == SG!NodeByName(sg, name)
PodsOf(sg, keys) == {SG!PodByKey(sg, k) : k \in {x \in keys : SG!KnownPod(sg, x)}}

\* instance types the replacement can actually be launched as for pod set P
LaunchTypes(sg, c, P) == {itn \in Rng(c.its) : SG!HasCompatOffering(sg, c, P, itn)}
\* the replacement is a feasible home for P: pool taints tolerated and, for EVERY launchable option, some allowed
\* offering on which the pods (and the daemons that certainly run there) fit and keep their required constraints
ClaimHome(sg, c, P) ==
    /\ \A p \in P : SG!TaintsTolerated(p.tol, c.taints)
    /\ \A itn \in LaunchTypes(sg, c, P) : SG!TypeOK4Claim(sg, c, P, itn)
\* witness class of a failing replacement (same classes as C01's SigClaim)
SigClaimHome(sg, c, P) ==
    IF ~\A p \in P : SG!TaintsTolerated(p.tol, c.taints) THEN "taint"
    ELSE LET bad == CHOOSE itn \in LaunchTypes(sg, c, P) : ~SG!TypeOK4Claim(sg, c, P, itn)
             it == SG!TypeByName(sg, bad)
             parts == {SG!LaunchParts(sg, c, P, it, it.offerings[i]) : i \in DOMAIN it.offerings}
         IN IF ~\E x \in parts : x.offering /\ x.fit THEN "resources"
            ELSE IF ~\E x \in parts : x.offering /\ x.fit /\ x.labels
                 THEN (IF \E p \in P : ~SG!Satisfiable(sg, p) THEN "labels:unsatisfiable-pod" ELSE "labels")
            ELSE "hostport"

\* an assignment asg : owed pod key -> home name | NewHome is feasible
Feasible(sg, hv, asg) ==
    /\ \A h \in hv.homes :
          LET placed == PodsOf(sg, {k \in hv.owed : asg[k] = h}) IN
          placed = {} \/ SG!G_C01_Existing(sg, NodeOf(sg, h), placed)
    /\ LET P == PodsOf(sg, {k \in hv.owed : asg[k] = NewHome}) IN
       P = {} \/ (hv.nrepl = 1 /\ ClaimHome(sg, hv.claim, P))

\* the witness: the placements the command itself carries (cmd.Results)
WitnessExisting(hv) == UNION {Rng(hv.exist[i].pods) : i \in DOMAIN hv.exist}
WitnessNew(hv) == IF hv.nrepl = 1 THEN Rng(hv.claim.pods) ELSE {}
Uncovered(hv) == hv.owed \ (WitnessExisting(hv) \cup WitnessNew(hv))
\* placements on a node that is not a remaining initialized node (a removed node, a deleting / marked node, an uninitialized one)
BadTargets(sg, hv) == {i \in DOMAIN hv.exist : hv.exist[i].pods # <<>> /\ hv.exist[i].node \notin hv.homes}
WitnessExistingOK(sg, hv, i) ==
    LET x == hv.exist[i]
        placed == PodsOf(sg, Rng(x.pods))
    IN placed = {} \/ (SG!KnownNode(sg, x.node) /\ SG!G_C01_Existing(sg, NodeOf(sg, x.node), placed))
WitnessClaimOK(sg, hv) ==
    hv.nrepl # 1 \/ LET P == PodsOf(sg, Rng(hv.claim.pods)) IN P = {} \/ ClaimHome(sg, hv.claim, P)
WitnessOK(sg, hv) ==
    /\ Uncovered(hv) = {} /\ BadTargets(sg, hv) = {}
    /\ \A i \in DOMAIN hv.exist : WitnessExistingOK(sg, hv, i)
    /\ WitnessClaimOK(sg, hv)

\* independent search when the witness is incomplete or stale (pods arrived / homes filled while the command waited)
HomeChoices(hv) == hv.homes \cup (IF hv.nrepl = 1 THEN {NewHome} ELSE {})
SearchSpace(hv) == [hv.owed -> HomeChoices(hv)]
SearchOK(sg, hv) == \E asg \in SearchSpace(hv) : Feasible(sg, hv, asg)
RECURSIVE Pow(_, _)
Pow(b, e) == IF e = 0 THEN 1 ELSE IF b = 0 THEN 0 ELSE LET r == Pow(b, e - 1) IN IF r > 100000 THEN r ELSE b * r
SearchSize(hv) == Pow(Cardinality(HomeChoices(hv)), Cardinality(hv.owed))
SearchLimit == 5000

G_C06_PodsHaveHome(sg, hv) ==
    hv.nrepl <= 1 => (hv.owed = {} \/ WitnessOK(sg, hv) \/ (SearchSize(hv) <= SearchLimit /\ SearchOK(sg, hv)))
\* the witness failed and the search space is too large to decide (scenario generators keep it small): not a verdict
Undecided(sg, hv) == hv.nrepl <= 1 /\ hv.owed # {} /\ ~WitnessOK(sg, hv) /\ SearchSize(hv) > SearchLimit

\* witness class: why the command's own placements do not work
SigHome(sg, hv) ==
    IF Uncovered(hv) # {} THEN "uncovered-pod"
    ELSE IF BadTargets(sg, hv) # {} THEN "target-not-a-remaining-initialized-node"
    ELSE LET badE == {i \in DOMAIN hv.exist : ~WitnessExistingOK(sg, hv, i)} IN
         IF badE # {} THEN LET i == CHOOSE j \in badE : TRUE
                               x == hv.exist[i] IN
                           IF ~SG!KnownNode(sg, x.node) THEN "existing:unknown-node"
                           ELSE "existing:" \o SG!SigExisting(sg, NodeOf(sg, x.node), PodsOf(sg, Rng(x.pods)))
         ELSE IF ~WitnessClaimOK(sg, hv) THEN "claim:" \o SigClaimHome(sg, hv.claim, PodsOf(sg, Rng(hv.claim.pods)))
         ELSE "-"
\* failures that belong to C01's listed findings are C01's business
C01KnownSigs == {"existing:labels:key-missing-on-node-but-negated-by-sibling", "existing:labels:unsatisfiable-pod",
                 "claim:labels:unsatisfiable-pod", "claim:resources:reserved-pinned",
                 "existing:resources:daemonset-admitted-by-later-or-term",
                 "existing:resources:daemonset-not-tolerating-prefer-no-schedule"}
=============================================================================
