\* behaviour generation, tour of every distinct quiescent state of the model AS THE PINNED TREE BEHAVES
\* (history hidden by VIEW; the first history reaching each distinct quiescent state is printed)
CONSTANTS NodeNames = {"n1", "n2"}  ClaimNames = {"c1"}  PodKeys = {"p1", "p2"}  Pids = {"i1", "i2"}  Pools = {"a"}
          PortNames = {"80", "81", "82"}
          Defects = {"nodeGone", "podUnbound", "volUnion", "dsKept"}  MaxMut = 4  MaxDup = 1  MaxLen = 1000  WithTerm = FALSE
          WithRestart = FALSE  PodShapes = {"std", "alt"}  Start = "empty"  MaxFail = 1  MaxPend = 2
SPECIFICATION Spec
VIEW view
INVARIANTS GenQuiescent
