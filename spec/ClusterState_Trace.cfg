CONSTANTS PortNames = {"80", "81", "82"}
SPECIFICATION TraceSpec
