CONSTANTS PortNames = {"80", "81"}
SPECIFICATION TraceSpec
