\* every spec mutation of Weights_Weak_*.cfg in one TLC run: WeakDetect prints <<"REJ", rule, guard>> for each weakened mechanism rule
\* under which a guard of WeightsGuards breaks; checks/C19.py requires every rule of AllWeak to be printed
CONSTANTS WeightVecs = {6}  FeatDiag = TRUE  NPods = 2  PodArchs = {1, 2, 6, 8, 9, 10}
CONSTANTS Feats = {"plain", "limit8", "limit16", "min2", "archMin2", "teamX", "notReady", "startup"}
CONSTANTS Catalogs = {2}  DaemonSets = {2, 3}  MaxTypesSet = {1, 2}  Policies = {"Strict"}  Weak = "*"
SPECIFICATION Spec
INVARIANTS WeakDetect
