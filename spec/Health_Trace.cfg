CONSTANTS Size = 4  DryRunWalk = "logical"  MaxLen = 1000000
SPECIFICATION TraceSpec
