\* behaviour generation (TLC simulation) from the pinned tree's model at API-call granularity
CONSTANTS N = 5  Pre = 2  Limit = 3  Replicas0 = 2  ScaleTo = {1, 2, 3}  Budget = 2  CodeMode = "code"  Grain = "gate"
          MaxCreateFail = 2  MaxTaintFail = 1  MaxDelete = 2  MaxDrift = 2  MaxScale = 2  MaxTimeout = 1  MaxResync = 2  MaxFlip = 99  Record = "all"  MaxLen = 45
SPECIFICATION Spec
INVARIANTS GenPrint
