----------------------------- MODULE DRAGuards -----------------------------
(***************************************************************************)
(* Variable-free definitions of property C17, DRA half, shared by the       *)
(* closed model DRA.tla and the trace specification DRA_Trace.tla.          *)
(*                                                                         *)
(* Shapes (spec/SCHED_TRACE.md "DRA"): `d` = the scenario's `dra` section    *)
(* (in-cluster slices, per-instance-type templates, claims incl. the ones   *)
(* already allocated in the cluster); `recs` = the set of records of        *)
(* Results.DRAClaimAllocationMetadata, one per claim allocated in this      *)
(* pass: [claim, nodeclaim, devs: <<[it, driver, pool, device, template,    *)
(* consumed]>>] - the devices the claim would hold for EACH instance type    *)
(* its NodeClaim may still become; `surv` = NodeClaim id -> the instance     *)
(* types it can still become.                                               *)
(*                                                                         *)
(* The oracle is plain counting per RESOLUTION: pick one surviving type for *)
(* every NodeClaim; then every claim holds exactly its devices for that     *)
(* type, and (a) an exclusive in-cluster device serves at most one claim    *)
(* and is not one the cluster has already allocated, (b) an exclusive        *)
(* template device serves at most one claim of its NodeClaim, (c) the       *)
(* consumed capacity of a shared device sums to at most its capacity, (d)   *)
(* the counters consumed by the allocated devices of a pool sum to at most  *)
(* the pool's counter.  Nothing here looks at the AllocationTracker.        *)
(***************************************************************************)
EXTENDS Integers, Sequences, FiniteSets, TLC

DRange(s) == {s[i] : i \in DOMAIN s}
RECURSIVE SumFn(_)
\* sum of the values of a function with a finite domain / of f over a finite set
SumFn(g) == IF DOMAIN g = {} THEN 0 ELSE LET x == CHOOSE y \in DOMAIN g : TRUE IN g[x] + SumFn([z \in DOMAIN g \ {x} |-> g[z]])
DSum(S, f(_)) == SumFn([x \in S |-> f(x)])

----------------------------------------------------------------------------
(* the scenario's devices *)
InSlices(d) == {s \in DRange(d.slices) : s.slots = 0}
InDevKeys(d) == UNION {{<<s.driver, s.pool, s.devices[i].name>> : i \in DOMAIN s.devices} : s \in InSlices(d)}
InDev(d, k) == LET s == CHOOSE x \in InSlices(d) : x.driver = k[1] /\ x.pool = k[2] /\ \E i \in DOMAIN x.devices : x.devices[i].name = k[3]
               IN CHOOSE x \in DRange(s.devices) : x.name = k[3]
InSlots(d, driver, pool) == DSum({s \in DRange(d.slices) : s.slots > 0 /\ s.driver = driver /\ s.pool = pool}, LAMBDA s : s.slots)
HasInSlots(d, driver, pool) == \E s \in DRange(d.slices) : s.slots > 0 /\ s.driver = driver /\ s.pool = pool
Tpls(d, t) == {x \in DRange(d.templates) : x.type = t /\ x.slots = 0}
TplDevKeys(d, t) == UNION {{<<s.driver, s.pool, s.devices[i].name>> : i \in DOMAIN s.devices} : s \in Tpls(d, t)}
TplDev(d, t, k) == LET s == CHOOSE x \in Tpls(d, t) : x.driver = k[1] /\ x.pool = k[2] /\ \E i \in DOMAIN x.devices : x.devices[i].name = k[3]
                   IN CHOOSE x \in DRange(s.devices) : x.name = k[3]
TplSlots(d, t, driver, pool) == DSum({s \in DRange(d.templates) : s.type = t /\ s.slots > 0 /\ s.driver = driver /\ s.pool = pool}, LAMBDA s : s.slots)
HasTplSlots(d, t, driver, pool) == \E s \in DRange(d.templates) : s.type = t /\ s.slots > 0 /\ s.driver = driver /\ s.pool = pool

(* A claim the cluster has allocated MIGRATES when its consumers (status.reservedFor) are all pods that are being rescheduled *)
(* in this pass (`leaving` = their names): the pass re-allocates it and its old devices are free again.  A claim without pod   *)
(* consumers, or with a non-pod consumer, stays where it is.  EffD forgets the allocations of the migrating claims.            *)
MigratingC(c, leaving) == c.alloc # <<>> /\ c.reserved # <<>> /\ c.others = 0 /\ \A i \in DOMAIN c.reserved : c.reserved[i] \in leaving
EffD(d, leaving) == [d EXCEPT !.claims = [i \in DOMAIN d.claims |-> IF MigratingC(d.claims[i], leaving) THEN [d.claims[i] EXCEPT !.alloc = <<>>] ELSE d.claims[i]]]
\* what the cluster has already allocated: entries [k, consumed] of the claims that carry an allocation
PreEntries(d) == UNION {{[claim |-> c.name, i |-> i, k |-> <<c.alloc[i].driver, c.alloc[i].pool, c.alloc[i].device>>, consumed |-> c.alloc[i].consumed] :
                            i \in DOMAIN c.alloc} : c \in DRange(d.claims)}
PreKeys(d) == {e.k : e \in PreEntries(d)}

----------------------------------------------------------------------------
(* resolutions *)
Resolutions(surv) == {r \in [DOMAIN surv -> UNION {surv[n] : n \in DOMAIN surv}] : \A n \in DOMAIN surv : r[n] \in surv[n]}
DKey(x) == <<x.driver, x.pool, x.device>>
\* the device entries in force under resolution r: [claim, nc, i, x]
Entries(recs, r) ==
    UNION {{[claim |-> rec.claim, nc |-> rec.nodeclaim, i |-> i, x |-> rec.devs[i]] :
              i \in {j \in DOMAIN rec.devs : rec.devs[j].it = r[rec.nodeclaim]}} : rec \in {y \in recs : y.nodeclaim \in DOMAIN r}}
InEntries(recs, r) == {e \in Entries(recs, r) : ~e.x.template}
TplEntries(recs, r) == {e \in Entries(recs, r) : e.x.template}
Cons(e) == IF e.consumed > 0 THEN e.consumed ELSE 0
XCons(e) == IF e.x.consumed > 0 THEN e.x.consumed ELSE 0

(* The *Bad operators take the entry sets of ONE resolution (IE = in-cluster entries, TE = template entries, r = the      *)
(* resolution), so that TLC computes them once per resolution.                                                          *)
\* (a) exclusive in-cluster devices
ExclusiveBad(d, IE) ==
    {k \in {DKey(e.x) : e \in IE} :
        /\ k \in InDevKeys(d) /\ ~InDev(d, k).multi
        /\ Cardinality({e \in IE : DKey(e.x) = k}) + (IF k \in PreKeys(d) THEN 1 ELSE 0) > 1}
\* a device the catalog of published slices / templates does not know at all
UnknownBad(d, IE, TE) == {e \in IE : DKey(e.x) \notin InDevKeys(d)} \cup {e \in TE : DKey(e.x) \notin TplDevKeys(d, e.x.it)}
\* (b) exclusive template devices, local to (NodeClaim, type)
TemplateBad(d, TE, r) ==
    {nk \in {<<e.nc, DKey(e.x)>> : e \in TE} :
        LET t == r[nk[1]] IN
        nk[2] \in TplDevKeys(d, t) /\ ~TplDev(d, t, nk[2]).multi /\ Cardinality({e \in TE : e.nc = nk[1] /\ DKey(e.x) = nk[2]}) > 1}
\* (c) shared devices: consumed capacity
SharedBad(d, IE) ==
    {k \in {DKey(e.x) : e \in IE} :
        /\ k \in InDevKeys(d) /\ InDev(d, k).multi /\ InDev(d, k).cap > 0
        /\ DSum({e \in IE : DKey(e.x) = k}, XCons) + DSum({e \in PreEntries(d) : e.k = k}, Cons) > InDev(d, k).cap}
SharedTplBad(d, TE, r) ==
    {nk \in {<<e.nc, DKey(e.x)>> : e \in TE} :
        LET t == r[nk[1]] IN
        /\ nk[2] \in TplDevKeys(d, t) /\ TplDev(d, t, nk[2]).multi /\ TplDev(d, t, nk[2]).cap > 0
        /\ DSum({e \in TE : e.nc = nk[1] /\ DKey(e.x) = nk[2]}, XCons) > TplDev(d, t, nk[2]).cap}
\* (d) counters: every allocated (or already allocated) device of a pool consumes its share once
CountersBad(d, IE) ==
    {p \in {<<e.x.driver, e.x.pool>> : e \in IE} :
        /\ HasInSlots(d, p[1], p[2])
        /\ LET used == {k \in InDevKeys(d) : k[1] = p[1] /\ k[2] = p[2] /\ (k \in PreKeys(d) \/ \E e \in IE : DKey(e.x) = k)}
           IN DSum(used, LAMBDA k : InDev(d, k).ctr) > InSlots(d, p[1], p[2])}
CountersTplBad(d, TE, r) ==
    {np \in {<<e.nc, e.x.driver, e.x.pool>> : e \in TE} :
        LET t == r[np[1]] IN
        /\ HasTplSlots(d, t, np[2], np[3])
        /\ LET used == {k \in TplDevKeys(d, t) : k[1] = np[2] /\ k[2] = np[3] /\ \E e \in TE : e.nc = np[1] /\ DKey(e.x) = k}
           IN DSum(used, LAMBDA k : TplDev(d, t, k).ctr) > TplSlots(d, t, np[2], np[3])}

ExclusiveOK(d, recs, r) == LET E == Entries(recs, r) IE == {e \in E : ~e.x.template} TE == {e \in E : e.x.template}
                           IN ExclusiveBad(d, IE) = {} /\ TemplateBad(d, TE, r) = {} /\ UnknownBad(d, IE, TE) = {}
SharedOK(d, recs, r) == LET E == Entries(recs, r) IE == {e \in E : ~e.x.template} TE == {e \in E : e.x.template}
                        IN SharedBad(d, IE) = {} /\ SharedTplBad(d, TE, r) = {}
CountersOK(d, recs, r) == LET E == Entries(recs, r) IE == {e \in E : ~e.x.template} TE == {e \in E : e.x.template}
                          IN CountersBad(d, IE) = {} /\ CountersTplBad(d, TE, r) = {}
G_C17_DeviceExclusive(d, recs, surv) == \A r \in Resolutions(surv) : ExclusiveOK(d, recs, r)
G_C17_SharedCapacity(d, recs, surv) == \A r \in Resolutions(surv) : SharedOK(d, recs, r)
G_C17_Counters(d, recs, surv) == \A r \in Resolutions(surv) : CountersOK(d, recs, r)

SigExclusive(d, recs, surv) ==
    LET r == CHOOSE x \in Resolutions(surv) : ~ExclusiveOK(d, recs, x)
        IE == InEntries(recs, r)
        TE == TplEntries(recs, r) IN
    IF UnknownBad(d, IE, TE) # {} THEN "unknown-device"
    ELSE IF TemplateBad(d, TE, r) # {} THEN "template-device-serves-two-claims"
    ELSE LET k == CHOOSE x \in ExclusiveBad(d, IE) : TRUE
             es == {e \in IE : DKey(e.x) = k}
         IN IF k \in PreKeys(d) THEN "device-already-allocated-in-cluster"
            ELSE IF Cardinality({e.nc : e \in es}) > 1 THEN "device-serves-claims-of-two-nodeclaims"
            ELSE IF Cardinality({e.claim : e \in es}) > 1 THEN "device-serves-two-claims-of-one-nodeclaim"
            ELSE "device-twice-in-one-claim"
SigShared(d, recs, surv) ==
    LET r == CHOOSE x \in Resolutions(surv) : ~SharedOK(d, recs, x)
        IE == InEntries(recs, r) IN
    IF SharedBad(d, IE) # {} THEN
        (LET k == CHOOSE x \in SharedBad(d, IE) : TRUE IN
         IF Cardinality({e.nc : e \in {y \in IE : DKey(y.x) = k}}) > 1 THEN "capacity-across-nodeclaims" ELSE "capacity-within-nodeclaim")
    ELSE "template-capacity"
SigCounters(d, recs, surv) ==
    LET r == CHOOSE x \in Resolutions(surv) : ~CountersOK(d, recs, x) IN
    IF CountersBad(d, InEntries(recs, r)) # {} THEN "pool-counter" ELSE "template-pool-counter"

\* a claim's devices are committed only for instance types its NodeClaim could still become when the claim was allocated
G_C17_NoDeviceForPrunedType(rec, itsAtCommit) == {rec.devs[i].it : i \in DOMAIN rec.devs} \subseteq itsAtCommit
=============================================================================
