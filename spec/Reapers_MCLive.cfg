\* exhaustive: an unregistered claim (liveness, expiration, later registration -> gc/repair)
CONSTANTS Claims = {"c3"}  MaxNow = 1000  MaxFaults = 1  MaxEnv = 3  MaxLen = 30  NoopEvery = 1
          EA = 600  LT = 300  RT = 900  TolReady = 120  TolDisk = 60  PoolBg = {0}  OtherBg = {0}  MaxBad = 0  ReadyVals = {"True", "False", "Unknown"}
          ExpireSlack = 0  ExpireNever = "check"  GcOnProvListError = "abort"  GcOnLookupError = "skip"  GcReady = "check"
          LiveSlack = 0  RepairSlack = 0  RepairExtra = 0  RepairScope = "pool"  RepairOnListError = "abort"
SPECIFICATION Spec
VIEW view
INVARIANTS TypeOK Inv_C16_Expiration Inv_C16_GarbageCollection Inv_C16_Liveness Inv_C16_Repair
PROPERTIES Act_C16_NoTriggerNoReap
