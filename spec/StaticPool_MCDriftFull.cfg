\* thorough: the drift scope at API-call granularity with four names, a delete, a resync and a queue timeout
CONSTANTS N = 4  Pre = 1  Limit = 2  Replicas0 = 1  ScaleTo = {1}  Budget = 1  CodeMode = "fixed"  Grain = "gate"
          MaxCreateFail = 1  MaxTaintFail = 1  MaxDelete = 1  MaxDrift = 1  MaxScale = 0  MaxTimeout = 1  MaxResync = 1  MaxFlip = 99  Record = "last"  MaxLen = 0
SPECIFICATION Spec
VIEW view
INVARIANTS TypeOK Inv_C03_StaticCap Inv_C03_NoCrash Inv_C03_ReservedCovers Inv_C03_CountsMatchSets Inv_C03_PendingTracked Inv_C03_ReservedExact Inv_C03_NoGhost
