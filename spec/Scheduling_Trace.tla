-------------------------- MODULE Scheduling_Trace --------------------------
(***************************************************************************)
(* Trace validation for the scheduling driver (harness/drivers/sched),      *)
(* property C01.  One trace = Cfg (the scenario) .. End.  The Results       *)
(* event carries the projected scheduling.Results of the real               *)
(* Provisioner.Schedule; every placement in it is judged by the C01 guards  *)
(* of SchedulingGuards.tla against the scenario of the Cfg line.  Guard     *)
(* failures accumulate in `viol`; other event kinds (Hydrate, Sched (H1),   *)
(* Api, Created, ...) are consumed without judgement here - the follower    *)
(* properties (C02, C04, C13, C17, C19) add their own trace specs over the  *)
(* same format.                                                             *)
(***************************************************************************)
EXTENDS SchedulingGuards, Json, IOUtils

VARIABLES l, cfg, viol, ntr, nplaced, done
tvars == <<l, cfg, viol, ntr, nplaced, done>>

Trace == ndJsonDeserialize(IOEnv.TRACE)
Ev == Trace[l]
V(guard, sig) == [line |-> l, guard |-> guard, sig |-> sig]
Chk(ok, guard, sig) == IF ok THEN <<>> ELSE <<V(guard, sig)>>

RECURSIVE Flat(_)
Flat(ss) == IF ss = <<>> THEN <<>> ELSE Head(ss) \o Flat(Tail(ss))

TraceInit == l = 1 /\ cfg = <<>> /\ viol = <<>> /\ ntr = 0 /\ nplaced = 0 /\ done = FALSE

TCfg == /\ Ev.e = "Cfg" /\ cfg' = Ev /\ ntr' = ntr + 1 /\ UNCHANGED <<viol, nplaced>>

\* ---- Results: judge every placement
ExistingChecks(r) ==
    Flat([i \in DOMAIN r.existing |->
        LET x == r.existing[i] IN
        IF x.pods = <<>> THEN <<>>
        ELSE IF ~KnownNode(cfg, x.node) THEN <<V("G_C01_Existing", "unknown-node")>>
        ELSE LET n == NodeByName(cfg, x.node)
                 placed == {PodByKey(cfg, k) : k \in Range(x.pods)}
             IN Chk(G_C01_Existing(cfg, n, placed), "G_C01_Existing", SigExisting(cfg, n, placed))])
ClaimChecks(r) ==
    Flat([i \in DOMAIN r.claims |->
        LET c == r.claims[i] IN Chk(G_C01_Claim(cfg, c), "G_C01_Claim", SigClaim(cfg, c))])
RelaxChecks(r) ==
    Flat([i \in DOMAIN r.eff |->
        LET e == r.eff[i] IN
        IF ~KnownPod(cfg, PKey(e)) THEN <<V("G_C01_Relax", "unknown-pod")>>
        ELSE LET p == PodByKey(cfg, PKey(e)) IN Chk(G_C01_Relax(p, e), "G_C01_Relax", SigRelax(p, e))])

TResults ==
    /\ Ev.e = "Results"
    /\ viol' = viol \o ExistingChecks(Ev) \o ClaimChecks(Ev) \o RelaxChecks(Ev)
    /\ nplaced' = nplaced + Len(Ev.eff)
    /\ UNCHANGED <<cfg, ntr>>

\* ---- Sched (hook H1): relaxation is judged at every step that carries the effective pod, placed or not
TSched ==
    /\ Ev.e = "Sched"
    /\ viol' = viol \o (IF Ev.eff = <<>> \/ Ev.kind \notin {"relax", "commit", "open"} THEN <<>>
                        ELSE LET e == Ev.eff[1] IN
                             IF ~KnownPod(cfg, PKey(e)) THEN <<V("G_C01_Relax", "unknown-pod")>>
                             ELSE LET p == PodByKey(cfg, PKey(e)) IN Chk(G_C01_Relax(p, e), "G_C01_Relax", SigRelax(p, e)))
    /\ UNCHANGED <<cfg, ntr, nplaced>>

\* ---- Hydrate: the cluster cache must show every scenario node the way the scenario (the oracle's ground truth) describes
\* it; a difference is a harness problem (Drift_* entries make the check exit 2), never a verdict
HydrateOK(n) ==
    \E i \in DOMAIN Ev.nodes :
        LET h == Ev.nodes[i] IN
        /\ h.node = n.name /\ h.alloc = n.alloc /\ h.marked = (n.marked \/ n.deleting)
        /\ h.managed = (n.stage # "unmanaged") /\ h.initialized = (n.stage \in {"initialized", "unmanaged"})
        /\ \A k \in DOMAIN n.labels : k \in DOMAIN h.labels /\ h.labels[k] = n.labels[k]
        \* (h.taints = StateNode.Taints() is Karpenter's INTERPRETATION of the node's taints - code under test, not compared here)
THydrate ==
    /\ Ev.e = "Hydrate"
    /\ viol' = viol \o Chk(Ev.synced, "Drift_SCHED_Hydrate", "not-synced")
                     \o Flat([i \in DOMAIN cfg.nodes |-> Chk(HydrateOK(cfg.nodes[i]), "Drift_SCHED_Hydrate", cfg.nodes[i].stage)])
    /\ UNCHANGED <<cfg, ntr, nplaced>>

\* events this trace spec consumes without judging (other properties' trace specs use them)
Passive == {"Api", "Read", "Prov", "Tick", "Created", "CreateErr", "Panic", "End", "Env"}
TPassive == Ev.e \in Passive /\ UNCHANGED <<cfg, viol, ntr, nplaced>>

TraceNext ==
    \/ /\ l <= Len(Trace) /\ l' = l + 1 /\ UNCHANGED done
       /\ (TCfg \/ TResults \/ TSched \/ THydrate \/ TPassive)
    \/ /\ l = Len(Trace) + 1 /\ ~done /\ done' = TRUE
       /\ JsonSerialize(IOEnv.OUT, [viol |-> viol, consumed |-> l - 1, traces |-> ntr, placed |-> nplaced])
       /\ UNCHANGED <<l, cfg, viol, ntr, nplaced>>

TraceSpec == TraceInit /\ [][TraceNext]_tvars
=============================================================================
