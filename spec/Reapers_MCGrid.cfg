\* exhaustive: pool claim x pool sizes 1..11 (10 further nodes) x 0..3 of them unhealthy, 0..2 of those terminating, one flip
CONSTANTS Claims = {"c1"}  MaxNow = 1000  MaxFaults = 1  MaxEnv = 1  MaxLen = 30  NoopEvery = 1  OffBefore = {1}  OffAfter = {0}
          EA = 600  LT = 300  RT = 900  TolReady = 120  TolUnk = 90  TolDisk = 60  UnknownFirst = TRUE
          PoolBg = {0, 1, 2, 3, 4, 5, 6, 7, 8, 9, 10}  OtherBg = {0}  MaxBad = 3  MaxDel = 2  ReadyVals = {"True", "False"}
          RoundedClock = {}  ExpireSlack = 0  ExpireNever = "check"  GcOnProvListError = "abort"  GcOnLookupError = "skip"  GcReady = "check"  NotFoundAsEmpty = {}  GcReadOrder = "claimsFirst"  LiveGate = "registered"
          LiveSlack = 0  RepairSlack = 0  RepairTolBy = "policy"  RepairAnnotated = "check"  RepairExtra = 0  RepairScope = "pool"  RepairOnListError = "abort"  RepairTerminating = "count"
SPECIFICATION Spec
VIEW view
INVARIANTS TypeOK Inv_C16_Expiration Inv_C16_GarbageCollection Inv_C16_Liveness Inv_C16_Repair
PROPERTIES Act_C16_NoTriggerNoReap
