------------------------------- MODULE Budgets -------------------------------
(***************************************************************************)
(* NodePool disruption budgets (property C05), part (i): the arithmetic.   *)
(*                                                                         *)
(* The pure operators (Active, Value, Applies, Allowed) and the guards     *)
(* live in BudgetGuards.tla (no variables; shared with the trace           *)
(* specification and the round model).  This module is a closed model      *)
(* whose only variable `cs` ranges over the CASE SPACE of part (i): TLC    *)
(* enumerates it exhaustively, checks sanity invariants of the definitions *)
(* on every case and prints every case for replay on the real              *)
(* v1.NodePool.GetAllowedDisruptionsByReason / MustGetAllowedDisruptions / *)
(* v1.Budget.IsActive / GetAllowedDisruptions.                             *)
(***************************************************************************)
EXTENDS BudgetGuards, TLC, Json

\* ================================================================ 2. closed model: the case space
CONSTANTS Horizon,       \* last instant of the horizon (instants are 0..Horizon)
          Schedules,     \* function: cron text -> hit set within 0..Horizon
          Durations,     \* set of window lengths
          Percents, Counts, Sizes,   \* budget values and pool sizes
          Reasons,       \* the disruption reasons
          ListAlphabet,  \* sequence of budgets from which the two- and three-element lists are formed
          ListInstants,  \* instants at which the lists are evaluated
          BadCrons, BadNodes, NoHitCrons,  \* malformed schedule / nodes texts, schedules that never fire
          PctSizes       \* pool sizes of the percentage grid (family P)

VARIABLES cs             \* the case being examined: [fam, budgets, now, n, reason]
vars == <<cs>>

RECURSIVE SortedSeq(_)
SortedSeq(S) == IF S = {} THEN <<>>
                ELSE LET m == MinOf(S) IN <<m>> \o SortedSeq(S \ {m})
MaxDur == MaxOf(Durations)

\* ---- budget alphabets
B(cron, dur, kind, val, reasons, rstate, mal, txt) ==
    [cron |-> cron, hits |-> IF cron \in DOMAIN Schedules THEN SortedSeq(Schedules[cron]) ELSE <<>>,
     dur |-> dur, kind |-> kind, val |-> val, reasons |-> reasons, rstate |-> rstate, mal |-> mal, txt |-> txt]
Always(kind, val, reasons, rstate) == B("-", -1, kind, val, reasons, rstate, "-", "-")
Win(cron, dur, kind, val, reasons, rstate) == B(cron, dur, kind, val, reasons, rstate, "-", "-")

RState(rs) == IF Len(rs) = 0 THEN {"nil", "empty"} ELSE {"set"}
ReasonLists == {<<>>} \cup {<<r>> : r \in Reasons}
               \cup {<<"Underutilized", "Drifted">>, <<"Empty", "Underutilized", "Drifted">>}

ValueSpecs == {<<"pct", p>> : p \in Percents} \cup {<<"count", c>> : c \in Counts}

Case(fam, bs, now, n, reason) == [fam |-> fam, budgets |-> bs, now |-> now, n |-> n, reason |-> reason]
NoCase == Case("-", <<>>, 0, 0, "Drifted")

\* W: one scheduled budget, instants around every hit whose look-back stays inside the horizon
Edge(h, d) == {h - 1, h, h + d - 1, h + d, h + d + 1}
CasesW ==
    UNION {UNION {UNION {{Case("W", <<Win(c, d, "count", 0, <<>>, "nil")>>, t, 10, "Drifted") : t \in Edge(h, d)}
                          : h \in {x \in Schedules[c] : x > MaxDur /\ x + d + 1 <= Horizon}}
                  : d \in Durations}
           : c \in DOMAIN Schedules}

\* V: one always-active budget, every value x every pool size
CasesV == {Case("V", <<Always(v[1], v[2], <<>>, "nil")>>, 0, n, "Drifted") : v \in ValueSpecs, n \in Sizes}
          \cup {Case("V", <<>>, 0, n, "Drifted") : n \in Sizes}      \* an explicitly empty budget list restricts nothing

\* P: the percentage grid - EVERY integer percentage 0..100 x pool sizes (all small ones, the sizes that make
\* pct*n/100 integral or nearly so, large ones): rounding-boundary cases (pct*n = 0, 1, 99 mod 100) are where an
\* arithmetic regression hides.  A separate, cheap family with its own specification (PctSpec) so that the main
\* enumeration does not grow.
CasesP == {Case("P", <<Always("pct", p, <<>>, "nil")>>, 0, n, "Drifted") : p \in 0..100, n \in PctSizes}

\* R: reason applicability (absent / empty / each reason / several), restrictive and permissive values
CasesR == UNION {{Case("R", <<Always(v[1], v[2], rs, st)>>, 0, n, r) : st \in RState(rs)}
                 : rs \in ReasonLists, r \in Reasons,
                   v \in {<<"count", 0>>, <<"count", 1>>, <<"pct", 50>>}, n \in {0, 10}}

\* L: lists of two and three budgets (most restrictive wins; windows overlapping or not at the instant)
Lists2 == {<<ListAlphabet[i], ListAlphabet[j]>> : i, j \in DOMAIN ListAlphabet}
Lists3 == {<<ListAlphabet[i], ListAlphabet[j], ListAlphabet[k]>> :
             <<i, j, k>> \in {x \in (DOMAIN ListAlphabet) \X (DOMAIN ListAlphabet) \X (DOMAIN ListAlphabet) :
                                x[1] < x[2] /\ x[2] < x[3]}}
CasesL == {Case("L", bs, t, n, r) : bs \in Lists2 \cup Lists3, t \in ListInstants, n \in {0, 7, 12}, r \in Reasons}

\* M: malformed entries (alone, before and after a well-formed budget; listing the reason or another one).
\* The texts are what can reach the function when CRD validation is not in the loop; the check's evidence
\* says which of them the CRD schema would reject.
RS(rs) == IF Len(rs) = 0 THEN "nil" ELSE "set"
MalBudgets ==
    {B(c, MinOf(Durations), "count", 5, rs, RS(rs), "cron", c) : c \in BadCrons, rs \in {<<>>, <<"Empty">>}}
    \cup {B("-", -1, "count", 0, rs, RS(rs), "nodes", t) : t \in BadNodes, rs \in {<<>>, <<"Empty">>}}
    \cup {B("-", MinOf(Durations), "count", 5, rs, RS(rs), "duration-only", "-") : rs \in {<<>>, <<"Empty">>}}
CasesM == UNION {{Case("M", <<m>>, 0, 10, r), Case("M", <<m, Always("count", 3, <<>>, "nil")>>, 0, 10, r),
                  Case("M", <<Always("count", 3, <<>>, "nil"), m>>, 0, 10, r)} : m \in MalBudgets, r \in Reasons}

\* N: inputs on which the statement is silent (BudgetGuards!Readings): a schedule that never fires, a
\* schedule without a duration; alone and next to a well-formed budget
LenBudgets ==
    {B(c, MinOf(Durations), "count", 1, <<>>, "nil", "nohit", c) : c \in NoHitCrons}
    \cup {B(c, -1, "count", 1, <<>>, "nil", "sched-only", "-") : c \in DOMAIN Schedules}
CasesN == UNION {{Case("N", <<m>>, t, 10, "Drifted"), Case("N", <<m, Always("count", 3, <<>>, "nil")>>, t, 10, "Drifted")}
                 : m \in LenBudgets, t \in ListInstants}

\* ---- the model: one action per family, each picks a case
CaseInit == cs = NoCase
PickWindow    == cs = NoCase /\ cs' \in CasesW
PickValue     == cs = NoCase /\ cs' \in CasesV
PickReasons   == cs = NoCase /\ cs' \in CasesR
PickList      == cs = NoCase /\ cs' \in CasesL
PickMalformed == cs = NoCase /\ cs' \in CasesM
PickLenient   == cs = NoCase /\ cs' \in CasesN
CaseNext == PickWindow \/ PickValue \/ PickReasons \/ PickList \/ PickMalformed \/ PickLenient
CaseSpec == CaseInit /\ [][CaseNext]_vars
PickPercent == cs = NoCase /\ cs' \in CasesP
PctSpec == CaseInit /\ [][PickPercent]_vars

\* ---- sanity invariants of the definitions, checked on every case
A(bs) == Allowed(bs, cs.now, cs.n, cs.reason)
MinTxt(S) == CHOOSE t \in S : TRUE
\* budgets added / removed by the monotonicity invariant: the list alphabet and one malformed entry of each kind
Extras == {ListAlphabet[i] : i \in DOMAIN ListAlphabet}
          \cup {m \in MalBudgets : m.mal = "duration-only" \/ m.txt = MinTxt({x.txt : x \in {y \in MalBudgets : y.mal = m.mal}})}
WellFormedCase == \A i \in DOMAIN cs.budgets : ~Malformed(cs.budgets[i])

\* Allowed never exceeds any active applicable budget's value
Inv_C05_UpperBound ==
    \A i \in DOMAIN cs.budgets :
        Active(cs.budgets[i], cs.now) /\ Applies(cs.budgets[i], cs.reason) /\ WellFormedCase
            => A(cs.budgets) <= Value(cs.budgets[i], cs.n)
\* ... and is attained by one of them (or nothing restricts, or a malformed entry closes the pool)
Inv_C05_Attained ==
    \/ A(cs.budgets) = Unbounded /\ WellFormedCase
    \/ A(cs.budgets) = 0 /\ ~WellFormedCase
    \/ WellFormedCase /\ \E i \in DOMAIN cs.budgets :
          Active(cs.budgets[i], cs.now) /\ Applies(cs.budgets[i], cs.reason) /\ A(cs.budgets) = Value(cs.budgets[i], cs.n)
\* adding a budget (front or back) never increases the allowance; dropping one never decreases it
Inv_C05_Monotone ==
    /\ \A x \in Extras : A(Append(cs.budgets, x)) <= A(cs.budgets) /\ A(<<x>> \o cs.budgets) <= A(cs.budgets)
    /\ \A k \in 0..Len(cs.budgets) : A(cs.budgets) <= A(SubSeq(cs.budgets, 1, k))
\* the order of the list is irrelevant
Inv_C05_OrderFree ==
    A([i \in DOMAIN cs.budgets |-> cs.budgets[Len(cs.budgets) + 1 - i]]) = A(cs.budgets)
\* rounding up: the least k with 100 k >= pct * n; never more than the pool
Inv_C05_Ceil ==
    \A i \in DOMAIN cs.budgets : cs.budgets[i].kind = "pct" =>
        LET v == Value(cs.budgets[i], cs.n) p == cs.budgets[i].val IN
        /\ 100 * v >= p * cs.n /\ 100 * (v - 1) < p * cs.n
        /\ v <= cs.n /\ (p > 0 /\ cs.n > 0 => v >= 1)
\* half-open windows, stated over integer intervals instead of inequalities
Inv_C05_HalfOpen ==
    \A i \in DOMAIN cs.budgets : LET b == cs.budgets[i] IN
        HasSchedule(b) /\ ~Malformed(b) =>
            (Active(b, cs.now) <=> cs.now \in UNION {h..(h + b.dur - 1) : h \in Hits(b)})
\* an empty reason list means the same as an absent one
Norm(b) == [b EXCEPT !.rstate = IF Len(b.reasons) = 0 THEN "nil" ELSE "set"]
Inv_C05_EmptyListsNone ==
    A([i \in DOMAIN cs.budgets |-> Norm(cs.budgets[i])]) = A(cs.budgets)
\* a malformed entry closes the pool for every reason
Inv_C05_MalformedZero == ~WellFormedCase => \A r \in Reasons : Allowed(cs.budgets, cs.now, cs.n, r) = 0

TypeOK == /\ cs.now \in 0..Horizon /\ cs.n \in Nat /\ cs.reason \in Reasons
          /\ \A i \in DOMAIN cs.budgets : cs.budgets[i].kind \in {"count", "pct"}

\* generator: print every case
GenPrint == cs = NoCase \/ PrintT(<<"BEH", ToJson(cs)>>)

\* ---- constants of the checked configuration (substituted in the .cfg files)
Mn == 60
Hr == 3600
MC_Horizon == 6 * Hr
MC_Schedules ==
    ("0 * * * *"    :> {k * Hr : k \in 0..6}) @@
    ("0,20 * * * *" :> ({k * Hr : k \in 0..6} \cup {k * Hr + 20 * Mn : k \in 0..5})) @@
    ("*/15 * * * *" :> {k * 15 * Mn : k \in 0..24}) @@
    ("30 2 * * *"   :> {2 * Hr + 30 * Mn}) @@
    ("@hourly"      :> {k * Hr : k \in 0..6})
MC_Durations == {90, 10 * Mn, 20 * Mn, 30 * Mn, 60 * Mn, 90 * Mn}
MC_Percents == {0, 1, 5, 10, 33, 50, 99, 100}
MC_Counts == {0, 1, 2, 5, 12, 13, 100}
MC_Sizes == 0..12
MC_Reasons == {"Underutilized", "Empty", "Drifted"}
\* hourly/10m is active during [h, h+10m); "0,20"/30m has overlapping windows [h, h+30m) and [h+20m, h+50m)
MC_ListAlphabet ==
    <<Always("count", 2, <<>>, "nil"),
      Always("pct", 50, <<>>, "nil"),
      Always("count", 0, <<>>, "empty"),
      Always("count", 3, <<"Underutilized">>, "set"),
      Always("pct", 10, <<"Empty", "Drifted">>, "set"),
      Win("0 * * * *", 10 * Mn, "count", 0, <<>>, "nil"),
      Win("0,20 * * * *", 30 * Mn, "count", 1, <<"Drifted">>, "set"),
      Win("0,20 * * * *", 30 * Mn, "pct", 33, <<>>, "empty")>>
MC_BadCrons == {"61 * * * *", "* * * *", "0 0 * * 8", "CRON_TZ=Asia/Tokyo 0 * * * *", "hourly"}
MC_BadNodes == {"abc", "", "1.5", "5 %", "%", "10 "}
MC_NoHitCrons == {"0 0 31 2 *", "0 0 30 2 *"}
MC_PctSizes == (0..30) \cup {33, 40, 50, 64, 99, 100, 101, 125, 150, 199, 200, 250, 300, 333, 999, 1000, 1001, 4096,
                            10000, 65535, 1000000, 9999999, 10000000, 21474835}   \* 100 * n + 99 must fit TLC's 32-bit integers
MC_ListInstants == LET h == 3 * Hr IN {h - 1, h, h + 10 * Mn - 1, h + 10 * Mn, h + 50 * Mn - 1, h + 50 * Mn}
=============================================================================
